(* TrackP.v — the operations map (operation.py) as an automaton: what the trackers leave for one
   entity after any sequence of mapper events (C11: coalescing of operation types). *)
From Continuum Require Import Model.Base Model.VTable Model.Core Proofs.BaseP.

Definition op_at (ops : list oper) (c : nat) (k : pk) : option oper := find (same_op c k) ops.

Lemma same_op_spec c k o : same_op c k o = true <-> op_cls o = c /\ op_key o = k.
Proof. unfold same_op. rewrite andb_true_iff, Nat.eqb_eq, pk_eqb_eq. tauto. Qed.

Lemma same_op_refl o : same_op (op_cls o) (op_key o) o = true.
Proof. apply same_op_spec. auto. Qed.

Lemma put_op_at o ops c k :
  op_at (put_op o ops) c k = if same_op c k o then Some o else op_at ops c k.
Proof.
  unfold op_at. induction ops as [|x ops IH]; simpl.
  - destruct (same_op c k o); reflexivity.
  - destruct (same_op (op_cls o) (op_key o) x) eqn:E; simpl.
    + apply same_op_spec in E as [E1 E2].
      destruct (same_op c k o) eqn:Eo.
      * reflexivity.
      * assert (same_op c k x = false).
        { destruct (same_op c k x) eqn:Ex; [|reflexivity].
          apply same_op_spec in Ex as [X1 X2].
          assert (same_op c k o = true) by (apply same_op_spec; split; congruence). congruence. }
        rewrite H. reflexivity.
    + destruct (same_op c k x) eqn:Ex.
      * destruct (same_op c k o) eqn:Eo; [|reflexivity].
        apply same_op_spec in Ex as [X1 X2]. apply same_op_spec in Eo as [O1 O2].
        assert (same_op (op_cls o) (op_key o) x = true) by (apply same_op_spec; split; congruence).
        congruence.
      * exact IH.
Qed.

(* keys of the operations map stay pairwise different *)
Definition op_id (o : oper) : nat * pk := (op_cls o, op_key o).

Lemma put_op_ids o ops :
  map op_id (put_op o ops) = if existsb (same_op (op_cls o) (op_key o)) ops
                             then map op_id ops else map op_id ops ++ [op_id o].
Proof.
  induction ops as [|x ops IH]; simpl; [reflexivity|].
  destruct (same_op (op_cls o) (op_key o) x) eqn:E; simpl.
  - f_equal. apply same_op_spec in E as [E1 E2]. unfold op_id. congruence.
  - rewrite IH. destruct (existsb _ ops); reflexivity.
Qed.

Lemma put_op_nodup o ops : NoDup (map op_id ops) -> NoDup (map op_id (put_op o ops)).
Proof.
  intro ND. rewrite put_op_ids. destruct (existsb _ ops) eqn:E; [exact ND|].
  assert (Hn : ~ In (op_id o) (map op_id ops)).
  { intro Hin. apply in_map_iff in Hin as [x [Ex Hx]].
    assert (existsb (same_op (op_cls o) (op_key o)) ops = true).
    { apply existsb_exists. exists x. split; [exact Hx|]. apply same_op_spec.
      unfold op_id in Ex. inversion Ex. auto. }
    congruence. }
  clear E. induction (map op_id ops) as [|a l IH]; simpl.
  - constructor; [intros []|constructor].
  - inversion ND as [|? ? Ha ND']; subst. constructor.
    + intro H. apply in_app_or in H as [H|[<-|[]]]; [contradiction|]. apply Hn. left; reflexivity.
    + apply IH; [exact ND'|]. intro H. apply Hn. right; exact H.
Qed.

(* what one mapper event does to the entry of its own entity and to every other entry *)
Definition ev_key (g : cfg) (e : ent_ev) : pk := key_of (cls_of g (e_cls e)) (e_vals e).

Definition new_kind (had : bool) (e : ent_ev) : Z :=
  if e_kind e =? OP_INS then (if had then OP_UPD else OP_INS)
  else if e_kind e =? OP_UPD then OP_UPD else OP_DEL.

Lemma track_at g ops e c k :
  op_at (track g ops e) c k =
  if tracked g e && (e_cls e =? c)%nat && pk_eqb (ev_key g e) k
  then Some (mk_oper (cls_of g (e_cls e)) e
               (new_kind (match op_at ops c k with Some _ => true | None => false end) e))
  else op_at ops c k.
Proof.
  unfold track, tracked, ev_key. set (cc := cls_of g (e_cls e)).
  destruct (k_versioned cc); simpl; [|reflexivity].
  assert (Hsame : forall kind, same_op c k (mk_oper cc e kind) = (e_cls e =? c)%nat && pk_eqb (key_of cc (e_vals e)) k).
  { intro kind. unfold same_op, mk_oper. simpl. reflexivity. }
  assert (Hex : forall k', existsb (same_op (e_cls e) k') ops =
                           match op_at ops (e_cls e) k' with Some _ => true | None => false end).
  { intro k'. unfold op_at. induction ops as [|x l IH]; simpl; [reflexivity|].
    destruct (same_op (e_cls e) k' x); [reflexivity | exact IH]. }
  destruct (e_kind e =? OP_INS) eqn:EI; simpl.
  - rewrite put_op_at, Hsame.
    destruct ((e_cls e =? c)%nat && pk_eqb (key_of cc (e_vals e)) k) eqn:Ek; [|reflexivity].
    apply andb_true_iff in Ek as [E1 E2]. apply Nat.eqb_eq in E1. apply pk_eqb_eq in E2.
    subst c k. rewrite Hex. unfold new_kind. rewrite EI. reflexivity.
  - destruct (e_kind e =? OP_UPD) eqn:EU; simpl.
    + destruct (is_modified cc (e_colchg e) (e_relchg e) && existsb (real_change cc e) (e_cstate e)); simpl;
        [|reflexivity].
      rewrite put_op_at, Hsame.
      destruct ((e_cls e =? c)%nat && pk_eqb (key_of cc (e_vals e)) k); [|reflexivity].
      unfold new_kind. rewrite EI, EU. reflexivity.
    + rewrite put_op_at, Hsame.
      destruct ((e_cls e =? c)%nat && pk_eqb (key_of cc (e_vals e)) k); [|reflexivity].
      unfold new_kind. rewrite EI, EU. reflexivity.
Qed.

Lemma track_nodup g ops e : NoDup (map op_id ops) -> NoDup (map op_id (track g ops e)).
Proof.
  intro ND. unfold track. destruct (negb (k_versioned (cls_of g (e_cls e)))); [exact ND|].
  destruct (e_kind e =? OP_INS); [apply put_op_nodup; exact ND|].
  destruct (e_kind e =? OP_UPD); [|apply put_op_nodup; exact ND].
  destruct (_ && _); [apply put_op_nodup; exact ND | exact ND].
Qed.

(* ---- coalescing: the operation type left for one entity by any sequence of events ---- *)
Fixpoint coalesce_kinds (acc : option Z) (ks : list Z) : option Z :=
  match ks with
  | [] => acc
  | k :: ks' =>
      coalesce_kinds
        (Some (if k =? OP_INS then match acc with None => OP_INS | Some _ => OP_UPD end
               else if k =? OP_UPD then OP_UPD else OP_DEL)) ks'
  end.

(* the kinds of the tracked events of entity (c,k), in order *)
Definition kinds_for (g : cfg) (c : nat) (k : pk) (es : list ent_ev) : list Z :=
  map e_kind (filter (fun e => tracked g e && (e_cls e =? c)%nat && pk_eqb (ev_key g e) k) es).

Theorem track_coalesces g c k : forall es ops,
  option_map op_kind (op_at (fold_left (track g) es ops) c k) =
  coalesce_kinds (option_map op_kind (op_at ops c k)) (kinds_for g c k es).
Proof.
  induction es as [|e es IH]; intro ops; simpl; [reflexivity|].
  rewrite IH. unfold kinds_for. simpl. rewrite track_at.
  destruct (tracked g e && (e_cls e =? c)%nat && pk_eqb (ev_key g e) k); simpl; [|reflexivity].
  f_equal. unfold new_kind.
  destruct (op_at ops c k); simpl; reflexivity.
Qed.

(* events of other entities never disturb an entry *)
Theorem track_frame g c k es ops :
  kinds_for g c k es = [] -> op_at (fold_left (track g) es ops) c k = op_at ops c k.
Proof.
  revert ops. induction es as [|e es IH]; intros ops H; simpl; [reflexivity|].
  unfold kinds_for in H. simpl in H.
  destruct (tracked g e && (e_cls e =? c)%nat && pk_eqb (ev_key g e) k) eqn:E; [discriminate|].
  rewrite IH by exact H. rewrite track_at, E. reflexivity.
Qed.
