(* ManagerP.v — C09: interleaved sessions never mix or leak unit-of-work state. *)
From Continuum Require Import Model.Base Model.VTable Model.Core Model.Manager Proofs.CoreP.

Section ManagerP.
  Variable dbapi : nat -> nat.
  Variable closed : nat -> bool.
  Notation gstep := (gstep dbapi closed).
  Notation register := (register).
  Notation clear := (clear dbapi closed).
  Notation clear_connection := (clear_connection dbapi closed).
  Notation sweep := (sweep dbapi closed).
  Notation clone_track := (clone_track dbapi closed).
  Notation gstep2 := (gstep2 dbapi closed).

  (* ---- association lists ---- *)
  Lemma aget_aset_same {A} (l : list (nat * A)) k v : aget (aset l k v) k = Some v.
  Proof.
    induction l as [|[k' v'] l IH]; simpl; [rewrite Nat.eqb_refl; reflexivity|].
    destruct (k' =? k)%nat eqn:E; simpl; [rewrite Nat.eqb_refl; reflexivity | rewrite E; exact IH].
  Qed.

  Lemma aget_aset_other {A} (l : list (nat * A)) k k' v : k' <> k -> aget (aset l k v) k' = aget l k'.
  Proof.
    intro H. induction l as [|[k0 v0] l IH]; simpl.
    - destruct (k =? k')%nat eqn:E; [apply Nat.eqb_eq in E; congruence | reflexivity].
    - destruct (k0 =? k)%nat eqn:E; simpl.
      + apply Nat.eqb_eq in E. subst k0.
        destruct (k =? k')%nat eqn:E2; [apply Nat.eqb_eq in E2; congruence | reflexivity].
      + destruct (k0 =? k')%nat; [reflexivity | exact IH].
  Qed.

  Lemma aget_filter {A} (p : nat * A -> bool) (l : list (nat * A)) k :
    (forall v, p (k, v) = true) -> aget (filter p l) k = aget l k.
  Proof.
    intro H. induction l as [|[k0 v0] l IH]; simpl; [reflexivity|].
    destruct (p (k0, v0)) eqn:E; simpl.
    - destruct (k0 =? k)%nat; [reflexivity | exact IH].
    - destruct (k0 =? k)%nat eqn:E2; [|exact IH]. apply Nat.eqb_eq in E2. subst k0.
      rewrite H in E. discriminate.
  Qed.

  Lemma aget_filter_out {A} (p : nat * A -> bool) (l : list (nat * A)) k :
    (forall v, p (k, v) = false) -> aget (filter p l) k = None.
  Proof.
    intro H. induction l as [|[k0 v0] l IH]; simpl; [reflexivity|].
    destruct (p (k0, v0)) eqn:E; simpl; [|exact IH].
    destruct (k0 =? k)%nat eqn:E2; [|exact IH]. apply Nat.eqb_eq in E2. subst k0.
    rewrite H in E. discriminate.
  Qed.

  Lemma aget_adel_same {A} (l : list (nat * A)) k : aget (adel l k) k = None.
  Proof. unfold adel. apply aget_filter_out. intro v. simpl. rewrite Nat.eqb_refl. reflexivity. Qed.

  Lemma aget_adel_other {A} (l : list (nat * A)) k k' : k' <> k -> aget (adel l k) k' = aget l k'.
  Proof.
    intro H. unfold adel. apply aget_filter. intro v. simpl.
    destruct (k' =? k)%nat eqn:E; [apply Nat.eqb_eq in E; congruence | reflexivity].
  Qed.

  Lemma aget_app_none {A} (l1 l2 : list (nat * A)) k : aget l1 k = None -> aget (l1 ++ l2) k = aget l2 k.
  Proof.
    induction l1 as [|[k0 v0] l1 IH]; simpl; [reflexivity|].
    destruct (k0 =? k)%nat; [discriminate | exact IH].
  Qed.

  Lemma aget_app_some {A} (l1 l2 : list (nat * A)) k v : aget l1 k = Some v -> aget (l1 ++ l2) k = Some v.
  Proof.
    induction l1 as [|[k0 v0] l1 IH]; simpl; [discriminate|].
    destruct (k0 =? k)%nat; [auto | exact IH].
  Qed.

  (* ---- hypotheses: each session owns its connection ---- *)
  (* two sessions are independent: different ids, different live connections on different DB-API connections *)
  Definition indep (s s' : sess) : Prop :=
    ss_id s <> ss_id s' /\ ss_conn s <> ss_conn s' /\ dbapi (ss_conn s) <> dbapi (ss_conn s') /\
    closed (ss_conn s) = false /\ closed (ss_conn s') = false.

  (* the session map only ever relates a session to its own connection *)
  Definition smap_ok (conn_of : nat -> nat) (G : gstate) : Prop :=
    forall sid c, In (sid, c) (g_smap G) -> c = conn_of sid.

  Lemma sweep_keeps uows c k :
    closed k = false -> dbapi k <> dbapi c -> aget (sweep uows c) k = aget uows k.
  Proof.
    intros Hc Hd. unfold Manager.sweep. apply aget_filter. intro v. simpl. rewrite Hc. simpl.
    destruct (dbapi k =? dbapi c)%nat eqn:E; [apply Nat.eqb_eq in E; contradiction | reflexivity].
  Qed.

  (* ---- locality: a step of another session does not touch what this session sees ---- *)
  Lemma view_store G c st b s :
    ss_conn s <> c -> view (store G c st b) s = view G s.
  Proof.
    intro H. unfold view, store. simpl. destruct b; rewrite ?aget_aset_other by exact H; reflexivity.
  Qed.

  Lemma smap_filter_other (l : list (nat * nat)) c sid cs :
    aget l sid = Some cs -> cs <> c -> aget (filter (fun p => negb (snd p =? c)%nat) l) sid = Some cs.
  Proof.
    intros H Hne. induction l as [|[k0 v0] l IH]; simpl in *; [discriminate|].
    destruct (k0 =? sid)%nat eqn:E.
    - inversion H; subst v0.
      assert (Hn : (cs =? c)%nat = false) by (apply Nat.eqb_neq; exact Hne).
      rewrite Hn. simpl. rewrite E. reflexivity.
    - destruct (v0 =? c)%nat; simpl.
      + apply IH; exact H.
      + rewrite E. apply IH; exact H.
  Qed.

  Lemma smap_filter_none (l : list (nat * nat)) c sid :
    aget l sid = None -> aget (filter (fun p => negb (snd p =? c)%nat) l) sid = None.
  Proof.
    intro H. induction l as [|[k0 v0] l IH]; simpl in *; [reflexivity|].
    destruct (k0 =? sid)%nat eqn:E; [discriminate|].
    destruct (v0 =? c)%nat; simpl.
    - apply IH; exact H.
    - rewrite E. apply IH; exact H.
  Qed.

  Lemma view_clear G s' s conn_of :
    indep s s' -> smap_ok conn_of G -> conn_of (ss_id s') = ss_conn s' ->
    view (clear G s') s = view G s.
  Proof.
    intros [Hid [Hc [Hd [Hcl _]]]] Hok Hco. unfold Manager.clear.
    destruct (aget (g_smap G) (ss_id s')) as [c|] eqn:E; [|reflexivity].
    assert (Hcs : c = ss_conn s').
    { assert (In (ss_id s', c) (g_smap G)).
      { clear - E. induction (g_smap G) as [|[k0 v0] l IH]; simpl in *; [discriminate|].
        destruct (k0 =? ss_id s')%nat eqn:E2; [apply Nat.eqb_eq in E2; inversion E; subst; left; reflexivity|].
        right. apply IH. exact E. }
      rewrite (Hok _ _ H). exact Hco. }
    subst c. unfold view. simpl.
    rewrite sweep_keeps by assumption.
    rewrite (aget_adel_other (g_uows G) (ss_conn s') (ss_conn s) Hc).
    rewrite (aget_adel_other (g_smap G) (ss_id s') (ss_id s) Hid). reflexivity.
  Qed.

  Lemma view_clear_connection G c s :
    ss_conn s <> c -> dbapi (ss_conn s) <> dbapi c -> closed (ss_conn s) = false ->
    (forall cs, aget (g_smap G) (ss_id s) = Some cs -> cs <> c) ->
    view (clear_connection G c) s = view G s.
  Proof.
    intros Hc Hd Hcl Hsm. unfold view, Manager.clear_connection. simpl.
    rewrite sweep_keeps by assumption.
    rewrite (aget_adel_other (g_uows G) c (ss_conn s) Hc).
    destruct (aget (g_smap G) (ss_id s)) as [cs|] eqn:E.
    - rewrite (smap_filter_other _ c _ cs E (Hsm cs eq_refl)). reflexivity.
    - rewrite (smap_filter_none _ c _ E). reflexivity.
  Qed.

  Lemma view_register G s' s :
    ss_id s <> ss_id s' -> ss_conn s <> ss_conn s' -> view (Manager.register G s') s = view G s.
  Proof.
    intros Hid Hc. unfold view, Manager.register. simpl.
    assert (E1 : aget (match aget (g_uows G) (ss_conn s') with
                       | Some _ => g_uows G | None => aset (g_uows G) (ss_conn s') uow0 end) (ss_conn s)
                 = aget (g_uows G) (ss_conn s)).
    { destruct (aget (g_uows G) (ss_conn s')); [reflexivity | apply aget_aset_other; exact Hc]. }
    assert (E2 : aget (if existsb (fun p => (snd p =? ss_conn s')%nat) (g_smap G)
                       then g_smap G else aset (g_smap G) (ss_id s') (ss_conn s')) (ss_id s)
                 = aget (g_smap G) (ss_id s)).
    { destruct (existsb (fun p => (snd p =? ss_conn s')%nat) (g_smap G)); [reflexivity|].
      apply aget_aset_other. exact Hid. }
    rewrite E1, E2. reflexivity.
  Qed.

  Lemma in_aset {A} (l : list (nat * A)) k v x : In x (aset l k v) -> x = (k, v) \/ In x l.
  Proof.
    induction l as [|[k0 v0] l IH]; simpl.
    - intros [H|[]]. left. auto.
    - destruct (k0 =? k)%nat; simpl.
      + intros [H|H]; [left; auto | right; right; exact H].
      + intros [H|H]; [right; left; exact H|]. destruct (IH H) as [H'|H']; [left; exact H' | right; right; exact H'].
  Qed.

  Lemma smap_ok_register conn_of G s :
    conn_of (ss_id s) = ss_conn s -> smap_ok conn_of G -> smap_ok conn_of (Manager.register G s).
  Proof.
    intros Hco Hok sid c Hin. unfold Manager.register in Hin. simpl in Hin.
    destruct (existsb (fun p => (snd p =? ss_conn s)%nat) (g_smap G)); [apply Hok; exact Hin|].
    apply in_aset in Hin as [E|Hin]; [inversion E; subst; auto | apply Hok; exact Hin].
  Qed.

  Lemma smap_ok_sub conn_of G G' :
    (forall x, In x (g_smap G') -> In x (g_smap G)) -> smap_ok conn_of G -> smap_ok conn_of G'.
  Proof. intros H Hok sid c Hin. apply Hok. apply H. exact Hin. Qed.

  Lemma gstep_smap_ok conn_of g G s e :
    conn_of (ss_id s) = ss_conn s -> smap_ok conn_of G -> smap_ok conn_of (gstep g G s e).
  Proof.
    intros Hco Hok. unfold Manager.gstep. destruct e as [objs ents assoc| | | |a].
    - destruct (g_versioning g); [|exact Hok]. unfold store. simpl.
      apply (smap_ok_register conn_of G s Hco Hok).
    - unfold Manager.clear. simpl. destruct (aget (g_smap G) (ss_id s)); [|exact Hok].
      intros sid c Hin. simpl in Hin. unfold adel in Hin. apply filter_In in Hin as [Hin _]. apply Hok; exact Hin.
    - unfold Manager.clear, Manager.clear_connection. simpl.
      destruct (aget (filter (fun p => negb (snd p =? ss_conn s)%nat) (g_smap G)) (ss_id s)).
      + intros sid c Hin. simpl in Hin. unfold adel in Hin. apply filter_In in Hin as [Hin _].
        apply filter_In in Hin as [Hin _]. apply Hok; exact Hin.
      + intros sid c Hin. simpl in Hin. apply filter_In in Hin as [Hin _]. apply Hok; exact Hin.
    - destruct (g_versioning g); [|exact Hok]. unfold store. simpl.
      apply (smap_ok_register conn_of G s Hco Hok).
    - exact Hok.
  Qed.

  Theorem step_of_other_session_is_invisible conn_of g G s s' e :
    indep s s' -> smap_ok conn_of G ->
    conn_of (ss_id s') = ss_conn s' -> conn_of (ss_id s) = ss_conn s ->
    view (gstep g G s' e) s = view G s.
  Proof.
    intros Hi Hok Hco' Hco. destruct Hi as [Hid [Hc [Hd [Hcl Hcl']]]].
    assert (Hi : indep s s') by (repeat split; assumption).
    unfold Manager.gstep. destruct e as [objs ents assoc| | | |a].
    - destruct (g_versioning g).
      + rewrite view_store by exact Hc. apply view_register; assumption.
      + apply view_store; exact Hc.
    - rewrite (view_clear _ s' s conn_of Hi); [apply view_store; exact Hc | | exact Hco'].
      unfold store; simpl. exact Hok.
    - rewrite (view_clear _ s' s conn_of Hi); [| | exact Hco'].
      + rewrite view_clear_connection; [apply view_store; exact Hc | exact Hc | exact Hd | exact Hcl |].
        intros cs E. unfold store in E; simpl in E.
        assert (Hin : In (ss_id s, cs) (g_smap G)).
        { clear - E. induction (g_smap G) as [|[k0 v0] l IH]; simpl in *; [discriminate|].
          destruct (k0 =? ss_id s)%nat eqn:E2; [apply Nat.eqb_eq in E2; inversion E; subst; left; reflexivity|].
          right. apply IH. exact E. }
        rewrite (Hok _ _ Hin), Hco. exact Hc.
      + apply (smap_ok_sub conn_of (store G (ss_conn s') (step g (core_of G (ss_conn s')) Rollback) false));
          [|unfold store; simpl; exact Hok].
        intros x Hx. unfold Manager.clear_connection in Hx. simpl in Hx. apply filter_In in Hx as [Hx _]. exact Hx.
    - destruct (g_versioning g).
      + rewrite view_store by exact Hc. apply view_register; assumption.
      + apply view_store; exact Hc.
    - apply view_store; exact Hc.
  Qed.

  (* ---- a session's own steps depend only on what it sees ---- *)
  Lemma in_smap_aget (l : list (nat * nat)) sid c : aget l sid = Some c -> In (sid, c) l.
  Proof.
    induction l as [|[k0 v0] l IH]; simpl; [discriminate|].
    destruct (k0 =? sid)%nat eqn:E; [apply Nat.eqb_eq in E; intro H; inversion H; subst; left; reflexivity|].
    intro H. right. apply IH. exact H.
  Qed.

  Lemma registered_iff conn_of G s :
    (forall a b, conn_of a = conn_of b -> a = b) -> conn_of (ss_id s) = ss_conn s -> smap_ok conn_of G ->
    existsb (fun p => (snd p =? ss_conn s)%nat) (g_smap G) =
    match aget (g_smap G) (ss_id s) with Some _ => true | None => false end.
  Proof.
    intros Hinj Hco Hok. unfold smap_ok in Hok.
    induction (g_smap G) as [|[k0 v0] l IH]; simpl; [reflexivity|].
    assert (Hk : v0 = conn_of k0) by (apply Hok; left; reflexivity).
    destruct (k0 =? ss_id s)%nat eqn:E.
    - apply Nat.eqb_eq in E. subst k0. rewrite Hk, Hco, Nat.eqb_refl. reflexivity.
    - assert ((v0 =? ss_conn s)%nat = false).
      { apply Nat.eqb_neq. intro Hv. apply Nat.eqb_neq in E. apply E. apply Hinj. rewrite <- Hk, Hv, Hco. reflexivity. }
      rewrite H. simpl. apply IH. intros sid c Hin. apply Hok. right. exact Hin.
  Qed.

  Lemma view_eq_parts G1 G2 s :
    view G1 s = view G2 s ->
    aget (g_uows G1) (ss_conn s) = aget (g_uows G2) (ss_conn s) /\
    aget (g_smap G1) (ss_id s) = aget (g_smap G2) (ss_id s) /\
    aget (g_dbs G1) (ss_conn s) = aget (g_dbs G2) (ss_conn s).
  Proof. unfold view. intro H. inversion H. auto. Qed.

  Lemma core_of_view G1 G2 s : view G1 s = view G2 s -> core_of G1 (ss_conn s) = core_of G2 (ss_conn s).
  Proof.
    intro H. destruct (view_eq_parts _ _ _ H) as [E1 [_ E3]]. unfold core_of, db_of. rewrite E1, E3. reflexivity.
  Qed.

  Lemma view_store_same G c st b s :
    ss_conn s = c ->
    view (store G c st b) s =
    (if b then Some (s_uow st) else aget (g_uows G) c, aget (g_smap G) (ss_id s), Some (s_db st, s_committed st, s_err st)).
  Proof.
    intro H. subst c. unfold view, store. simpl. rewrite aget_aset_same.
    destruct b; [rewrite aget_aset_same|]; reflexivity.
  Qed.

  Lemma view_register_same conn_of G s :
    (forall a b, conn_of a = conn_of b -> a = b) -> conn_of (ss_id s) = ss_conn s -> smap_ok conn_of G ->
    view (Manager.register G s) s =
    (Some (match aget (g_uows G) (ss_conn s) with Some u => u | None => uow0 end),
     Some (match aget (g_smap G) (ss_id s) with Some c => c | None => ss_conn s end),
     aget (g_dbs G) (ss_conn s)).
  Proof.
    intros Hinj Hco Hok. unfold view, Manager.register. simpl.
    rewrite (registered_iff conn_of G s Hinj Hco Hok).
    destruct (aget (g_uows G) (ss_conn s)) as [u|] eqn:Eu; destruct (aget (g_smap G) (ss_id s)) as [c|] eqn:Es;
      rewrite ?Eu, ?Es, ?aget_aset_same; reflexivity.
  Qed.

  Lemma view_clear_same conn_of G s :
    conn_of (ss_id s) = ss_conn s -> smap_ok conn_of G ->
    view (clear G s) s =
    match aget (g_smap G) (ss_id s) with
    | Some _ => (None, None, aget (g_dbs G) (ss_conn s))
    | None => view G s
    end.
  Proof.
    intros Hco Hok. unfold Manager.clear. destruct (aget (g_smap G) (ss_id s)) as [c|] eqn:E; [|reflexivity].
    assert (c = ss_conn s) by (rewrite (Hok _ _ (in_smap_aget _ _ _ E)); exact Hco). subst c.
    unfold view. simpl. rewrite aget_adel_same.
    assert (aget (sweep (adel (g_uows G) (ss_conn s)) (ss_conn s)) (ss_conn s) = None).
    { unfold Manager.sweep. apply aget_filter_out. intro v. simpl. rewrite Nat.eqb_refl. apply negb_false_iff.
      apply orb_true_r. }
    rewrite H. reflexivity.
  Qed.

  Lemma view_clear_connection_same G s :
    view (clear_connection G (ss_conn s)) s =
    (None, match aget (g_smap G) (ss_id s) with
           | Some c => if (c =? ss_conn s)%nat then aget (filter (fun p => negb (snd p =? ss_conn s)%nat) (g_smap G)) (ss_id s) else Some c
           | None => None end, aget (g_dbs G) (ss_conn s)).
  Proof.
    unfold view, Manager.clear_connection. simpl.
    assert (aget (sweep (adel (g_uows G) (ss_conn s)) (ss_conn s)) (ss_conn s) = None).
    { unfold Manager.sweep. apply aget_filter_out. intro v. simpl. rewrite Nat.eqb_refl. apply negb_false_iff.
      apply orb_true_r. }
    rewrite H. f_equal. f_equal.
    destruct (aget (g_smap G) (ss_id s)) as [c|] eqn:E.
    - destruct (c =? ss_conn s)%nat eqn:Ec; [reflexivity|].
      apply smap_filter_other; [exact E | apply Nat.eqb_neq; exact Ec].
    - apply smap_filter_none. exact E.
  Qed.

  Section NonInterference.
    Variable conn_of : nat -> nat.
    Hypothesis conn_inj : forall a b, conn_of a = conn_of b -> a = b.

    Definition owns (s : sess) : Prop := conn_of (ss_id s) = ss_conn s.

    Lemma clear_connection_smap_none G s :
      owns s -> smap_ok conn_of G ->
      aget (g_smap (clear_connection G (ss_conn s))) (ss_id s) = None.
    Proof.
      intros Hco Hok. unfold Manager.clear_connection. simpl.
      unfold smap_ok in Hok. induction (g_smap G) as [|[k0 v0] l IH]; simpl; [reflexivity|].
      assert (Hk : v0 = conn_of k0) by (apply Hok; left; reflexivity).
      assert (IH' : aget (filter (fun p => negb (snd p =? ss_conn s)%nat) l) (ss_id s) = None)
        by (apply IH; intros sid cc Hin; apply Hok; right; exact Hin).
      destruct (v0 =? ss_conn s)%nat eqn:Ev; simpl; [exact IH'|].
      destruct (k0 =? ss_id s)%nat eqn:Ek; [|exact IH'].
      apply Nat.eqb_eq in Ek. subst k0. unfold owns in Hco. rewrite Hk, Hco, Nat.eqb_refl in Ev. discriminate.
    Qed.

    Lemma gstep_view_det g G1 G2 s e :
      owns s -> smap_ok conn_of G1 -> smap_ok conn_of G2 ->
      view G1 s = view G2 s -> view (gstep g G1 s e) s = view (gstep g G2 s e) s.
    Proof.
      intros Hco Hok1 Hok2 Hv.
      destruct (view_eq_parts _ _ _ Hv) as [Eu [Es Ed]].
      assert (Hreg : view (Manager.register G1 s) s = view (Manager.register G2 s) s).
      { rewrite (view_register_same conn_of G1 s conn_inj Hco Hok1),
                (view_register_same conn_of G2 s conn_inj Hco Hok2), Eu, Es, Ed. reflexivity. }
      assert (Hclear : forall st b,
        view (clear (store G1 (ss_conn s) st b) s) s = view (clear (store G2 (ss_conn s) st b) s) s).
      { intros st b.
        rewrite (view_clear_same conn_of (store G1 (ss_conn s) st b) s Hco) by (unfold store; simpl; exact Hok1).
        rewrite (view_clear_same conn_of (store G2 (ss_conn s) st b) s Hco) by (unfold store; simpl; exact Hok2).
        assert (Hsm : forall G, g_smap (store G (ss_conn s) st b) = g_smap G) by reflexivity.
        assert (Hdb : forall G, aget (g_dbs (store G (ss_conn s) st b)) (ss_conn s) =
                                Some (s_db st, s_committed st, s_err st))
          by (intro G; unfold store; simpl; apply aget_aset_same).
        rewrite !Hsm, !Hdb, Es.
        destruct (aget (g_smap G2) (ss_id s)) eqn:E2; [reflexivity|].
        rewrite !(view_store_same _ _ _ _ s eq_refl). rewrite Eu, Es, E2. reflexivity. }
      unfold Manager.gstep. destruct e as [objs ents assoc| | | |a].
      - destruct (g_versioning g).
        + rewrite !(view_store_same _ _ _ _ s eq_refl). rewrite (core_of_view _ _ s Hreg).
          destruct (view_eq_parts _ _ _ Hreg) as [_ [Es' _]]. rewrite Es'. reflexivity.
        + rewrite !(view_store_same _ _ _ _ s eq_refl). rewrite (core_of_view _ _ s Hv), Eu, Es. reflexivity.
      - rewrite (core_of_view _ _ s Hv). apply Hclear.
      - rewrite (core_of_view _ _ s Hv).
        set (st := step g (core_of G2 (ss_conn s)) Rollback).
        assert (Hcc : view (clear_connection (store G1 (ss_conn s) st false) (ss_conn s)) s =
                      view (clear_connection (store G2 (ss_conn s) st false) (ss_conn s)) s).
        { rewrite !view_clear_connection_same. unfold store. simpl. rewrite !aget_aset_same, Es.
          destruct (aget (g_smap G2) (ss_id s)) as [c|] eqn:E2; [|reflexivity].
          destruct (c =? ss_conn s)%nat eqn:Ec; [|reflexivity].
          (* both filtered maps have no entry for this session: its only possible entry is (sid, conn) *)
          assert (F : forall G, smap_ok conn_of G ->
                   aget (filter (fun p => negb (snd p =? ss_conn s)%nat) (g_smap G)) (ss_id s) = None).
          { intros G Hok. unfold smap_ok in Hok. induction (g_smap G) as [|[k0 v0] l IH]; simpl; [reflexivity|].
            assert (Hk : v0 = conn_of k0) by (apply Hok; left; reflexivity).
            assert (IH' : aget (filter (fun p => negb (snd p =? ss_conn s)%nat) l) (ss_id s) = None)
              by (apply IH; intros sid cc Hin; apply Hok; right; exact Hin).
            destruct (v0 =? ss_conn s)%nat eqn:Ev; simpl; [exact IH'|].
            destruct (k0 =? ss_id s)%nat eqn:Ek; [|exact IH'].
            apply Nat.eqb_eq in Ek. subst k0. rewrite Hk, Hco, Nat.eqb_refl in Ev. discriminate. }
          rewrite (F G1 Hok1), (F G2 Hok2). reflexivity. }
        (* clear after clear_connection: the session is no longer in the map, so clear does nothing *)
        assert (Hnone : forall G, smap_ok conn_of G ->
                  aget (g_smap (clear_connection (store G (ss_conn s) st false) (ss_conn s))) (ss_id s) = None).
        { intros G Hok. unfold Manager.clear_connection, store. simpl.
          unfold smap_ok in Hok. induction (g_smap G) as [|[k0 v0] l IH]; simpl; [reflexivity|].
          assert (Hk : v0 = conn_of k0) by (apply Hok; left; reflexivity).
          assert (IH' : aget (filter (fun p => negb (snd p =? ss_conn s)%nat) l) (ss_id s) = None)
            by (apply IH; intros sid cc Hin; apply Hok; right; exact Hin).
          destruct (v0 =? ss_conn s)%nat eqn:Ev; simpl; [exact IH'|].
          destruct (k0 =? ss_id s)%nat eqn:Ek; [|exact IH'].
          apply Nat.eqb_eq in Ek. subst k0. rewrite Hk, Hco, Nat.eqb_refl in Ev. discriminate. }
        assert (Hcl : forall G, smap_ok conn_of G ->
                  clear (clear_connection (store G (ss_conn s) st false) (ss_conn s)) s =
                  clear_connection (store G (ss_conn s) st false) (ss_conn s)).
        { intros G Hok. unfold Manager.clear. rewrite (Hnone G Hok). reflexivity. }
        rewrite (Hcl G1 Hok1), (Hcl G2 Hok2). exact Hcc.
      - destruct (g_versioning g).
        + rewrite !(view_store_same _ _ _ _ s eq_refl). rewrite (core_of_view _ _ s Hreg).
          destruct (view_eq_parts _ _ _ Hreg) as [_ [Es' _]]. rewrite Es'. reflexivity.
        + rewrite !(view_store_same _ _ _ _ s eq_refl). rewrite (core_of_view _ _ s Hv), Eu, Es. reflexivity.
      - rewrite !(view_store_same _ _ _ _ s eq_refl). rewrite (core_of_view _ _ s Hv), Eu, Es. reflexivity.
    Qed.

    (* every session of the schedule owns its connection, and is independent of session s *)
    Definition sched_ok (s : sess) (sched : list (sess * ev)) : Prop :=
      forall s' e, In (s', e) sched -> owns s' /\ (s' = s \/ indep s s').

    Definition mine (s : sess) (se : sess * ev) : bool :=
      (ss_id (fst se) =? ss_id s)%nat && (ss_conn (fst se) =? ss_conn s)%nat.

    Lemma mine_spec s se : mine s se = true <-> fst se = s.
    Proof.
      unfold mine. rewrite andb_true_iff, !Nat.eqb_eq. destruct se as [[i c] e], s as [i' c']. simpl.
      split; [intros [-> ->]; reflexivity | intro H; inversion H; auto].
    Qed.

    Theorem non_interference g s : forall sched G G',
      owns s -> sched_ok s sched -> smap_ok conn_of G -> smap_ok conn_of G' -> view G s = view G' s ->
      view (fold_left (fun G se => gstep g G (fst se) (snd se)) sched G) s =
      view (fold_left (fun G se => gstep g G (fst se) (snd se)) (filter (mine s) sched) G') s.
    Proof.
      induction sched as [|[s' e] sched IH]; intros G G' Hs Hok HG HG' Hv; simpl; [exact Hv|].
      assert (Hrest : sched_ok s sched) by (intros s0 e0 Hin; apply (Hok s0 e0); right; exact Hin).
      destruct (Hok s' e (or_introl eq_refl)) as [Hown' Hrel].
      destruct (mine s (s', e)) eqn:M.
      - apply mine_spec in M. simpl in M. subst s'. simpl.
        apply IH; try assumption; try (apply gstep_smap_ok; assumption).
        apply gstep_view_det; assumption.
      - destruct Hrel as [->|Hi]; [assert (mine s (s, e) = true) by (apply mine_spec; reflexivity); congruence|].
        apply IH; try assumption; [apply gstep_smap_ok; assumption|].
        rewrite (step_of_other_session_is_invisible conn_of g G s s' e Hi HG Hown' Hs). exact Hv.
    Qed.

    (* from the initial state: the schedule's effect on session s = the effect of s's own steps alone *)
    Theorem interleaving_equals_solo_run g s sched :
      owns s -> sched_ok s sched ->
      view (grun dbapi closed g sched) s = view (grun dbapi closed g (filter (mine s) sched)) s.
    Proof.
      intros Hs Hok. unfold grun. apply non_interference; try assumption; try (intros sid c []); reflexivity.
    Qed.

    (* quiescence: right after its rollback a session has no unit of work and no map entry; after its
       commit likewise provided it was registered *)
    Theorem quiescent_after_rollback g G s :
      owns s -> smap_ok conn_of G ->
      let G' := gstep g G s Rollback in
      aget (g_uows G') (ss_conn s) = None /\ aget (g_smap G') (ss_id s) = None.
    Proof.
      intros Hco Hok G'. subst G'. unfold Manager.gstep.
      set (st := step g (core_of G (ss_conn s)) Rollback).
      set (G0 := store G (ss_conn s) st false).
      assert (Hok0 : smap_ok conn_of G0) by (unfold G0, store; simpl; exact Hok).
      pose proof (clear_connection_smap_none G0 s Hco Hok0) as Hn.
      unfold Manager.clear. rewrite Hn. split; [|exact Hn].
      pose proof (view_clear_connection_same G0 s) as Hv. unfold view in Hv.
      exact (f_equal (fun t => fst (fst t)) Hv).
    Qed.

    Theorem quiescent_after_commit g G s c :
      owns s -> smap_ok conn_of G -> aget (g_smap G) (ss_id s) = Some c ->
      let G' := gstep g G s Commit in
      aget (g_uows G') (ss_conn s) = None /\ aget (g_smap G') (ss_id s) = None.
    Proof.
      intros Hco Hok Hreg G'. subst G'. unfold Manager.gstep.
      set (st := step g (core_of G (ss_conn s)) Commit).
      pose proof (view_clear_same conn_of (store G (ss_conn s) st false) s Hco) as Hc.
      assert (Hok1 : smap_ok conn_of (store G (ss_conn s) st false)) by (unfold store; simpl; exact Hok).
      specialize (Hc Hok1). unfold store at 2 in Hc. simpl in Hc. rewrite Hreg in Hc.
      unfold view in Hc. inversion Hc. auto.
    Qed.

    (* ------------------------------------------------------------------------------------------
       schedules that also contain "set execution options on the connection" steps (GOpt) *)
    Lemma keys_aset {A} (l : list (nat * A)) c v k :
      In k (map fst (aset l c v)) -> k = c \/ In k (map fst l).
    Proof.
      induction l as [|[k0 v0] l IH]; simpl.
      - intros [H|[]]. left; auto.
      - destruct (k0 =? c)%nat eqn:E; simpl.
        + intros [H|H]; [left; auto | right; right; exact H].
        + intros [H|H]; [right; left; exact H|]. destruct (IH H) as [H'|H']; [left; exact H' | right; right; exact H'].
    Qed.

    Lemma keys_filter {A} (p : nat * A -> bool) (l : list (nat * A)) k :
      In k (map fst (filter p l)) -> In k (map fst l).
    Proof.
      intro H. apply in_map_iff in H as [x [E Hx]]. apply filter_In in Hx as [Hx _].
      apply in_map_iff. exists x. split; assumption.
    Qed.

    Lemma aget_none_notin {A} (l : list (nat * A)) k : aget l k = None -> ~ In k (map fst l).
    Proof.
      induction l as [|[k0 v0] l IH]; simpl; [intros _ []|].
      destruct (k0 =? k)%nat eqn:E; [discriminate|]. intros H [H1|H1].
      - subst k0. rewrite Nat.eqb_refl in E. discriminate.
      - exact (IH H H1).
    Qed.

    Lemma keys_clear G s k : In k (map fst (g_uows (clear G s))) -> In k (map fst (g_uows G)).
    Proof.
      unfold Manager.clear. destruct (aget (g_smap G) (ss_id s)); [|auto]. simpl.
      intro H. unfold sweep, adel in H. apply keys_filter in H. apply keys_filter in H. exact H.
    Qed.

    Lemma keys_clear_connection G c k :
      In k (map fst (g_uows (clear_connection G c))) -> In k (map fst (g_uows G)).
    Proof.
      unfold Manager.clear_connection. simpl. intro H. unfold sweep, adel in H.
      apply keys_filter in H. apply keys_filter in H. exact H.
    Qed.

    Lemma keys_store G c st b k :
      In k (map fst (g_uows (store G c st b))) -> k = c \/ In k (map fst (g_uows G)).
    Proof.
      unfold store. simpl. destruct b; [apply keys_aset | intro H; right; exact H].
    Qed.

    Lemma keys_register G s k :
      In k (map fst (g_uows (register G s))) -> k = ss_conn s \/ In k (map fst (g_uows G)).
    Proof.
      unfold register. simpl. destruct (aget (g_uows G) (ss_conn s)); [intro H; right; exact H | apply keys_aset].
    Qed.

    Lemma keys_gstep g G s e k :
      In k (map fst (g_uows (gstep g G s e))) -> k = ss_conn s \/ In k (map fst (g_uows G)).
    Proof.
      unfold Manager.gstep. destruct e as [objs ents assoc| | | |a].
      - destruct (g_versioning g); intro H; apply keys_store in H as [H|H]; auto.
        apply keys_register in H. exact H.
      - intro H. apply keys_clear in H. apply keys_store in H. exact H.
      - intro H. apply keys_clear in H. apply keys_clear_connection in H. apply keys_store in H. exact H.
      - destruct (g_versioning g); intro H; apply keys_store in H as [H|H]; auto.
        apply keys_register in H. exact H.
      - intro H. apply keys_store in H. exact H.
    Qed.

    Lemma keys_clone_track G c k :
      In k (map fst (g_uows (clone_track G c))) -> k = c \/ In k (map fst (g_uows G)).
    Proof.
      unfold Manager.clone_track. destruct (aget (g_uows G) c); [auto|].
      destruct (rev _) as [|p l]; [auto|]. simpl. rewrite map_app, in_app_iff. simpl.
      intros [H|[H|[]]]; auto.
    Qed.

    (* no unit of work is registered under a connection that shares the DB-API connection of s's *)
    Definition keys_apart (s : sess) (G : gstate) : Prop :=
      forall k, In k (map fst (g_uows G)) -> k = ss_conn s \/ dbapi k <> dbapi (ss_conn s).

    Lemma clone_track_own_noop s G : keys_apart s G -> clone_track G (ss_conn s) = G.
    Proof.
      intro K. unfold Manager.clone_track. destruct (aget (g_uows G) (ss_conn s)) eqn:E; [reflexivity|].
      assert (Hf : filter (fun p => negb (closed (fst p)) && (dbapi (fst p) =? dbapi (ss_conn s))%nat) (g_uows G) = []).
      { apply aget_none_notin in E. unfold keys_apart in K. revert K E. generalize (g_uows G). intro l.
        induction l as [|[k0 v0] l IH]; intros K E; simpl; [reflexivity|].
        assert (Hk : k0 = ss_conn s \/ dbapi k0 <> dbapi (ss_conn s)) by (apply K; left; reflexivity).
        destruct Hk as [Hk|Hk].
        - exfalso. apply E. left. exact Hk.
        - apply Nat.eqb_neq in Hk. rewrite Hk, andb_false_r. apply IH.
          + intros k Hin. apply K. right. exact Hin.
          + intro Hin. apply E. right. exact Hin. }
      rewrite Hf. reflexivity.
    Qed.

    Lemma view_clone_track_other G s s' :
      ss_conn s' <> ss_conn s -> view (clone_track G (ss_conn s')) s = view G s.
    Proof.
      intro Hne. unfold Manager.clone_track. destruct (aget (g_uows G) (ss_conn s')); [reflexivity|].
      destruct (rev _) as [|p l]; [reflexivity|]. unfold view. simpl. f_equal. f_equal.
      destruct (aget (g_uows G) (ss_conn s)) eqn:E.
      - apply aget_app_some. exact E.
      - rewrite aget_app_none by exact E. simpl.
        destruct (ss_conn s' =? ss_conn s)%nat eqn:E2; [apply Nat.eqb_eq in E2; contradiction | reflexivity].
    Qed.

    Definition sched_ok2 (s : sess) (sched : list (sess * gev)) : Prop :=
      forall s' x, In (s', x) sched -> owns s' /\ (s' = s \/ indep s s').

    Definition mine2 (s : sess) (se : sess * gev) : bool :=
      (ss_id (fst se) =? ss_id s)%nat && (ss_conn (fst se) =? ss_conn s)%nat.

    Lemma mine2_spec s se : mine2 s se = true <-> fst se = s.
    Proof.
      unfold mine2. rewrite andb_true_iff, !Nat.eqb_eq. destruct se as [[i c] e], s as [i' c']. simpl.
      split; [intros [-> ->]; reflexivity | intro H; inversion H; auto].
    Qed.

    Lemma keys_apart_step g s G s' x :
      (s' = s \/ indep s s') -> keys_apart s G -> keys_apart s (gstep2 g G s' x).
    Proof.
      intros Hrel K k Hk.
      assert (Hsub : k = ss_conn s' \/ In k (map fst (g_uows G))).
      { destruct x as [e|]; simpl in Hk; [apply keys_gstep in Hk | apply keys_clone_track in Hk]; exact Hk. }
      destruct Hsub as [->|Hin]; [|apply K; exact Hin].
      destruct Hrel as [->|[_ [_ [Hd _]]]]; [left; reflexivity | right; intro E; apply Hd; symmetry; exact E].
    Qed.

    Lemma gstep2_smap_ok g G s x : owns s -> smap_ok conn_of G -> smap_ok conn_of (gstep2 g G s x).
    Proof.
      intros Hco Hok. destruct x as [e|]; simpl; [apply gstep_smap_ok; assumption|].
      unfold Manager.clone_track. destruct (aget (g_uows G) (ss_conn s)); [exact Hok|].
      destruct (rev _); exact Hok.
    Qed.

    Theorem non_interference2 g s : forall sched G G',
      owns s -> sched_ok2 s sched -> smap_ok conn_of G -> smap_ok conn_of G' ->
      keys_apart s G -> keys_apart s G' -> view G s = view G' s ->
      view (fold_left (fun G se => gstep2 g G (fst se) (snd se)) sched G) s =
      view (fold_left (fun G se => gstep2 g G (fst se) (snd se)) (filter (mine2 s) sched) G') s.
    Proof.
      induction sched as [|[s' x] sched IH]; intros G G' Hs Hok HG HG' HK HK' Hv; simpl; [exact Hv|].
      assert (Hrest : sched_ok2 s sched) by (intros s0 e0 Hin; apply (Hok s0 e0); right; exact Hin).
      destruct (Hok s' x (or_introl eq_refl)) as [Hown' Hrel].
      destruct (mine2 s (s', x)) eqn:M.
      - apply mine2_spec in M. simpl in M. subst s'. simpl.
        apply IH; try assumption; try (apply gstep2_smap_ok; assumption);
          try (apply keys_apart_step; [left; reflexivity | assumption]).
        destruct x as [e|]; simpl.
        + apply gstep_view_det; assumption.
        + rewrite !clone_track_own_noop by assumption. exact Hv.
      - destruct Hrel as [->|Hi]; [assert (mine2 s (s, x) = true) by (apply mine2_spec; reflexivity); congruence|].
        apply IH; try assumption; [apply gstep2_smap_ok; assumption | apply keys_apart_step; [right; exact Hi | exact HK] |].
        destruct x as [e|]; simpl.
        + rewrite (step_of_other_session_is_invisible conn_of g G s s' e Hi HG Hown' Hs). exact Hv.
        + rewrite view_clone_track_other; [exact Hv|]. destruct Hi as [_ [Hc _]]. intro E. apply Hc. symmetry. exact E.
    Qed.

    Theorem interleaving_equals_solo_run2 g s sched :
      owns s -> sched_ok2 s sched ->
      view (grun2 dbapi closed g sched) s = view (grun2 dbapi closed g (filter (mine2 s) sched)) s.
    Proof.
      intros Hs Hok. unfold grun2.
      apply non_interference2; try assumption; try (intros sid c []); try (intros k []); reflexivity.
    Qed.


    (* ------------------------------------------------------------------------------------------
       Layer M refines Layer B: what a session sees of the manager IS the state of the unit-of-work
       machine (Model/Core.v) run on the session's own events.  Together with non-interference this
       carries every Layer-B theorem (C01, C02, C03, C07, C10, C11, C13, C17, C18) over to each session
       of any interleaving. *)
    Definition core_view (v : option uow * option nat * option (db * db * bool)) : state :=
      let '(d, cm, e) := match snd v with Some x => x | None => (db0, db0, false) end in
      mks d cm (match fst (fst v) with Some u => u | None => uow0 end) e.

    Lemma core_of_core_view G s : core_of G (ss_conn s) = core_view (view G s).
    Proof.
      unfold core_of, db_of, core_view, view. simpl.
      destruct (aget (g_dbs G) (ss_conn s)) as [[[d cm] e]|]; reflexivity.
    Qed.

    Lemma core_view_full u m d cm e : core_view (Some u, m, Some (d, cm, e)) = mks d cm u e.
    Proof. reflexivity. Qed.

    Lemma state_eta st : mks (s_db st) (s_committed st) (s_uow st) (s_err st) = st.
    Proof. destruct st; reflexivity. Qed.

    (* the connection of s holds a unit of work only while s is registered *)
    Definition reg_ok (s : sess) (G : gstate) : Prop :=
      forall u, aget (g_uows G) (ss_conn s) = Some u -> aget (g_smap G) (ss_id s) = Some (ss_conn s).

    Lemma smap_entry_is_conn G s c :
      owns s -> smap_ok conn_of G -> aget (g_smap G) (ss_id s) = Some c -> c = ss_conn s.
    Proof. intros Hco Hok E. rewrite (Hok _ _ (in_smap_aget _ _ _ E)). exact Hco. Qed.

    Lemma core_of_gstep g G s e :
      owns s -> smap_ok conn_of G -> reg_ok s G ->
      core_of (gstep g G s e) (ss_conn s) = step g (core_of G (ss_conn s)) e /\ reg_ok s (gstep g G s e).
    Proof.
      intros Hco Hok Hreg. rewrite !core_of_core_view.
      assert (Hflushlike : forall e0,
        g_versioning g = true ->
        let G1 := Manager.register G s in
        let st := step g (core_of G1 (ss_conn s)) e0 in
        core_view (view (store G1 (ss_conn s) st true) s) = step g (core_view (view G s)) e0 /\
        reg_ok s (store G1 (ss_conn s) st true)).
      { intros e0 Hv G1 st.
        pose proof (view_register_same conn_of G s conn_inj Hco Hok) as HR. fold G1 in HR.
        assert (Hcore : core_of G1 (ss_conn s) = core_view (view G s)).
        { rewrite core_of_core_view, HR. unfold core_view, view. simpl.
          destruct (aget (g_dbs G) (ss_conn s)) as [[[d cm] e1]|]; destruct (aget (g_uows G) (ss_conn s)); reflexivity. }
        split.
        - rewrite (view_store_same _ _ _ _ s eq_refl). unfold core_view. simpl.
          unfold st. rewrite Hcore. apply state_eta.
        - intros u _. unfold store. cbn [g_smap].
          assert (E : aget (g_smap G1) (ss_id s) =
                      Some (match aget (g_smap G) (ss_id s) with Some c => c | None => ss_conn s end)).
          { unfold view in HR. inversion HR. reflexivity. }
          rewrite E. destruct (aget (g_smap G) (ss_id s)) as [c|] eqn:Es; [|reflexivity].
          rewrite (smap_entry_is_conn G s c Hco Hok Es). reflexivity. }
      assert (Hplain : forall st',
        s_uow st' = s_uow (core_view (view G s)) ->
        core_view (view (store G (ss_conn s) st' false) s) = st' /\ reg_ok s (store G (ss_conn s) st' false)).
      { intros st' Hu. split.
        - rewrite (view_store_same _ _ _ _ s eq_refl). unfold core_view. simpl.
          assert (Hx : match aget (g_uows G) (ss_conn s) with Some u => u | None => uow0 end = s_uow st').
          { rewrite Hu. unfold core_view, view. simpl.
            destruct (aget (g_dbs G) (ss_conn s)) as [[[d cm] e1]|]; reflexivity. }
          rewrite Hx. apply state_eta.
        - intros u Hu'. unfold store in *. simpl in *. apply (Hreg u). exact Hu'. }
      unfold Manager.gstep. destruct e as [objs ents assoc| | | |a].
      - (* Flush *)
        destruct (g_versioning g) eqn:Hv.
        + exact (Hflushlike (Flush objs ents assoc) eq_refl).
        + rewrite <- core_of_core_view. apply Hplain. rewrite <- core_of_core_view. simpl.
          destruct (hier_pass_parts g (flush g (core_of G (ss_conn s)) objs ents assoc)) as [_ [_ [_ [_ [_ [Eu _]]]]]].
          rewrite Eu. apply (flush_off g (core_of G (ss_conn s)) objs ents assoc Hv).
      - (* Commit *)
        set (st := step g (core_of G (ss_conn s)) Commit).
        set (G0 := store G (ss_conn s) st false).
        assert (Hok0 : smap_ok conn_of G0) by (unfold G0, store; simpl; exact Hok).
        rewrite (view_clear_same conn_of G0 s Hco Hok0).
        assert (Hdb : aget (g_dbs G0) (ss_conn s) = Some (s_db st, s_committed st, s_err st))
          by (unfold G0, store; simpl; apply aget_aset_same).
        assert (Hsm : aget (g_smap G0) (ss_id s) = aget (g_smap G) (ss_id s)) by reflexivity.
        assert (Huw : aget (g_uows G0) (ss_conn s) = aget (g_uows G) (ss_conn s)) by reflexivity.
        rewrite <- core_of_core_view. fold st.
        destruct (aget (g_smap G0) (ss_id s)) as [c|] eqn:Es.
        + split.
          * rewrite Hdb. unfold core_view. simpl. unfold st. simpl. reflexivity.
          * intros u Hu. exfalso.
            pose proof (view_clear_same conn_of G0 s Hco Hok0) as HV. rewrite Es in HV.
            unfold view in HV. inversion HV as [[H1 H2 H3]]. rewrite H1 in Hu. discriminate.
        + assert (Hnone : aget (g_uows G) (ss_conn s) = None).
          { destruct (aget (g_uows G) (ss_conn s)) as [u|] eqn:Eu; [|reflexivity].
            rewrite (Hreg u Eu) in Hsm. rewrite Hsm in Es. discriminate. }
          split.
          * unfold view. rewrite Hdb, Huw, Hnone. unfold core_view. simpl. unfold st. simpl. reflexivity.
          * intros u Hu. unfold Manager.clear in Hu. rewrite Es in Hu. rewrite Huw, Hnone in Hu. discriminate.
      - (* Rollback *)
        set (st := step g (core_of G (ss_conn s)) Rollback).
        set (G0 := store G (ss_conn s) st false).
        set (G1 := clear_connection G0 (ss_conn s)).
        assert (Hok0 : smap_ok conn_of G0) by (unfold G0, store; simpl; exact Hok).
        assert (Hok1 : smap_ok conn_of G1).
        { apply (smap_ok_sub conn_of G0); [|exact Hok0]. intros x Hx. unfold G1, Manager.clear_connection in Hx.
          simpl in Hx. apply filter_In in Hx as [Hx _]. exact Hx. }
        pose proof (view_clear_connection_same G0 s) as HV1. fold G1 in HV1.
        assert (Hdb : aget (g_dbs G1) (ss_conn s) = Some (s_db st, s_committed st, s_err st)).
        { unfold G1, Manager.clear_connection, G0, store. simpl. apply aget_aset_same. }
        assert (Hu1 : aget (g_uows G1) (ss_conn s) = None).
        { unfold view in HV1. inversion HV1. reflexivity. }
        rewrite (view_clear_same conn_of G1 s Hco Hok1). rewrite <- core_of_core_view. fold st.
        destruct (aget (g_smap G1) (ss_id s)) as [c|] eqn:Es.
        + split.
          * rewrite Hdb. unfold core_view. simpl. unfold st. simpl. reflexivity.
          * intros u Hu. exfalso.
            pose proof (view_clear_same conn_of G1 s Hco Hok1) as HV. rewrite Es in HV.
            unfold view in HV. inversion HV as [[H1 H2 H3]]. rewrite H1 in Hu. discriminate.
        + split.
          * unfold view. rewrite Hdb, Hu1. unfold core_view. simpl. unfold st. simpl. reflexivity.
          * intros u Hu. unfold Manager.clear in Hu. rewrite Es in Hu. rewrite Hu1 in Hu. discriminate.
      - (* ManualTx *)
        destruct (g_versioning g) eqn:Hv.
        + exact (Hflushlike ManualTx eq_refl).
        + rewrite <- core_of_core_view. apply Hplain. rewrite <- core_of_core_view. simpl. rewrite Hv. reflexivity.
      - (* RawAssoc *)
        rewrite (core_of_core_view G s).
        destruct (aget (g_uows G) (ss_conn s)) as [u0|] eqn:Eu.
        + split.
          * rewrite (view_store_same _ _ _ _ s eq_refl). rewrite core_view_full. apply state_eta.
          * intros u _. unfold store. cbn [g_smap]. apply (Hreg u0). exact Eu.
        + assert (Hsame : step g (core_view (view G s)) (RawAssoc a) = core_view (view G s)).
          { unfold view. rewrite Eu. unfold core_view. simpl.
            destruct (aget (g_dbs G) (ss_conn s)) as [[[d cm] e1]|]; simpl; rewrite andb_false_r; reflexivity. }
          rewrite Hsame. apply Hplain. reflexivity.
    Qed.

    (* a session run alone: its view of the manager after its events = the core machine on them *)
    Theorem solo_run_is_core_run g s : forall evs G,
      owns s -> smap_ok conn_of G -> reg_ok s G ->
      core_of (fold_left (fun G e => gstep g G s e) evs G) (ss_conn s) =
      fold_left (step g) evs (core_of G (ss_conn s)).
    Proof.
      induction evs as [|e evs IH]; intros G Hco Hok Hreg; simpl; [reflexivity|].
      destruct (core_of_gstep g G s e Hco Hok Hreg) as [E R].
      rewrite IH; [rewrite E; reflexivity | exact Hco | apply gstep_smap_ok; assumption | exact R].
    Qed.

    Lemma fold_own_steps g s : forall (l : list (sess * ev)) G,
      (forall se, In se l -> fst se = s) ->
      fold_left (fun G se => gstep g G (fst se) (snd se)) l G =
      fold_left (fun G e => gstep g G s e) (map snd l) G.
    Proof.
      induction l as [|[s' e] l IH]; intros G H; simpl; [reflexivity|].
      assert (s' = s) by (apply (H (s', e)); left; reflexivity). subst s'.
      apply IH. intros se Hin. apply H. right. exact Hin.
    Qed.

    (* in ANY interleaving with independent sessions, the database, the committed database and the unit of
       work of session s are those of the unit-of-work machine run on s's own events *)
    Theorem interleaved_session_is_core_run g s sched :
      owns s -> sched_ok s sched ->
      core_of (grun dbapi closed g sched) (ss_conn s) = run g (map snd (filter (mine s) sched)).
    Proof.
      intros Hs Hok.
      rewrite (core_of_view _ _ s (interleaving_equals_solo_run g s sched Hs Hok)).
      unfold grun. rewrite (fold_own_steps g s).
      - rewrite solo_run_is_core_run; [reflexivity | exact Hs | intros sid c [] | intros u Hu; discriminate].
      - intros se Hin. apply filter_In in Hin as [_ Hm]. apply mine_spec. exact Hm.
    Qed.
  End NonInterference.
End ManagerP.
