From Coq Require Import Sorting.Permutation.
From Continuum Require Import Model.Base Model.VTable Model.Count Proofs.BaseP Proofs.VTableP.

Theorem count_is_versions_length t k : count_versions t k = length (versions t k).
Proof. unfold count_versions. symmetry. apply Permutation_length, versions_perm. Qed.

Theorem count_absent t k : (forall r, In r t -> vkey r <> k) -> count_versions t k = 0%nat.
Proof.
  intro H. unfold count_versions, rows_of. rewrite filter_none; [reflexivity|].
  intros x Hx. destruct (same_key k x) eqn:E; [|reflexivity]. apply same_key_eq in E.
  exfalso. eapply H; eauto.
Qed.
