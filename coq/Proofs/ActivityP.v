(* ActivityP.v — C18: the pointer computed for an activity is the newest version at or before the
   current transaction. *)
From Continuum Require Import Model.Base Model.VTable Model.Rel Model.Core Model.Activity
     Proofs.BaseP Proofs.VTableP Proofs.RelP.

Lemma max_tx_is_max_le t k x :
  (forall r, In r t -> vkey r = k -> vtx r <= x) -> max_tx t k = max_le t k x.
Proof.
  induction t as [|a t IH]; simpl; intro H; [reflexivity|].
  rewrite IH by (intros r Hr; apply H; right; exact Hr).
  destruct (same_key k a) eqn:E; simpl; [|reflexivity].
  apply same_key_eq in E. assert (vtx a <=? x = true) by (apply Z.leb_le; apply H; auto).
  rewrite H0. reflexivity.
Qed.

(* whenever the current transaction id is at least every id of the entity's rows - which holds in
   every reachable state (Proofs/CoreP.v) - the pointer is the transaction id of the as-of version *)
Theorem calc_tx_is_as_of vt K cur :
  pk_unique vt -> (forall r, In r vt -> vkey r = K -> vtx r <= cur) ->
  calc_tx vt K cur = option_map vtx (as_of vt K cur).
Proof.
  intros U LE. unfold calc_tx, as_of.
  rewrite <- (max_tx_is_max_le vt K cur LE).
  destruct (existsb (is_row K cur) vt) eqn:E.
  - apply existsb_exists in E as [r [Hr Er]]. unfold is_row in Er. apply andb_true_iff in Er as [E1 E2].
    apply same_key_eq in E1. apply Z.eqb_eq in E2.
    assert (Hm : max_tx vt K = Some cur).
    { rewrite (max_tx_is_max_le vt K cur LE). apply max_le_some. split.
      - exists r. repeat split; auto. lia.
      - intros r' Hr' Hk _. apply LE; assumption. }
    rewrite Hm. assert (find_row vt K cur = Some r) by (apply find_row_spec; auto).
    rewrite H. simpl. congruence.
  - destruct (max_tx vt K) as [m|] eqn:M; [|reflexivity].
    rewrite (max_tx_is_max_le vt K cur LE) in M.
    pose proof M as M'. apply max_le_some in M' as [[r [Hr [Hk [Ht _]]]] _].
    assert (find_row vt K m = Some r) by (apply find_row_spec; auto).
    rewrite H. simpl. congruence.
Qed.
