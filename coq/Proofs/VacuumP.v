(* VacuumP.v — proofs for C19. *)
From Coq Require Import Sorting.Sorted.
From Continuum Require Import Model.Base Model.VTable Model.Vacuum Proofs.BaseP Proofs.VTableP.

Lemma val_eqb_eq a b : val_eqb a b = true <-> a = b.
Proof. apply oz_eqb_eq. Qed.

Lemma bool_eqb_eq a b : Bool.eqb a b = true <-> a = b.
Proof. apply Bool.eqb_true_iff. Qed.

Lemma same_data_spec p r :
  same_data p r = true <->
  vend p = vend r /\ vop p = vop r /\ vdat p = vdat r /\ vmod p = vmod r.
Proof.
  unfold same_data. rewrite !andb_true_iff, oz_eqb_eq, Z.eqb_eq,
    (list_eqb_spec val_eqb val_eqb_eq), (list_eqb_spec Bool.eqb bool_eqb_eq). tauto.
Qed.

Lemma same_data_trans_sym p q r :
  same_data p q = true -> same_data p r = true -> same_data q r = true.
Proof.
  rewrite !same_data_spec. intros [A [B [C D]]] [A' [B' [C' D']]].
  repeat split; congruence.
Qed.

Lemma vac_key_subset prev l d : In d (vac_key prev l) -> In d l.
Proof.
  revert prev. induction l as [|r l IH]; simpl; intros prev H; [contradiction|].
  destruct prev as [p|].
  - destruct (same_data p r).
    + destruct H as [<-|H]; [left; reflexivity | right; eapply IH; exact H].
    + right; eapply IH; exact H.
  - right; eapply IH; exact H.
Qed.

Definition below (prev : option vrow) (l : vtable) : Prop :=
  forall p, prev = Some p -> forall x, In x l -> vtx p < vtx x.

Lemma vac_key_spec l : forall prev,
  ssorted l -> below prev l ->
  forall d, In d (vac_key prev l) ->
  exists p, (prev = Some p \/ In p l) /\ vtx p < vtx d /\ same_data p d = true /\
            ~ In p (vac_key prev l) /\
            (forall q, In q l -> vtx p < vtx q < vtx d -> In q (vac_key prev l)).
Proof.
  induction l as [|r l IH]; intros prev Srt B d Hd; simpl in *; [contradiction|].
  pose proof (ssorted_hd_min _ _ Srt) as Hmin. pose proof (ssorted_tail _ _ Srt) as Srt'.
  assert (Bnew : below (Some r) l).
  { intros p E x Hx. inversion E; subst. apply Hmin; exact Hx. }
  assert (Step : forall d, In d (vac_key (Some r) l) ->
     exists p, (prev = Some p \/ r = p \/ In p l) /\ vtx p < vtx d /\ same_data p d = true /\
               ~ In p (vac_key (Some r) l) /\
               (forall q, r = q \/ In q l -> vtx p < vtx q < vtx d -> In q (vac_key (Some r) l))).
  { intros d0 Hd0. destruct (IH (Some r) Srt' Bnew d0 Hd0) as [p [Hp [Hlt [Hsd [Hnin Hbetween]]]]].
    exists p. split; [|split; [exact Hlt | split; [exact Hsd | split; [exact Hnin|]]]].
    - destruct Hp as [E|Hp]; [inversion E; subst; right; left; reflexivity | right; right; exact Hp].
    - intros q [<-|Hq] Hrange; [|apply Hbetween; assumption].
      exfalso. destruct Hp as [E|Hp]; [inversion E; subst; lia|].
      specialize (Hmin _ Hp). lia. }
  destruct prev as [p0|]; [|apply Step; exact Hd].
  destruct (same_data p0 r) eqn:Esd; [|apply Step; exact Hd].
  assert (Hp0r : vtx p0 < vtx r) by (apply (B p0 eq_refl); left; reflexivity).
  assert (Bsame : below (Some p0) l).
  { intros p E x Hx. inversion E; subst. apply (B p eq_refl). right; exact Hx. }
  destruct Hd as [<-|Hd].
  - exists p0. split; [left; reflexivity|]. split; [exact Hp0r|]. split; [exact Esd|]. split.
    + intros [E|Hin]; [subst; lia|].
      apply vac_key_subset in Hin. specialize (B p0 eq_refl p0 (or_intror Hin)). lia.
    + intros q [<-|Hq] Hrange; [lia|]. specialize (Hmin _ Hq). lia.
  - destruct (IH (Some p0) Srt' Bsame d Hd) as [p [Hp [Hlt [Hsd [Hnin Hbetween]]]]].
    exists p. split; [|split; [exact Hlt | split; [exact Hsd | split]]].
    + destruct Hp as [E|Hp]; [left; exact E | right; right; exact Hp].
    + intros [E|Hin]; [|contradiction]. subst p.
      destruct Hp as [E|Hp]; [inversion E; subst; lia|]. specialize (Hmin _ Hp). lia.
    + intros q [<-|Hq] Hrange; [left; reflexivity | right; apply Hbetween; assumption].
Qed.

Lemma in_keys_of t : forall k, In k (keys_of t) <-> exists r, In r t /\ vkey r = k.
Proof.
  induction t as [|a t IH]; intro k; simpl.
  - split; [contradiction | intros [r [[] _]]].
  - destruct (existsb (pk_eqb (vkey a)) (keys_of t)) eqn:E.
    + rewrite IH. split; intros [r [Hr Hk]]; [exists r; auto|].
      destruct Hr as [<-|Hr]; [|exists r; auto].
      apply existsb_exists in E as [k' [Hk' E']]. apply pk_eqb_eq in E'. subst k'.
      apply IH in Hk'. rewrite <- Hk. exact Hk'.
    + simpl. rewrite IH. split.
      * intros [<-|[r [Hr Hk]]]; [exists a; auto | exists r; auto].
      * intros [r [[<-|Hr] Hk]]; [left; exact Hk | right; exists r; auto].
Qed.

Lemma in_vacuum_deleted t d :
  In d (vacuum_deleted t) <-> In d (vac_key None (versions t (vkey d))) /\ In d t.
Proof.
  unfold vacuum_deleted. rewrite in_flat_map. split.
  - intros [k [Hk Hd]]. pose proof (vac_key_subset _ _ _ Hd) as Hv.
    apply versions_members in Hv as [Hin Hkey]. subst k. auto.
  - intros [Hd Hin]. exists (vkey d). split; [|exact Hd]. apply in_keys_of. exists d; auto.
Qed.

Theorem vacuum_only_equal_to_surviving_predecessor t d :
  pk_unique t -> In d (vacuum_deleted t) ->
  exists p, In p t /\ vkey p = vkey d /\ vtx p < vtx d /\ ~ In p (vacuum_deleted t) /\
            same_data p d = true /\
            (forall q, In q t -> vkey q = vkey d -> vtx p < vtx q < vtx d -> In q (vacuum_deleted t)).
Proof.
  intros U Hd. apply in_vacuum_deleted in Hd as [Hd Hin].
  assert (Bn : below None (versions t (vkey d))) by (intros p E; discriminate).
  destruct (vac_key_spec _ None (versions_ssorted t (vkey d) U) Bn d Hd)
    as [p [Hp [Hlt [Hsd [Hnin Hbetween]]]]].
  destruct Hp as [E|Hp]; [discriminate|].
  apply versions_members in Hp as [Hpin Hpk].
  exists p. repeat split; try assumption.
  - intro H. apply in_vacuum_deleted in H as [H _]. rewrite Hpk in H. contradiction.
  - intros q Hq Hqk Hrange. apply in_vacuum_deleted. split; [|exact Hq]. rewrite Hqk.
    apply Hbetween; [apply versions_members; auto | exact Hrange].
Qed.

(* the first version of every entity is kept *)
Theorem vacuum_keeps_first t k r :
  pk_unique t -> nth_error (versions t k) 0 = Some r -> ~ In r (vacuum_deleted t).
Proof.
  intros U H Hd.
  destruct (vacuum_only_equal_to_surviving_predecessor t r U Hd) as [p [Hp [Hk [Hlt _]]]].
  assert (Hrk : vkey r = k) by (apply nth_error_In in H; apply versions_members in H; tauto).
  assert (Hpv : In p (versions t k)) by (apply versions_members; split; [exact Hp | congruence]).
  destruct (versions t k) as [|a l] eqn:E; [discriminate|]. simpl in H. inversion H; subst a.
  pose proof (versions_ssorted t k U) as Srt. rewrite E in Srt.
  destruct Hpv as [<-|Hpv]; [lia|]. pose proof (ssorted_hd_min _ _ Srt _ Hpv). lia.
Qed.

(* a version that differs from its immediate predecessor is kept, whatever older versions hold *)
Theorem vacuum_keeps_changed t k i q r :
  pk_unique t ->
  nth_error (versions t k) i = Some q -> nth_error (versions t k) (S i) = Some r ->
  same_data q r = false -> ~ In r (vacuum_deleted t).
Proof.
  intros U Hq Hr Hdiff Hd.
  assert (Hqk : In q t /\ vkey q = k) by (apply nth_error_In in Hq; apply versions_members in Hq; tauto).
  assert (Hrk : In r t /\ vkey r = k) by (apply nth_error_In in Hr; apply versions_members in Hr; tauto).
  destruct Hqk as [Hqin Hqk]. destruct Hrk as [Hrin Hrk].
  (* q is the immediate predecessor: nothing of key k lies strictly between q and r *)
  destruct (vs_split t k U i q Hq) as [l1 [l2 [E [L [H1 [H2 [S2 N]]]]]]].
  rewrite Hr in N. destruct l2 as [|r' l2]; [discriminate|]. simpl in N. inversion N; subst r'.
  assert (Hqr : vtx q < vtx r) by (apply H2; left; reflexivity).
  assert (Hnone : forall x, In x t -> vkey x = k -> vtx q < vtx x < vtx r -> False).
  { intros x Hx Hxk Hrange. assert (Hxv : In x (versions t k)) by (apply versions_members; auto).
    rewrite E in Hxv. apply in_app_or in Hxv as [Hxv|[<-|[<-|Hxv]]].
    - specialize (H1 _ Hxv). lia.
    - lia.
    - lia.
    - pose proof (ssorted_hd_min _ _ S2 _ Hxv). lia. }
  destruct (vacuum_only_equal_to_surviving_predecessor t r U Hd)
    as [p [Hp [Hpk [Hlt [Hpsurv [Hsd Hbetween]]]]]].
  destruct (Z.lt_trichotomy (vtx p) (vtx q)) as [Hpq|[Hpq|Hpq]].
  - (* p older than q: q lies between p and r, hence q was deleted, hence q equals p *)
    assert (Hqd : In q (vacuum_deleted t)) by (apply Hbetween; [exact Hqin | congruence | lia]).
    destruct (vacuum_only_equal_to_surviving_predecessor t q U Hqd)
      as [p' [Hp' [Hp'k [Hlt' [Hp'surv [Hsd' Hbetween']]]]]].
    assert (p' = p).
    { destruct (Z.lt_trichotomy (vtx p') (vtx p)) as [C|[C|C]].
      - exfalso. apply Hpsurv. apply Hbetween'; [exact Hp | congruence | lia].
      - eapply pk_unique_inj; eauto. congruence.
      - exfalso. apply Hp'surv. apply Hbetween; [exact Hp' | congruence | lia]. }
    subst p'. rewrite (same_data_trans_sym p q r Hsd' Hsd) in Hdiff. discriminate.
  - assert (p = q) by (eapply pk_unique_inj; eauto; congruence). subst p. congruence.
  - eapply Hnone; [exact Hp | congruence | lia].
Qed.

(* ---- vacuum preserves every "as of transaction x" lookup ----
   The newest version of an entity at or below any transaction id x is, after vacuum, a surviving
   row that agrees with it in every non-key column.  (Stated over the surviving rows of t, i.e. over
   `vacuum t` by vacuum_members below.) *)
Lemma vrow_eq_dec (a b : vrow) : {a = b} + {a <> b}.
Proof. repeat decide equality. Qed.

Lemma same_data_refl r : same_data r r = true.
Proof. apply same_data_spec. repeat split. Qed.

Theorem vacuum_preserves_as_of t k x r :
  pk_unique t -> In r t -> vkey r = k -> vtx r <= x ->
  (forall q, In q t -> vkey q = k -> vtx q <= x -> vtx q <= vtx r) ->
  exists r', In r' t /\ ~ In r' (vacuum_deleted t) /\ vkey r' = k /\ vtx r' <= vtx r /\
     same_data r' r = true /\
     (forall q, In q t -> ~ In q (vacuum_deleted t) -> vkey q = k -> vtx q <= x -> vtx q <= vtx r').
Proof.
  intros U Hr Hk Hx Hmax.
  destruct (in_dec vrow_eq_dec r (vacuum_deleted t)) as [Hd|Hn].
  - destruct (vacuum_only_equal_to_surviving_predecessor t r U Hd)
      as [p [Hp [Hpk [Hlt [Hpn [Hsd Hbetween]]]]]].
    exists p. repeat split; try assumption; try congruence; try lia.
    intros q Hq Hqn Hqk Hqx.
    pose proof (Hmax q Hq Hqk Hqx) as Hle.
    destruct (Z.eq_dec (vtx q) (vtx r)) as [E|Ne].
    + exfalso. apply Hqn. replace q with r; [exact Hd|].
      eapply pk_unique_inj; eauto. congruence.
    + destruct (Z_lt_le_dec (vtx p) (vtx q)) as [Hpq|Hpq]; [|exact Hpq].
      exfalso. apply Hqn. apply Hbetween; [exact Hq | congruence | lia].
  - exists r. repeat split; try assumption; try lia; [apply same_data_refl|].
    intros q Hq _ Hqk Hqx. apply Hmax; assumption.
Qed.

Lemma vacuum_members t r :
  In r (vacuum t) <-> In r t /\ in_table (vacuum_deleted t) r = false.
Proof.
  unfold vacuum. rewrite filter_In, negb_true_iff. tauto.
Qed.

Lemma in_table_spec t D r :
  pk_unique t -> In r t -> (forall d, In d D -> In d t) ->
  (in_table D r = true <-> In r D).
Proof.
  intros U Hr Sub. unfold in_table, find_row. split.
  - destruct (find _ D) as [d|] eqn:F; [intros _|discriminate].
    apply find_some in F as [Hd Hm]. apply andb_true_iff in Hm as [Hk Ht].
    apply same_key_eq in Hk. apply Z.eqb_eq in Ht.
    replace r with d; [exact Hd|]. eapply pk_unique_inj; eauto.
  - intro Hd. destruct (find _ D) as [d|] eqn:F; [reflexivity|].
    exfalso. pose proof (find_none _ _ F r Hd) as Hn. simpl in Hn.
    assert (same_key (vkey r) r = true) by (apply same_key_eq; reflexivity).
    rewrite H, Z.eqb_refl in Hn. discriminate.
Qed.

Lemma vacuum_survivor t r :
  pk_unique t -> (In r (vacuum t) <-> In r t /\ ~ In r (vacuum_deleted t)).
Proof.
  intro U. rewrite vacuum_members. split; intros [Hr H]; split; try exact Hr.
  - intro Hd. apply (in_table_spec t (vacuum_deleted t) r U Hr) in Hd.
    + congruence.
    + intros d Hd'. apply in_vacuum_deleted in Hd'. tauto.
  - destruct (in_table (vacuum_deleted t) r) eqn:E; [|reflexivity].
    exfalso. apply H. apply (in_table_spec t (vacuum_deleted t) r U Hr); [|exact E].
    intros d Hd'. apply in_vacuum_deleted in Hd'. tauto.
Qed.

(* the as-of lookup, stated on the tables before and after vacuum *)
Theorem vacuum_as_of t k x r :
  pk_unique t -> In r t -> vkey r = k -> vtx r <= x ->
  (forall q, In q t -> vkey q = k -> vtx q <= x -> vtx q <= vtx r) ->
  exists r', In r' (vacuum t) /\ vkey r' = k /\ vtx r' <= x /\ same_data r' r = true /\
     (forall q, In q (vacuum t) -> vkey q = k -> vtx q <= x -> vtx q <= vtx r').
Proof.
  intros U Hr Hk Hx Hmax.
  destruct (vacuum_preserves_as_of t k x r U Hr Hk Hx Hmax)
    as [r' [Hin [Hn [Hk' [Hle [Hsd Hmax']]]]]].
  exists r'. repeat split; try assumption; try lia.
  - apply vacuum_survivor; auto.
  - intros q Hq Hqk Hqx. apply vacuum_survivor in Hq as [Hq Hqn]; [|exact U]. auto.
Qed.
