(* CoreP.v — invariants of the Layer-B machine that hold for EVERY event trace (C02). *)
From Continuum Require Import Model.Base Model.VTable Model.Backfill Model.Core Proofs.BaseP.

(* ------------------------------------------------------------------ generic fold lemma *)
Lemma fold_left_inv {A B} (P : A -> Prop) (f : A -> B -> A) (l : list B) (a : A) :
  P a -> (forall a b, P a -> In b l -> P (f a b)) -> P (fold_left f l a).
Proof.
  revert a. induction l as [|x l IH]; simpl; intros a Ha Hf; [exact Ha|].
  apply IH; [apply Hf; auto | intros; apply Hf; auto].
Qed.

(* ------------------------------------------------------------------ next_tx *)
Lemma fold_max_ge (l : list Z) : forall x, In x l -> x <= fold_right Z.max 0 l.
Proof.
  induction l as [|a l IH]; simpl; intros x H; [contradiction|].
  destruct H as [<-|H]; [lia | specialize (IH x H); lia].
Qed.

Lemma fold_max_nonneg (l : list Z) : 0 <= fold_right Z.max 0 l.
Proof. induction l; simpl; lia. Qed.

Lemma next_tx_gt txs : forall t, In t txs -> t < next_tx txs.
Proof. intros t H. unfold next_tx. pose proof (fold_max_ge txs t H). lia. Qed.

Lemma next_tx_pos txs : 0 < next_tx txs.
Proof. unfold next_tx. pose proof (fold_max_nonneg txs). lia. Qed.

(* ------------------------------------------------------------------ the invariant *)
Definition tx_ok (d : db) : Prop :=
  (forall r, In r (d_vt d) -> In (vtx r) (d_tx d)) /\
  (forall a, In a (d_av d) -> In (a_tx a) (d_tx d)) /\
  (forall x, In x (d_chg d) -> In (fst x) (d_tx d)) /\
  (forall t, In t (d_tx d) -> 0 < t).

Definition cur_ok (s : state) : Prop :=
  forall T, u_cur (s_uow s) = Some T ->
    In T (d_tx (s_db s)) /\ (forall t, In t (d_tx (s_db s)) -> t <= T) /\
    (* the record was created by this database transaction *)
    ~ In T (d_tx (s_committed s)).

Definition tx_sub (s : state) : Prop :=
  forall t, In t (d_tx (s_committed s)) -> In t (d_tx (s_db s)).

Definition Inv1 (s : state) : Prop :=
  tx_ok (s_db s) /\ tx_ok (s_committed s) /\ cur_ok s /\ tx_sub s /\
  (u_cur (s_uow s) = None -> d_tx (s_db s) = d_tx (s_committed s)).

Lemma Inv1_init : Inv1 state0.
Proof.
  unfold Inv1, tx_ok, cur_ok, tx_sub; simpl. repeat split; try contradiction; try discriminate; auto.
Qed.

(* ---- create_transaction ---- *)
Lemma create_transaction_inv s :
  Inv1 s -> u_cur (s_uow s) = None -> Inv1 (create_transaction s).
Proof.
  intros [[V [A [C P]]] [Hc [Hcur [Hsub Hnone]]]] Hn. unfold create_transaction.
  set (T := next_tx (d_tx (s_db s))).
  unfold Inv1, tx_ok, cur_ok, tx_sub; simpl.
  split; [|split; [exact Hc|split; [|split]]].
  - repeat split.
    + intros r Hr. apply in_or_app. left. apply V; exact Hr.
    + intros a Ha. apply in_or_app. left. apply A; exact Ha.
    + intros x Hx. apply in_or_app. left. apply C; exact Hx.
    + intros t Ht. apply in_app_or in Ht as [Ht|[<-|[]]]; [apply P; exact Ht | apply next_tx_pos].
  - intros T' E. inversion E; subst T'. split; [apply in_or_app; right; left; reflexivity|]. split.
    + intros t Ht. apply in_app_or in Ht as [Ht|[<-|[]]]; [|lia].
      pose proof (next_tx_gt _ _ Ht). fold T in H. lia.
    + intro Hin. apply Hsub in Hin. pose proof (next_tx_gt _ _ Hin). fold T in H. lia.
  - intros t Ht. apply in_or_app. left. apply Hsub; exact Ht.
  - discriminate.
Qed.

(* ManualTx may be called while a record exists (the application's own doing): the invariant that
   survives is everything except "created once" *)
Definition Inv1w (s : state) : Prop :=
  tx_ok (s_db s) /\ tx_ok (s_committed s) /\
  (forall T, u_cur (s_uow s) = Some T -> In T (d_tx (s_db s)) /\ (forall t, In t (d_tx (s_db s)) -> t <= T)) /\
  tx_sub s.

Lemma Inv1_weaken s : Inv1 s -> Inv1w s.
Proof.
  intros [H1 [H2 [H3 [H4 _]]]]. split; [exact H1|]. split; [exact H2|]. split; [|exact H4].
  intros T HT. destruct (H3 T HT) as [Ha [Hb _]]. split; assumption.
Qed.

Lemma create_transaction_invw s : Inv1w s -> Inv1w (create_transaction s).
Proof.
  intros [[V [A [C P]]] [Hc [Hcur Hsub]]]. unfold create_transaction.
  set (T := next_tx (d_tx (s_db s))).
  unfold Inv1w, tx_ok, tx_sub; simpl.
  split; [|split; [exact Hc|split]].
  - repeat split.
    + intros r Hr. apply in_or_app. left. apply V; exact Hr.
    + intros a Ha. apply in_or_app. left. apply A; exact Ha.
    + intros x Hx. apply in_or_app. left. apply C; exact Hx.
    + intros t Ht. apply in_app_or in Ht as [Ht|[<-|[]]]; [apply P; exact Ht | apply next_tx_pos].
  - intros T' E. inversion E; subst T'. split; [apply in_or_app; right; left; reflexivity|].
    intros t Ht. apply in_app_or in Ht as [Ht|[<-|[]]]; [|lia].
    pose proof (next_tx_gt _ _ Ht). fold T in H. lia.
  - intros t Ht. apply in_or_app. left. apply Hsub; exact Ht.
Qed.

(* ---- writers stamp the current transaction ---- *)
Lemma close_pred_tx t k T r : In r (close_pred t k T) -> exists r0, In r0 t /\ vtx r = vtx r0 /\ vkey r = vkey r0.
Proof.
  unfold close_pred. intro H. apply in_map_iff in H as [r0 [E Hr0]]. exists r0. split; [exact Hr0|].
  destruct (same_key k r0 && sql_eq (Some (vtx r0)) (max_below t k T)); subst r; auto.
Qed.

Definition rows_in (txs : list Z) (vt : vtable) : Prop := forall r, In r vt -> In (vtx r) txs.

Lemma write_row_rows known vt k T kind dat fl validity txs :
  In T txs -> rows_in txs vt -> rows_in txs (write_row known vt k T kind dat fl validity).
Proof.
  intros HT H. unfold write_row.
  assert (H1 : rows_in txs
     (if known
      then map (fun r => if is_row k T r then mkv k T (vend r) kind dat (orb_list (vmod r) fl) else r) vt
      else vt ++ [mkv k T None kind dat fl])).
  { destruct known.
    - intros r Hr. apply in_map_iff in Hr as [r0 [E Hr0]].
      destruct (is_row k T r0); subst r; [exact HT | apply H; exact Hr0].
    - intros r Hr. apply in_app_or in Hr as [Hr|[<-|[]]]; [apply H; exact Hr | exact HT]. }
  destruct validity; [|exact H1].
  intros r Hr. apply close_pred_tx in Hr as [r0 [Hr0 [E _]]]. rewrite E. apply H1; exact Hr0.
Qed.

Lemma process_op_rows g T txs acc o :
  In T txs -> rows_in txs (fst (fst acc)) -> rows_in txs (fst (fst (process_op g T acc o))).
Proof.
  intros HT H. destruct acc as [[vt vobjs] err]. simpl in H. unfold process_op.
  destruct (op_proc o); [exact H|]. simpl. apply write_row_rows; assumption.
Qed.

Lemma fold_process_rows g T txs ops acc :
  In T txs -> rows_in txs (fst (fst acc)) ->
  rows_in txs (fst (fst (fold_left (process_op g T) ops acc))).
Proof.
  intros HT H. apply fold_left_inv; [exact H|].
  intros a b Ha _. apply process_op_rows; assumption.
Qed.

Definition arows_in (txs : list Z) (av : list arow) : Prop := forall a, In a av -> In (a_tx a) txs.

Lemma fold_assoc_rows T txs pend av :
  In T txs -> arows_in txs av -> arows_in txs (fold_left (write_assoc T) pend av).
Proof.
  intros HT H. apply fold_left_inv; [exact H|].
  intros a p Ha _ x Hx. unfold write_assoc in Hx.
  apply in_app_or in Hx as [Hx|[<-|[]]]; [|exact HT].
  apply filter_In in Hx as [Hx _]. apply Ha; exact Hx.
Qed.

Lemma add_changes_in T txs ops : forall chg,
  In T txs -> (forall x, In x chg -> In (fst x) txs) ->
  forall x, In x (add_changes T chg ops) -> In (fst x) txs.
Proof.
  induction ops as [|o ops IH]; simpl; intros chg HT H; [exact H|].
  apply IH; [exact HT|].
  destruct (existsb _ chg); [exact H|].
  intros x Hx. apply in_app_or in Hx as [Hx|[<-|[]]]; [apply H; exact Hx | exact HT].
Qed.

(* ---- flush ---- *)
Definition before_flush (g : cfg) (s : state) (objs : list obj_st) (ents : list ent_ev) : state :=
  if existsb (obj_modified g) objs || existsb (tracked g) ents
  then match u_cur (s_uow s) with None => create_transaction s | Some _ => s end
  else s.

Lemma before_flush_inv g s objs ents : Inv1 s -> Inv1 (before_flush g s objs ents).
Proof.
  intro H. unfold before_flush. destruct (existsb (obj_modified g) objs || existsb (tracked g) ents); [|exact H].
  destruct (u_cur (s_uow s)) eqn:E; [exact H | apply create_transaction_inv; assumption].
Qed.

Lemma before_flush_invw g s objs ents : Inv1w s -> Inv1w (before_flush g s objs ents).
Proof.
  intro H. unfold before_flush. destruct (existsb (obj_modified g) objs || existsb (tracked g) ents); [|exact H].
  destruct (u_cur (s_uow s)) eqn:E; [exact H | apply create_transaction_invw; assumption].
Qed.

(* the flush after its before_flush part: it never touches the transaction table or `cur` *)
Lemma flush_unfold g s objs ents assoc :
  g_versioning g = true ->
  let s1 := before_flush g s objs ents in
  d_tx (s_db (flush g s objs ents assoc)) = d_tx (s_db s1) /\
  u_cur (s_uow (flush g s objs ents assoc)) = u_cur (s_uow s1) /\
  s_committed (flush g s objs ents assoc) = s_committed s1.
Proof.
  intro Hv. unfold flush. rewrite Hv. simpl. fold (before_flush g s objs ents).
  set (s1 := before_flush g s objs ents).
  destruct (u_cur (s_uow s1)) as [T|] eqn:Ecur; [|simpl; auto].
  destruct (fold_left (track g) ents (u_ops (s_uow s1))) as [|o ops'] eqn:Eops; [simpl; auto|].
  destruct (g_native g); [simpl; auto|].
  destruct (fold_left (process_op g T) (o :: ops') (d_vt (s_db s1), u_vobjs (s_uow s1), s_err s1))
    as [[vt' vobjs'] err'] eqn:Ef. simpl. auto.
Qed.

Lemma flush_tx_ok g s objs ents assoc :
  g_versioning g = true ->
  let s1 := before_flush g s objs ents in
  tx_ok (s_db s1) ->
  (forall T, u_cur (s_uow s1) = Some T -> In T (d_tx (s_db s1))) ->
  tx_ok (s_db (flush g s objs ents assoc)).
Proof.
  intros Hv s1 [V [A [C P]]] Hcur. unfold flush. rewrite Hv. simpl. fold (before_flush g s objs ents). fold s1.
  destruct (u_cur (s_uow s1)) as [T|] eqn:Ecur.
  2:{ simpl. repeat split; assumption. }
  specialize (Hcur T eq_refl).
  assert (A' : arows_in (d_tx (s_db s1))
                 (fold_left (write_assoc T) (u_pend (s_uow s1) ++ assoc) (d_av (s_db s1))))
    by (apply fold_assoc_rows; assumption).
  destruct (fold_left (track g) ents (u_ops (s_uow s1))) as [|o ops'] eqn:Eops.
  { simpl. repeat split; assumption. }
  assert (C' : forall x, In x (if g_changes g then add_changes T (d_chg (s_db s1)) (o :: ops')
                               else d_chg (s_db s1)) -> In (fst x) (d_tx (s_db s1))).
  { destruct (g_changes g); [apply add_changes_in; assumption | exact C]. }
  destruct (g_native g).
  { simpl. repeat split; assumption. }
  pose proof (fold_process_rows g T (d_tx (s_db s1)) (o :: ops')
                (d_vt (s_db s1), u_vobjs (s_uow s1), s_err s1) Hcur V) as V'.
  destruct (fold_left (process_op g T) (o :: ops') (d_vt (s_db s1), u_vobjs (s_uow s1), s_err s1))
    as [[vt' vobjs'] err'] eqn:Ef. simpl in *.
  repeat split; assumption.
Qed.

Lemma flush_off g s objs ents assoc :
  g_versioning g = false ->
  let s' := flush g s objs ents assoc in
  d_vt (s_db s') = d_vt (s_db s) /\ d_av (s_db s') = d_av (s_db s) /\ d_tx (s_db s') = d_tx (s_db s) /\
  d_chg (s_db s') = d_chg (s_db s) /\ s_committed s' = s_committed s /\ s_uow s' = s_uow s.
Proof. intro Hv. unfold flush. rewrite Hv. simpl. repeat split; reflexivity. Qed.

Lemma flush_inv g s objs ents assoc : Inv1 s -> Inv1 (flush g s objs ents assoc).
Proof.
  intro H. destruct (g_versioning g) eqn:Hv.
  - pose proof (before_flush_inv g s objs ents H) as H1.
    destruct (flush_unfold g s objs ents assoc Hv) as [Etx [Ecur Ecom]].
    destruct H1 as [Hdb [Hc [Hcur [Hsub Hnone]]]].
    unfold Inv1, cur_ok, tx_sub. rewrite Etx, Ecur, Ecom.
    split; [|split; [exact Hc | split; [exact Hcur | split; [exact Hsub | exact Hnone]]]].
    apply flush_tx_ok; [exact Hv | exact Hdb |]. intros T E. apply (Hcur T E).
  - destruct (flush_off g s objs ents assoc Hv) as [E1 [E2 [E3 [E4 [E5 E6]]]]].
    destruct H as [[V [A [C P]]] [Hc [Hcur [Hsub Hnone]]]].
    unfold Inv1, tx_ok, cur_ok, tx_sub. rewrite E1, E2, E3, E4, E5, E6.
    split; [repeat split; assumption|].
    split; [exact Hc | split; [exact Hcur | split; [exact Hsub | exact Hnone]]].
Qed.

Lemma flush_invw g s objs ents assoc : Inv1w s -> Inv1w (flush g s objs ents assoc).
Proof.
  intro H. destruct (g_versioning g) eqn:Hv.
  - pose proof (before_flush_invw g s objs ents H) as H1.
    destruct (flush_unfold g s objs ents assoc Hv) as [Etx [Ecur Ecom]].
    destruct H1 as [Hdb [Hc [Hcur Hsub]]].
    unfold Inv1w, tx_sub. rewrite Etx, Ecur, Ecom.
    split; [|split; [exact Hc | split; [exact Hcur | exact Hsub]]].
    apply flush_tx_ok; [exact Hv | exact Hdb |]. intros T E. apply (Hcur T E).
  - destruct (flush_off g s objs ents assoc Hv) as [E1 [E2 [E3 [E4 [E5 E6]]]]].
    destruct H as [[V [A [C P]]] [Hc [Hcur Hsub]]].
    unfold Inv1w, tx_ok, tx_sub. rewrite E1, E2, E3, E4, E5, E6.
    split; [repeat split; assumption|].
    split; [exact Hc | split; [exact Hcur | exact Hsub]].
Qed.

(* ---- the hierarchy pass only sets end-transaction ids ---- *)
Lemma hier_pass_parts g s :
  d_live (s_db (hier_pass g s)) = d_live (s_db s) /\ d_av (s_db (hier_pass g s)) = d_av (s_db s) /\
  d_tx (s_db (hier_pass g s)) = d_tx (s_db s) /\ d_chg (s_db (hier_pass g s)) = d_chg (s_db s) /\
  s_committed (hier_pass g s) = s_committed s /\ s_uow (hier_pass g s) = s_uow s /\ s_err (hier_pass g s) = s_err s /\
  (forall r', In r' (d_vt (s_db (hier_pass g s))) ->
     exists r, In r (d_vt (s_db s)) /\ vkey r' = vkey r /\ vtx r' = vtx r /\ vop r' = vop r /\
               vdat r' = vdat r /\ vmod r' = vmod r).
Proof.
  unfold hier_pass. destruct (no_hierb g).
  { repeat split; try reflexivity. intros r' Hr'. exists r'. auto 8. }
  destruct (u_cur (s_uow s)) as [T|].
  2:{ repeat split; try reflexivity. intros r' Hr'. exists r'. auto 8. }
  simpl. repeat split; try reflexivity.
  intros r' Hr'. apply in_map_iff in Hr' as [r [E Hr]]. exists r. split; [exact Hr|].
  destruct (hier_closed g T (d_vt (s_db s)) r); subst r'; simpl; auto 8.
Qed.

Lemma hier_pass_flat g s : no_hierb g = true -> hier_pass g s = s.
Proof. intro H. unfold hier_pass. rewrite H. reflexivity. Qed.

Lemma hier_pass_invw g s : Inv1w s -> Inv1w (hier_pass g s).
Proof.
  destruct (hier_pass_parts g s) as [El [Ea [Et [Ec [Em [Eu [Ee Hv]]]]]]].
  intros [[V [A [C P]]] [Hc [Hcur Hsub]]]. unfold Inv1w, tx_ok, tx_sub. rewrite Ea, Et, Ec, Em, Eu.
  split; [|split; [exact Hc | split; [exact Hcur | exact Hsub]]].
  repeat split; try assumption.
  intros r' Hr'. destruct (Hv r' Hr') as [r [Hr [_ [E _]]]]. rewrite E. apply V. exact Hr.
Qed.

Lemma hier_pass_inv g s : Inv1 s -> Inv1 (hier_pass g s).
Proof.
  destruct (hier_pass_parts g s) as [El [Ea [Et [Ec [Em [Eu [Ee Hv]]]]]]].
  intros [[V [A [C P]]] [Hc [Hcur [Hsub Hnone]]]]. unfold Inv1, tx_ok, cur_ok, tx_sub. rewrite Ea, Et, Ec, Em, Eu.
  split; [|split; [exact Hc | split; [exact Hcur | split; [exact Hsub | exact Hnone]]]].
  repeat split; try assumption.
  intros r' Hr'. destruct (Hv r' Hr') as [r [Hr [_ [E _]]]]. rewrite E. apply V. exact Hr.
Qed.

Lemma step_invw g s e : Inv1w s -> Inv1w (step g s e).
Proof.
  intro H. destruct e; simpl.
  - apply hier_pass_invw. apply flush_invw; exact H.
  - destruct H as [Hdb [Hc [Hcur Hsub]]]. unfold Inv1w, tx_sub; simpl.
    repeat split; try apply Hdb; try discriminate; auto.
  - destruct H as [Hdb [Hc [Hcur Hsub]]]. unfold Inv1w, tx_sub; simpl.
    repeat split; try apply Hc; try discriminate; auto.
  - destruct (g_versioning g); [apply create_transaction_invw; exact H | exact H].
  - destruct ((g_versioning g || g_native g) && u_live (s_uow s)); exact H.
Qed.

Definition no_manual (evs : list ev) : Prop := ~ In ManualTx evs.

Lemma step_inv g s e : e <> ManualTx -> Inv1 s -> Inv1 (step g s e).
Proof.
  intros Hne H. destruct e; simpl.
  - apply hier_pass_inv. apply flush_inv; exact H.
  - destruct H as [Hdb [Hc [Hcur [Hsub Hnone]]]]. unfold Inv1, cur_ok, tx_sub; simpl.
    repeat split; try apply Hdb; try discriminate; auto.
  - destruct H as [Hdb [Hc [Hcur [Hsub Hnone]]]]. unfold Inv1, cur_ok, tx_sub; simpl.
    repeat split; try apply Hc; try discriminate; auto.
  - contradiction.
  - destruct ((g_versioning g || g_native g) && u_live (s_uow s)); exact H.
Qed.

Theorem run_invw g evs : Inv1w (run g evs).
Proof.
  unfold run. apply fold_left_inv; [apply Inv1_weaken, Inv1_init|].
  intros a b Ha _. apply step_invw; exact Ha.
Qed.

Theorem run_inv g evs : no_manual evs -> Inv1 (run g evs).
Proof.
  unfold run, no_manual. intro Hn.
  assert (G : forall s, Inv1 s -> Inv1 (fold_left (step g) evs s)).
  { induction evs as [|e evs IH]; simpl; intros s Hs; [exact Hs|].
    apply IH; [intro Hin; apply Hn; right; exact Hin|].
    apply step_inv; [intro E; apply Hn; left; exact E | exact Hs]. }
  apply G, Inv1_init.
Qed.

(* ------------------------------------------------------------------ C02 clauses *)
(* (e) no version / association-version / changes row refers to a missing transaction record *)
Theorem no_dangling_reference g evs :
  let d := s_db (run g evs) in
  (forall r, In r (d_vt d) -> In (vtx r) (d_tx d)) /\
  (forall a, In a (d_av d) -> In (a_tx a) (d_tx d)) /\
  (forall x, In x (d_chg d) -> In (fst x) (d_tx d)).
Proof.
  destruct (run_invw g evs) as [[V [A [C _]]] _]. simpl. auto.
Qed.

(* (a) what one flush adds is stamped with the one current transaction id *)
Definition vids (t : vtable) : list (pk * Z) := map vid t.

Lemma close_pred_ids t k T : vids (close_pred t k T) = vids t.
Proof.
  unfold vids, close_pred. rewrite map_map. apply map_ext. intro r.
  destruct (same_key k r && sql_eq (Some (vtx r)) (max_below t k T)); reflexivity.
Qed.

Lemma write_row_ids known vt k T kind dat fl validity :
  vids (write_row known vt k T kind dat fl validity) =
  if known then vids vt else vids vt ++ [(k, T)].
Proof.
  unfold write_row.
  assert (H1 : vids (if known
      then map (fun r => if is_row k T r then mkv k T (vend r) kind dat (orb_list (vmod r) fl) else r) vt
      else vt ++ [mkv k T None kind dat fl]) = if known then vids vt else vids vt ++ [(k, T)]).
  { destruct known.
    - unfold vids. rewrite map_map. apply map_ext. intro r.
      destruct (is_row k T r) eqn:Er; [|reflexivity].
      unfold is_row in Er. apply andb_true_iff in Er as [E1 E2].
      apply same_key_eq in E1. apply Z.eqb_eq in E2. unfold vid. simpl. congruence.
    - unfold vids. rewrite map_app. reflexivity. }
  destruct validity; [rewrite close_pred_ids|]; exact H1.
Qed.

Lemma process_op_new_rows g T acc o :
  forall i, In i (vids (fst (fst (process_op g T acc o)))) ->
            In i (vids (fst (fst acc))) \/ snd i = T.
Proof.
  destruct acc as [[vt vobjs] err]. unfold process_op. simpl.
  destruct (op_proc o); [auto|]. simpl. intros i Hi. rewrite write_row_ids in Hi.
  destruct (existsb _ vobjs); [auto|].
  apply in_app_or in Hi as [Hi|[<-|[]]]; auto.
Qed.

Lemma fold_process_new_rows g T ops : forall acc i,
  In i (vids (fst (fst (fold_left (process_op g T) ops acc)))) ->
  In i (vids (fst (fst acc))) \/ snd i = T.
Proof.
  induction ops as [|o ops IH]; simpl; intros acc i Hi; [auto|].
  apply IH in Hi as [Hi|Hi]; [|auto]. apply process_op_new_rows in Hi. exact Hi.
Qed.

Theorem flush_stamps_current g s objs ents assoc :
  let s' := flush g s objs ents assoc in
  forall i, In i (vids (d_vt (s_db s'))) ->
    In i (vids (d_vt (s_db s))) \/ u_cur (s_uow s') = Some (snd i).
Proof.
  intros s' i Hi. subst s'. unfold flush in *.
  destruct (g_versioning g); simpl in *; [|auto].
  fold (before_flush g s objs ents) in *. set (s1 := before_flush g s objs ents) in *.
  assert (Evt : d_vt (s_db s1) = d_vt (s_db s)).
  { unfold s1, before_flush. destruct (existsb (obj_modified g) objs || existsb (tracked g) ents); [|reflexivity].
    destruct (u_cur (s_uow s)); reflexivity. }
  destruct (u_cur (s_uow s1)) as [T|] eqn:Ecur; [|simpl in *; rewrite Evt in Hi; auto].
  destruct (fold_left (track g) ents (u_ops (s_uow s1))) as [|o ops'] eqn:Eops;
    [simpl in *; rewrite Evt in Hi; auto|].
  destruct (g_native g); [simpl in *; rewrite Evt in Hi; auto|].
  pose proof (fold_process_new_rows g T (o :: ops')
                (d_vt (s_db s1), u_vobjs (s_uow s1), s_err s1) i) as Hnew.
  destruct (fold_left (process_op g T) (o :: ops') (d_vt (s_db s1), u_vobjs (s_uow s1), s_err s1))
    as [[vt' vobjs'] err'] eqn:Ef. simpl in *.
  destruct (Hnew Hi) as [H|H]; [rewrite Evt in H; auto | right; congruence].
Qed.

(* (b,c) a record created by a flush is new, larger than every earlier id, and stays the current
   one until the transaction ends *)
Theorem flush_keeps_transaction g s objs ents assoc T :
  g_versioning g = true -> u_cur (s_uow s) = Some T ->
  u_cur (s_uow (flush g s objs ents assoc)) = Some T /\
  d_tx (s_db (flush g s objs ents assoc)) = d_tx (s_db s).
Proof.
  intros Hv Hc. destruct (flush_unfold g s objs ents assoc Hv) as [Etx [Ecur _]].
  rewrite Etx, Ecur. unfold before_flush. rewrite Hc.
  destruct (existsb (obj_modified g) objs || existsb (tracked g) ents); auto.
Qed.

Theorem flush_creates_at_most_one g s objs ents assoc :
  g_versioning g = true -> u_cur (s_uow s) = None ->
  let s' := flush g s objs ents assoc in
  (existsb (obj_modified g) objs || existsb (tracked g) ents = false ->
     d_tx (s_db s') = d_tx (s_db s) /\ u_cur (s_uow s') = None) /\
  (existsb (obj_modified g) objs || existsb (tracked g) ents = true ->
     exists T, d_tx (s_db s') = d_tx (s_db s) ++ [T] /\ u_cur (s_uow s') = Some T /\
               forall t, In t (d_tx (s_db s)) -> t < T).
Proof.
  intros Hv Hc s'. subst s'. destruct (flush_unfold g s objs ents assoc Hv) as [Etx [Ecur _]].
  rewrite Etx, Ecur. unfold before_flush. rewrite Hc. split; intro E; rewrite E.
  - auto.
  - exists (next_tx (d_tx (s_db s))). unfold create_transaction; simpl. repeat split.
    apply next_tx_gt.
Qed.

(* (d) without versioning nothing is ever written *)
Theorem versioning_off_writes_nothing g s objs ents assoc :
  g_versioning g = false ->
  let s' := flush g s objs ents assoc in
  d_vt (s_db s') = d_vt (s_db s) /\ d_av (s_db s') = d_av (s_db s) /\ d_tx (s_db s') = d_tx (s_db s).
Proof. intro Hv. destruct (flush_off g s objs ents assoc Hv) as [E1 [E2 [E3 _]]]. auto. Qed.

(* ------------------------------------------------------------------ transaction_changes (C17) *)
Lemma add_changes_spec T ops : forall chg x,
  In x (add_changes T chg ops) <->
  In x chg \/ (fst x = T /\ exists o, In o ops /\ op_cls o = snd x).
Proof.
  induction ops as [|o ops IH]; intros chg x; simpl.
  - split; [auto | intros [H|[_ [o [[] _]]]]; exact H].
  - rewrite IH. clear IH.
    destruct (existsb (fun y => (fst y =? T) && (snd y =? op_cls o)%nat) chg) eqn:E.
    + split.
      * intros [H|[H1 [o' [Ho' H2]]]]; [auto|]. right. split; [exact H1|]. exists o'. auto.
      * intros [H|[H1 [o' [[<-|Ho'] H2]]]]; [auto| |].
        -- left. apply existsb_exists in E as [y [Hy Ey]]. apply andb_true_iff in Ey as [E1 E2].
           apply Z.eqb_eq in E1. apply Nat.eqb_eq in E2. destruct x as [a b], y as [a' b']. simpl in *.
           subst. exact Hy.
        -- right. split; [exact H1|]. exists o'. auto.
    + split.
      * intros [H|[H1 [o' [Ho' H2]]]].
        -- apply in_app_or in H as [H|[<-|[]]]; [auto|]. right. simpl. split; [reflexivity|].
           exists o. auto.
        -- right. split; [exact H1|]. exists o'. auto.
      * intros [H|[H1 [o' [[<-|Ho'] H2]]]].
        -- left. apply in_or_app. left. exact H.
        -- left. apply in_or_app. right. left. destruct x as [a b]. simpl in *. subst. reflexivity.
        -- right. split; [exact H1|]. exists o'. auto.
Qed.

Lemma add_changes_nodup T ops : forall chg, NoDup chg -> NoDup (add_changes T chg ops).
Proof.
  induction ops as [|o ops IH]; intros chg ND; simpl; [exact ND|].
  apply IH. destruct (existsb (fun y => (fst y =? T) && (snd y =? op_cls o)%nat) chg) eqn:E; [exact ND|].
  assert (Hn : ~ In (T, op_cls o) chg).
  { intro H. assert (existsb (fun y => (fst y =? T) && (snd y =? op_cls o)%nat) chg = true).
    { apply existsb_exists. exists (T, op_cls o). split; [exact H|]. simpl.
      rewrite Z.eqb_refl, Nat.eqb_refl. reflexivity. }
    congruence. }
  clear E. induction chg as [|a l IHl]; simpl.
  - constructor; [intros []|constructor].
  - inversion ND as [|? ? Ha ND']; subst. constructor.
    + intro H. apply in_app_or in H as [H|[<-|[]]]; [contradiction|]. apply Hn. left; reflexivity.
    + apply IHl; [exact ND'|]. intro H. apply Hn. right; exact H.
Qed.
