(* SavepointP.v — what can be proved about savepoints (C06, last clause), and what cannot. *)
From Continuum Require Import Model.Base Model.VTable Model.Core Model.Savepoint Proofs.CoreP Proofs.RollbackP.

Definition inner_ok (evs : list ev) : Prop := ~ In Commit evs /\ ~ In Rollback evs.

Lemma mstep_core_sps g m e : e <> Commit -> e <> Rollback -> m_sps (mstep g m (MCore e)) = m_sps m.
Proof. intros H1 H2. destruct e; simpl; try reflexivity; contradiction. Qed.

Lemma mstep_core_core g m e : m_core (mstep g m (MCore e)) = step g (m_core m) e.
Proof. destruct e; reflexivity. Qed.

Lemma mfold_core g evs : forall m, inner_ok evs ->
  m_sps (fold_left (mstep g) (map MCore evs) m) = m_sps m /\
  m_core (fold_left (mstep g) (map MCore evs) m) = fold_left (step g) evs (m_core m).
Proof.
  induction evs as [|e evs IH]; intros m [H1 H2]; cbn [fold_left map]; [auto|].
  assert (Hi : inner_ok evs) by (split; intro H; [apply H1 | apply H2]; right; exact H).
  destruct (IH (mstep g m (MCore e)) Hi) as [A B]. rewrite A, B.
  rewrite mstep_core_core. split; [|reflexivity].
  apply mstep_core_sps; intro E; [apply H1 | apply H2]; left; exact E.
Qed.

(* work inside a savepoint never touches the committed database *)
Lemma fold_keeps_committed g evs s : inner_ok evs -> s_committed (fold_left (step g) evs s) = s_committed s.
Proof. intros [H _]. apply fold_committed. exact H. Qed.

(* the database AND the unit of work are restored exactly, whatever happened inside the savepoint *)
Theorem savepoint_rollback_restores g m evs :
  inner_ok evs ->
  let m' := mstep g (fold_left (mstep g) (map MCore evs) (mstep g m SpBegin)) SpRollback in
  s_db (m_core m') = s_db (m_core m) /\ s_uow (m_core m') = s_uow (m_core m) /\
  s_committed (m_core m') = s_committed (m_core m) /\ m_sps m' = m_sps m.
Proof.
  intro Hi. destruct (mfold_core g evs (mstep g m SpBegin) Hi) as [A B]. cbv zeta.
  set (mm := fold_left (mstep g) (map MCore evs) (mstep g m SpBegin)) in *.
  assert (Hs : m_sps mm = (s_db (m_core m), s_uow (m_core m)) :: m_sps m) by (rewrite A; reflexivity).
  unfold mstep. rewrite Hs. cbn [m_core m_sps with_saved fst snd s_db s_uow s_committed].
  repeat split. rewrite B. cbn [mstep m_core]. apply fold_keeps_committed. exact Hi.
Qed.

(* as a whole state: rolling the savepoint back is as if the work inside had never been attempted,
   provided the package raised no error of its own inside (it never does in a reachable state of a
   consistent configuration: C07_versioning_never_raises) *)
Theorem savepoint_rollback_full g m evs :
  inner_ok evs ->
  s_err (fold_left (step g) evs (m_core m)) = s_err (m_core m) ->
  mstep g (fold_left (mstep g) (map MCore evs) (mstep g m SpBegin)) SpRollback = m.
Proof.
  intros Hi He. destruct (mfold_core g evs (mstep g m SpBegin) Hi) as [A B].
  set (mm := fold_left (mstep g) (map MCore evs) (mstep g m SpBegin)) in *.
  assert (Hs : m_sps mm = (s_db (m_core m), s_uow (m_core m)) :: m_sps m) by (rewrite A; reflexivity).
  assert (Hc' : m_core mm = fold_left (step g) evs (m_core m)) by (rewrite B; reflexivity).
  unfold mstep. rewrite Hs, Hc'. unfold with_saved. cbn [fst snd].
  rewrite (fold_keeps_committed g evs (m_core m) Hi), He.
  destruct m as [c sps]. simpl. destruct c; reflexivity.
Qed.
