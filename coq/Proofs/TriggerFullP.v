(* TriggerFullP.v — C14, full statement over the model: for every configuration with distinct column
   names and every sequence of row events (several events on one row within one transaction
   included), the generated trigger program leaves exactly the rows of the object-based path. *)
From Continuum Require Import Model.Base Model.VTable Model.Trigger Model.TriggerSpec Proofs.BaseP Proofs.TriggerP.

(* ------------------------------------------------------------------ association lists *)
Lemma set_assoc_head {A} (c : Z) (v w : A) l : set_assoc c v ((c, w) :: l) = (c, v) :: l.
Proof. simpl. rewrite Z.eqb_refl. reflexivity. Qed.

Lemma set_assoc_skip {A} (c c' : Z) (v w : A) l : c' <> c -> set_assoc c v ((c', w) :: l) = (c', w) :: set_assoc c v l.
Proof. intro H. simpl. destruct (c' =? c) eqn:E; [apply Z.eqb_eq in E; contradiction | reflexivity]. Qed.

(* assigning every key of an association list, in order, rebuilds the list *)
Lemma set_all {A} (f : Z -> A) : forall (ns : list Z) (d : list (Z * A)),
  NoDup ns -> map fst d = ns ->
  fold_left (fun d n => set_assoc n (f n) d) ns d = map (fun n => (n, f n)) ns.
Proof.
  assert (Hskip : forall (ns : list Z) (n : Z) (w : A) (d : list (Z * A)),
            ~ In n ns ->
            fold_left (fun d n => set_assoc n (f n) d) ns ((n, w) :: d) =
            (n, w) :: fold_left (fun d n => set_assoc n (f n) d) ns d).
  { induction ns as [|m ns IH]; intros n w d Hn; cbn [fold_left]; [reflexivity|].
    rewrite set_assoc_skip by (intro E; apply Hn; left; symmetry; exact E).
    apply IH. intro H. apply Hn. right. exact H. }
  induction ns as [|n ns IH]; intros d ND E.
  - destruct d; [reflexivity | discriminate].
  - destruct d as [|[k v] d]; [discriminate|]. simpl in E. inversion E; subst k.
    inversion ND as [|? ? Hn ND']; subst. cbn [fold_left]. rewrite set_assoc_head.
    rewrite Hskip by exact Hn. cbn [map]. f_equal. apply IH; [exact ND' | reflexivity].
Qed.

Lemma find_assoc_map {A} (f : Z -> A) (ns : list Z) (c : Z) :
  In c ns -> find (fun p => fst p =? c) (map (fun n => (n, f n)) ns) = Some (c, f c).
Proof.
  induction ns as [|n ns IH]; simpl; [intros []|].
  destruct (n =? c) eqn:E; [apply Z.eqb_eq in E; subst; reflexivity|].
  intros [H|H]; [subst; rewrite Z.eqb_refl in E; discriminate | apply IH; exact H].
Qed.

Lemma forallb_map' {A B} (f : A -> B) (p : B -> bool) l : forallb p (map f l) = forallb (fun x => p (f x)) l.
Proof. induction l as [|a l IH]; simpl; [reflexivity | rewrite IH; reflexivity]. Qed.

Lemma forallb_ext_in {A} (f h : A -> bool) l : (forall x, In x l -> f x = h x) -> forallb f l = forallb h l.
Proof.
  induction l as [|a l IH]; intro H; simpl; [reflexivity|].
  rewrite (H a (or_introl eq_refl)), IH; [reflexivity|]. intros x Hx. apply H. right. exact Hx.
Qed.

Lemma filter_none {A} (p : A -> bool) l : (forall x, In x l -> p x = false) -> filter p l = [].
Proof.
  induction l as [|a l IH]; intro H; simpl; [reflexivity|].
  rewrite (H a (or_introl eq_refl)). apply IH. intros x Hx. apply H. right. exact Hx.
Qed.

Lemma map_id_if {A} (c : A -> bool) (l : list A) : (forall x, In x l -> c x = false) ->
  forall (h : A -> A), map (fun x => if c x then h x else x) l = l.
Proof.
  intros H h. induction l as [|a l IH]; simpl; [reflexivity|].
  rewrite (H a (or_introl eq_refl)). f_equal. apply IH. intros x Hx. apply H. right. exact Hx.
Qed.

Section Full.
  Variable g : tcfg.
  Hypothesis names_nodup : NoDup (map tc_name (tg_cols g)).

  Definition nm (cs : list tcol) : list Z := map tc_name cs.

  Lemma nodup_filter_names (p : tcol -> bool) (cs : list tcol) :
    NoDup (map tc_name cs) -> NoDup (map tc_name (filter p cs)).
  Proof.
    induction cs as [|c cs IH]; simpl; intro ND; [constructor|].
    inversion ND as [|? ? Hn ND']; subst. destruct (p c); simpl; [|apply IH; exact ND'].
    constructor; [|apply IH; exact ND'].
    intro Hin. apply Hn. apply in_map_iff in Hin as [x [E Hx]]. apply filter_In in Hx as [Hx _].
    rewrite <- E. apply in_map. exact Hx.
  Qed.

  Lemma tcols_nodup : NoDup (nm (tcols g)).
  Proof. apply nodup_filter_names. exact names_nodup. Qed.
  Lemma tnonpk_nodup : NoDup (nm (tnonpk g)).
  Proof. apply nodup_filter_names. exact tcols_nodup. Qed.

  (* a version row written for configuration g: one data entry per versioned column, one flag per
     versioned non-key column (with the tracker), in configuration order *)
  Definition row_wf (r : trow) : Prop :=
    map fst (tr_dat r) = nm (tcols g) /\
    map fst (tr_mod r) = (if tg_tracker g then nm (tnonpk g) else []).

  Lemma crit_same_pk s old new r :
    crit_holds (map (fun c => (tc_name c, s)) (tpk g)) old new r = same_pk g r (row_of s old new).
  Proof. unfold crit_holds, same_pk. rewrite forallb_map'. reflexivity. Qed.

  (* ---- the UPDATE path of the three upserts on a well-formed row ---- *)
  Lemma fold_uset old new r0 s : forall cs r,
    fold_left (apply_uexpr old new r0) (map (fun c => USet (tc_name c) s) cs) r =
    mktr (tr_tx r) (tr_end r) (tr_op r)
         (fold_left (fun d n => set_assoc n (pget (row_of s old new) n) d) (nm cs) (tr_dat r)) (tr_mod r).
  Proof.
    induction cs as [|c cs IH]; intro r; [destruct r; reflexivity|].
    cbn [map fold_left nm]. rewrite IH. reflexivity.
  Qed.

  Lemma fold_umodor old new r0 : forall cs r,
    fold_left (apply_uexpr old new r0) (map (fun c => UModOr (tc_name c)) cs) r =
    mktr (tr_tx r) (tr_end r) (tr_op r) (tr_dat r)
         (fold_left (fun d n => set_assoc n (mget r0 n || distinct (pget old n) (pget new n)) d) (nm cs) (tr_mod r)).
  Proof.
    induction cs as [|c cs IH]; intro r; [destruct r; reflexivity|].
    cbn [map fold_left nm]. rewrite IH. reflexivity.
  Qed.

  Lemma fold_umodtrue old new r0 : forall cs r,
    fold_left (apply_uexpr old new r0) (map (fun c => UModTrue (tc_name c)) cs) r =
    mktr (tr_tx r) (tr_end r) (tr_op r) (tr_dat r)
         (fold_left (fun d n => set_assoc n true d) (nm cs) (tr_mod r)).
  Proof.
    induction cs as [|c cs IH]; intro r; [destruct r; reflexivity|].
    cbn [map fold_left nm]. rewrite IH. reflexivity.
  Qed.

  Lemma map_nm {A} (f : Z -> A) cs : map (fun n => (n, f n)) (nm cs) = map (fun c => (tc_name c, f (tc_name c))) cs.
  Proof. unfold nm. rewrite map_map. reflexivity. Qed.

  (* INSERT / UPDATE arms *)
  Lemma update_path_new old new r :
    row_wf r ->
    fold_left (apply_uexpr old new r) (gen_update_values g) r =
    mktr (tr_tx r) (tr_end r) OP_UPD
         (map (fun c => (tc_name c, pget new (tc_name c))) (tcols g))
         (if tg_tracker g
          then map (fun c => (tc_name c, mget r (tc_name c) || distinct (pget old (tc_name c)) (pget new (tc_name c)))) (tnonpk g)
          else []).
  Proof.
    intros [Hd Hm]. unfold gen_update_values. rewrite !fold_left_app. cbn [fold_left apply_uexpr].
    rewrite fold_uset. cbn [tr_tx tr_end tr_op tr_dat tr_mod row_of].
    rewrite (set_all (fun n => pget new n) (nm (tcols g)) (tr_dat r) tcols_nodup Hd), map_nm.
    destruct (tg_tracker g).
    - rewrite fold_umodor. cbn [tr_tx tr_end tr_op tr_dat tr_mod].
      rewrite (set_all (fun n => mget r n || distinct (pget old n) (pget new n)) (nm (tnonpk g)) (tr_mod r) tnonpk_nodup Hm), map_nm.
      reflexivity.
    - cbn [fold_left]. destruct (tr_mod r); [reflexivity | discriminate].
  Qed.

  (* DELETE arm *)
  Lemma update_path_old old new r :
    row_wf r ->
    fold_left (apply_uexpr old new r) (up_update (tp_del (gen g))) r =
    mktr (tr_tx r) (tr_end r) OP_DEL
         (map (fun c => (tc_name c, pget old (tc_name c))) (tcols g))
         (if tg_tracker g then map (fun c => (tc_name c, true)) (tnonpk g) else []).
  Proof.
    intros [Hd Hm]. unfold gen. cbn [tp_del gen_upsert up_update]. rewrite !fold_left_app. cbn [fold_left apply_uexpr].
    rewrite fold_uset. cbn [tr_tx tr_end tr_op tr_dat tr_mod row_of].
    rewrite (set_all (fun n => pget old n) (nm (tcols g)) (tr_dat r) tcols_nodup Hd), map_nm.
    destruct (tg_tracker g).
    - rewrite fold_umodtrue. cbn [tr_tx tr_end tr_op tr_dat tr_mod].
      rewrite (set_all (fun _ => true) (nm (tnonpk g)) (tr_mod r) tnonpk_nodup Hm), map_nm. reflexivity.
    - cbn [fold_left]. destruct (tr_mod r); [reflexivity | discriminate].
  Qed.

  (* ---- rows of events ---- *)
  Lemma pget_first (l : prow) : NoDup (map fst l) -> forall x, In x l -> pget l (fst x) = snd x.
  Proof.
    unfold pget. induction l as [|a l IH]; simpl; intros ND x Hx; [contradiction|].
    inversion ND as [|? ? Hn ND']; subst. destruct Hx as [->|Hx].
    - rewrite Z.eqb_refl. reflexivity.
    - destruct (fst a =? fst x) eqn:E.
      + apply Z.eqb_eq in E. exfalso. apply Hn. rewrite E. apply in_map. exact Hx.
      + apply IH; assumption.
  Qed.

  Definition shape_ok (p : prow) : Prop := map fst p = nm (tg_cols g).

  Lemma row_canon p : shape_ok p -> p = map (fun c => (tc_name c, pget p (tc_name c))) (tg_cols g).
  Proof.
    intro H. assert (ND : NoDup (map fst p)) by (rewrite H; exact names_nodup).
    transitivity (map (fun n => (n, pget p n)) (map fst p)).
    - rewrite map_map. rewrite <- (map_id p) at 1. apply map_ext_in. intros x Hx.
      rewrite (pget_first p ND x Hx). destruct x; reflexivity.
    - rewrite H. unfold nm. rewrite map_map. reflexivity.
  Qed.

  Lemma name_inj a b : In a (tg_cols g) -> In b (tg_cols g) -> tc_name a = tc_name b -> a = b.
  Proof.
    revert names_nodup. generalize (tg_cols g). induction l as [|c l IH]; simpl; intros ND Ha Hb E; [contradiction|].
    inversion ND as [|? ? Hn ND']; subst. destruct Ha as [->|Ha], Hb as [->|Hb]; auto.
    - exfalso. apply Hn. rewrite E. apply in_map. exact Hb.
    - exfalso. apply Hn. rewrite <- E. apply in_map. exact Ha.
  Qed.

  Lemma excluded_mem c : In c (tg_cols g) ->
    existsb (Z.eqb (tc_name c)) (tp_excluded (gen g)) = tc_excl c.
  Proof.
    intro Hc. unfold gen. cbn [tp_excluded]. destruct (tc_excl c) eqn:E.
    - apply existsb_exists. exists (tc_name c). split; [|apply Z.eqb_refl].
      apply in_map. apply filter_In. auto.
    - destruct (existsb _ _) eqn:X; [|reflexivity]. exfalso.
      apply existsb_exists in X as [n [Hn En]]. apply Z.eqb_eq in En. subst n.
      apply in_map_iff in Hn as [c' [E' Hc']]. apply filter_In in Hc' as [Hc' Ex].
      rewrite (name_inj c' c Hc' Hc E') in Ex. congruence.
  Qed.

  Lemma noop_eq o n : shape_ok n ->
    noop_update (gen g) o n =
    forallb (fun c => tc_excl c || val_eqb (pget o (tc_name c)) (pget n (tc_name c))) (tg_cols g).
  Proof.
    intro H. unfold noop_update. rewrite (row_canon n H) at 1. rewrite forallb_map'.
    apply forallb_ext_in. intros c Hc. cbn [fst snd]. rewrite (excluded_mem c Hc).
    unfold distinct. rewrite negb_involutive. apply orb_comm.
  Qed.

  (* ---- invariants of the version table ---- *)
  Record inv (t : ttable) : Prop := mkinv {
    inv_wf : forall r, In r t -> row_wf r;
    (* under the validity strategy the open versions of one entity all belong to one transaction *)
    inv_open : tg_validity g = true -> forall p r1 r2, In r1 t -> In r2 t ->
               same_pk g r1 p = true -> same_pk g r2 p = true ->
               tr_end r1 = None -> tr_end r2 = None -> tr_tx r1 = tr_tx r2;
    (* a closed version was closed by a later transaction that has a version in the table *)
    inv_end : forall r e, In r t -> tr_end r = Some e -> tr_tx r < e /\ exists r', In r' t /\ tr_tx r' = e;
    (* DELETE versions have every flag set *)
    inv_del : forall r c, In r t -> tr_op r = OP_DEL -> tg_tracker g = true -> In c (tnonpk g) ->
              mget r (tc_name c) = true }.

  (* what a row event may be, relative to the table it arrives at: transaction ids do not go backwards,
     rows carry exactly the configured columns, and a row is only inserted where this transaction has no
     version of it yet or has deleted it *)
  Definition ev_ok (T : Z) (e : tevent) (t : ttable) : Prop :=
    (forall r, In r t -> tr_tx r <= T) /\
    match e with
    | TIns n => shape_ok n /\ (forall r, In r t -> tr_tx r = T -> same_pk g r n = true -> tr_op r = OP_DEL)
    | TUpd o n => shape_ok o /\ shape_ok n
    | TDel o => shape_ok o
    end.

  Definition at_T (T : Z) (cur : prow) (r : trow) : bool := (tr_tx r =? T) && same_pk g r cur.

  (* the row this transaction already wrote for the entity is still open *)
  Lemma current_row_open T cur t r :
    inv t -> (forall r, In r t -> tr_tx r <= T) -> In r t -> at_T T cur r = true -> tr_end r = None.
  Proof.
    intros I Hmax Hr Ha. apply andb_true_iff in Ha as [Ht _]. apply Z.eqb_eq in Ht.
    destruct (tr_end r) as [e|] eqn:E; [|reflexivity]. exfalso.
    destruct (inv_end t I r e Hr E) as [Hlt [r' [Hr' Er']]]. specialize (Hmax r' Hr'). lia.
  Qed.

  (* ---- the validity UPDATE ---- *)
  Definition close_open (T : Z) (cur : prow) (t : ttable) : ttable :=
    let open := filter (fun r => match tr_end r with None => same_pk g r cur | Some _ => false end) t in
    match map tr_tx open with
    | [] => t
    | x :: xs => let m := fold_left Z.min xs x in
                 map (fun r => if (tr_tx r =? m) && same_pk g r cur
                               then mktr (tr_tx r) (Some T) (tr_op r) (tr_dat r) (tr_mod r) else r) t
    end.

  Lemma filter_ext_in2 {A} (f h : A -> bool) l : (forall x, In x l -> f x = h x) -> filter f l = filter h l.
  Proof.
    induction l as [|a l IH]; intro H; simpl; [reflexivity|].
    rewrite (H a (or_introl eq_refl)), IH; [reflexivity|]. intros x Hx. apply H. right. exact Hx.
  Qed.

  Lemma validity_no_current s old new T t :
    existsb (at_T T (row_of s old new)) t = false ->
    exec_validity (mkval (map (fun c => (tc_name c, s)) (tpk g))) T old new t = close_open T (row_of s old new) t.
  Proof.
    intro Hno. unfold exec_validity, close_open. cbn [va_crit].
    assert (Hf : filter (fun r => match tr_end r with
                                  | None => negb (tr_tx r =? T) && crit_holds (map (fun c => (tc_name c, s)) (tpk g)) old new r
                                  | Some _ => false end) t =
                 filter (fun r => match tr_end r with None => same_pk g r (row_of s old new) | Some _ => false end) t).
    { apply filter_ext_in2. intros r Hr. destruct (tr_end r); [reflexivity|]. rewrite crit_same_pk.
      destruct (tr_tx r =? T) eqn:Et; [|reflexivity]. cbn [negb andb].
      destruct (same_pk g r (row_of s old new)) eqn:Es; [|reflexivity]. exfalso.
      assert (existsb (at_T T (row_of s old new)) t = true).
      { apply existsb_exists. exists r. split; [exact Hr|]. unfold at_T. rewrite Et, Es. reflexivity. }
      congruence. }
    rewrite Hf. destruct (map tr_tx _); [reflexivity|].
    apply map_ext. intro r. rewrite crit_same_pk. reflexivity.
  Qed.

  Lemma validity_with_current s old new T t :
    inv t -> tg_validity g = true -> (forall r, In r t -> tr_tx r <= T) ->
    existsb (at_T T (row_of s old new)) t = true ->
    exec_validity (mkval (map (fun c => (tc_name c, s)) (tpk g))) T old new t = t.
  Proof.
    intros I Hv Hmax Hex. apply existsb_exists in Hex as [r0 [Hr0 Ha0]].
    pose proof (current_row_open T _ t r0 I Hmax Hr0 Ha0) as Hopen0.
    apply andb_true_iff in Ha0 as [Ht0 Hs0]. apply Z.eqb_eq in Ht0.
    unfold exec_validity. cbn [va_crit].
    assert (Hf : filter (fun r => match tr_end r with
                                  | None => negb (tr_tx r =? T) && crit_holds (map (fun c => (tc_name c, s)) (tpk g)) old new r
                                  | Some _ => false end) t = []).
    { apply filter_none. intros r Hr. destruct (tr_end r) eqn:Er; [reflexivity|]. rewrite crit_same_pk.
      destruct (same_pk g r (row_of s old new)) eqn:Es; [|apply andb_false_r].
      rewrite (inv_open t I Hv (row_of s old new) r r0 Hr Hr0 Es Hs0 Er Hopen0), Ht0, Z.eqb_refl. reflexivity. }
    rewrite Hf. reflexivity.
  Qed.

  (* ---- normal forms of the program's pieces ---- *)
  Lemma prog_validity s old new T t :
    fold_left (fun t v => exec_validity v T old new t) (gen_validity g s) t =
    if tg_validity g then exec_validity (mkval (map (fun c => (tc_name c, s)) (tpk g))) T old new t else t.
  Proof. unfold gen_validity. destruct (tg_validity g); reflexivity. Qed.

  Lemma existsb_ext' {A} (f h : A -> bool) l : (forall x, f x = h x) -> existsb f l = existsb h l.
  Proof. intro H. induction l as [|a l IH]; simpl; [reflexivity | rewrite H, IH; reflexivity]. Qed.

  Lemma exec_upsert_norm u s T old new t :
    up_crit u = map (fun c => (tc_name c, s)) (tpk g) ->
    exec_upsert u T old new t =
    if existsb (at_T T (row_of s old new)) t
    then map (fun r => if at_T T (row_of s old new) r then fold_left (apply_uexpr old new r) (up_update u) r else r) t
    else t ++ [pair_insert (up_cols u) (up_vals u) old new (mktr T None (up_optype u) [] [])].
  Proof.
    intro Hc. unfold exec_upsert. rewrite Hc.
    rewrite (existsb_ext' (fun r => (tr_tx r =? T) && crit_holds (map (fun c => (tc_name c, s)) (tpk g)) old new r)
                          (at_T T (row_of s old new))) by (intro r; unfold at_T; rewrite crit_same_pk; reflexivity).
    destruct (existsb (at_T T (row_of s old new)) t); [|reflexivity].
    apply map_ext. intro r. unfold at_T. rewrite crit_same_pk. reflexivity.
  Qed.

  Lemma close_open_at T T' cur cur' t :
    existsb (at_T T cur) (close_open T' cur' t) = existsb (at_T T cur) t.
  Proof.
    unfold close_open. destruct (map tr_tx _); [reflexivity|].
    induction t as [|r t IH]; [reflexivity|]. cbn [map existsb]. rewrite IH. f_equal.
    destruct ((tr_tx r =? _) && same_pk g r cur'); reflexivity.
  Qed.

  (* the table after the validity statements of one event *)
  Definition after_validity (s : src) (old new : prow) (T : Z) (t : ttable) : ttable :=
    fold_left (fun t v => exec_validity v T old new t) (gen_validity g s) t.

  Lemma after_validity_current s old new T t :
    inv t -> (forall r, In r t -> tr_tx r <= T) -> existsb (at_T T (row_of s old new)) t = true ->
    after_validity s old new T t = t.
  Proof.
    intros I Hmax Hex. unfold after_validity. rewrite prog_validity. destruct (tg_validity g) eqn:Hv; [|reflexivity].
    apply validity_with_current; assumption.
  Qed.

  Lemma after_validity_fresh s old new T t :
    existsb (at_T T (row_of s old new)) t = false ->
    after_validity s old new T t = if tg_validity g then close_open T (row_of s old new) t else t.
  Proof.
    intro Hno. unfold after_validity. rewrite prog_validity. destruct (tg_validity g); [|reflexivity].
    apply validity_no_current. exact Hno.
  Qed.

  Lemma after_validity_at s old new T t :
    inv t -> (forall r, In r t -> tr_tx r <= T) ->
    existsb (at_T T (row_of s old new)) (after_validity s old new T t) = existsb (at_T T (row_of s old new)) t.
  Proof.
    intros I Hmax. destruct (existsb (at_T T (row_of s old new)) t) eqn:E.
    - rewrite after_validity_current by assumption. exact E.
    - rewrite after_validity_fresh by exact E. destruct (tg_validity g); [rewrite close_open_at|]; exact E.
  Qed.

  (* ---- normal forms of the object path ---- *)
  Definition dat_of_row (p : prow) := map (fun c => (tc_name c, pget p (tc_name c))) (tcols g).

  Lemma spec_ins T n t :
    spec_step g T (TIns n) t =
    if existsb (at_T T n) t
    then map (fun r => if at_T T n r
                       then mktr T (tr_end r) OP_UPD (dat_of_row n)
                                 (map (fun cf => (fst cf, snd cf || mget r (fst cf)))
                                      (if tg_tracker g then map (fun c => (tc_name c, true)) (tnonpk g) else []))
                       else r) t
    else (if tg_validity g then close_open T n t else t) ++
         [mktr T None OP_INS (dat_of_row n) (if tg_tracker g then map (fun c => (tc_name c, true)) (tnonpk g) else [])].
  Proof. reflexivity. Qed.

  Lemma spec_del T o t :
    spec_step g T (TDel o) t =
    if existsb (at_T T o) t
    then map (fun r => if at_T T o r
                       then mktr T (tr_end r) OP_DEL (dat_of_row o)
                                 (map (fun cf => (fst cf, snd cf || mget r (fst cf)))
                                      (if tg_tracker g then map (fun c => (tc_name c, true)) (tnonpk g) else []))
                       else r) t
    else (if tg_validity g then close_open T o t else t) ++
         [mktr T None OP_DEL (dat_of_row o) (if tg_tracker g then map (fun c => (tc_name c, true)) (tnonpk g) else [])].
  Proof. reflexivity. Qed.

  Lemma spec_upd T o n t :
    spec_step g T (TUpd o n) t =
    if forallb (fun c => tc_excl c || val_eqb (pget o (tc_name c)) (pget n (tc_name c))) (tg_cols g) then t else
    if existsb (at_T T n) t
    then map (fun r => if at_T T n r
                       then mktr T (tr_end r) OP_UPD (dat_of_row n)
                                 (map (fun cf => (fst cf, snd cf || mget r (fst cf)))
                                      (if tg_tracker g
                                       then map (fun c => (tc_name c, distinct (pget o (tc_name c)) (pget n (tc_name c)))) (tnonpk g)
                                       else []))
                       else r) t
    else (if tg_validity g then close_open T n t else t) ++
         [mktr T None OP_UPD (dat_of_row n)
               (if tg_tracker g
                then map (fun c => (tc_name c, distinct (pget o (tc_name c)) (pget n (tc_name c)))) (tnonpk g) else [])].
  Proof. reflexivity. Qed.

  Lemma at_T_tx T cur r : at_T T cur r = true -> tr_tx r = T.
  Proof. intro H. apply andb_true_iff in H as [H _]. apply Z.eqb_eq. exact H. Qed.

  (* ---- one event: the generated trigger program does what the object path does ---- *)
  Theorem step_eq T e t : inv t -> ev_ok T e t -> texec (gen g) (Some T) e t = spec_step g T e t.
  Proof.
    intros I [Hmax He]. destruct e as [n | o n | o].
    - (* INSERT *)
      destruct He as [Hshape Hins]. rewrite spec_ins.
      change (texec (gen g) (Some T) (TIns n) t)
        with (exec_upsert (tp_ins (gen g)) T [] n (after_validity NEW [] n T t)).
      rewrite (exec_upsert_norm _ NEW) by reflexivity.
      rewrite (after_validity_at NEW [] n T t I Hmax). cbn [row_of].
      destruct (existsb (at_T T n) t) eqn:Ex.
      + rewrite (after_validity_current NEW [] n T t I Hmax Ex).
        apply map_ext_in. intros r Hr. destruct (at_T T n r) eqn:Ea; [|reflexivity].
        change (up_update (tp_ins (gen g))) with (gen_update_values g).
        rewrite (update_path_new [] n r (inv_wf t I r Hr)). rewrite (at_T_tx T n r Ea). unfold dat_of_row. f_equal.
        destruct (tg_tracker g) eqn:Htr; [|reflexivity]. rewrite map_map. apply map_ext_in. intros c Hc. cbn [fst snd].
        assert (Hop : tr_op r = OP_DEL).
        { apply Hins; [exact Hr | apply (at_T_tx T n r Ea) | apply andb_true_iff in Ea as [_ Ea]; exact Ea]. }
        rewrite (inv_del t I r c Hr Hop Htr Hc). reflexivity.
      + rewrite (after_validity_fresh NEW [] n T t Ex). cbn [row_of]. f_equal. f_equal.
        unfold gen. cbn [tp_ins]. apply (gen_pair_insert g NEW OP_INS). intro r. apply pair_insert_mods_true.
    - (* UPDATE *)
      destruct He as [Hso Hsn]. rewrite spec_upd. cbn [texec]. rewrite (noop_eq o n Hsn).
      destruct (forallb _ (tg_cols g)); [reflexivity|].
      change (exec_upsert (tp_upd (gen g)) T o n (fold_left (fun t v => exec_validity v T o n t) (tp_upd_val (gen g)) t))
        with (exec_upsert (tp_upd (gen g)) T o n (after_validity NEW o n T t)).
      rewrite (exec_upsert_norm _ NEW) by reflexivity.
      rewrite (after_validity_at NEW o n T t I Hmax). cbn [row_of].
      destruct (existsb (at_T T n) t) eqn:Ex.
      + rewrite (after_validity_current NEW o n T t I Hmax Ex).
        apply map_ext_in. intros r Hr. destruct (at_T T n r) eqn:Ea; [|reflexivity].
        change (up_update (tp_upd (gen g))) with (gen_update_values g).
        rewrite (update_path_new o n r (inv_wf t I r Hr)). rewrite (at_T_tx T n r Ea). unfold dat_of_row. f_equal.
        destruct (tg_tracker g); [|reflexivity]. rewrite map_map. apply map_ext. intro c. cbn [fst snd].
        rewrite orb_comm. reflexivity.
      + rewrite (after_validity_fresh NEW o n T t Ex). cbn [row_of]. f_equal. f_equal.
        unfold gen. cbn [tp_upd]. apply (gen_pair_insert g NEW OP_UPD). intro r. apply pair_insert_mods_distinct.
    - (* DELETE *)
      rewrite spec_del.
      change (texec (gen g) (Some T) (TDel o) t)
        with (exec_upsert (tp_del (gen g)) T o [] (after_validity OLD o [] T t)).
      rewrite (exec_upsert_norm _ OLD) by reflexivity.
      rewrite (after_validity_at OLD o [] T t I Hmax). cbn [row_of].
      destruct (existsb (at_T T o) t) eqn:Ex.
      + rewrite (after_validity_current OLD o [] T t I Hmax Ex).
        apply map_ext_in. intros r Hr. destruct (at_T T o r) eqn:Ea; [|reflexivity].
        rewrite (update_path_old o [] r (inv_wf t I r Hr)). rewrite (at_T_tx T o r Ea). unfold dat_of_row. f_equal.
        destruct (tg_tracker g); [|reflexivity]. rewrite map_map. reflexivity.
      + rewrite (after_validity_fresh OLD o [] T t Ex). cbn [row_of]. f_equal. f_equal.
        unfold gen. cbn [tp_del]. apply (gen_pair_insert g OLD OP_DEL). intro r. apply pair_insert_mods_true.
  Qed.

  (* ---- the invariants are preserved ---- *)
  Lemma sql_eq_true_eq a b : sql_eq a b = true -> a = b.
  Proof. intro H. apply sql_eq_some in H as [x [-> ->]]. reflexivity. Qed.

  Lemma tpk_in_tcols c : In c (tpk g) -> In c (tcols g).
  Proof. unfold tpk. intro H. apply filter_In in H as [H _]. exact H. Qed.

  Lemma tget_dat_of_row tx e op md cur c :
    In c (tcols g) -> tget (mktr tx e op (dat_of_row cur) md) (tc_name c) = pget cur (tc_name c).
  Proof.
    intro Hc. unfold tget, dat_of_row. cbn [tr_dat]. rewrite <- (map_nm (fun n => pget cur n) (tcols g)).
    rewrite (find_assoc_map (fun n => pget cur n) (nm (tcols g)) (tc_name c)); [reflexivity|].
    unfold nm. apply in_map. exact Hc.
  Qed.

  Lemma same_pk_rewritten tx e op md cur r p :
    same_pk g r cur = true -> same_pk g (mktr tx e op (dat_of_row cur) md) p = same_pk g r p.
  Proof.
    intro Hs. unfold same_pk in *. apply forallb_ext_in. intros c Hc.
    rewrite (tget_dat_of_row tx e op md cur c (tpk_in_tcols c Hc)).
    rewrite forallb_forall in Hs. rewrite (sql_eq_true_eq _ _ (Hs c Hc)). reflexivity.
  Qed.

  Lemma same_pk_new tx e op md cur p :
    same_pk g (mktr tx e op (dat_of_row cur) md) p = forallb (fun c => sql_eq (pget cur (tc_name c)) (pget p (tc_name c))) (tpk g).
  Proof.
    unfold same_pk. apply forallb_ext_in. intros c Hc. rewrite (tget_dat_of_row tx e op md cur c (tpk_in_tcols c Hc)). reflexivity.
  Qed.

  (* two rows with the key of p: the second has the key of the first one's source row *)
  Lemma same_pk_trans cur p r :
    forallb (fun c => sql_eq (pget cur (tc_name c)) (pget p (tc_name c))) (tpk g) = true ->
    same_pk g r p = true -> same_pk g r cur = true.
  Proof.
    intros H1 H2. unfold same_pk in *. rewrite forallb_forall in *. intros c Hc.
    specialize (H1 c Hc). specialize (H2 c Hc).
    apply sql_eq_some in H1 as [x [E1 E2]]. apply sql_eq_some in H2 as [y [E3 E4]].
    rewrite E3, E1. rewrite E2 in E4. inversion E4. subst. apply Z.eqb_refl.
  Qed.

  Definition flags_wf (fl : list (Z * bool)) : Prop := map fst fl = (if tg_tracker g then nm (tnonpk g) else []).

  Lemma flags_wf_const (b : tcol -> bool) :
    flags_wf (if tg_tracker g then map (fun c => (tc_name c, b c)) (tnonpk g) else []).
  Proof. unfold flags_wf. destruct (tg_tracker g); [rewrite map_map; reflexivity | reflexivity]. Qed.

  Lemma dat_of_row_keys cur : map fst (dat_of_row cur) = nm (tcols g).
  Proof. unfold dat_of_row, nm. rewrite map_map. reflexivity. Qed.

  Lemma mget_true_flags tx e op dat (h : tcol -> bool) c :
    tg_tracker g = true -> In c (tnonpk g) -> (forall c', In c' (tnonpk g) -> h c' = true) ->
    mget (mktr tx e op dat (map (fun c => (tc_name c, h c)) (tnonpk g))) (tc_name c) = true.
  Proof.
    intros _ Hc Hall. unfold mget. cbn [tr_mod].
    assert (E : map (fun c => (tc_name c, h c)) (tnonpk g) = map (fun c => (tc_name c, true)) (tnonpk g)).
    { apply map_ext_in. intros c' Hc'. rewrite (Hall c' Hc'). reflexivity. }
    rewrite E. rewrite <- (map_nm (fun _ => true) (tnonpk g)).
    rewrite (find_assoc_map (fun _ => true) (nm (tnonpk g)) (tc_name c)); [reflexivity|].
    unfold nm. apply in_map. exact Hc.
  Qed.

  (* shape A: the row this transaction already wrote for the entity is rewritten in place *)
  Lemma inv_rewrite T cur op' (fl : trow -> list (Z * bool)) t :
    inv t ->
    (forall r, flags_wf (fl r)) ->
    (op' = OP_DEL -> tg_tracker g = true -> forall r c, In c (tnonpk g) ->
       mget (mktr T (tr_end r) op' (dat_of_row cur) (fl r)) (tc_name c) = true) ->
    inv (map (fun r => if at_T T cur r then mktr T (tr_end r) op' (dat_of_row cur) (fl r) else r) t).
  Proof.
    intros I Hfl Hdel.
    set (f := fun r => if at_T T cur r then mktr T (tr_end r) op' (dat_of_row cur) (fl r) else r).
    assert (Htx : forall r, tr_tx (f r) = tr_tx r).
    { intro r. unfold f. destruct (at_T T cur r) eqn:E; [|reflexivity]. cbn [tr_tx]. symmetry. apply (at_T_tx T cur r E). }
    assert (Hend : forall r, tr_end (f r) = tr_end r) by (intro r; unfold f; destruct (at_T T cur r); reflexivity).
    assert (Hpk : forall r p, same_pk g (f r) p = same_pk g r p).
    { intros r p. unfold f. destruct (at_T T cur r) eqn:E; [|reflexivity].
      apply same_pk_rewritten. apply andb_true_iff in E as [_ E]. exact E. }
    constructor.
    - intros r' Hr'. apply in_map_iff in Hr' as [r [<- Hr]]. unfold f. destruct (at_T T cur r).
      + split; [apply dat_of_row_keys | apply Hfl].
      + apply (inv_wf t I r Hr).
    - intros Hv p r1' r2' H1 H2 S1 S2 E1 E2.
      apply in_map_iff in H1 as [r1 [<- H1]]. apply in_map_iff in H2 as [r2 [<- H2]].
      rewrite Hpk in S1, S2. rewrite Hend in E1, E2. rewrite !Htx.
      exact (inv_open t I Hv p r1 r2 H1 H2 S1 S2 E1 E2).
    - intros r' e Hr' Ee. apply in_map_iff in Hr' as [r [<- Hr]]. rewrite Hend in Ee. rewrite Htx.
      destruct (inv_end t I r e Hr Ee) as [Hlt [r0 [Hr0 E0]]]. split; [exact Hlt|].
      exists (f r0). split; [apply in_map; exact Hr0 | rewrite Htx; exact E0].
    - intros r' c Hr' Hop Htr Hc. apply in_map_iff in Hr' as [r [<- Hr]]. unfold f in *.
      destruct (at_T T cur r).
      + cbn [tr_op] in Hop. apply (Hdel Hop Htr r c Hc).
      + apply (inv_del t I r c Hr Hop Htr Hc).
  Qed.

  (* shape B: the predecessor is closed and a new row appended *)
  Lemma fold_min_const x : forall xs, (forall y, In y xs -> y = x) -> fold_left Z.min xs x = x.
  Proof.
    induction xs as [|a xs IH]; intro H; [reflexivity|]. cbn [fold_left].
    rewrite (H a (or_introl eq_refl)), Z.min_id. apply IH. intros y Hy. apply H. right. exact Hy.
  Qed.

  Definition closes (T : Z) (cur : prow) (r r' : trow) : Prop :=
    tr_tx r' = tr_tx r /\ tr_op r' = tr_op r /\ tr_dat r' = tr_dat r /\ tr_mod r' = tr_mod r /\
    (tr_end r' = tr_end r \/ (tr_end r' = Some T /\ same_pk g r cur = true)).

  Lemma closes_refl T cur r : closes T cur r r.
  Proof. unfold closes. auto 6. Qed.

  Lemma close_open_rows T cur t r' :
    In r' (close_open T cur t) -> exists r, In r t /\ closes T cur r r'.
  Proof.
    unfold close_open. destruct (map tr_tx _) as [|x xs].
    - intro H. exists r'. split; [exact H | apply closes_refl].
    - intro H. apply in_map_iff in H as [r [E Hr]]. exists r. split; [exact Hr|].
      destruct ((tr_tx r =? fold_left Z.min xs x) && same_pk g r cur) eqn:Ec; [|subst r'; apply closes_refl].
      subst r'. apply andb_true_iff in Ec as [_ Es]. unfold closes. cbn. auto 8.
  Qed.

  Lemma close_open_keeps_tx T cur t r : In r t -> exists r', In r' (close_open T cur t) /\ tr_tx r' = tr_tx r.
  Proof.
    intro Hr. unfold close_open. destruct (map tr_tx _) as [|x xs]; [exists r; auto|].
    eexists. split; [apply in_map; exact Hr|]. destruct (_ && _); reflexivity.
  Qed.

  (* under the invariant every open version of the entity gets closed *)
  Lemma close_open_closes_all T cur t r' :
    inv t -> tg_validity g = true -> In r' (close_open T cur t) -> same_pk g r' cur = true -> tr_end r' <> None.
  Proof.
    intros I Hv. unfold close_open.
    set (open := filter (fun r => match tr_end r with None => same_pk g r cur | Some _ => false end) t).
    destruct (map tr_tx open) as [|x xs] eqn:Eo.
    - intros Hr Hs E. assert (Hin : In r' open).
      { unfold open. apply filter_In. split; [exact Hr|]. rewrite E. exact Hs. }
      apply (in_map tr_tx) in Hin. rewrite Eo in Hin. exact Hin.
    - intros Hr Hs. apply in_map_iff in Hr as [r [E Hr]].
      destruct (tr_end r) as [e|] eqn:Ee.
      + subst r'. destruct (_ && _); cbn [tr_end]; [discriminate | rewrite Ee; discriminate].
      + assert (Hsr : same_pk g r cur = true).
        { subst r'. destruct (_ && _); exact Hs. }
        assert (Hall : forall y, In y (x :: xs) -> y = tr_tx r).
        { intros y Hy. rewrite <- Eo in Hy. apply in_map_iff in Hy as [r0 [<- H0]].
          unfold open in H0. apply filter_In in H0 as [H0 C0]. destruct (tr_end r0) eqn:E0; [discriminate|].
          exact (inv_open t I Hv cur r0 r H0 Hr C0 Hsr E0 Ee). }
        assert (Hm : fold_left Z.min xs x = tr_tx r).
        { rewrite (Hall x (or_introl eq_refl)). apply fold_min_const. intros y Hy.
          rewrite (Hall y (or_intror Hy)). reflexivity. }
        subst r'. rewrite Hm, Z.eqb_refl, Hsr. cbn. discriminate.
  Qed.

  Definition closed_table (T : Z) (cur : prow) (t : ttable) : ttable :=
    if tg_validity g then close_open T cur t else t.

  Lemma closed_table_rows T cur t r' : In r' (closed_table T cur t) -> exists r, In r t /\ closes T cur r r'.
  Proof.
    unfold closed_table. destruct (tg_validity g); [apply close_open_rows|].
    intro H. exists r'. split; [exact H | apply closes_refl].
  Qed.

  Lemma closed_table_keeps_tx T cur t r : In r t -> exists r', In r' (closed_table T cur t) /\ tr_tx r' = tr_tx r.
  Proof.
    unfold closed_table. destruct (tg_validity g); [apply close_open_keeps_tx|]. intro H. exists r. auto.
  Qed.

  Lemma closes_same_pk T cur r r' p : closes T cur r r' -> same_pk g r' p = same_pk g r p.
  Proof. intros [_ [_ [Hd _]]]. unfold same_pk, tget. rewrite Hd. reflexivity. Qed.

  Lemma inv_append T cur kind fl t :
    inv t -> (forall r, In r t -> tr_tx r <= T) -> existsb (at_T T cur) t = false ->
    flags_wf fl ->
    (kind = OP_DEL -> tg_tracker g = true -> forall c, In c (tnonpk g) ->
       mget (mktr T None kind (dat_of_row cur) fl) (tc_name c) = true) ->
    inv (closed_table T cur t ++ [mktr T None kind (dat_of_row cur) fl]).
  Proof.
    intros I Hmax Hno Hfl Hdel. set (nr := mktr T None kind (dat_of_row cur) fl).
    assert (Hnot : forall r, In r t -> same_pk g r cur = true -> tr_tx r < T).
    { intros r Hr Hs. specialize (Hmax r Hr). destruct (Z.eq_dec (tr_tx r) T) as [E|E]; [|lia]. exfalso.
      assert (existsb (at_T T cur) t = true).
      { apply existsb_exists. exists r. split; [exact Hr|]. unfold at_T. rewrite E, Z.eqb_refl, Hs. reflexivity. }
      congruence. }
    constructor.
    - (* well-formed rows *)
      intros r' Hr'. apply in_app_or in Hr' as [Hr'|[<-|[]]].
      + destruct (closed_table_rows T cur t r' Hr') as [r [Hr [_ [_ [Hd [Hm _]]]]]].
        destruct (inv_wf t I r Hr) as [W1 W2]. split; [rewrite Hd; exact W1 | rewrite Hm; exact W2].
      + split; [apply dat_of_row_keys | exact Hfl].
    - (* one open transaction per entity *)
      intros Hv p r1' r2' H1 H2 S1 S2 E1 E2.
      assert (Hold : forall r', In r' (closed_table T cur t) -> same_pk g r' p = true -> tr_end r' = None ->
                                same_pk g nr p = true -> False).
      { intros r' Hr' Sr' Er' Sn. unfold closed_table in Hr'. rewrite Hv in Hr'.
        apply (close_open_closes_all T cur t r' I Hv Hr'); [|exact Er'].
        apply (same_pk_trans cur p r'); [|exact Sr']. unfold nr in Sn. rewrite same_pk_new in Sn. exact Sn. }
      apply in_app_or in H1 as [H1|[<-|[]]]; apply in_app_or in H2 as [H2|[<-|[]]].
      + destruct (closed_table_rows T cur t r1' H1) as [r1 [Hr1 C1]].
        destruct (closed_table_rows T cur t r2' H2) as [r2 [Hr2 C2]].
        rewrite (closes_same_pk T cur r1 r1' p C1) in S1. rewrite (closes_same_pk T cur r2 r2' p C2) in S2.
        destruct C1 as [X1 [_ [_ [_ [F1|[F1 _]]]]]]; [|rewrite F1 in E1; discriminate].
        destruct C2 as [X2 [_ [_ [_ [F2|[F2 _]]]]]]; [|rewrite F2 in E2; discriminate].
        rewrite X1, X2. apply (inv_open t I Hv p r1 r2 Hr1 Hr2 S1 S2); congruence.
      + exfalso. exact (Hold r1' H1 S1 E1 S2).
      + exfalso. exact (Hold r2' H2 S2 E2 S1).
      + reflexivity.
    - (* closed rows were closed by a later transaction present in the table *)
      intros r' e Hr' Ee. apply in_app_or in Hr' as [Hr'|[<-|[]]]; [|discriminate].
      destruct (closed_table_rows T cur t r' Hr') as [r [Hr [X [_ [_ [_ [F|[F Sp]]]]]]]].
      + rewrite F in Ee. destruct (inv_end t I r e Hr Ee) as [Hlt [r0 [Hr0 E0]]]. rewrite X. split; [exact Hlt|].
        destruct (closed_table_keeps_tx T cur t r0 Hr0) as [r0' [Hr0' E0']].
        exists r0'. split; [apply in_or_app; left; exact Hr0' | congruence].
      + rewrite F in Ee. inversion Ee. subst e. rewrite X. split; [apply Hnot; assumption|].
        exists nr. split; [apply in_or_app; right; left; reflexivity | reflexivity].
    - (* DELETE versions have all flags set *)
      intros r' c Hr' Hop Htr Hc. apply in_app_or in Hr' as [Hr'|[<-|[]]].
      + destruct (closed_table_rows T cur t r' Hr') as [r [Hr [_ [Ho [_ [Hm _]]]]]].
        unfold mget. rewrite Hm. apply (inv_del t I r c Hr); [congruence | exact Htr | exact Hc].
      + apply (Hdel Hop Htr c Hc).
  Qed.

  Lemma flags_wf_or (nf : list (Z * bool)) (r : trow) :
    flags_wf nf -> flags_wf (map (fun cf => (fst cf, snd cf || mget r (fst cf))) nf).
  Proof. unfold flags_wf. intro H. rewrite map_map. cbn [fst]. exact H. Qed.

  Theorem step_inv T e t : inv t -> ev_ok T e t -> inv (spec_step g T e t).
  Proof.
    intros I [Hmax He]. destruct e as [n | o n | o].
    - rewrite spec_ins. destruct (existsb (at_T T n) t) eqn:Ex.
      + apply (inv_rewrite T n OP_UPD
                 (fun r => map (fun cf => (fst cf, snd cf || mget r (fst cf)))
                               (if tg_tracker g then map (fun c => (tc_name c, true)) (tnonpk g) else [])) t I).
        * intro r. apply flags_wf_or. apply (flags_wf_const (fun _ => true)).
        * intro H. discriminate H.
      + apply (inv_append T n OP_INS _ t I Hmax Ex (flags_wf_const (fun _ => true))).
        intro H. discriminate H.
    - rewrite spec_upd. destruct (forallb _ (tg_cols g)); [exact I|].
      destruct (existsb (at_T T n) t) eqn:Ex.
      + apply (inv_rewrite T n OP_UPD
                 (fun r => map (fun cf => (fst cf, snd cf || mget r (fst cf)))
                               (if tg_tracker g
                                then map (fun c => (tc_name c, distinct (pget o (tc_name c)) (pget n (tc_name c)))) (tnonpk g)
                                else [])) t I).
        * intro r. apply flags_wf_or.
          apply (flags_wf_const (fun c => distinct (pget o (tc_name c)) (pget n (tc_name c)))).
        * intro H. discriminate H.
      + apply (inv_append T n OP_UPD _ t I Hmax Ex
                 (flags_wf_const (fun c => distinct (pget o (tc_name c)) (pget n (tc_name c))))).
        intro H. discriminate H.
    - rewrite spec_del. destruct (existsb (at_T T o) t) eqn:Ex.
      + apply (inv_rewrite T o OP_DEL
                 (fun r => map (fun cf => (fst cf, snd cf || mget r (fst cf)))
                               (if tg_tracker g then map (fun c => (tc_name c, true)) (tnonpk g) else [])) t I).
        * intro r. apply flags_wf_or. apply (flags_wf_const (fun _ => true)).
        * intros _ Htr r c Hc. rewrite Htr, map_map. cbn [fst snd].
          apply (mget_true_flags T (tr_end r) OP_DEL (dat_of_row o) (fun c => true || mget r (tc_name c)) c Htr Hc).
          intros c' _. reflexivity.
      + apply (inv_append T o OP_DEL _ t I Hmax Ex (flags_wf_const (fun _ => true))).
        intros _ Htr c Hc. rewrite Htr.
        apply (mget_true_flags T None OP_DEL (dat_of_row o) (fun _ => true) c Htr Hc). intros c' _. reflexivity.
  Qed.

  Lemma inv_empty : inv [].
  Proof. constructor; intros; contradiction. Qed.

  (* ---- any number of events ---- *)
  Definition run_step (t : ttable) (te : option Z * tevent) : ttable :=
    match fst te with None => t | Some T => spec_step g T (snd te) t end.

  Fixpoint evs_ok (t : ttable) (evs : list (option Z * tevent)) : Prop :=
    match evs with
    | [] => True
    | te :: evs' =>
        match fst te with None => True | Some T => ev_ok T (snd te) t end /\ evs_ok (run_step t te) evs'
    end.

  Theorem run_eq : forall evs t,
    inv t -> evs_ok t evs ->
    fold_left (fun t te => texec (gen g) (fst te) (snd te) t) evs t = fold_left run_step evs t /\
    inv (fold_left run_step evs t).
  Proof.
    induction evs as [|[oT e] evs IH]; intros t I Hok; [split; [reflexivity | exact I]|].
    cbn [fold_left]. destruct Hok as [H1 H2]. cbn [fst snd] in *.
    destruct oT as [T|].
    - rewrite (step_eq T e t I H1). unfold run_step at 1 3. cbn [fst snd].
      apply IH; [apply step_inv; assumption | exact H2].
    - cbn [texec]. unfold run_step at 1 3. cbn [fst snd]. apply IH; assumption.
  Qed.
End Full.

(* the statement for whole runs from the empty version table *)
Theorem trigger_program_equals_object_path g evs :
  NoDup (map tc_name (tg_cols g)) -> evs_ok g [] evs ->
  fold_left (fun t te => texec (gen g) (fst te) (snd te) t) evs [] = spec_run g evs.
Proof.
  intros ND Hok. destruct (run_eq g ND evs [] (inv_empty g) Hok) as [E _]. rewrite E. reflexivity.
Qed.

(* ---- a decidable form of the hypotheses, evaluated on every generated event sequence ---- *)
Definition shape_okb (g : tcfg) (p : prow) : bool := list_eqb Z.eqb (map fst p) (map tc_name (tg_cols g)).

Definition ev_okb (g : tcfg) (T : Z) (e : tevent) (t : ttable) : bool :=
  forallb (fun r => tr_tx r <=? T) t &&
  match e with
  | TIns n => shape_okb g n &&
              forallb (fun r => negb ((tr_tx r =? T) && same_pk g r n) || (tr_op r =? OP_DEL)) t
  | TUpd o n => shape_okb g o && shape_okb g n
  | TDel o => shape_okb g o
  end.

Fixpoint evs_okb (g : tcfg) (t : ttable) (evs : list (option Z * tevent)) : bool :=
  match evs with
  | [] => true
  | te :: evs' =>
      match fst te with None => true | Some T => ev_okb g T (snd te) t end && evs_okb g (run_step g t te) evs'
  end.

Lemma shape_okb_sound g p : shape_okb g p = true -> shape_ok g p.
Proof. unfold shape_okb, shape_ok, nm. intro H. apply (list_eqb_spec Z.eqb Z.eqb_eq). exact H. Qed.

Lemma ev_okb_sound g T e t : ev_okb g T e t = true -> ev_ok g T e t.
Proof.
  unfold ev_okb, ev_ok. intro H. apply andb_true_iff in H as [H1 H2]. split.
  - intros r Hr. rewrite forallb_forall in H1. apply Z.leb_le. apply H1. exact Hr.
  - destruct e as [n|o n|o].
    + apply andb_true_iff in H2 as [H2 H3]. split; [apply shape_okb_sound; exact H2|].
      intros r Hr Et Es. rewrite forallb_forall in H3. specialize (H3 r Hr).
      rewrite Et, Z.eqb_refl, Es in H3. cbn in H3. apply Z.eqb_eq. exact H3.
    + apply andb_true_iff in H2 as [H2 H3]. split; apply shape_okb_sound; assumption.
    + apply shape_okb_sound. exact H2.
Qed.

Lemma evs_okb_sound g : forall evs t, evs_okb g t evs = true -> evs_ok g t evs.
Proof.
  induction evs as [|[oT e] evs IH]; intros t H; [exact I|].
  cbn [evs_okb evs_ok fst snd] in *. apply andb_true_iff in H as [H1 H2]. split; [|apply IH; exact H2].
  destruct oT; [apply ev_okb_sound; exact H1 | exact I].
Qed.
