(* SchemaP.v — the version schema derived for every configuration (C12, schema clause of C13). *)
From Continuum Require Import Model.Base Model.Schema.

Definition has_name (n : Z) (v : vcol) : bool := vc_name v =? n.

(* names of the parent columns, internal columns and flag columns do not collide *)
Definition names_ok (m : mcfg) : Prop :=
  NoDup (map pc_name (m_cols m)) /\
  (forall c, In c (m_cols m) -> pc_name c <> m_txn m /\ pc_name c <> m_endn m /\ pc_name c <> m_opn m) /\
  (forall c c', In c (m_cols m) -> In c' (m_cols m) -> m_modname m (pc_name c) <> pc_name c') /\
  (forall c, In c (m_cols m) -> m_modname m (pc_name c) <> m_txn m /\
                               m_modname m (pc_name c) <> m_endn m /\ m_modname m (pc_name c) <> m_opn m) /\
  m_txn m <> m_endn m /\ m_txn m <> m_opn m /\ m_endn m <> m_opn m.

Lemma in_kept m c : In c (kept m) <-> In c (m_cols m) /\ pc_excl c = false.
Proof. unfold kept. rewrite filter_In, negb_true_iff. tauto. Qed.

(* every non-excluded parent column has a counterpart: same name and type, key flag kept; no
   uniqueness, auto-increment, on-update, default, server default or foreign key; nullable unless key *)
Theorem kept_column_reflected m c :
  In c (m_cols m) -> pc_excl c = false ->
  In (mkvc (pc_name c) (pc_type c) (pc_pk c)
           (if pc_pk c then (if pc_name c =? m_txn m then false else pc_nullable c) else true)
           false false false false false false) (build m).
Proof.
  intros Hc He. unfold build. apply in_or_app. left.
  apply in_map_iff. exists c. split; [reflexivity | apply in_kept; auto].
Qed.

(* an excluded column has no counterpart at all *)
Theorem excluded_column_absent m c :
  names_ok m -> In c (m_cols m) -> pc_excl c = true ->
  forall v, In v (build m) -> vc_name v <> pc_name c.
Proof.
  intros [ND [Hint [Hmod [Hmodint _]]]] Hc He v Hv E. unfold build in Hv.
  apply in_app_or in Hv as [Hv|Hv].
  - apply in_map_iff in Hv as [c' [<- Hc']]. simpl in E. apply in_kept in Hc' as [Hc' He'].
    assert (c' = c).
    { clear - ND Hc Hc' E. induction (m_cols m) as [|a l IH]; [contradiction|].
      simpl in ND. inversion ND as [|? ? Hn ND']; subst.
      destruct Hc as [->|Hc], Hc' as [->|Hc']; auto.
      - exfalso. apply Hn. rewrite <- E. apply in_map; exact Hc'.
      - exfalso. apply Hn. rewrite E. apply in_map; exact Hc. }
    subst c'. congruence.
  - apply in_app_or in Hv as [Hv|Hv].
    + destruct (Hint c Hc) as [H1 [H2 H3]].
      destruct (m_internal m); [|contradiction].
      simpl in Hv. destruct Hv as [<-|Hv]; [simpl in E; congruence|].
      destruct (m_validity m); simpl in Hv.
      * destruct Hv as [<-|[<-|[]]]; simpl in E; congruence.
      * destruct Hv as [<-|[]]; simpl in E; congruence.
    + destruct (m_tracker m); [|contradiction].
      apply in_map_iff in Hv as [c' [<- Hc']]. simpl in E.
      apply filter_In in Hc' as [Hc' _]. apply in_kept in Hc' as [Hc' _].
      exact (Hmod c' c Hc' Hc E).
Qed.

(* the primary key is the parent key plus the non-null transaction column; every other reflected
   parent column is nullable *)
Theorem primary_key_shape m v :
  m_internal m = true -> In v (build m) -> vc_pk v = true ->
  (v = tx_column m /\ vc_nullable v = false) \/
  (exists c, In c (m_cols m) /\ pc_excl c = false /\ pc_pk c = true /\ vc_name v = pc_name c).
Proof.
  intros Hi Hv Hpk. unfold build in Hv. rewrite Hi in Hv.
  apply in_app_or in Hv as [Hv|Hv].
  - right. apply in_map_iff in Hv as [c [<- Hc]]. apply in_kept in Hc as [Hc He].
    exists c. simpl in *. auto.
  - apply in_app_or in Hv as [Hv|Hv].
    + simpl in Hv. destruct Hv as [<-|Hv]; [left; auto|].
      destruct (m_validity m); simpl in Hv.
      * destruct Hv as [<-|[<-|[]]]; discriminate.
      * destruct Hv as [<-|[]]; discriminate.
    + destruct (m_tracker m); [|contradiction].
      apply in_map_iff in Hv as [c [<- _]]. discriminate.
Qed.

Theorem transaction_column_in_key m : m_internal m = true -> In (tx_column m) (build m).
Proof. intro Hi. unfold build. rewrite Hi. apply in_or_app. right. apply in_or_app. left. left. reflexivity. Qed.

Theorem non_key_parent_columns_nullable m c :
  In c (kept m) -> pc_pk c = false -> vc_nullable (reflect_column m c) = true.
Proof. intros _ Hpk. unfold reflect_column. simpl. rewrite Hpk. reflexivity. Qed.

(* an end-transaction column exactly when the validity strategy is used; always an operation type *)
Theorem end_column_iff_validity m :
  names_ok m -> m_internal m = true ->
  ((exists v, In v (build m) /\ vc_name v = m_endn m) <-> m_validity m = true).
Proof.
  intros [ND [Hint [Hmod [Hmodint [N1 [N2 N3]]]]]] Hi. split.
  - intros [v [Hv E]]. unfold build in Hv. rewrite Hi in Hv.
    apply in_app_or in Hv as [Hv|Hv].
    + apply in_map_iff in Hv as [c [<- Hc]]. apply in_kept in Hc as [Hc _].
      destruct (Hint c Hc) as [_ [H _]]. simpl in E. contradiction.
    + apply in_app_or in Hv as [Hv|Hv].
      * destruct (m_validity m); [reflexivity|]. simpl in Hv.
        destruct Hv as [<-|[<-|[]]]; simpl in E; congruence.
      * destruct (m_tracker m); [|contradiction].
        apply in_map_iff in Hv as [c [<- Hc]]. apply filter_In in Hc as [Hc _].
        apply in_kept in Hc as [Hc _]. destruct (Hmodint c Hc) as [_ [H _]]. simpl in E. contradiction.
  - intro Hval. exists (end_column m). split; [|reflexivity].
    unfold build. rewrite Hi, Hval. apply in_or_app. right. apply in_or_app. left. simpl. auto.
Qed.

Theorem operation_type_column_present m : m_internal m = true -> In (op_column m) (build m).
Proof.
  intro Hi. unfold build. rewrite Hi. apply in_or_app. right. apply in_or_app. left.
  simpl. destruct (m_validity m); simpl; auto.
Qed.

(* one boolean flag column per non-key, non-excluded column iff the tracker plugin is on *)
Theorem flag_columns m c :
  In c (m_cols m) -> pc_excl c = false -> pc_pk c = false ->
  (m_tracker m = true -> In (mod_column m c) (build m)).
Proof.
  intros Hc He Hpk Ht. unfold build. rewrite Ht. apply in_or_app. right. apply in_or_app. right.
  apply in_map. apply filter_In. split; [apply in_kept; auto | rewrite Hpk; reflexivity].
Qed.

Theorem no_flag_columns_without_tracker m v :
  m_tracker m = false -> In v (build m) -> vc_type v <> T_BOOL \/ exists c, In c (m_cols m) /\ vc_name v = pc_name c.
Proof.
  intros Ht Hv. unfold build in Hv. rewrite Ht in Hv. rewrite app_nil_r in Hv.
  apply in_app_or in Hv as [Hv|Hv].
  - right. apply in_map_iff in Hv as [c [<- Hc]]. apply in_kept in Hc as [Hc _]. exists c. auto.
  - left. destruct (m_internal m); [|contradiction]. simpl in Hv.
    destruct Hv as [<-|Hv]; [simpl; unfold T_BIGINT, T_BOOL; lia|].
    destruct (m_validity m); simpl in Hv.
    + destruct Hv as [<-|[<-|[]]]; simpl; unfold T_BIGINT, T_SMALLINT, T_BOOL; lia.
    + destruct Hv as [<-|[]]; simpl; unfold T_SMALLINT, T_BOOL; lia.
Qed.
