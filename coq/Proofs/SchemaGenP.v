(* SchemaGenP.v — the schema derivation functions GENERATED from the current table_builder.py and
   property_mod_tracker.py (Gen/SchemaGen.v, rewritten by harness/pytrans_schema.py on every build)
   are the hand-written model of Model/Schema.v. *)
From Continuum Require Import Model.Base Model.Schema Gen.SchemaGen.

Theorem gen_reflect_column_is_model m c : gen_reflect_column m c = reflect_column m c.
Proof.
  destruct c as [n t pk nl un ai df sd ou fk ex]. unfold gen_reflect_column, reflect_column.
  cbn [pc_name pc_type pc_pk pc_nullable pc_unique pc_autoinc pc_default pc_sdefault pc_onupdate].
  destruct ai; destruct (n =? m_txn m) eqn:E; destruct pk; cbn; rewrite ?E; reflexivity.
Qed.

Theorem gen_internal_columns_are_model m :
  gen_transaction_column m = tx_column m /\ gen_end_transaction_column m = end_column m /\
  gen_operation_type_column m = op_column m.
Proof. repeat split; reflexivity. Qed.

Theorem gen_mod_column_is_model m c : gen_mod_column m c = mod_column m c.
Proof. reflexivity. Qed.

Lemma filter_fuse {A} (f h : A -> bool) l : filter h (filter f l) = filter (fun x => f x && h x) l.
Proof.
  induction l as [|a l IH]; simpl; [reflexivity|].
  destruct (f a); simpl; [destruct (h a); rewrite IH; reflexivity | exact IH].
Qed.

Theorem gen_build_is_model m : gen_build m = build m.
Proof.
  unfold gen_build, build, gen_reflector_columns, gen_mod_columns, kept.
  rewrite <- app_assoc. f_equal.
  - apply map_ext. intro c. apply gen_reflect_column_is_model.
  - f_equal. destruct (m_tracker m); [|reflexivity].
    rewrite filter_fuse. apply map_ext. intro c. apply gen_mod_column_is_model.
Qed.
