(* AssocP.v — many-to-many link history (C10): replaying the association-version rows yields the
   live link set, after any sequence of link / unlink statements stamped with the current
   transaction id. *)
From Continuum Require Import Model.Base Model.VTable Model.Core Proofs.BaseP Proofs.CoreP.

Definition pair := (Z * list Z)%type.
Definition pair_eqb (a b : pair) : bool := (fst a =? fst b) && list_eqb Z.eqb (snd a) (snd b).

Lemma pair_eqb_eq a b : pair_eqb a b = true <-> a = b.
Proof.
  destruct a as [t k], b as [t' k']. unfold pair_eqb. simpl.
  rewrite andb_true_iff, Z.eqb_eq. rewrite (list_eqb_spec Z.eqb Z.eqb_eq). split.
  - intros [-> ->]. reflexivity.
  - intro H. inversion H. auto.
Qed.

Definition a_pair (r : arow) : pair := (a_tab r, a_key r).
Definition ev_pair (p : assoc_ev) : pair := (as_tab p, as_key p).

(* the application's own association table, as defined by the statements of the trace *)
Definition apply_assoc (alive : list pair) (p : assoc_ev) : list pair :=
  let rest := filter (fun x => negb (pair_eqb x (ev_pair p))) alive in
  if as_op p =? OP_DEL then rest else rest ++ [ev_pair p].

(* replay: a pair is linked iff its newest association-version row is not a DELETE *)
Definition newest_a (av : list arow) (x : pair) (r : arow) : Prop :=
  In r av /\ a_pair r = x /\ forall r', In r' av -> a_pair r' = x -> a_tx r' <= a_tx r.

Definition linked (av : list arow) (x : pair) : Prop :=
  exists r, newest_a av x r /\ a_op r <> OP_DEL.

Definition links_agree (av : list arow) (alive : list pair) : Prop :=
  forall x, In x alive <-> linked av x.

Lemma same_a_spec p T r : same_a p T r = true <-> a_pair r = ev_pair p /\ a_tx r = T.
Proof.
  unfold same_a, a_pair, ev_pair. rewrite !andb_true_iff, !Z.eqb_eq, (list_eqb_spec Z.eqb Z.eqb_eq).
  split.
  - intros [[A B] C]. split; [congruence | exact C].
  - intros [A C]. inversion A. auto.
Qed.

Lemma apply_assoc_in alive p x :
  In x (apply_assoc alive p) <->
  (x = ev_pair p /\ as_op p <> OP_DEL) \/ (x <> ev_pair p /\ In x alive).
Proof.
  unfold apply_assoc. destruct (as_op p =? OP_DEL) eqn:E.
  - apply Z.eqb_eq in E. rewrite filter_In. split.
    + intros [H1 H2]. right. split; [|exact H1]. apply negb_true_iff in H2.
      intro Hx. apply pair_eqb_eq in Hx. congruence.
    + intros [[_ H]|[H1 H2]]; [congruence|]. split; [exact H2|]. apply negb_true_iff.
      destruct (pair_eqb x (ev_pair p)) eqn:P; [apply pair_eqb_eq in P; contradiction | reflexivity].
  - apply Z.eqb_neq in E. rewrite in_app_iff, filter_In. simpl. split.
    + intros [[H1 H2]|[<-|[]]].
      * right. split; [|exact H1]. apply negb_true_iff in H2. intro Hx. apply pair_eqb_eq in Hx. congruence.
      * left. auto.
    + intros [[-> _]|[H1 H2]]; [right; left; reflexivity|]. left. split; [exact H2|].
      apply negb_true_iff. destruct (pair_eqb x (ev_pair p)) eqn:P; [apply pair_eqb_eq in P; contradiction | reflexivity].
Qed.

(* one statement, stamped with an id that is at least every id in the table *)
Lemma write_assoc_agree T av alive p :
  (forall r, In r av -> a_tx r <= T) ->
  links_agree av alive -> links_agree (write_assoc T av p) (apply_assoc alive p).
Proof.
  intros LE A x. rewrite apply_assoc_in. unfold write_assoc.
  set (n := mka (as_tab p) (as_key p) T (as_op p)).
  set (rest := filter (fun r => negb (same_a p T r)) av).
  assert (Hrest : forall r, In r rest <-> In r av /\ ~ (a_pair r = ev_pair p /\ a_tx r = T)).
  { intro r. unfold rest. rewrite filter_In. split.
    - intros [H1 H2]. split; [exact H1|]. apply negb_true_iff in H2. intro H. apply same_a_spec in H. congruence.
    - intros [H1 H2]. split; [exact H1|]. apply negb_true_iff.
      destruct (same_a p T r) eqn:S; [apply same_a_spec in S; contradiction | reflexivity]. }
  destruct (pair_eqb x (ev_pair p)) eqn:P.
  - apply pair_eqb_eq in P. subst x. split.
    + intros [[_ Hop]|[Hne _]]; [|contradiction].
      exists n. split; [|exact Hop]. split; [apply in_or_app; right; left; reflexivity|].
      split; [reflexivity|]. intros r' Hr' _. simpl.
      apply in_app_or in Hr' as [Hr'|[<-|[]]]; [apply Hrest in Hr' as [Hr' _]; apply LE; exact Hr' | simpl; lia].
    + intros [r [[Hin [Hp Hmax]] Hop]]. left. split; [reflexivity|].
      assert (Hn : a_tx n <= a_tx r).
      { apply Hmax; [apply in_or_app; right; left; reflexivity | reflexivity]. }
      simpl in Hn.
      apply in_app_or in Hin as [Hin|[<-|[]]]; [|exact Hop].
      apply Hrest in Hin as [Hin Hnot]. exfalso. apply Hnot. split; [exact Hp|].
      specialize (LE r Hin). lia.
  - assert (Hne : x <> ev_pair p).
    { intro E. apply pair_eqb_eq in E. congruence. }
    assert (Hsame : forall r, a_pair r = x -> (In r (rest ++ [n]) <-> In r av)).
    { intros r Hp. rewrite in_app_iff, Hrest. simpl. split.
      - intros [[H _]|[<-|[]]]; [exact H|]. unfold a_pair, n in Hp. simpl in Hp. exfalso. apply Hne. rewrite <- Hp. reflexivity.
      - intro H. left. split; [exact H|]. intros [E _]. apply Hne. congruence. }
    split.
    + intros [[E _]|[_ Hin]]; [contradiction|].
      apply A in Hin as [r [[Hin [Hp Hmax]] Hop]]. exists r. split; [|exact Hop].
      split; [apply Hsame; assumption|]. split; [exact Hp|].
      intros r' Hr' Hp'. apply Hmax; [apply Hsame; assumption | exact Hp'].
    + intros [r [[Hin [Hp Hmax]] Hop]]. right. split; [exact Hne|]. apply A.
      exists r. split; [|exact Hop]. split; [apply Hsame; assumption|]. split; [exact Hp|].
      intros r' Hr' Hp'. apply Hmax; [apply Hsame; assumption | exact Hp'].
Qed.

Lemma write_assoc_le T av p :
  (forall r, In r av -> a_tx r <= T) -> forall r, In r (write_assoc T av p) -> a_tx r <= T.
Proof.
  intros LE r Hr. unfold write_assoc in Hr. apply in_app_or in Hr as [Hr|[<-|[]]].
  - apply filter_In in Hr as [Hr _]. apply LE; exact Hr.
  - simpl. lia.
Qed.

(* all statements of one transaction *)
Theorem replay_yields_live_links T : forall pend av alive,
  (forall r, In r av -> a_tx r <= T) -> links_agree av alive ->
  links_agree (fold_left (write_assoc T) pend av) (fold_left apply_assoc pend alive).
Proof.
  induction pend as [|p pend IH]; intros av alive LE A; simpl; [exact A|].
  apply IH; [apply write_assoc_le; exact LE | apply write_assoc_agree; assumption].
Qed.

(* at most one row per link per transaction *)
Definition a_id (r : arow) : pair * Z := (a_pair r, a_tx r).

Lemma write_assoc_nodup T av p : NoDup (map a_id av) -> NoDup (map a_id (write_assoc T av p)).
Proof.
  intro ND. unfold write_assoc. rewrite map_app. simpl.
  assert (ND' : NoDup (map a_id (filter (fun r => negb (same_a p T r)) av))).
  { clear - ND. induction av as [|a av IH]; simpl; [constructor|].
    inversion ND as [|? ? Hn ND']; subst. destruct (negb (same_a p T a)); simpl; [|apply IH; exact ND'].
    constructor; [|apply IH; exact ND'].
    intro H. apply Hn. apply in_map_iff in H as [x [E Hx]]. apply filter_In in Hx as [Hx _].
    rewrite <- E. apply in_map; exact Hx. }
  assert (Hn : ~ In (ev_pair p, T) (map a_id (filter (fun r => negb (same_a p T r)) av))).
  { intro H. apply in_map_iff in H as [x [E Hx]]. apply filter_In in Hx as [_ Hx].
    apply negb_true_iff in Hx. unfold a_id in E. inversion E.
    assert (same_a p T x = true) by (apply same_a_spec; split; congruence). congruence. }
  revert ND' Hn. generalize (map a_id (filter (fun r => negb (same_a p T r)) av)). intro l.
  induction l as [|a l IH]; simpl; intros ND' Hn.
  - constructor; [intros []|constructor].
  - inversion ND' as [|? ? Ha ND'']; subst. constructor.
    + intro H. apply in_app_or in H as [H|[<-|[]]]; [contradiction|]. apply Hn. left. reflexivity.
    + apply IH; [exact ND''|]. intro H. apply Hn. right; exact H.
Qed.

(* rows of earlier transactions are never touched: replaying up to an earlier id is unchanged *)
Lemma write_assoc_frame T av p r :
  a_tx r <> T -> (In r (write_assoc T av p) <-> In r av).
Proof.
  intro Hne. unfold write_assoc. rewrite in_app_iff, filter_In. simpl. split.
  - intros [[H _]|[<-|[]]]; [exact H | simpl in Hne; contradiction].
  - intro H. left. split; [exact H|]. apply negb_true_iff.
    destruct (same_a p T r) eqn:S; [apply same_a_spec in S as [_ E]; contradiction | reflexivity].
Qed.
