(* HierP.v — joined-table hierarchies: what the hierarchy pass (Model/Core.v hier_pass, the model of the repaired
   update_version_validity which loads the predecessor found in the topmost table as an object of its own class and
   so closes its rows in every table it spans) does to the rows of the CHILD tables.

   A row x of a child table has to be closed by the next version of its key in the BASE table of the hierarchy,
   whatever class that version has:       want vt cc x = min_above vt (k_tab cc :: tl (vkey x)) (vtx x).
   After a flush of transaction T every child row is either right already or stale in exactly one way: its key got
   a new base-table version in T and the row is not closed yet.  The pass repairs exactly those rows.           *)
From Continuum Require Import Model.Base Model.VTable Model.Backfill Model.Core
     Proofs.BaseP Proofs.VTableP Proofs.CoreP Proofs.ChainP Proofs.CoreChainP.

Definition base_key (cc : clscfg) (x : vrow) : pk := k_tab cc :: tl (vkey x).
Definition child_of (cc : clscfg) (x : vrow) : Prop := In (hd 0 (vkey x)) (k_also cc).
Definition want (vt : vtable) (cc : clscfg) (x : vrow) : option Z := min_above vt (base_key cc x) (vtx x).

(* a child table belongs to one base table *)
Definition one_base (g : cfg) : Prop :=
  forall cc cc' t, In cc (g_classes g) -> In cc' (g_classes g) -> In t (k_also cc) -> In t (k_also cc') ->
    k_tab cc = k_tab cc'.

(* every version of a subclass entity has its row in the base table too *)
Definition paired (g : cfg) (vt : vtable) : Prop :=
  forall cc x, In cc (g_classes g) -> In x vt -> child_of cc x ->
    exists r, In r vt /\ vkey r = base_key cc x /\ vtx r = vtx x.

Definition hier_rows (g : cfg) (T : Z) (vt : vtable) : vtable :=
  map (fun x => if hier_closed g T vt x then set_end x (Some T) else x) vt.

Lemma hier_rows_ids g T vt : vids (hier_rows g T vt) = vids vt.
Proof.
  unfold hier_rows, vids. rewrite map_map. apply map_ext. intro x.
  destruct (hier_closed g T vt x); reflexivity.
Qed.

Lemma want_hier_rows g T vt cc x : want (hier_rows g T vt) cc x = want vt cc x.
Proof. unfold want. rewrite !min_above_mai, hier_rows_ids. reflexivity. Qed.

Lemma key_split (k : pk) : k <> [] -> k = hd 0 k :: tl k.
Proof. destruct k; [congruence | reflexivity]. Qed.

(* the largest transaction below T is p  ==>  the smallest above p is T (when the key has a row at T) *)
Lemma pred_then_succ vt k T p :
  (exists r, In r vt /\ vkey r = k /\ vtx r = T) ->
  max_below vt k T = Some p -> min_above vt k p = Some T.
Proof.
  intros [r [Hr [Hk Ht]]] M. apply max_below_some in M as [[q [Hq [Hqk [Hqt Hlt]]]] Hmax].
  apply min_above_some. split.
  - exists r. repeat split; assumption.
  - intros r' Hr' Hk' Hgt. destruct (Z.lt_ge_cases (vtx r') T) as [L|G]; [|lia].
    specialize (Hmax r' Hr' Hk' L). lia.
Qed.

(* the smallest transaction above p is T and the key has a row at p  ==>  the largest below T is p *)
Lemma succ_then_pred vt k T p :
  (exists r, In r vt /\ vkey r = k /\ vtx r = p) ->
  min_above vt k p = Some T -> max_below vt k T = Some p.
Proof.
  intros [r [Hr [Hk Ht]]] M. apply min_above_some in M as [[q [Hq [Hqk [Hqt Hlt]]]] Hmin].
  apply max_below_some. split.
  - exists r. repeat split; try assumption.
  - intros r' Hr' Hk' Hlt'. destruct (Z.lt_ge_cases p (vtx r')) as [L|G]; [|lia].
    specialize (Hmin r' Hr' Hk' L). lia.
Qed.

Lemma hier_closed_intro g T vt cc x r :
  In cc (g_classes g) -> child_of cc x -> In r vt -> vkey r = base_key cc x -> vtx r = T ->
  max_below vt (vkey r) T = Some (vtx x) -> hier_closed g T vt x = true.
Proof.
  intros Hcc Hch Hr Hk Ht M. unfold hier_closed. apply existsb_exists. exists cc. split; [exact Hcc|].
  apply andb_true_iff. split.
  - apply existsb_exists. exists (hd 0 (vkey x)). split; [exact Hch | apply Z.eqb_refl].
  - apply existsb_exists. exists r. split; [exact Hr|].
    rewrite M. rewrite Hk. unfold base_key. cbn [hd tl sql_eq].
    rewrite !Z.eqb_refl. rewrite Ht, Z.eqb_refl. cbn [andb].
    rewrite andb_true_r. apply (proj2 (list_eqb_spec Z.eqb Z.eqb_eq _ _)). reflexivity.
Qed.

Lemma hier_closed_elim g T vt x :
  (forall r, In r vt -> vkey r <> []) ->
  hier_closed g T vt x = true ->
  exists cc r, In cc (g_classes g) /\ child_of cc x /\ In r vt /\ vkey r = base_key cc x /\ vtx r = T /\
               max_below vt (vkey r) T = Some (vtx x).
Proof.
  intros NE H. unfold hier_closed in H. apply existsb_exists in H as [cc [Hcc H]].
  apply andb_true_iff in H as [H1 H2].
  apply existsb_exists in H1 as [t [Ht E]]. apply Z.eqb_eq in E.
  apply existsb_exists in H2 as [r [Hr H2]].
  apply andb_true_iff in H2 as [H2 Hs]. apply andb_true_iff in H2 as [H2 Hl]. apply andb_true_iff in H2 as [Hh Htx].
  apply Z.eqb_eq in Hh. apply Z.eqb_eq in Htx. apply (proj1 (list_eqb_spec Z.eqb Z.eqb_eq _ _)) in Hl.
  exists cc, r. split; [exact Hcc|]. split; [unfold child_of; rewrite E; exact Ht|]. split; [exact Hr|].
  split; [|split; [exact Htx|]].
  - rewrite (key_split (vkey r) (NE r Hr)). unfold base_key. rewrite Hh, Hl. reflexivity.
  - destruct (max_below vt (vkey r) T) as [m|]; [|discriminate]. cbn [sql_eq] in Hs.
    apply Z.eqb_eq in Hs. rewrite Hs. reflexivity.
Qed.

(* THE table-level theorem: after the pass every row of a child table is closed by the next version of its key in
   the base table (and open while there is none) *)
Theorem hier_pass_closes_superseded g T vt :
  one_base g -> paired g vt -> (forall r, In r vt -> vkey r <> []) ->
  (forall cc x, In cc (g_classes g) -> In x vt -> child_of cc x ->
     vend x = want vt cc x \/ want vt cc x = Some T) ->
  forall cc x', In cc (g_classes g) -> In x' (hier_rows g T vt) -> child_of cc x' ->
    vend x' = want (hier_rows g T vt) cc x'.
Proof.
  intros OB PA NE ST cc x' Hcc Hx' Hch.
  rewrite want_hier_rows. unfold hier_rows in Hx'. apply in_map_iff in Hx' as [x [E Hx]].
  destruct (hier_closed g T vt x) eqn:HC; subst x'.
  - (* closed by the pass: the base table has a row at T whose predecessor is the row's transaction *)
    assert (Hch' : child_of cc x) by exact Hch.
    destruct (hier_closed_elim g T vt x NE HC) as [cc0 [r [Hcc0 [Hch0 [Hr [Hk [Ht M]]]]]]].
    assert (Eb : k_tab cc0 = k_tab cc) by (apply (OB cc0 cc (hd 0 (vkey x))); assumption).
    unfold want, base_key. cbn [set_end vend vkey vtx]. symmetry.
    apply pred_then_succ.
    + exists r. split; [exact Hr|]. split; [|exact Ht]. rewrite Hk. unfold base_key. rewrite Eb. reflexivity.
    + rewrite <- Eb. unfold base_key in Hk. rewrite <- Hk. exact M.
  - (* left alone: it was right already - a stale row would have been closed *)
    destruct (ST cc x Hcc Hx Hch) as [Ok|Stale]; [exact Ok|]. exfalso.
    destruct (PA cc x Hcc Hx Hch) as [b [Hb [Hbk Hbt]]].
    pose proof Stale as Stale'. unfold want in Stale'.
    apply min_above_some in Stale' as [[r [Hr [Hk [Ht _]]]] _].
    assert (M : max_below vt (base_key cc x) T = Some (vtx x)).
    { apply succ_then_pred; [exists b; auto | exact Stale]. }
    rewrite (hier_closed_intro g T vt cc x r Hcc Hch Hr Hk Ht) in HC; [discriminate|].
    rewrite Hk. exact M.
Qed.

(* frame: the pass changes nothing but end-transaction ids of child-table rows *)
Theorem hier_pass_frame g T vt :
  vids (hier_rows g T vt) = vids vt /\
  (forall x', In x' (hier_rows g T vt) ->
     In x' vt \/ (exists x cc, In x vt /\ In cc (g_classes g) /\ child_of cc x /\ x' = set_end x (Some T))).
Proof.
  split; [apply hier_rows_ids|]. intros x' Hx'. unfold hier_rows in Hx'.
  apply in_map_iff in Hx' as [x [E Hx]]. destruct (hier_closed g T vt x) eqn:HC; subst x'; [right | left; exact Hx].
  destruct (hier_closed_tab g T vt x HC) as [cc [Hcc Ht]]. exists x, cc. auto.
Qed.

(* hier_pass of the machine is hier_rows on the version table of the working database *)
Lemma hier_pass_is_hier_rows g s T :
  no_hierb g = false -> u_cur (s_uow s) = Some T ->
  d_vt (s_db (hier_pass g s)) = hier_rows g T (d_vt (s_db s)).
Proof. intros H E. unfold hier_pass. rewrite H, E. reflexivity. Qed.

(* decidable forms of the hypotheses, evaluated on every recorded flush of a hierarchy by the check *)
Definition one_baseb (g : cfg) : bool :=
  forallb (fun cc => forallb (fun cc' => forallb (fun t =>
     negb (existsb (Z.eqb t) (k_also cc')) || (k_tab cc =? k_tab cc')) (k_also cc)) (g_classes g)) (g_classes g).

Definition pairedb (g : cfg) (vt : vtable) : bool :=
  forallb (fun cc => forallb (fun x =>
     negb (existsb (Z.eqb (hd 0 (vkey x))) (k_also cc)) ||
     existsb (fun r => list_eqb Z.eqb (vkey r) (k_tab cc :: tl (vkey x)) && (vtx r =? vtx x)) vt) vt) (g_classes g).

Definition staleb (g : cfg) (T : Z) (vt : vtable) : bool :=
  forallb (fun cc => forallb (fun x =>
     negb (existsb (Z.eqb (hd 0 (vkey x))) (k_also cc)) ||
     oz_eqb (vend x) (min_above vt (k_tab cc :: tl (vkey x)) (vtx x)) ||
     oz_eqb (min_above vt (k_tab cc :: tl (vkey x)) (vtx x)) (Some T)) vt) (g_classes g).

Definition keys_nonemptyb (vt : vtable) : bool :=
  forallb (fun r => match vkey r with [] => false | _ => true end) vt.

Lemma in_also_b (z : Z) (l : list Z) : existsb (Z.eqb z) l = true <-> In z l.
Proof.
  rewrite existsb_exists. split.
  - intros [t [Ht E]]. apply Z.eqb_eq in E. subst t. exact Ht.
  - intro H. exists z. split; [exact H | apply Z.eqb_refl].
Qed.

Lemma one_baseb_spec g : one_baseb g = true -> one_base g.
Proof.
  unfold one_baseb, one_base. intros H cc cc' t Hcc Hcc' Ht Ht'.
  rewrite forallb_forall in H. specialize (H cc Hcc). rewrite forallb_forall in H. specialize (H cc' Hcc').
  rewrite forallb_forall in H. specialize (H t Ht). apply orb_true_iff in H as [H|H].
  - apply negb_true_iff in H. rewrite (proj2 (in_also_b t (k_also cc')) Ht') in H. discriminate.
  - apply Z.eqb_eq. exact H.
Qed.

Lemma pairedb_spec g vt : pairedb g vt = true -> paired g vt.
Proof.
  unfold pairedb, paired. intros H cc x Hcc Hx Hch.
  rewrite forallb_forall in H. specialize (H cc Hcc). rewrite forallb_forall in H. specialize (H x Hx).
  apply orb_true_iff in H as [H|H].
  - apply negb_true_iff in H. rewrite (proj2 (in_also_b _ _) Hch) in H. discriminate.
  - apply existsb_exists in H as [r [Hr E]]. apply andb_true_iff in E as [E1 E2].
    apply (proj1 (list_eqb_spec Z.eqb Z.eqb_eq _ _)) in E1. apply Z.eqb_eq in E2.
    exists r. split; [exact Hr|]. split; [exact E1 | exact E2].
Qed.

Lemma keys_nonemptyb_spec vt : keys_nonemptyb vt = true -> forall r, In r vt -> vkey r <> [].
Proof.
  unfold keys_nonemptyb. intros H r Hr. rewrite forallb_forall in H. specialize (H r Hr).
  destruct (vkey r); [discriminate | congruence].
Qed.

Lemma staleb_spec g T vt :
  staleb g T vt = true ->
  forall cc x, In cc (g_classes g) -> In x vt -> child_of cc x ->
    vend x = want vt cc x \/ want vt cc x = Some T.
Proof.
  unfold staleb. intros H cc x Hcc Hx Hch.
  rewrite forallb_forall in H. specialize (H cc Hcc). rewrite forallb_forall in H. specialize (H x Hx).
  apply orb_true_iff in H as [H|H]; [apply orb_true_iff in H as [H|H]|].
  - apply negb_true_iff in H. rewrite (proj2 (in_also_b _ _) Hch) in H. discriminate.
  - left. apply oz_eqb_eq. exact H.
  - right. apply oz_eqb_eq. exact H.
Qed.

(* the conclusion as a boolean, for the non-vacuity example and the check *)
Definition hier_chainb (g : cfg) (vt : vtable) : bool :=
  forallb (fun cc => forallb (fun x =>
     negb (existsb (Z.eqb (hd 0 (vkey x))) (k_also cc)) ||
     oz_eqb (vend x) (min_above vt (k_tab cc :: tl (vkey x)) (vtx x))) vt) (g_classes g).

Theorem hier_pass_closes_superseded_b g T vt :
  one_baseb g = true -> pairedb g vt = true -> keys_nonemptyb vt = true -> staleb g T vt = true ->
  hier_chainb g (hier_rows g T vt) = true.
Proof.
  intros H1 H2 H3 H4. unfold hier_chainb. apply forallb_forall. intros cc Hcc.
  apply forallb_forall. intros x' Hx'.
  destruct (existsb (Z.eqb (hd 0 (vkey x'))) (k_also cc)) eqn:E; [|reflexivity]. cbn [negb orb].
  apply oz_eqb_eq.
  apply (hier_pass_closes_superseded g T vt (one_baseb_spec g H1) (pairedb_spec g vt H2)
           (keys_nonemptyb_spec vt H3) (staleb_spec g T vt H4) cc x' Hcc Hx').
  apply in_also_b. exact E.
Qed.
