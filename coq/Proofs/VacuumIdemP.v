(* VacuumIdemP.v — a second vacuum deletes nothing: vacuum_deleted (vacuum t) = []. *)
From Coq Require Import Sorting.Sorted.
From Continuum Require Import Model.Base Model.VTable Model.Vacuum Gen.VacuumGen
     Proofs.BaseP Proofs.VTableP Proofs.VacuumP Proofs.VacuumGenP.

(* survivors of one entity's pass *)
Fixpoint keep_key (prev : option vrow) (l : vtable) : vtable :=
  match l with
  | [] => []
  | r :: l' =>
      match prev with
      | Some p => if same_data p r then keep_key prev l' else r :: keep_key (Some r) l'
      | None => r :: keep_key (Some r) l'
      end
  end.

Lemma vac_keep_nil l : forall prev, vac_key prev (keep_key prev l) = [].
Proof.
  induction l as [|r l IH]; intro prev; [reflexivity|]. simpl.
  destruct prev as [p|].
  - destruct (same_data p r) eqn:E; [apply IH|]. simpl. rewrite E. apply IH.
  - simpl. apply IH.
Qed.

Lemma keep_key_subset l : forall prev x, In x (keep_key prev l) -> In x l.
Proof.
  induction l as [|r l IH]; intros prev x H; simpl in *; [contradiction|].
  destruct prev as [p|].
  - destruct (same_data p r).
    + right. eapply IH; exact H.
    + destruct H as [<-|H]; [left; reflexivity | right; eapply IH; exact H].
  - destruct H as [<-|H]; [left; reflexivity | right; eapply IH; exact H].
Qed.

Lemma keep_key_members l : NoDup l -> forall prev x,
  In x (keep_key prev l) <-> In x l /\ ~ In x (vac_key prev l).
Proof.
  induction l as [|r l IH]; intros ND prev x; simpl; [tauto|].
  inversion ND as [|? ? Hnotin ND']; subst.
  assert (K : forall pv, ~ In r (keep_key pv l)) by (intros pv H; apply Hnotin; eapply keep_key_subset; exact H).
  assert (V : forall pv, ~ In r (vac_key pv l)) by (intros pv H; apply Hnotin; eapply vac_key_subset; exact H).
  destruct prev as [p|].
  - destruct (same_data p r); simpl; rewrite (IH ND').
    + split.
      * intros [Hx Hn]. split; [right; exact Hx|]. intros [E|H]; [subst; contradiction | contradiction].
      * intros [[E|Hx] Hn]; [subst; exfalso; apply Hn; left; reflexivity|]. split; [exact Hx | tauto].
    + split.
      * intros [E|[Hx Hn]]; [subst; split; [left; reflexivity | apply V] | tauto].
      * intros [[E|Hx] Hn]; [left; exact E | right; tauto].
  - simpl. rewrite (IH ND'). split.
    + intros [E|[Hx Hn]]; [subst; split; [left; reflexivity | apply V] | tauto].
    + intros [[E|Hx] Hn]; [left; exact E | right; tauto].
Qed.

Lemma keep_key_ssorted l : forall prev, ssorted l -> ssorted (keep_key prev l).
Proof.
  unfold ssorted. induction l as [|r l IH]; intros prev S; simpl; [constructor|].
  inversion S as [|? ? S' Hall]; subst.
  assert (C : forall pv, StronglySorted tx_lt (r :: keep_key pv l)).
  { intro pv. constructor; [apply IH; exact S'|]. rewrite Forall_forall in *. intros y Hy.
    apply Hall. eapply keep_key_subset; exact Hy. }
  destruct prev as [p|]; [destruct (same_data p r)|]; auto.
Qed.

Lemma ssorted_nodup l : ssorted l -> NoDup l.
Proof.
  unfold ssorted. induction l as [|r l IH]; intro S; [constructor|].
  inversion S as [|? ? S' Hall]; subst. constructor; [|auto].
  intro H. rewrite Forall_forall in Hall. specialize (Hall _ H). unfold tx_lt in Hall. lia.
Qed.

Lemma pk_unique_vacuum t : pk_unique t -> pk_unique (vacuum t).
Proof.
  unfold pk_unique, vacuum. generalize (fun r => negb (in_table (vacuum_deleted t) r)). intro f.
  induction t as [|x t IH]; simpl; intro ND; [constructor|].
  inversion ND as [|? ? Hnotin ND']; subst.
  destruct (f x); simpl; [constructor|]; auto.
  intro H. apply Hnotin. apply in_map_iff in H as [y [E Hy]]. apply filter_In in Hy.
  apply in_map_iff. exists y. tauto.
Qed.

Lemma versions_vacuum t k :
  pk_unique t -> versions (vacuum t) k = keep_key None (versions t k).
Proof.
  intro U. apply ssorted_ext.
  - apply versions_ssorted, pk_unique_vacuum, U.
  - apply keep_key_ssorted, versions_ssorted, U.
  - intro x. rewrite versions_members, (vacuum_survivor t x U),
      (keep_key_members _ (ssorted_nodup _ (versions_ssorted t k U))), versions_members.
    split.
    + intros [[Hx Hn] Hk]. split; [tauto|]. intro H. apply Hn. apply in_vacuum_deleted. subst k. tauto.
    + intros [[Hx Hk] Hn]. split; [|exact Hk]. split; [exact Hx|]. intro H.
      apply in_vacuum_deleted in H as [H _]. subst k. contradiction.
Qed.

Theorem vacuum_deleted_vacuum t : pk_unique t -> vacuum_deleted (vacuum t) = [].
Proof.
  intro U. unfold vacuum_deleted. induction (keys_of (vacuum t)) as [|k ks IH]; [reflexivity|].
  simpl. rewrite IH, versions_vacuum, vac_keep_nil by exact U. reflexivity.
Qed.

Theorem vacuum_idempotent t : pk_unique t -> vacuum (vacuum t) = vacuum t.
Proof.
  intro U. unfold vacuum at 1. rewrite (vacuum_deleted_vacuum t U).
  apply filter_all. intros x _. reflexivity.
Qed.
