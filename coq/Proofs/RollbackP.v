(* RollbackP.v — C06: a rolled-back database transaction leaves no trace in the model's database nor
   in the unit of work, and what follows behaves as if it had never been attempted. *)
From Continuum Require Import Model.Base Model.VTable Model.Core Proofs.CoreP Proofs.CoreChainP Proofs.CoreC01P.

Definition no_commit (evs : list ev) : Prop := ~ In Commit evs.

Lemma step_committed g s e : e <> Commit -> s_committed (step g s e) = s_committed s.
Proof.
  intro Hne. destruct e as [objs ents assoc| | | |a]; simpl.
  - destruct (hier_pass_parts g (flush g s objs ents assoc)) as [_ [_ [_ [_ [Ec _]]]]]. rewrite Ec.
    destruct (g_versioning g) eqn:Hv; [apply flush_committed; exact Hv|].
    destruct (flush_off g s objs ents assoc Hv) as [_ [_ [_ [_ [E _]]]]]. exact E.
  - contradiction.
  - reflexivity.
  - destruct (g_versioning g); reflexivity.
  - destruct ((g_versioning g || g_native g) && u_live (s_uow s)); reflexivity.
Qed.

Lemma fold_committed g evs : forall s, no_commit evs -> s_committed (fold_left (step g) evs s) = s_committed s.
Proof.
  induction evs as [|e evs IH]; intros s H; simpl; [reflexivity|].
  rewrite IH by (intro Hin; apply H; right; exact Hin).
  apply step_committed. intro E. apply H. left. exact E.
Qed.

(* whatever happened inside the transaction - any number of flushes, any partial work - a rollback
   restores the committed database and the initial unit-of-work state *)
Theorem rollback_restores g s evs :
  no_commit evs ->
  let s' := step g (fold_left (step g) evs s) Rollback in
  s_db s' = s_committed s /\ s_committed s' = s_committed s /\ s_uow s' = uow0.
Proof. intro H. simpl. rewrite (fold_committed g evs s H). auto. Qed.

(* ... so the rest of the program runs exactly as if the rolled-back transaction had never been
   attempted: from a transaction boundary the states coincide *)
Definition at_boundary (s : state) : Prop := s_db s = s_committed s /\ s_uow s = uow0.

Theorem as_if_never_attempted g s failed rest :
  at_boundary s -> no_commit failed ->
  s_err (fold_left (step g) failed s) = s_err s ->
  fold_left (step g) (failed ++ [Rollback] ++ rest) s = fold_left (step g) rest s.
Proof.
  intros [Hdb Hu] Hnc Herr. rewrite !fold_left_app. simpl.
  rewrite (fold_committed g failed s Hnc), Herr. f_equal.
  destruct s as [d c u e]. simpl in *. subst. reflexivity.
Qed.

(* the error flag hypothesis holds for every reachable state of a consistent configuration *)
Theorem as_if_never_attempted_reachable g p1 failed rest :
  cfg_consistent g -> hier_consistent g -> at_boundary (run g p1) -> no_commit failed ->
  run g (p1 ++ failed ++ [Rollback] ++ rest) = run g (p1 ++ rest).
Proof.
  intros CC FH Hb Hnc.
  assert (E1 : run g (p1 ++ failed ++ [Rollback] ++ rest) =
               fold_left (step g) (failed ++ [Rollback] ++ rest) (run g p1))
    by (unfold run; rewrite fold_left_app; reflexivity).
  assert (E2 : run g (p1 ++ rest) = fold_left (step g) rest (run g p1))
    by (unfold run; rewrite fold_left_app; reflexivity).
  rewrite E1, E2. apply as_if_never_attempted; [exact Hb | exact Hnc|].
  assert (E3 : fold_left (step g) failed (run g p1) = run g (p1 ++ failed))
    by (unfold run; rewrite fold_left_app; reflexivity).
  rewrite E3, !(reachable_no_error _ _ CC FH). reflexivity.
Qed.

(* a commit puts the machine at a boundary; so does a rollback *)
Lemma boundary_after_commit g s : at_boundary (step g s Commit).
Proof. split; reflexivity. Qed.
Lemma boundary_after_rollback g s : at_boundary (step g s Rollback).
Proof. split; reflexivity. Qed.
