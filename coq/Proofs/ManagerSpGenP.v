(* ManagerSpGenP.v — the functions generated from manager.py's savepoint bookkeeping (Gen/ManagerSpGen.v, rewritten on
   every build by harness/pytrans_sp.py) ARE the functions of Model/ManagerSp.v. *)
From Continuum Require Import Model.Base Model.VTable Model.Core Model.Manager Model.Savepoint Model.ManagerSp
  Gen.ManagerSpGen Proofs.ManagerP.

Lemma gen_session_unit_of_work_is_session_uow G sid :
  gen_session_unit_of_work (g_uows G) (g_smap G) sid = session_uow G sid.
Proof. reflexivity. Qed.

(* what SBegin pushes (besides the database) is what track_savepoint stores for a nested transaction *)
Lemma gen_track_savepoint_is_model G sid :
  gen_track_savepoint true (g_uows G) (g_smap G) sid = Some (option_map snd (session_uow G sid)) /\
  gen_track_savepoint false (g_uows G) (g_smap G) sid = None.
Proof. split; reflexivity. Qed.

Lemma gen_rollback_savepoint_is_model G sid saved :
  gen_rollback_savepoint (g_uows G) (g_smap G) sid saved =
  (g_uows (rollback_savepoint G sid saved), g_smap (rollback_savepoint G sid saved)).
Proof.
  unfold gen_rollback_savepoint, rollback_savepoint. rewrite gen_session_unit_of_work_is_session_uow.
  destruct (session_uow G sid) as [[c u]|] eqn:E; [|reflexivity].
  destruct saved as [u0|]; [reflexivity|]. cbn [g_uows g_smap].
  unfold session_uow in E. destruct (aget (g_smap G) sid) as [c'|] eqn:Em; [|discriminate].
  destruct (aget (g_uows G) c') as [u'|]; [|discriminate]. inversion E; subst c' u'. reflexivity.
Qed.

Lemma gen_forget_savepoints_checked : gen_forget_savepoints_drops_the_sessions_entries = true.
Proof. reflexivity. Qed.

Lemma gen_release_checked : gen_release_drops_the_entry_of_the_released_savepoint = true.
Proof. reflexivity. Qed.
