(* ManagerSpP.v — C09 with savepoints: in any interleaving of independent sessions that open, roll back and release
   nested transactions, what a session sees (its unit of work, its map entry, its database, its savepoint stack) is
   what it sees when its own events run alone; and that is the single-session savepoint machine of Savepoint.v, so
   the savepoint theorems of C06 hold for every session of every interleaving. *)
From Continuum Require Import Model.Base Model.VTable Model.Core Model.Manager Model.Savepoint Model.ManagerSp
  Proofs.CoreP Proofs.ManagerP.

Section ManagerSpP.
  Variable dbapi : nat -> nat.
  Variable closed : nat -> bool.
  Variable conn_of : nat -> nat.
  Hypothesis conn_inj : forall a b, conn_of a = conn_of b -> a = b.
  Notation gstep := (gstep dbapi closed).
  Notation gsstep := (gsstep dbapi closed).
  Notation indep := (indep dbapi closed).
  Notation owns := (owns conn_of).

  (* ---- the pieces ---- *)
  Lemma stack_of_aset_same S G sid l : stack_of (mkgsp G (aset (gs_sps S) sid l)) sid = l.
  Proof. unfold stack_of. simpl. rewrite aget_aset_same. reflexivity. Qed.

  Lemma stack_of_aset_other S G sid sid' l : sid' <> sid -> stack_of (mkgsp G (aset (gs_sps S) sid l)) sid' = stack_of S sid'.
  Proof. intro H. unfold stack_of. simpl. rewrite aget_aset_other by exact H. reflexivity. Qed.

  Lemma stack_of_adel_same S G sid : stack_of (mkgsp G (adel (gs_sps S) sid)) sid = [].
  Proof. unfold stack_of. simpl. rewrite aget_adel_same. reflexivity. Qed.

  Lemma stack_of_adel_other S G sid sid' : sid' <> sid -> stack_of (mkgsp G (adel (gs_sps S) sid)) sid' = stack_of S sid'.
  Proof. intro H. unfold stack_of. simpl. rewrite aget_adel_other by exact H. reflexivity. Qed.

  Lemma stack_of_same_sps S G sid : stack_of (mkgsp G (gs_sps S)) sid = stack_of S sid.
  Proof. reflexivity. Qed.

  Lemma session_uow_conn G sid c u :
    smap_ok conn_of G -> session_uow G sid = Some (c, u) ->
    c = conn_of sid /\ aget (g_smap G) sid = Some c /\ aget (g_uows G) c = Some u.
  Proof.
    intros Hok H. unfold session_uow in H. destruct (aget (g_smap G) sid) as [c'|] eqn:E; [|discriminate].
    destruct (aget (g_uows G) c') as [u'|] eqn:Eu; [|discriminate]. inversion H; subst c' u'.
    split; [apply Hok; apply in_smap_aget; exact E | split; [reflexivity | exact Eu]].
  Qed.

  Lemma set_db_smap G c d : g_smap (set_db G c d) = g_smap G.
  Proof. unfold set_db. destruct (db_of G c) as [[? ?] ?]. reflexivity. Qed.
  Lemma set_db_uows G c d : g_uows (set_db G c d) = g_uows G.
  Proof. unfold set_db. destruct (db_of G c) as [[? ?] ?]. reflexivity. Qed.

  Lemma view_set_db_other G c d s : ss_conn s <> c -> view (set_db G c d) s = view G s.
  Proof.
    intro H. unfold view. rewrite set_db_smap, set_db_uows. unfold set_db. destruct (db_of G c) as [[? cm] err].
    simpl. rewrite aget_aset_other by exact H. reflexivity.
  Qed.

  Lemma view_set_db_same G d s :
    view (set_db G (ss_conn s) d) s =
    (aget (g_uows G) (ss_conn s), aget (g_smap G) (ss_id s),
     Some (d, snd (fst (db_of G (ss_conn s))), snd (db_of G (ss_conn s)))).
  Proof.
    unfold view. rewrite set_db_smap, set_db_uows. unfold set_db. destruct (db_of G (ss_conn s)) as [[? cm] err].
    simpl. rewrite aget_aset_same. reflexivity.
  Qed.

  Lemma rollback_savepoint_smap_ok G sid u : smap_ok conn_of G -> smap_ok conn_of (rollback_savepoint G sid u).
  Proof.
    intro Hok. unfold rollback_savepoint. destruct (session_uow G sid) as [[c u1]|]; [|exact Hok].
    destruct u; [exact Hok|]. intros sid' c' Hin. simpl in Hin. unfold adel in Hin.
    apply filter_In in Hin as [Hin _]. apply Hok. exact Hin.
  Qed.

  Lemma view_rollback_savepoint_other G s s' u :
    indep s s' -> smap_ok conn_of G -> owns s' -> view (rollback_savepoint G (ss_id s') u) s = view G s.
  Proof.
    intros [Hid [Hc _]] Hok Hco'. unfold rollback_savepoint.
    destruct (session_uow G (ss_id s')) as [[c u1]|] eqn:E; [|reflexivity].
    destruct (session_uow_conn G _ _ _ Hok E) as [Ec _]. unfold ManagerP.owns in Hco'. rewrite Hco' in Ec. subst c.
    destruct u; unfold view; simpl.
    - rewrite aget_aset_other by exact Hc. reflexivity.
    - rewrite (aget_adel_other (g_uows G) (ss_conn s') (ss_conn s) Hc).
      rewrite (aget_adel_other (g_smap G) (ss_id s') (ss_id s) Hid). reflexivity.
  Qed.

  (* the view after the manager's part of a savepoint rollback, as a function of the view before *)
  Definition rb_view (v : option uow * option nat * option (db * db * bool)) (saved : option uow) :=
    match fst (fst v), snd (fst v) with
    | Some _, Some _ => match saved with
                        | Some u0 => (Some u0, snd (fst v), snd v)
                        | None => (None, None, snd v)
                        end
    | _, _ => v
    end.

  Lemma view_rollback_savepoint_same G s u :
    owns s -> smap_ok conn_of G ->
    view (rollback_savepoint G (ss_id s) u) s = rb_view (view G s) u.
  Proof.
    intros Hco Hok. unfold rollback_savepoint, session_uow, rb_view, view. simpl.
    destruct (aget (g_smap G) (ss_id s)) as [c|] eqn:E.
    - assert (c = ss_conn s) by (apply (smap_entry_is_conn conn_of G s c Hco Hok E)). subst c.
      destruct (aget (g_uows G) (ss_conn s)) as [u1|] eqn:Eu; [|rewrite E, Eu; reflexivity].
      destruct u; simpl.
      + rewrite aget_aset_same, E. reflexivity.
      + rewrite !aget_adel_same. reflexivity.
    - destruct (aget (g_uows G) (ss_conn s)); rewrite E; reflexivity.
  Qed.

  Lemma session_uow_view G s :
    owns s -> smap_ok conn_of G ->
    option_map snd (session_uow G (ss_id s)) =
    match snd (fst (view G s)) with Some _ => fst (fst (view G s)) | None => None end.
  Proof.
    intros Hco Hok. unfold session_uow, view. simpl.
    destruct (aget (g_smap G) (ss_id s)) as [c|] eqn:E; [|reflexivity].
    assert (c = ss_conn s) by (apply (smap_entry_is_conn conn_of G s c Hco Hok E)). subst c.
    destruct (aget (g_uows G) (ss_conn s)); reflexivity.
  Qed.

  Lemma db_of_view G1 G2 s : view G1 s = view G2 s -> db_of G1 (ss_conn s) = db_of G2 (ss_conn s).
  Proof. intro H. destruct (view_eq_parts _ _ _ H) as [_ [_ E]]. unfold db_of. rewrite E. reflexivity. Qed.

  (* ---- invariants of the session map ---- *)
  Definition sp_ok (S : gsp) : Prop := smap_ok conn_of (gs_G S).

  Lemma gsstep_sp_ok g S s x : owns s -> sp_ok S -> sp_ok (gsstep g S s x).
  Proof.
    intros Hco Hok. unfold sp_ok in *. destruct x as [e| | |]; simpl.
    - destruct e; apply gstep_smap_ok; assumption.
    - exact Hok.
    - destruct (stack_of S (ss_id s)) as [|[d u] rest]; [exact Hok|]. simpl.
      apply rollback_savepoint_smap_ok. unfold smap_ok. rewrite set_db_smap. exact Hok.
    - destruct (stack_of S (ss_id s)) as [|[d u] rest]; exact Hok.
  Qed.

  (* ---- locality ---- *)
  Theorem sp_step_of_other_session_is_invisible g S s s' x :
    indep s s' -> sp_ok S -> owns s' -> owns s -> view_sp (gsstep g S s' x) s = view_sp S s.
  Proof.
    intros Hi Hok Hco' Hco. pose proof Hi as [Hid [Hc _]]. unfold view_sp.
    destruct x as [e| | |]; simpl.
    - rewrite (step_of_other_session_is_invisible dbapi closed conn_of g (gs_G S) s s' e Hi Hok Hco' Hco).
      f_equal. destruct e; try reflexivity; apply stack_of_adel_other; exact Hid.
    - f_equal. apply stack_of_aset_other. exact Hid.
    - destruct (stack_of S (ss_id s')) as [|[d u] rest]; [reflexivity|]. simpl. f_equal.
      + rewrite view_rollback_savepoint_other; [apply view_set_db_other; exact Hc | exact Hi | | exact Hco'].
        unfold smap_ok. rewrite set_db_smap. exact Hok.
      + apply stack_of_aset_other. exact Hid.
    - destruct (stack_of S (ss_id s')) as [|[d u] rest]; [reflexivity|]. simpl. f_equal.
      apply stack_of_aset_other. exact Hid.
  Qed.

  (* ---- a session's own steps depend only on what it sees ---- *)
  Lemma gsstep_view_det g S1 S2 s x :
    owns s -> sp_ok S1 -> sp_ok S2 -> view_sp S1 s = view_sp S2 s ->
    view_sp (gsstep g S1 s x) s = view_sp (gsstep g S2 s x) s.
  Proof.
    intros Hco Hok1 Hok2 Hv. unfold view_sp in Hv.
    assert (HvG : view (gs_G S1) s = view (gs_G S2) s) by exact (f_equal fst Hv).
    assert (Hst : stack_of S1 (ss_id s) = stack_of S2 (ss_id s)) by exact (f_equal snd Hv). clear Hv.
    unfold view_sp. destruct x as [e| | |]; simpl.
    - rewrite (gstep_view_det dbapi closed conn_of conn_inj g (gs_G S1) (gs_G S2) s e Hco Hok1 Hok2 HvG).
      f_equal. destruct e; try exact Hst; unfold stack_of; cbn [gs_sps]; rewrite !aget_adel_same; reflexivity.
    - rewrite !stack_of_aset_same. rewrite HvG, Hst. f_equal. f_equal. f_equal.
      + rewrite (db_of_view _ _ s HvG). reflexivity.
      + rewrite (session_uow_view (gs_G S1) s Hco Hok1), (session_uow_view (gs_G S2) s Hco Hok2), HvG. reflexivity.
    - rewrite <- Hst. destruct (stack_of S1 (ss_id s)) as [|[d u] rest] eqn:E1.
      + simpl. rewrite HvG, E1, <- Hst. reflexivity.
      + simpl. rewrite !stack_of_aset_same. f_equal.
        rewrite !view_rollback_savepoint_same; try exact Hco; try (unfold smap_ok; rewrite set_db_smap; assumption).
        rewrite !view_set_db_same. destruct (view_eq_parts _ _ _ HvG) as [E3 [E2 _]].
        rewrite E3, E2, (db_of_view _ _ s HvG). reflexivity.
    - rewrite <- Hst. destruct (stack_of S1 (ss_id s)) as [|[d u] rest] eqn:E1.
      + simpl. rewrite HvG, E1, <- Hst. reflexivity.
      + simpl. rewrite !stack_of_aset_same. rewrite HvG. reflexivity.
  Qed.

  (* ---- schedules ---- *)
  Definition sched_ok_sp (s : sess) (sched : list (sess * sev)) : Prop :=
    forall s' x, In (s', x) sched -> owns s' /\ (s' = s \/ indep s s').

  Definition mine_sp (s : sess) (se : sess * sev) : bool :=
    (ss_id (fst se) =? ss_id s)%nat && (ss_conn (fst se) =? ss_conn s)%nat.

  Lemma mine_sp_spec s se : mine_sp s se = true <-> fst se = s.
  Proof.
    unfold mine_sp. rewrite andb_true_iff, !Nat.eqb_eq. destruct se as [[i c] e], s as [i' c']. simpl.
    split; [intros [-> ->]; reflexivity | intro H; inversion H; auto].
  Qed.

  Theorem sp_non_interference g s : forall sched S S',
    owns s -> sched_ok_sp s sched -> sp_ok S -> sp_ok S' -> view_sp S s = view_sp S' s ->
    view_sp (fold_left (fun S se => gsstep g S (fst se) (snd se)) sched S) s =
    view_sp (fold_left (fun S se => gsstep g S (fst se) (snd se)) (filter (mine_sp s) sched) S') s.
  Proof.
    induction sched as [|[s' x] sched IH]; intros S S' Hs Hok HS HS' Hv; simpl; [exact Hv|].
    assert (Hrest : sched_ok_sp s sched) by (intros s0 e0 Hin; apply (Hok s0 e0); right; exact Hin).
    destruct (Hok s' x (or_introl eq_refl)) as [Hown' Hrel].
    destruct (mine_sp s (s', x)) eqn:M.
    - apply mine_sp_spec in M. simpl in M. subst s'. simpl.
      apply IH; try assumption; try (apply gsstep_sp_ok; assumption).
      apply gsstep_view_det; assumption.
    - destruct Hrel as [->|Hi]; [assert (mine_sp s (s, x) = true) by (apply mine_sp_spec; reflexivity); congruence|].
      apply IH; try assumption; [apply gsstep_sp_ok; assumption|].
      rewrite (sp_step_of_other_session_is_invisible g S s s' x Hi HS Hown' Hs). exact Hv.
  Qed.

  Theorem sp_interleaving_equals_solo_run g s sched :
    owns s -> sched_ok_sp s sched ->
    view_sp (gsrun dbapi closed g sched) s = view_sp (gsrun dbapi closed g (filter (mine_sp s) sched)) s.
  Proof.
    intros Hs Hok. unfold gsrun. apply sp_non_interference; try assumption; try (intros sid c []); reflexivity.
  Qed.
  (* ---- refinement: a session of any interleaving is the single-session savepoint machine ---- *)
  Fixpoint mono (l : list (db * option uow)) : Prop :=
    match l with
    | [] => True
    | du :: rest => (snd du = None -> Forall (fun e => snd e = None) rest) /\ mono rest
    end.

  (* a saved unit of work is still there; a savepoint begun without one is older than every one begun with one *)
  Definition stack_inv (S : gsp) (s : sess) : Prop :=
    (forall du, In du (stack_of S (ss_id s)) -> snd du <> None -> aget (g_uows (gs_G S)) (ss_conn s) <> None) /\
    mono (stack_of S (ss_id s)).

  Lemma gstep_keeps_uow g G s e :
    e <> Commit -> e <> Rollback -> aget (g_uows G) (ss_conn s) <> None ->
    aget (g_uows (gstep g G s e)) (ss_conn s) <> None.
  Proof.
    intros Hc Hr Hp. unfold Manager.gstep.
    destruct e as [objs ents assoc| | | |a]; try congruence.
    - destruct (g_versioning g); unfold store; simpl; [rewrite aget_aset_same; discriminate | exact Hp].
    - destruct (g_versioning g); unfold store; simpl; [rewrite aget_aset_same; discriminate | exact Hp].
    - unfold store. simpl. destruct (aget (g_uows G) (ss_conn s)); [rewrite aget_aset_same; discriminate | congruence].
  Qed.

  Lemma m_of_view S1 S2 s : view_sp S1 s = view_sp S2 s -> m_of S1 s = m_of S2 s.
  Proof.
    intro Hv. unfold view_sp in Hv.
    assert (HvG : view (gs_G S1) s = view (gs_G S2) s) by exact (f_equal fst Hv).
    assert (Hst : stack_of S1 (ss_id s) = stack_of S2 (ss_id s)) by exact (f_equal snd Hv).
    unfold m_of. rewrite (core_of_view _ _ s HvG), Hst. reflexivity.
  Qed.

  Lemma Forall_none_no_some (l : list (db * option uow)) du :
    Forall (fun e => snd e = None) l -> In du l -> snd du <> None -> False.
  Proof. intros F Hin Hn. rewrite Forall_forall in F. apply Hn. apply F. exact Hin. Qed.

  Lemma m_of_gsstep g S s x :
    owns s -> sp_ok S -> reg_ok s (gs_G S) -> stack_inv S s ->
    m_of (gsstep g S s x) s = mstep g (m_of S s) (mev_of x) /\
    reg_ok s (gs_G (gsstep g S s x)) /\ stack_inv (gsstep g S s x) s.
  Proof.
    intros Hco Hok Hreg [Ha Hb]. destruct x as [e| | |].
    - (* an ordinary event *)
      destruct (core_of_gstep dbapi closed conn_of conn_inj g (gs_G S) s e Hco Hok Hreg) as [Ecore Hreg'].
      split; [|split; [exact Hreg'|]].
      + unfold m_of. cbn [gsstep gs_G mev_of]. rewrite Ecore.
        destruct e as [objs ents assoc| | | |a]; cbn [mstep m_core m_sps]; try reflexivity;
          unfold stack_of; cbn [gs_sps]; rewrite aget_adel_same; reflexivity.
      + destruct e as [objs ents assoc| | | |a];
          try (split; [intros du Hin Hn; cbn [gsstep gs_G];
                       apply gstep_keeps_uow; [discriminate | discriminate | exact (Ha du Hin Hn)]
                      | exact Hb]);
          (split; [intros du Hin; unfold stack_of in Hin; cbn [gsstep gs_sps] in Hin;
                   rewrite aget_adel_same in Hin; contradiction
                  | unfold stack_of; cbn [gsstep gs_sps]; rewrite aget_adel_same; exact I]).
    - (* SBegin *)
      cbn [gsstep]. split; [|split; [exact Hreg|]].
      + unfold m_of. cbn [gs_G mev_of mstep m_core m_sps]. rewrite stack_of_aset_same. cbn [map fst snd]. f_equal. f_equal.
        f_equal.
        * unfold core_of. destruct (db_of (gs_G S) (ss_conn s)) as [[d cm] err]. reflexivity.
        * unfold core_of. destruct (db_of (gs_G S) (ss_conn s)) as [[d cm] err]. cbn [s_uow].
          unfold session_uow. destruct (aget (g_smap (gs_G S)) (ss_id s)) as [c|] eqn:E.
          -- rewrite (smap_entry_is_conn conn_of (gs_G S) s c Hco Hok E).
             destruct (aget (g_uows (gs_G S)) (ss_conn s)); reflexivity.
          -- destruct (aget (g_uows (gs_G S)) (ss_conn s)) as [u|] eqn:Eu; [|reflexivity].
             rewrite (Hreg u Eu) in E. discriminate.
      + split.
        * intros du Hin Hn. cbn [gs_G]. rewrite stack_of_aset_same in Hin. destruct Hin as [<-|Hin]; [|exact (Ha du Hin Hn)].
          cbn [snd] in Hn. destruct (session_uow (gs_G S) (ss_id s)) as [[c u]|] eqn:E; [|contradiction Hn; reflexivity].
          destruct (session_uow_conn _ _ _ _ Hok E) as [Ec [_ Eu]]. unfold ManagerP.owns in Hco. rewrite Hco in Ec. subst c.
          rewrite Eu. discriminate.
        * rewrite stack_of_aset_same. cbn [mono snd]. split; [|exact Hb].
          intro Hnone. apply Forall_forall. intros du Hin.
          destruct (snd du) as [u1|] eqn:Edu; [|reflexivity]. exfalso.
          assert (Hp : aget (g_uows (gs_G S)) (ss_conn s) <> None) by (apply (Ha du Hin); rewrite Edu; discriminate).
          destruct (aget (g_uows (gs_G S)) (ss_conn s)) as [u|] eqn:Eu; [|apply Hp; reflexivity].
          unfold session_uow in Hnone. rewrite (Hreg u Eu), Eu in Hnone. discriminate.
    - (* SRollback *)
      cbn [gsstep mev_of]. destruct (stack_of S (ss_id s)) as [|[d u] rest] eqn:Est.
      + split; [|split; [exact Hreg | unfold stack_inv; rewrite Est; split; [exact Ha | exact Hb]]].
        unfold m_of. rewrite Est. reflexivity.
      + cbn [mono snd] in Hb. destruct Hb as [Hnone Hmono].
        set (G1 := set_db (gs_G S) (ss_conn s) d).
        assert (Hok1 : smap_ok conn_of G1) by (unfold G1, smap_ok; rewrite set_db_smap; exact Hok).
        assert (Hu1 : g_uows G1 = g_uows (gs_G S)) by apply set_db_uows.
        assert (Hm1 : g_smap G1 = g_smap (gs_G S)) by apply set_db_smap.
        assert (Hpres : snd (d, u) <> None -> aget (g_uows (gs_G S)) (ss_conn s) <> None)
          by (apply Ha; left; reflexivity).
        split; [|split].
        * unfold m_of. cbn [gs_G]. rewrite stack_of_aset_same, Est. cbn [map fst snd mstep m_sps m_core].
          f_equal. rewrite !core_of_core_view.
          rewrite (view_rollback_savepoint_same G1 s u Hco Hok1). unfold G1. rewrite view_set_db_same.
          unfold with_saved, core_view, rb_view, view. cbn [fst snd s_committed s_err].
          unfold db_of.
          destruct (aget (g_dbs (gs_G S)) (ss_conn s)) as [[[d0 cm] err]|];
          destruct (aget (g_uows (gs_G S)) (ss_conn s)) as [u1|] eqn:Eu;
          destruct (aget (g_smap (gs_G S)) (ss_id s)) as [c1|] eqn:Em;
          destruct u as [u0|]; cbn [fst snd uow_or0]; try reflexivity;
          try (rewrite (Hreg u1 Eu) in Em; discriminate);
          try (exfalso; apply Hpres; [discriminate | reflexivity]).
        * (* reg_ok *)
          cbn [gs_G]. unfold rollback_savepoint.
          destruct (session_uow G1 (ss_id s)) as [[c u1]|] eqn:E.
          -- destruct (session_uow_conn _ _ _ _ Hok1 E) as [Ec [Em _]]. unfold ManagerP.owns in Hco. rewrite Hco in Ec. subst c.
             destruct u as [u0|]; intros u2 H2; cbn [g_uows g_smap] in *.
             ++ exact Em.
             ++ rewrite aget_adel_same in H2. discriminate.
          -- intros u2 H2. rewrite Hu1 in H2. rewrite Hm1. exact (Hreg u2 H2).
        * (* stack_inv *)
          split.
          -- intros du Hin Hn. cbn [gs_G]. rewrite stack_of_aset_same in Hin.
             destruct u as [u0|].
             ++ assert (Hp : aget (g_uows (gs_G S)) (ss_conn s) <> None) by (apply Hpres; discriminate).
                unfold rollback_savepoint. destruct (session_uow G1 (ss_id s)) as [[c u1]|] eqn:E.
                ** destruct (session_uow_conn _ _ _ _ Hok1 E) as [Ec _]. unfold ManagerP.owns in Hco. rewrite Hco in Ec. subst c.
                   cbn [g_uows]. rewrite aget_aset_same. discriminate.
                ** rewrite Hu1. exact Hp.
             ++ exfalso. exact (Forall_none_no_some rest du (Hnone eq_refl) Hin Hn).
          -- rewrite stack_of_aset_same. exact Hmono.
    - (* SRelease *)
      cbn [gsstep mev_of]. destruct (stack_of S (ss_id s)) as [|[d u] rest] eqn:Est.
      + split; [|split; [exact Hreg | unfold stack_inv; rewrite Est; split; [exact Ha | exact Hb]]].
        unfold m_of. rewrite Est. reflexivity.
      + cbn [mono snd] in Hb. destruct Hb as [_ Hmono].
        split; [|split; [exact Hreg|split]].
        * unfold m_of. cbn [gs_G]. rewrite stack_of_aset_same, Est. reflexivity.
        * intros du Hin Hn. cbn [gs_G]. rewrite stack_of_aset_same in Hin. apply (Ha du); [right; exact Hin | exact Hn].
        * rewrite stack_of_aset_same. exact Hmono.
  Qed.

  Theorem solo_run_is_savepoint_run g s : forall xs S,
    owns s -> sp_ok S -> reg_ok s (gs_G S) -> stack_inv S s ->
    m_of (fold_left (fun S x => gsstep g S s x) xs S) s = fold_left (mstep g) (map mev_of xs) (m_of S s).
  Proof.
    induction xs as [|x xs IH]; intros S Hco Hok Hreg Hinv; simpl; [reflexivity|].
    destruct (m_of_gsstep g S s x Hco Hok Hreg Hinv) as [E [R I']].
    rewrite IH; [rewrite E; reflexivity | exact Hco | apply gsstep_sp_ok; assumption | exact R | exact I'].
  Qed.

  Lemma fold_own_steps_sp g s : forall (l : list (sess * sev)) S,
    (forall se, In se l -> fst se = s) ->
    fold_left (fun S se => gsstep g S (fst se) (snd se)) l S =
    fold_left (fun S x => gsstep g S s x) (map snd l) S.
  Proof.
    induction l as [|[s' x] l IH]; intros S H; simpl; [reflexivity|].
    assert (s' = s) by (apply (H (s', x)); left; reflexivity). subst s'.
    apply IH. intros se Hin. apply H. right. exact Hin.
  Qed.

  (* in ANY interleaving of independent sessions with savepoints, the database, the committed database, the unit of
     work and the savepoint stack of session s are those of the single-session savepoint machine (Savepoint.v) run on
     the session's own events *)
  Theorem interleaved_session_is_savepoint_run g s sched :
    owns s -> sched_ok_sp s sched ->
    m_of (gsrun dbapi closed g sched) s = mrun g (map mev_of (map snd (filter (mine_sp s) sched))).
  Proof.
    intros Hs Hok.
    rewrite (m_of_view _ _ s (sp_interleaving_equals_solo_run g s sched Hs Hok)).
    unfold gsrun. rewrite (fold_own_steps_sp g s).
    - rewrite solo_run_is_savepoint_run; [reflexivity | exact Hs | intros sid c [] | intros u Hu; discriminate |].
      split; [intros du [] | exact I].
    - intros se Hin. apply filter_In in Hin as [_ Hm]. apply mine_sp_spec. exact Hm.
  Qed.
End ManagerSpP.
