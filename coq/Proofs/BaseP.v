(* BaseP.v — reflection lemmas for the boolean equalities of Base.v *)
From Continuum Require Import Model.Base.

Lemma list_eqb_spec {A} (eqb : A -> A -> bool) :
  (forall x y, eqb x y = true <-> x = y) ->
  forall a b, list_eqb eqb a b = true <-> a = b.
Proof.
  intros H a; induction a as [|x a IH]; intros [|y b]; simpl; split; intro E;
    try reflexivity; try discriminate.
  - apply andb_true_iff in E as [E1 E2]. apply H in E1. apply IH in E2. congruence.
  - inversion E; subst. apply andb_true_iff; split; [apply H | apply IH]; reflexivity.
Qed.

Lemma pk_eqb_eq a b : pk_eqb a b = true <-> a = b.
Proof. apply list_eqb_spec. intros; apply Z.eqb_eq. Qed.

Lemma pk_eqb_refl a : pk_eqb a a = true.
Proof. apply pk_eqb_eq; reflexivity. Qed.

Lemma pk_eqb_neq a b : pk_eqb a b = false <-> a <> b.
Proof.
  split; intro H.
  - intro E. apply pk_eqb_eq in E. congruence.
  - destruct (pk_eqb a b) eqn:E; [apply pk_eqb_eq in E; contradiction | reflexivity].
Qed.

Lemma pk_eqb_sym a b : pk_eqb a b = pk_eqb b a.
Proof.
  destruct (pk_eqb a b) eqn:E1, (pk_eqb b a) eqn:E2; try reflexivity.
  - apply pk_eqb_eq in E1; subst. rewrite pk_eqb_refl in E2; discriminate.
  - apply pk_eqb_eq in E2; subst. rewrite pk_eqb_refl in E1; discriminate.
Qed.

Lemma oz_eqb_eq a b : oz_eqb a b = true <-> a = b.
Proof.
  destruct a, b; simpl; split; intro H; try reflexivity; try discriminate.
  - apply Z.eqb_eq in H; congruence.
  - inversion H; apply Z.eqb_refl.
Qed.

Lemma sql_eq_some a b : sql_eq a b = true <-> exists x, a = Some x /\ b = Some x.
Proof.
  destruct a, b; simpl; split; intro H; try discriminate;
    try (destruct H as [x [H1 H2]]; discriminate).
  - apply Z.eqb_eq in H; subst. eauto.
  - destruct H as [x [H1 H2]]. inversion H1; inversion H2; subst. apply Z.eqb_refl.
Qed.

Lemma same_key_eq k r : same_key k r = true <-> vkey r = k.
Proof. unfold same_key. apply pk_eqb_eq. Qed.

Lemma pk_unique_inj t a b :
  pk_unique t -> In a t -> In b t -> vkey a = vkey b -> vtx a = vtx b -> a = b.
Proof.
  unfold pk_unique. induction t as [|x t IH]; simpl; intros ND Ha Hb Hk Ht; [contradiction|].
  inversion ND as [|? ? Hnotin ND']; subst.
  destruct Ha as [Ha|Ha], Hb as [Hb|Hb]; subst.
  - reflexivity.
  - exfalso. apply Hnotin. apply in_map_iff. exists b. split; [|assumption].
    unfold vid. congruence.
  - exfalso. apply Hnotin. apply in_map_iff. exists a. split; [|assumption].
    unfold vid. congruence.
  - apply IH; assumption.
Qed.

Lemma pk_unique_tail x t : pk_unique (x :: t) -> pk_unique t.
Proof. unfold pk_unique; simpl; intro H; inversion H; assumption. Qed.
