(* RowsP.v — what processing the operations of one flush does to the version rows:
   every unprocessed operation leaves its row (kind, data) at the current transaction id, every
   other row survives up to its end column, and nothing else appears (C01, C11, C13, C17). *)
From Continuum Require Import Model.Base Model.VTable Model.Backfill Model.Core
     Proofs.BaseP Proofs.CoreP Proofs.ChainP.

Definition upto_end (r r' : vrow) : Prop :=
  vkey r' = vkey r /\ vtx r' = vtx r /\ vop r' = vop r /\ vdat r' = vdat r.

Lemma upto_end_refl r : upto_end r r.
Proof. unfold upto_end. auto. Qed.

Lemma upto_end_trans a b c : upto_end a b -> upto_end b c -> upto_end a c.
Proof. unfold upto_end. intros [A1 [A2 [A3 A4]]] [B1 [B2 [B3 B4]]]. repeat split; congruence. Qed.

Lemma upto_end_set_end r e : upto_end r (set_end r e).
Proof. unfold upto_end, set_end. simpl. auto. Qed.

(* ---- close_pred only touches end columns ---- *)
Lemma close_pred_fwd t k T r : In r t -> exists r', In r' (close_pred t k T) /\ upto_end r r'.
Proof.
  intro H. unfold close_pred.
  exists (if same_key k r && sql_eq (Some (vtx r)) (max_below t k T) then set_end r (Some T) else r).
  split; [apply in_map_iff; exists r; auto|].
  destruct (same_key k r && sql_eq (Some (vtx r)) (max_below t k T));
    [apply upto_end_set_end | apply upto_end_refl].
Qed.

Lemma close_pred_bwd t k T r' : In r' (close_pred t k T) -> exists r, In r t /\ upto_end r r'.
Proof.
  unfold close_pred. intro H. apply in_map_iff in H as [r [E Hr]]. exists r. split; [exact Hr|].
  destruct (same_key k r && sql_eq (Some (vtx r)) (max_below t k T)); subst r';
    [apply upto_end_set_end | apply upto_end_refl].
Qed.

(* ---- one write ---- *)
Section Write.
  Variables (vt : vtable) (k : pk) (T kind : Z) (dat : list val) (fl : list bool) (validity : bool).
  Variable p : bool.
  Hypothesis HP : p = existsb (is_row k T) vt.
  Let res := write_row p vt k T kind dat fl validity.

  Lemma is_row_iff r : is_row k T r = true <-> vkey r = k /\ vtx r = T.
  Proof. unfold is_row. rewrite andb_true_iff, same_key_eq, Z.eqb_eq. tauto. Qed.

  Definition wvt1 : vtable :=
    if p
    then map (fun r => if is_row k T r then mkv k T (vend r) kind dat (orb_list (vmod r) fl) else r) vt
    else vt ++ [mkv k T None kind dat fl].

  Lemma res_fwd r1 : In r1 wvt1 -> exists r', In r' res /\ upto_end r1 r'.
  Proof.
    intro H. unfold res, write_row. fold wvt1. destruct validity.
    - apply close_pred_fwd; exact H.
    - exists r1. split; [exact H | apply upto_end_refl].
  Qed.

  Lemma res_bwd r' : In r' res -> exists r1, In r1 wvt1 /\ upto_end r1 r'.
  Proof.
    unfold res, write_row. fold wvt1. destruct validity.
    - apply close_pred_bwd.
    - intro H. exists r'. split; [exact H | apply upto_end_refl].
  Qed.

  (* W1: the written row is there *)
  Lemma write_row_written :
    exists r, In r res /\ vkey r = k /\ vtx r = T /\ vop r = kind /\ vdat r = dat.
  Proof.
    assert (H1 : exists r1, In r1 wvt1 /\ vkey r1 = k /\ vtx r1 = T /\ vop r1 = kind /\ vdat r1 = dat).
    { unfold wvt1. destruct p.
      - symmetry in HP. apply existsb_exists in HP as [r0 [Hr0 E]].
        exists (mkv k T (vend r0) kind dat (orb_list (vmod r0) fl)). split; [|simpl; auto].
        apply in_map_iff. exists r0. rewrite E. auto.
      - exists (mkv k T None kind dat fl). split; [apply in_or_app; right; left; reflexivity | simpl; auto]. }
    destruct H1 as [r1 [Hr1 [E1 [E2 [E3 E4]]]]].
    destruct (res_fwd r1 Hr1) as [r' [Hr' [U1 [U2 [U3 U4]]]]].
    exists r'. repeat split; congruence.
  Qed.

  (* W2: every other row survives up to its end column *)
  Lemma write_row_keeps r : In r vt -> is_row k T r = false -> exists r', In r' res /\ upto_end r r'.
  Proof.
    intros Hr Hn. apply res_fwd. unfold wvt1. destruct p.
    - apply in_map_iff. exists r. rewrite Hn. auto.
    - apply in_or_app. left. exact Hr.
  Qed.

  (* W3: nothing else appears *)
  Lemma write_row_only r' :
    In r' res ->
    (vkey r' = k /\ vtx r' = T /\ vop r' = kind /\ vdat r' = dat) \/
    (exists r, In r vt /\ is_row k T r = false /\ upto_end r r').
  Proof.
    intro H. apply res_bwd in H as [r1 [Hr1 U]]. unfold wvt1 in Hr1.
    destruct U as [U1 [U2 [U3 U4]]].
    destruct p.
    - apply in_map_iff in Hr1 as [r0 [E Hr0]]. destruct (is_row k T r0) eqn:Er.
      + left. subst r1. simpl in *. repeat split; congruence.
      + right. subst r1. exists r0. split; [exact Hr0|]. split; [exact Er|]. repeat split; assumption.
    - apply in_app_or in Hr1 as [Hr1|[<-|[]]].
      + right. exists r1. split; [exact Hr1|]. split; [|repeat split; assumption].
        destruct (is_row k T r1) eqn:Er; [|reflexivity]. exfalso.
        assert (existsb (is_row k T) vt = true) by (apply existsb_exists; exists r1; auto).
        congruence.
      + left. simpl in *. repeat split; congruence.
  Qed.
End Write.

(* ---- all operations of one flush ---- *)
From Continuum Require Import Proofs.CoreChainP.

Definition vk (g : cfg) (o : oper) : pk := k_tab (cls_of g (op_cls o)) :: op_key o.

Definition row_of_op (g : cfg) (T : Z) (o : oper) (r : vrow) : Prop :=
  vkey r = vk g o /\ vtx r = T /\ vop r = op_kind o /\ vdat r = op_dat g (cls_of g (op_cls o)) o.

Definition targeted (g : cfg) (T : Z) (l : list oper) (r : vrow) : Prop :=
  exists o, In o l /\ op_proc o = false /\ vkey r = vk g o /\ vtx r = T.

Definition unproc (l : list oper) : list oper := filter (fun o => negb (op_proc o)) l.

Lemma targeted_upto g T l r r' : upto_end r r' -> targeted g T l r' -> targeted g T l r.
Proof.
  intros [U1 [U2 _]] [o [Ho [Hp [E1 E2]]]]. exists o. repeat split; try assumption; congruence.
Qed.

Lemma process_op_vt g T vt vobjs err o :
  op_proc o = false -> cache_ok T vt vobjs ->
  fst (fst (process_op g T (vt, vobjs, err) o)) =
  write_row (existsb (is_row (vk g o) T) vt) vt (vk g o) T (op_kind o)
            (op_dat g (cls_of g (op_cls o)) o) (flags_now g (cls_of g (op_cls o)) o)
            (k_validity (cls_of g (op_cls o))).
Proof.
  intros Hp C. unfold process_op. rewrite Hp. simpl.
  rewrite (known_iff_present T vt vobjs _ C). reflexivity.
Qed.

Lemma fold_rows g T txs : forall l acc,
  cfg_consistent g -> In T txs -> acc_ok g T txs acc -> NoDup (map (vk g) (unproc l)) ->
  let vt0 := fst (fst acc) in
  let vt' := fst (fst (fold_left (process_op g T) l acc)) in
  (forall o, In o l -> op_proc o = false -> exists r, In r vt' /\ row_of_op g T o r) /\
  (forall r, In r vt0 -> ~ targeted g T l r -> exists r', In r' vt' /\ upto_end r r') /\
  (forall r', In r' vt' ->
     (exists o, In o l /\ op_proc o = false /\ row_of_op g T o r') \/
     (exists r, In r vt0 /\ upto_end r r' /\ ~ targeted g T l r)).
Proof.
  induction l as [|o l IH]; intros acc CC HT A ND; simpl.
  - split; [intros o []|]. split.
    + intros r Hr _. exists r. split; [exact Hr | apply upto_end_refl].
    + intros r' Hr'. right. exists r'. split; [exact Hr'|]. split; [apply upto_end_refl|].
      intros [o [[] _]].
  - pose proof (process_op_ok g T txs acc o CC HT A) as A1.
    destruct (op_proc o) eqn:Hp.
    + (* already processed: skipped *)
      assert (Eacc : process_op g T acc o = acc).
      { destruct acc as [[vt vobjs] err]. unfold process_op. rewrite Hp. reflexivity. }
      rewrite Eacc in *.
      assert (ND' : NoDup (map (vk g) (unproc l))).
      { unfold unproc in ND. simpl in ND. rewrite Hp in ND. exact ND. }
      destruct (IH acc CC HT A ND') as [F1 [F2 F3]].
      split; [|split].
      * intros o' [<-|Ho'] Hp'; [congruence | apply F1; assumption].
      * intros r Hr Hnt. apply F2; [exact Hr|]. intros [o' [Ho' Hrest]]. apply Hnt.
        exists o'. split; [right; exact Ho' | exact Hrest].
      * intros r' Hr'. destruct (F3 r' Hr') as [[o' [Ho' Hrest]]|[r [Hr [U Hnt]]]].
        -- left. exists o'. split; [right; exact Ho' | exact Hrest].
        -- right. exists r. split; [exact Hr|]. split; [exact U|].
           intros [o' [[<-|Ho'] [Hp' Hrest]]]; [congruence|]. apply Hnt. exists o'. auto.
    + (* processed now *)
      assert (ND' : NoDup (map (vk g) (unproc l)) /\ ~ In (vk g o) (map (vk g) (unproc l))).
      { unfold unproc in ND. simpl in ND. rewrite Hp in ND. simpl in ND.
        inversion ND; subst. split; assumption. }
      destruct ND' as [ND' Hnot].
      destruct (IH (process_op g T acc o) CC HT A1 ND') as [F1 [F2 F3]].
      destruct acc as [[vt vobjs] err].
      assert (C : cache_ok T vt vobjs) by (destruct A as [_ [_ [C _]]]; exact C).
      pose proof (process_op_vt g T vt vobjs err o Hp C) as Evt.
      set (cc := cls_of g (op_cls o)) in *.
      set (acc1 := process_op g T (vt, vobjs, err) o) in *.
      simpl (fst (fst (vt, vobjs, err))).
      (* later operations do not target the row of o *)
      assert (Hlater : forall r, vkey r = vk g o -> vtx r = T -> ~ targeted g T l r).
      { intros r E1 E2 [o' [Ho' [Hp' [E1' _]]]]. apply Hnot. apply in_map_iff. exists o'.
        split; [congruence|]. unfold unproc. apply filter_In. split; [exact Ho'|]. rewrite Hp'. reflexivity. }
      split; [|split].
      * intros o' [<-|Ho'] Hp'; [|apply F1; assumption].
        destruct (write_row_written vt (vk g o) T (op_kind o) (op_dat g cc o) (flags_now g cc o)
                    (k_validity cc) _ eq_refl) as [r1 [Hr1 [E1 [E2 [E3 E4]]]]].
        rewrite <- Evt in Hr1.
        destruct (F2 r1 Hr1 (Hlater r1 E1 E2)) as [r' [Hr' [U1 [U2 [U3 U4]]]]].
        exists r'. split; [exact Hr'|]. unfold row_of_op. fold cc. repeat split; congruence.
      * intros r Hr Hnt.
        assert (Hn : is_row (vk g o) T r = false).
        { destruct (is_row (vk g o) T r) eqn:Er; [|reflexivity]. exfalso. apply Hnt.
          apply is_row_iff in Er as [E1 E2]. exists o. split; [left; reflexivity|]. auto. }
        destruct (write_row_keeps vt (vk g o) T (op_kind o) (op_dat g cc o) (flags_now g cc o)
                    (k_validity cc) _ eq_refl r Hr Hn) as [r1 [Hr1 U1]].
        rewrite <- Evt in Hr1.
        destruct (F2 r1 Hr1) as [r' [Hr' U2]].
        { intro Ht. apply Hnt. apply (targeted_upto g T l r r1 U1) in Ht.
          destruct Ht as [o' [Ho' Hrest]]. exists o'. split; [right; exact Ho' | exact Hrest]. }
        exists r'. split; [exact Hr' | eapply upto_end_trans; eassumption].
      * intros r' Hr'. destruct (F3 r' Hr') as [[o' [Ho' Hrest]]|[r1 [Hr1 [U Hnt]]]].
        -- left. exists o'. split; [right; exact Ho' | exact Hrest].
        -- rewrite Evt in Hr1.
           destruct (write_row_only vt (vk g o) T (op_kind o) (op_dat g cc o) (flags_now g cc o)
                       (k_validity cc) _ eq_refl r1 Hr1) as [[E1 [E2 [E3 E4]]]|[r [Hr [Hn U0]]]].
           ++ left. exists o. split; [left; reflexivity|]. split; [exact Hp|].
              destruct U as [U1 [U2 [U3 U4]]]. unfold row_of_op. fold cc. repeat split; congruence.
           ++ right. exists r. split; [exact Hr|]. split; [eapply upto_end_trans; eassumption|].
              intros [o' [[<-|Ho'] [Hp' [E1 E2]]]].
              ** assert (is_row (vk g o) T r = true) by (apply is_row_iff; auto). congruence.
              ** apply Hnt. apply (targeted_upto g T l r1 r1 (upto_end_refl r1)).
                 destruct U0 as [V1 [V2 _]]. exists o'. repeat split; try assumption; congruence.
Qed.
