(* LiveP.v — the application's own tables as defined by the DML of a flush, and the operations map
   after the trackers, looked up per entity (used by C01). *)
From Continuum Require Import Model.Base Model.VTable Model.Core Proofs.BaseP Proofs.VTableP Proofs.TrackP.

Definition find_live (live : list lrow) (c : nat) (k : pk) : option lrow := find (same_l c k) live.

Lemma same_l_spec c k r : same_l c k r = true <-> l_cls r = c /\ l_key r = k.
Proof. unfold same_l. rewrite andb_true_iff, Nat.eqb_eq, pk_eqb_eq. tauto. Qed.

Definition ev_id (g : cfg) (e : ent_ev) : nat * pk := (e_cls e, ev_key g e).

Lemma find_app_none {A} (p : A -> bool) l1 l2 : find p l1 = None -> find p (l1 ++ l2) = find p l2.
Proof. induction l1 as [|a l IH]; simpl; [reflexivity|]. destruct (p a); [discriminate | exact IH]. Qed.

Lemma find_app_some {A} (p : A -> bool) l1 l2 x : find p l1 = Some x -> find p (l1 ++ l2) = Some x.
Proof. induction l1 as [|a l IH]; simpl; [discriminate|]. destruct (p a); [auto | exact IH]. Qed.

Lemma find_filter_neg {A} (p q : A -> bool) l :
  (forall x, p x = true -> q x = true) -> find p (filter (fun x => negb (q x)) l) = None.
Proof.
  intro H. induction l as [|a l IH]; simpl; [reflexivity|].
  destruct (q a) eqn:Eq; simpl; [exact IH|].
  destruct (p a) eqn:Ep; [apply H in Ep; congruence | exact IH].
Qed.

Lemma find_filter_other {A} (p q : A -> bool) l :
  (forall x, p x = true -> q x = false) -> find p (filter (fun x => negb (q x)) l) = find p l.
Proof.
  intro H. induction l as [|a l IH]; simpl; [reflexivity|].
  destruct (q a) eqn:Eq; simpl.
  - destruct (p a) eqn:Ep; [apply H in Ep; congruence | exact IH].
  - destruct (p a); [reflexivity | exact IH].
Qed.

(* the object of the event is up to date: on the columns its history does not report as changed it
   holds what the stored row holds (false after a row switch, see F-C01-row-switch) *)
Definition fresh (g : cfg) (live : list lrow) (e : ent_ev) : Prop :=
  e_kind e = OP_UPD ->
  forall old, find_live live (e_cls e) (ev_key g e) = Some old ->
    merge_vals (e_colchg e) (e_vals e) (l_vals old) = e_vals e.

(* one event of an up-to-date object on the live tables *)
Lemma apply_live_at g live e c k :
  fresh g live e ->
  find_live (apply_live g live e) c k =
  if (e_cls e =? c)%nat && pk_eqb (ev_key g e) k
  then (if e_kind e =? OP_DEL then None else Some (mkl (e_cls e) (ev_key g e) (e_vals e)))
  else find_live live c k.
Proof.
  intro Hfr. unfold apply_live, find_live, ev_key. set (cc := cls_of g (e_cls e)).
  set (ke := key_of cc (e_vals e)).
  assert (Hnew : (if e_kind e =? OP_DEL then filter (fun r => negb (same_l (e_cls e) ke r)) live
                  else if e_kind e =? OP_UPD
                       then match find (same_l (e_cls e) ke) live with
                            | Some old => filter (fun r => negb (same_l (e_cls e) ke r)) live ++
                                          [mkl (e_cls e) ke (merge_vals (e_colchg e) (e_vals e) (l_vals old))]
                            | None => filter (fun r => negb (same_l (e_cls e) ke r)) live ++ [mkl (e_cls e) ke (e_vals e)]
                            end
                       else filter (fun r => negb (same_l (e_cls e) ke r)) live ++ [mkl (e_cls e) ke (e_vals e)]) =
                 (if e_kind e =? OP_DEL then filter (fun r => negb (same_l (e_cls e) ke r)) live
                  else filter (fun r => negb (same_l (e_cls e) ke r)) live ++ [mkl (e_cls e) ke (e_vals e)])).
  { destruct (e_kind e =? OP_DEL); [reflexivity|].
    destruct (e_kind e =? OP_UPD) eqn:EU; [|reflexivity].
    destruct (find (same_l (e_cls e) ke) live) as [old|] eqn:F; [|reflexivity].
    apply Z.eqb_eq in EU. unfold fresh, find_live, ev_key in Hfr. fold cc ke in Hfr.
    rewrite (Hfr EU old F). reflexivity. }
  rewrite Hnew. clear Hnew.
  destruct ((e_cls e =? c)%nat && pk_eqb ke k) eqn:E.
  - apply andb_true_iff in E as [E1 E2]. apply Nat.eqb_eq in E1. apply pk_eqb_eq in E2. subst c k.
    assert (Hnone : find (same_l (e_cls e) ke)
                      (filter (fun r => negb (same_l (e_cls e) ke r)) live) = None)
      by (apply find_filter_neg; auto).
    destruct (e_kind e =? OP_DEL); [exact Hnone|].
    rewrite (find_app_none _ _ _ Hnone). simpl.
    assert (same_l (e_cls e) ke (mkl (e_cls e) ke (e_vals e)) = true) by (apply same_l_spec; auto).
    rewrite H. reflexivity.
  - assert (Hoth : find (same_l c k) (filter (fun r => negb (same_l (e_cls e) ke r)) live) =
                   find (same_l c k) live).
    { apply find_filter_other. intros x Hx. apply same_l_spec in Hx as [X1 X2].
      destruct (same_l (e_cls e) ke x) eqn:Ex; [|reflexivity].
      apply same_l_spec in Ex as [Y1 Y2]. exfalso.
      assert ((e_cls e =? c)%nat && pk_eqb ke k = true).
      { apply andb_true_iff. split; [apply Nat.eqb_eq | apply pk_eqb_eq]; congruence. }
      congruence. }
    destruct (e_kind e =? OP_DEL); [exact Hoth|].
    destruct (find (same_l c k) (filter (fun r => negb (same_l (e_cls e) ke r)) live)) eqn:F.
    + rewrite (find_app_some _ _ _ _ F). rewrite <- Hoth. reflexivity.
    + rewrite (find_app_none _ _ _ F). simpl.
      destruct (same_l c k (mkl (e_cls e) ke (e_vals e))) eqn:Es.
      * apply same_l_spec in Es as [S1 S2]. simpl in S1, S2. exfalso.
        assert ((e_cls e =? c)%nat && pk_eqb ke k = true).
        { apply andb_true_iff. split; [apply Nat.eqb_eq | apply pk_eqb_eq]; congruence. }
        congruence.
      * rewrite <- Hoth. reflexivity.
Qed.

Definition is_ev (g : cfg) (c : nat) (k : pk) (e : ent_ev) : bool :=
  (e_cls e =? c)%nat && pk_eqb (ev_key g e) k.

Lemma is_ev_spec g c k e : is_ev g c k e = true <-> ev_id g e = (c, k).
Proof.
  unfold is_ev, ev_id. rewrite andb_true_iff, Nat.eqb_eq, pk_eqb_eq. split.
  - intros [A B]. congruence.
  - intro H. inversion H. auto.
Qed.

(* all events of a flush, one per entity; each object is up to date when its event is applied *)
Fixpoint all_fresh (g : cfg) (live : list lrow) (ents : list ent_ev) : Prop :=
  match ents with
  | [] => True
  | e :: ents' => fresh g live e /\ all_fresh g (apply_live g live e) ents'
  end.

Lemma fold_live_none g c k : forall ents live,
  all_fresh g live ents ->
  (forall e, In e ents -> is_ev g c k e = false) ->
  find_live (fold_left (apply_live g) ents live) c k = find_live live c k.
Proof.
  induction ents as [|e ents IH]; intros live Hfr Hno; simpl; [reflexivity|].
  destruct Hfr as [Hf Hrest].
  rewrite IH; [|exact Hrest | intros; apply Hno; right; assumption].
  rewrite apply_live_at by exact Hf.
  fold (is_ev g c k e). rewrite (Hno e (or_introl eq_refl)). reflexivity.
Qed.

Lemma fold_live_one g c k : forall ents live e,
  all_fresh g live ents ->
  NoDup (map (ev_id g) ents) -> In e ents -> is_ev g c k e = true ->
  find_live (fold_left (apply_live g) ents live) c k =
  if e_kind e =? OP_DEL then None else Some (mkl (e_cls e) (ev_key g e) (e_vals e)).
Proof.
  induction ents as [|a ents IH]; intros live e Hfr ND Hin He; [contradiction|]. simpl.
  destruct Hfr as [Hf Hrest].
  inversion ND as [|? ? Hnotin ND']; subst.
  destruct Hin as [<-|Hin].
  - rewrite fold_live_none.
    + rewrite apply_live_at by exact Hf. fold (is_ev g c k a). rewrite He. reflexivity.
    + exact Hrest.
    + intros e' He'. destruct (is_ev g c k e') eqn:E; [|reflexivity]. exfalso.
      apply Hnotin. apply is_ev_spec in E. apply is_ev_spec in He. rewrite He, <- E.
      apply in_map. exact He'.
  - apply IH; auto.
Qed.

(* the operations map after the trackers *)
Lemma fold_track_none g c k : forall ents ops,
  (forall e, In e ents -> tracked g e && is_ev g c k e = false) ->
  op_at (fold_left (track g) ents ops) c k = op_at ops c k.
Proof.
  intros ents ops H. apply track_frame. unfold kinds_for.
  rewrite filter_none; [reflexivity|]. intros e He. specialize (H e He).
  unfold is_ev in H. rewrite andb_assoc in H. exact H.
Qed.

Lemma new_kind_del had e :
  e_kind e = OP_INS \/ e_kind e = OP_UPD \/ e_kind e = OP_DEL ->
  (new_kind had e = OP_DEL <-> e_kind e = OP_DEL).
Proof.
  unfold new_kind, OP_INS, OP_UPD, OP_DEL. intros [E|[E|E]]; rewrite E; simpl.
  - destruct had; split; intro H; discriminate.
  - split; intro H; discriminate.
  - split; reflexivity.
Qed.

Lemma fold_track_one g c k : forall ents ops e,
  NoDup (map (ev_id g) ents) -> In e ents -> is_ev g c k e = true -> tracked g e = true ->
  e_kind e = OP_INS \/ e_kind e = OP_UPD \/ e_kind e = OP_DEL ->
  exists kind,
    op_at (fold_left (track g) ents ops) c k = Some (mk_oper (cls_of g (e_cls e)) e kind) /\
    (kind = OP_DEL <-> e_kind e = OP_DEL).
Proof.
  induction ents as [|a ents IH]; intros ops e ND Hin He Ht Hk; [contradiction|]. simpl.
  inversion ND as [|? ? Hnotin ND']; subst.
  destruct Hin as [<-|Hin].
  - rewrite fold_track_none.
    + rewrite track_at. unfold is_ev in He. rewrite Ht. simpl. rewrite He.
      eexists. split; [reflexivity|]. apply new_kind_del. exact Hk.
    + intros e' He'. destruct (tracked g e' && is_ev g c k e') eqn:E; [|reflexivity]. exfalso.
      apply andb_true_iff in E as [_ E].
      apply Hnotin. apply is_ev_spec in E. apply is_ev_spec in He. rewrite He, <- E.
      apply in_map. exact He'.
  - apply IH; auto.
Qed.
