(* RelP.v — proofs for C04: the SQL-shaped relationship queries return exactly the as-of versions. *)
From Continuum Require Import Model.Base Model.VTable Model.Rel Proofs.BaseP Proofs.VTableP.

Lemma max_le_none t k x :
  max_le t k x = None <-> forall r, In r t -> vkey r = k -> x < vtx r.
Proof.
  induction t as [|a t IH]; simpl.
  - split; [intros _ r [] | reflexivity].
  - destruct (same_key k a && (vtx a <=? x)) eqn:E.
    + split; [discriminate|]. intro H. apply andb_true_iff in E as [E1 E2].
      apply same_key_eq in E1. apply Z.leb_le in E2. specialize (H a (or_introl eq_refl) E1). lia.
    + rewrite IH. split; intros H r.
      * intros [<-|Hr] Hk; [|apply H; assumption].
        apply andb_false_iff in E as [E|E]; [apply same_key_eq in Hk; congruence | apply Z.leb_gt in E; exact E].
      * intros Hr Hk. apply H; [right; exact Hr | exact Hk].
Qed.

Lemma max_le_some t k x m :
  max_le t k x = Some m <->
  (exists r, In r t /\ vkey r = k /\ vtx r = m /\ m <= x) /\
  (forall r, In r t -> vkey r = k -> vtx r <= x -> vtx r <= m).
Proof.
  revert m. induction t as [|a t IH]; intro m; simpl.
  - split; [discriminate|]. intros [[r [[] _]] _].
  - destruct (same_key k a && (vtx a <=? x)) eqn:E.
    + apply andb_true_iff in E as [E1 E2]. apply same_key_eq in E1. apply Z.leb_le in E2.
      destruct (max_le t k x) as [y|] eqn:M.
      * destruct (proj1 (IH y) eq_refl) as [[r [Hr1 [Hr2 [Hr3 Hr4]]]] Hmax].
        split.
        -- intro H; inversion H; subst m; clear H. split.
           ++ destruct (Z.le_gt_cases y (vtx a)).
              ** exists a. rewrite Z.max_l by assumption. auto.
              ** exists r. rewrite Z.max_r by lia. split; [right; exact Hr1|]. repeat split; try assumption; lia.
           ++ intros r' [<-|Hr'] Hk Hx; [lia|]. specialize (Hmax r' Hr' Hk Hx). lia.
        -- intros [[r' [Hr'1 [Hr'2 [Hr'3 Hr'4]]]] Hmax']. f_equal.
           assert (vtx a <= m) by (apply Hmax'; auto).
           assert (y <= m). { rewrite <- Hr3. apply Hmax'; [right; exact Hr1 | exact Hr2 | lia]. }
           destruct Hr'1 as [<-|Hr'1]; [lia|].
           specialize (Hmax r' Hr'1 Hr'2). lia.
      * pose proof (proj1 (max_le_none t k x) M) as Hnone.
        split.
        -- intro H; inversion H; subst m; clear H. split.
           ++ exists a. auto.
           ++ intros r' [<-|Hr'] Hk Hx; [lia|]. specialize (Hnone r' Hr' Hk). lia.
        -- intros [[r' [Hr'1 [Hr'2 [Hr'3 Hr'4]]]] Hmax']. f_equal.
           destruct Hr'1 as [<-|Hr'1]; [lia|]. specialize (Hnone r' Hr'1 Hr'2). lia.
    + rewrite IH. split; intros [[r [Hr1 [Hr2 [Hr3 Hr4]]]] Hmax]; split.
      * exists r. split; [right; exact Hr1 | auto].
      * intros r' [<-|Hr'] Hk Hx; [|apply Hmax; assumption].
        apply andb_false_iff in E as [E|E]; [apply same_key_eq in Hk; congruence | apply Z.leb_gt in E; lia].
      * destruct Hr1 as [<-|Hr1]; [|exists r; auto].
        apply andb_false_iff in E as [E|E]; [apply same_key_eq in Hr2; congruence | apply Z.leb_gt in E; lia].
      * intros r' Hr' Hk Hx. apply Hmax; [right; exact Hr' | exact Hk | exact Hx].
Qed.

Lemma find_row_spec t k m r :
  pk_unique t -> (find_row t k m = Some r <-> In r t /\ vkey r = k /\ vtx r = m).
Proof.
  intro U. unfold find_row. split.
  - intro H. apply find_some in H as [Hin E]. apply andb_true_iff in E as [E1 E2].
    apply same_key_eq in E1. apply Z.eqb_eq in E2. auto.
  - intros [Hin [Hk Ht]]. apply find_unique; [exact Hin | |].
    + apply andb_true_iff. split; [apply same_key_eq; exact Hk | apply Z.eqb_eq; exact Ht].
    + intros x Hx E. apply andb_true_iff in E as [E1 E2]. apply same_key_eq in E1. apply Z.eqb_eq in E2.
      eapply pk_unique_inj; eauto; congruence.
Qed.

(* the as-of version: a row of the entity at or before x with nothing of the entity in between *)
Theorem as_of_spec t k x r :
  pk_unique t ->
  (as_of t k x = Some r <->
   In r t /\ vkey r = k /\ vtx r <= x /\ forall r', In r' t -> vkey r' = k -> vtx r' <= x -> vtx r' <= vtx r).
Proof.
  intro U. unfold as_of. destruct (max_le t k x) as [m|] eqn:M.
  - rewrite (find_row_spec t k m r U). apply max_le_some in M as [[r0 [H1 [H2 [H3 H4]]]] Hmax]. split.
    + intros [Hin [Hk Ht]]. subst m. repeat split; try assumption; try lia. rewrite Ht. exact Hmax.
    + intros [Hin [Hk [Hle Hm]]]. repeat split; try assumption.
      specialize (Hm r0 H1 H2). specialize (Hmax r Hin Hk Hle). lia.
  - split; [discriminate|]. intros [Hin [Hk [Hle _]]].
    pose proof (proj1 (max_le_none t k x) M r Hin Hk). lia.
Qed.

Lemma is_asof_spec t c x :
  pk_unique t -> In c t -> (is_asof t c x = true <-> as_of t (vkey c) x = Some c).
Proof.
  intros U Hc. unfold is_asof, as_of. destruct (max_le t (vkey c) x) as [m|] eqn:M; simpl.
  - rewrite Z.eqb_eq. rewrite (find_row_spec t (vkey c) m c U). split.
    + intros ->. auto.
    + intros [_ [_ E]]. auto.
  - split; discriminate.
Qed.

(* one-to-many: exactly the children whose version as of the owner's transaction points at the
   owner and is not a DELETE *)
Theorem rel_o2m_spec f tc o c :
  pk_unique tc ->
  (In c (rel_o2m f tc o) <->
   In c tc /\ as_of tc (vkey c) (vtx o) = Some c /\ vop c <> OP_DEL /\
   exists k, key1 o = Some k /\ fk_of f c = Some k).
Proof.
  intro U. unfold rel_o2m. rewrite filter_In. split.
  - intros [Hin E]. apply andb_true_iff in E as [E E3]. apply andb_true_iff in E as [E1 E2].
    split; [exact Hin|]. split; [apply is_asof_spec; assumption|]. split.
    + apply negb_true_iff in E3. apply Z.eqb_neq in E3. exact E3.
    + apply sql_eq_some in E1 as [k [A B]]. exists k. auto.
  - intros [Hin [Ha [Hop [k [Hk Hf]]]]]. split; [exact Hin|].
    apply andb_true_iff. split; [apply andb_true_iff; split|].
    + apply sql_eq_some. exists k. auto.
    + apply is_asof_spec; assumption.
    + apply negb_true_iff. apply Z.eqb_neq. exact Hop.
Qed.

(* many-to-one: the parent's version as of the child's transaction, unless it is a DELETE or the
   foreign key is NULL *)
Theorem rel_m2o_spec f tp o p :
  pk_unique tp ->
  (rel_m2o f tp o = Some p <->
   exists k, fk_of f o = Some k /\ as_of tp [k] (vtx o) = Some p /\ vop p <> OP_DEL).
Proof.
  intro U. unfold rel_m2o. destruct (fk_of f o) as [k|] eqn:F.
  - split.
    + intro H. apply find_some in H as [Hin E]. apply andb_true_iff in E as [E E3].
      apply andb_true_iff in E as [E1 E2]. apply same_key_eq in E1.
      exists k. split; [reflexivity|]. split.
      * rewrite <- E1. apply is_asof_spec; [exact U | exact Hin|].
        unfold is_asof. rewrite E1. apply sql_eq_some in E2 as [y [A B]]. inversion A; subst y.
        rewrite B. simpl. apply Z.eqb_refl.
      * apply negb_true_iff in E3. apply Z.eqb_neq in E3. exact E3.
    + intros [k' [Hk [Ha Hop]]]. inversion Hk; subst k'.
      pose proof (proj1 (as_of_spec tp [k] (vtx o) p U) Ha) as [Hin [Hpk _]].
      assert (Has : is_asof tp p (vtx o) = true) by (apply is_asof_spec; [exact U | exact Hin | rewrite Hpk; exact Ha]).
      apply find_unique; [exact Hin| |].
      * apply andb_true_iff. split; [apply andb_true_iff; split|].
        -- apply same_key_eq; exact Hpk.
        -- unfold is_asof in Has. rewrite Hpk in Has. apply sql_eq_some in Has as [y [A B]].
           inversion B; subst y. rewrite A. simpl. apply Z.eqb_refl.
        -- apply negb_true_iff. apply Z.eqb_neq. exact Hop.
      * intros x Hx E. apply andb_true_iff in E as [E _]. apply andb_true_iff in E as [E1 E2].
        apply same_key_eq in E1.
        assert (is_asof tp x (vtx o) = true).
        { unfold is_asof. rewrite E1. apply sql_eq_some in E2 as [y [A B]]. inversion A; subst y.
          rewrite B. simpl. apply Z.eqb_refl. }
        apply is_asof_spec in H; [|exact U | exact Hx]. rewrite E1 in H. congruence.
  - split; [discriminate|]. intros [k [Hk _]]. discriminate.
Qed.

(* many-to-many: linked as of the owner's transaction (the newest association row of the pair at
   or before it is not a DELETE), target version as of that transaction, not a DELETE *)
Definition linked_as_of (av : list lnk) (l r x : Z) : Prop :=
  exists a, In a av /\ k_l a = l /\ k_r a = r /\ k_op a <> OP_DEL /\ k_tx a <= x /\
            forall a', In a' av -> k_l a' = l -> k_r a' = r -> k_tx a' <= x -> k_tx a' <= k_tx a.

Lemma max_le_lnk_none av l r x :
  max_le_lnk av l r x = None <-> forall a, In a av -> k_l a = l -> k_r a = r -> x < k_tx a.
Proof.
  induction av as [|b av IH]; simpl.
  - split; [intros _ a [] | reflexivity].
  - destruct ((k_l b =? l) && (k_r b =? r) && (k_tx b <=? x)) eqn:E.
    + split; [discriminate|]. intro H. apply andb_true_iff in E as [E E3]. apply andb_true_iff in E as [E1 E2].
      apply Z.eqb_eq in E1. apply Z.eqb_eq in E2. apply Z.leb_le in E3.
      specialize (H b (or_introl eq_refl) E1 E2). lia.
    + rewrite IH. split; intros H a.
      * intros [<-|Ha] H1 H2; [|apply H; assumption].
        apply andb_false_iff in E as [E|E]; [|apply Z.leb_gt in E; exact E].
        apply andb_false_iff in E as [E|E]; apply Z.eqb_neq in E; congruence.
      * intros Ha H1 H2. apply H; [right; exact Ha | exact H1 | exact H2].
Qed.

Lemma max_le_lnk_some av l r x m :
  max_le_lnk av l r x = Some m <->
  (exists a, In a av /\ k_l a = l /\ k_r a = r /\ k_tx a = m /\ m <= x) /\
  (forall a, In a av -> k_l a = l -> k_r a = r -> k_tx a <= x -> k_tx a <= m).
Proof.
  revert m. induction av as [|b av IH]; intro m; simpl.
  - split; [discriminate|]. intros [[a [[] _]] _].
  - destruct ((k_l b =? l) && (k_r b =? r) && (k_tx b <=? x)) eqn:E.
    + apply andb_true_iff in E as [E E3]. apply andb_true_iff in E as [E1 E2].
      apply Z.eqb_eq in E1. apply Z.eqb_eq in E2. apply Z.leb_le in E3.
      destruct (max_le_lnk av l r x) as [y|] eqn:M.
      * destruct (proj1 (IH y) eq_refl) as [[a [Ha1 [Ha2 [Ha3 [Ha4 Ha5]]]]] Hmax].
        split.
        -- intro H; inversion H; subst m; clear H. split.
           ++ destruct (Z.le_gt_cases y (k_tx b)).
              ** exists b. rewrite Z.max_l by assumption. auto.
              ** exists a. rewrite Z.max_r by lia. split; [right; exact Ha1|]. repeat split; try assumption; lia.
           ++ intros a' [<-|Ha'] H1 H2 Hx; [lia|]. specialize (Hmax a' Ha' H1 H2 Hx). lia.
        -- intros [[a' [Ha'1 [Ha'2 [Ha'3 [Ha'4 Ha'5]]]]] Hmax']. f_equal.
           assert (k_tx b <= m) by (apply Hmax'; auto).
           assert (y <= m). { rewrite <- Ha4. apply Hmax'; [right; exact Ha1 | exact Ha2 | exact Ha3 | lia]. }
           destruct Ha'1 as [<-|Ha'1]; [lia|].
           specialize (Hmax a' Ha'1 Ha'2 Ha'3). lia.
      * pose proof (proj1 (max_le_lnk_none av l r x) M) as Hnone.
        split.
        -- intro H; inversion H; subst m; clear H. split.
           ++ exists b. auto.
           ++ intros a' [<-|Ha'] H1 H2 Hx; [lia|]. specialize (Hnone a' Ha' H1 H2). lia.
        -- intros [[a' [Ha'1 [Ha'2 [Ha'3 [Ha'4 Ha'5]]]]] Hmax']. f_equal.
           destruct Ha'1 as [<-|Ha'1]; [lia|]. specialize (Hnone a' Ha'1 Ha'2 Ha'3). lia.
    + rewrite IH. split; intros [[a [Ha1 [Ha2 [Ha3 [Ha4 Ha5]]]]] Hmax]; split.
      * exists a. split; [right; exact Ha1 | auto].
      * intros a' [<-|Ha'] H1 H2 Hx; [|apply Hmax; assumption].
        apply andb_false_iff in E as [E|E]; [|apply Z.leb_gt in E; lia].
        apply andb_false_iff in E as [E|E]; apply Z.eqb_neq in E; congruence.
      * destruct Ha1 as [<-|Ha1]; [|exists a; auto].
        apply andb_false_iff in E as [E|E]; [|apply Z.leb_gt in E; lia].
        apply andb_false_iff in E as [E|E]; apply Z.eqb_neq in E; congruence.
      * intros a' Ha' H1 H2 Hx. apply Hmax; [right; exact Ha' | exact H1 | exact H2 | exact Hx].
Qed.

Theorem assoc_exists_spec av l r x : assoc_exists av l r x = true <-> linked_as_of av l r x.
Proof.
  unfold assoc_exists, linked_as_of. rewrite existsb_exists. split.
  - intros [a [Ha E]]. apply andb_true_iff in E as [E E4]. apply andb_true_iff in E as [E E3].
    apply andb_true_iff in E as [E1 E2]. apply Z.eqb_eq in E1. apply Z.eqb_eq in E2.
    apply negb_true_iff in E3. apply Z.eqb_neq in E3.
    apply sql_eq_some in E4 as [y [A B]]. inversion B; subst y.
    apply max_le_lnk_some in A as [[a0 [_ [_ [_ [_ Hle]]]]] Hmax].
    exists a. repeat split; auto.
  - intros [a [Ha [H1 [H2 [H3 [H4 Hmax]]]]]]. exists a. split; [exact Ha|].
    apply andb_true_iff. split; [apply andb_true_iff; split; [apply andb_true_iff; split|]|].
    + apply Z.eqb_eq; exact H1.
    + apply Z.eqb_eq; exact H2.
    + apply negb_true_iff. apply Z.eqb_neq. exact H3.
    + apply sql_eq_some. exists (k_tx a). split; [|reflexivity].
      apply max_le_lnk_some. split; [exists a; auto | exact Hmax].
Qed.

Theorem rel_m2m_spec av tr o c l :
  pk_unique tr -> vkey o = [l] ->
  (In c (rel_m2m av tr o) <->
   In c tr /\ as_of tr (vkey c) (vtx o) = Some c /\ vop c <> OP_DEL /\
   exists r, vkey c = [r] /\ linked_as_of av l r (vtx o)).
Proof.
  intros U Hl. unfold rel_m2m. rewrite Hl. rewrite filter_In. split.
  - intros [Hin E]. destruct (vkey c) as [|r [|]] eqn:Kc; try discriminate.
    apply andb_true_iff in E as [E E3]. apply andb_true_iff in E as [E1 E2].
    split; [exact Hin|]. split; [rewrite <- Kc; apply is_asof_spec; assumption|]. split.
    + apply negb_true_iff in E3. apply Z.eqb_neq in E3. exact E3.
    + exists r. split; [reflexivity | apply assoc_exists_spec; exact E1].
  - intros [Hin [Ha [Hop [r [Kc Hlnk]]]]]. split; [exact Hin|]. rewrite Kc.
    apply andb_true_iff. split; [apply andb_true_iff; split|].
    + apply assoc_exists_spec; exact Hlnk.
    + apply is_asof_spec; [exact U | exact Hin | rewrite Kc in Ha |- *; exact Ha].
    + apply negb_true_iff. apply Z.eqb_neq. exact Hop.
Qed.
