(* VTableP.v — proofs about the Layer-A accessors (C08; reused by C03/C15/C16/C19). *)
From Coq Require Import Sorting.Sorted Sorting.Permutation.
From Continuum Require Import Model.Base Model.VTable Proofs.BaseP.

Definition tx_lt (a b : vrow) : Prop := vtx a < vtx b.
Definition tx_le (a b : vrow) : Prop := vtx a <= vtx b.
Definition ssorted (l : vtable) : Prop := StronglySorted tx_lt l.

(* ---------- rows_of ---------- *)
Lemma in_rows_of t k r : In r (rows_of t k) <-> In r t /\ vkey r = k.
Proof. unfold rows_of. rewrite filter_In, same_key_eq. tauto. Qed.

(* ---------- insertion sort ---------- *)
Lemma insert_tx_perm r l : Permutation (insert_tx r l) (r :: l).
Proof.
  induction l as [|x l IH]; simpl; [reflexivity|].
  destruct (vtx r <=? vtx x); [reflexivity|].
  rewrite IH. apply perm_swap.
Qed.

Lemma sort_tx_perm l : Permutation (sort_tx l) l.
Proof.
  induction l as [|x l IH]; simpl; [reflexivity|].
  rewrite insert_tx_perm. constructor. exact IH.
Qed.

Lemma in_sort_tx l r : In r (sort_tx l) <-> In r l.
Proof.
  split; intro H.
  - eapply Permutation_in; [apply sort_tx_perm | exact H].
  - eapply Permutation_in; [apply Permutation_sym, sort_tx_perm | exact H].
Qed.

Lemma insert_tx_sorted r l :
  StronglySorted tx_le l -> StronglySorted tx_le (insert_tx r l).
Proof.
  induction l as [|x l IH]; simpl; intro S.
  - constructor; constructor.
  - inversion S as [|? ? S' Hall]; subst.
    destruct (vtx r <=? vtx x) eqn:E.
    + apply Z.leb_le in E. constructor; [exact S|].
      constructor; [exact E|].
      eapply Forall_impl; [|exact Hall]. unfold tx_le; intros; lia.
    + apply Z.leb_gt in E. constructor; [apply IH; exact S'|].
      apply Forall_forall. intros y Hy.
      apply (Permutation_in _ (insert_tx_perm r l)) in Hy. destruct Hy as [<-|Hy].
      * unfold tx_le; lia.
      * rewrite Forall_forall in Hall. apply Hall; exact Hy.
Qed.

Lemma sort_tx_sorted l : StronglySorted tx_le (sort_tx l).
Proof.
  induction l as [|x l IH]; simpl; [constructor|]. apply insert_tx_sorted; exact IH.
Qed.

Lemma sorted_le_nodup_lt l :
  StronglySorted tx_le l -> NoDup (map vtx l) -> ssorted l.
Proof.
  unfold ssorted. induction l as [|x l IH]; simpl; intros S ND; [constructor|].
  inversion S as [|? ? S' Hall]; subst. inversion ND as [|? ? Hnotin ND']; subst.
  constructor; [apply IH; assumption|].
  rewrite Forall_forall in *. intros y Hy. specialize (Hall y Hy).
  unfold tx_le, tx_lt in *.
  assert (vtx x <> vtx y).
  { intro E. apply Hnotin. rewrite E. apply in_map; exact Hy. }
  lia.
Qed.

Lemma nodup_tx_rows_of t k : pk_unique t -> NoDup (map vtx (rows_of t k)).
Proof.
  unfold pk_unique, rows_of. induction t as [|x t IH]; simpl; intro ND; [constructor|].
  inversion ND as [|? ? Hnotin ND']; subst.
  destruct (same_key k x) eqn:E; [|apply IH; exact ND'].
  simpl. constructor; [|apply IH; exact ND'].
  intro Hin. apply in_map_iff in Hin as [y [Hy1 Hy2]].
  apply filter_In in Hy2 as [Hy2 Hy3].
  apply same_key_eq in E. apply same_key_eq in Hy3.
  apply Hnotin. apply in_map_iff. exists y. split; [|exact Hy2].
  unfold vid. congruence.
Qed.

Theorem versions_members t k r : In r (versions t k) <-> In r t /\ vkey r = k.
Proof. unfold versions. rewrite in_sort_tx. apply in_rows_of. Qed.

Theorem versions_ssorted t k : pk_unique t -> ssorted (versions t k).
Proof.
  intro U. unfold versions. apply sorted_le_nodup_lt; [apply sort_tx_sorted|].
  eapply Permutation_NoDup; [|apply nodup_tx_rows_of; exact U].
  apply Permutation_map, Permutation_sym, sort_tx_perm.
Qed.

Lemma versions_perm t k : Permutation (versions t k) (rows_of t k).
Proof. apply sort_tx_perm. Qed.

(* ---------- strictly sorted lists ---------- *)
Lemma ssorted_app_inv l1 r l2 :
  ssorted (l1 ++ r :: l2) ->
  (forall x, In x l1 -> vtx x < vtx r) /\ (forall x, In x l2 -> vtx r < vtx x) /\ ssorted l2.
Proof.
  unfold ssorted. induction l1 as [|a l1 IH]; simpl; intro S.
  - inversion S as [|? ? S' Hall]; subst. rewrite Forall_forall in Hall.
    split; [intros x []|]. split; [exact Hall | exact S'].
  - inversion S as [|? ? S' Hall]; subst. destruct (IH S') as [H1 [H2 H3]].
    split; [|split; assumption].
    intros x [<-|Hx]; [|apply H1; exact Hx].
    rewrite Forall_forall in Hall. apply Hall. apply in_or_app. right; left; reflexivity.
Qed.

Lemma ssorted_hd_min r l : ssorted (r :: l) -> forall x, In x l -> vtx r < vtx x.
Proof. intros S. inversion S as [|? ? _ Hall]; subst. rewrite Forall_forall in Hall. exact Hall. Qed.

Lemma ssorted_tail r l : ssorted (r :: l) -> ssorted l.
Proof. intros S. inversion S; assumption. Qed.

Lemma ssorted_nth_tx_inj l i j a b :
  ssorted l -> nth_error l i = Some a -> nth_error l j = Some b -> vtx a = vtx b -> i = j.
Proof.
  intros S. revert i j. induction l as [|x l IH]; intros i j Hi Hj E.
  - destruct i; discriminate.
  - pose proof (ssorted_hd_min _ _ S) as Hmin. pose proof (ssorted_tail _ _ S) as S'.
    destruct i as [|i], j as [|j]; simpl in *.
    + reflexivity.
    + inversion Hi; subst. apply nth_error_In in Hj. specialize (Hmin _ Hj). lia.
    + inversion Hj; subst. apply nth_error_In in Hi. specialize (Hmin _ Hi). lia.
    + f_equal. eapply IH; eassumption.
Qed.

(* ---------- min_above / max_below ---------- *)
Lemma min_above_none t k x :
  min_above t k x = None <-> forall r, In r t -> vkey r = k -> vtx r <= x.
Proof.
  induction t as [|a t IH]; simpl.
  - split; [intros _ r [] | reflexivity].
  - destruct (same_key k a && (x <? vtx a)) eqn:E.
    + split; [discriminate|]. intro H. apply andb_true_iff in E as [E1 E2].
      apply same_key_eq in E1. apply Z.ltb_lt in E2.
      specialize (H a (or_introl eq_refl) E1). lia.
    + rewrite IH. split; intros H r.
      * intros [<-|Hr] Hk; [|apply H; assumption].
        apply andb_false_iff in E as [E|E].
        -- apply same_key_eq in Hk. congruence.
        -- apply Z.ltb_ge in E. exact E.
      * intros Hr Hk. apply H; [right; exact Hr | exact Hk].
Qed.

Lemma min_above_some t k x m :
  min_above t k x = Some m <->
  (exists r, In r t /\ vkey r = k /\ vtx r = m /\ x < m) /\
  (forall r, In r t -> vkey r = k -> x < vtx r -> m <= vtx r).
Proof.
  revert m. induction t as [|a t IH]; intro m; simpl.
  - split; [discriminate|]. intros [[r [[] _]] _].
  - destruct (same_key k a && (x <? vtx a)) eqn:E.
    + apply andb_true_iff in E as [E1 E2]. apply same_key_eq in E1. apply Z.ltb_lt in E2.
      destruct (min_above t k x) as [y|] eqn:M.
      * destruct (proj1 (IH y) eq_refl) as [[r [Hr1 [Hr2 [Hr3 Hr4]]]] Hmin].
        split.
        -- intro H; inversion H; subst m; clear H. split.
           ++ destruct (Z.le_gt_cases (vtx a) y).
              ** exists a. rewrite Z.min_l by assumption. auto.
              ** exists r. rewrite Z.min_r by lia. split; [right; exact Hr1|]. repeat split; try assumption; lia.
           ++ intros r' [<-|Hr'] Hk Hx; [lia|]. specialize (Hmin r' Hr' Hk Hx). lia.
        -- intros [[r' [Hr'1 [Hr'2 [Hr'3 Hr'4]]]] Hmin']. f_equal.
           assert (m <= vtx a) by (apply Hmin'; auto).
           assert (m <= y). { rewrite <- Hr3. apply Hmin'; [right; exact Hr1 | exact Hr2 | lia]. }
           destruct Hr'1 as [<-|Hr'1]; [lia|].
           specialize (Hmin r' Hr'1 Hr'2). lia.
      * pose proof (proj1 (min_above_none t k x) M) as Hnone.
        split.
        -- intro H; inversion H; subst m; clear H. split.
           ++ exists a. auto.
           ++ intros r' [<-|Hr'] Hk Hx; [lia|]. specialize (Hnone r' Hr' Hk). lia.
        -- intros [[r' [Hr'1 [Hr'2 [Hr'3 Hr'4]]]] Hmin']. f_equal.
           destruct Hr'1 as [<-|Hr'1]; [lia|]. specialize (Hnone r' Hr'1 Hr'2). lia.
    + rewrite IH. split; intros [[r [Hr1 [Hr2 [Hr3 Hr4]]]] Hmin]; split.
      * exists r. split; [right; exact Hr1 | auto].
      * intros r' [<-|Hr'] Hk Hx; [|apply Hmin; assumption].
        apply andb_false_iff in E as [E|E].
        -- apply same_key_eq in Hk. congruence.
        -- apply Z.ltb_ge in E. lia.
      * destruct Hr1 as [<-|Hr1]; [|exists r; auto].
        apply andb_false_iff in E as [E|E].
        -- apply same_key_eq in Hr2. congruence.
        -- apply Z.ltb_ge in E. lia.
      * intros r' Hr' Hk Hx. apply Hmin; [right; exact Hr' | exact Hk | exact Hx].
Qed.

Lemma max_below_none t k x :
  max_below t k x = None <-> forall r, In r t -> vkey r = k -> x <= vtx r.
Proof.
  induction t as [|a t IH]; simpl.
  - split; [intros _ r [] | reflexivity].
  - destruct (same_key k a && (vtx a <? x)) eqn:E.
    + split; [discriminate|]. intro H. apply andb_true_iff in E as [E1 E2].
      apply same_key_eq in E1. apply Z.ltb_lt in E2.
      specialize (H a (or_introl eq_refl) E1). lia.
    + rewrite IH. split; intros H r.
      * intros [<-|Hr] Hk; [|apply H; assumption].
        apply andb_false_iff in E as [E|E].
        -- apply same_key_eq in Hk. congruence.
        -- apply Z.ltb_ge in E. exact E.
      * intros Hr Hk. apply H; [right; exact Hr | exact Hk].
Qed.

Lemma max_below_some t k x m :
  max_below t k x = Some m <->
  (exists r, In r t /\ vkey r = k /\ vtx r = m /\ m < x) /\
  (forall r, In r t -> vkey r = k -> vtx r < x -> vtx r <= m).
Proof.
  revert m. induction t as [|a t IH]; intro m; simpl.
  - split; [discriminate|]. intros [[r [[] _]] _].
  - destruct (same_key k a && (vtx a <? x)) eqn:E.
    + apply andb_true_iff in E as [E1 E2]. apply same_key_eq in E1. apply Z.ltb_lt in E2.
      destruct (max_below t k x) as [y|] eqn:M.
      * destruct (proj1 (IH y) eq_refl) as [[r [Hr1 [Hr2 [Hr3 Hr4]]]] Hmax].
        split.
        -- intro H; inversion H; subst m; clear H. split.
           ++ destruct (Z.le_gt_cases y (vtx a)).
              ** exists a. rewrite Z.max_l by assumption. auto.
              ** exists r. rewrite Z.max_r by lia. split; [right; exact Hr1|]. repeat split; try assumption; lia.
           ++ intros r' [<-|Hr'] Hk Hx; [lia|]. specialize (Hmax r' Hr' Hk Hx). lia.
        -- intros [[r' [Hr'1 [Hr'2 [Hr'3 Hr'4]]]] Hmax']. f_equal.
           assert (vtx a <= m) by (apply Hmax'; auto).
           assert (y <= m). { rewrite <- Hr3. apply Hmax'; [right; exact Hr1 | exact Hr2 | lia]. }
           destruct Hr'1 as [<-|Hr'1]; [lia|].
           specialize (Hmax r' Hr'1 Hr'2). lia.
      * pose proof (proj1 (max_below_none t k x) M) as Hnone.
        split.
        -- intro H; inversion H; subst m; clear H. split.
           ++ exists a. auto.
           ++ intros r' [<-|Hr'] Hk Hx; [lia|]. specialize (Hnone r' Hr' Hk). lia.
        -- intros [[r' [Hr'1 [Hr'2 [Hr'3 Hr'4]]]] Hmax']. f_equal.
           destruct Hr'1 as [<-|Hr'1]; [lia|]. specialize (Hnone r' Hr'1 Hr'2). lia.
    + rewrite IH. split; intros [[r [Hr1 [Hr2 [Hr3 Hr4]]]] Hmax]; split.
      * exists r. split; [right; exact Hr1 | auto].
      * intros r' [<-|Hr'] Hk Hx; [|apply Hmax; assumption].
        apply andb_false_iff in E as [E|E].
        -- apply same_key_eq in Hk. congruence.
        -- apply Z.ltb_ge in E. lia.
      * destruct Hr1 as [<-|Hr1]; [|exists r; auto].
        apply andb_false_iff in E as [E|E].
        -- apply same_key_eq in Hr2. congruence.
        -- apply Z.ltb_ge in E. lia.
      * intros r' Hr' Hk Hx. apply Hmax; [right; exact Hr' | exact Hk | exact Hx].
Qed.

(* ---------- position in versions ---------- *)
Section Position.
  Variables (t : vtable) (k : pk).
  Hypothesis U : pk_unique t.
  Let vs := versions t k.

  Lemma vs_split i r :
    nth_error vs i = Some r ->
    exists l1 l2, vs = l1 ++ r :: l2 /\ length l1 = i /\
      (forall x, In x l1 -> vtx x < vtx r) /\ (forall x, In x l2 -> vtx r < vtx x) /\
      ssorted l2 /\ nth_error vs (S i) = hd_error l2.
  Proof.
    intro H. destruct (nth_error_split _ _ H) as [l1 [l2 [E L]]].
    exists l1, l2. pose proof (versions_ssorted t k U) as Srt. fold vs in Srt. rewrite E in Srt.
    destruct (ssorted_app_inv _ _ _ Srt) as [H1 [H2 H3]].
    repeat split; try assumption.
    rewrite E. rewrite nth_error_app2 by lia.
    replace (S i - length l1)%nat with 1%nat by lia. simpl. destruct l2; reflexivity.
  Qed.

  Lemma vs_in r : In r vs <-> In r t /\ vkey r = k.
  Proof. apply versions_members. Qed.

  Lemma min_above_position i r :
    nth_error vs i = Some r ->
    min_above t k (vtx r) = option_map vtx (nth_error vs (S i)).
  Proof.
    intro H. destruct (vs_split i r H) as [l1 [l2 [E [L [H1 [H2 [S2 N]]]]]]].
    rewrite N. destruct l2 as [|n l2]; simpl.
    - apply min_above_none. intros x Hx Hk.
      assert (Hin : In x vs) by (apply vs_in; auto).
      rewrite E in Hin. apply in_app_or in Hin as [Hin|[<-|[]]]; [|lia].
      specialize (H1 _ Hin). lia.
    - apply min_above_some. split.
      + exists n. assert (Hin : In n vs) by (rewrite E; apply in_or_app; right; right; left; reflexivity).
        apply vs_in in Hin as [Hin Hk]. repeat split; try assumption.
        apply H2. left; reflexivity.
      + intros x Hx Hk Hlt.
        assert (Hin : In x vs) by (apply vs_in; auto).
        rewrite E in Hin. apply in_app_or in Hin as [Hin|[<-|[<-|Hin]]].
        * specialize (H1 _ Hin). lia.
        * lia.
        * lia.
        * pose proof (ssorted_hd_min _ _ S2 _ Hin). lia.
  Qed.

  Lemma max_below_position i r :
    nth_error vs i = Some r ->
    max_below t k (vtx r) =
      match i with O => None | S j => option_map vtx (nth_error vs j) end.
  Proof.
    intro H. destruct i as [|j].
    - apply max_below_none. intros x Hx Hk.
      assert (Hin : In x vs) by (apply vs_in; auto).
      destruct vs as [|a l] eqn:E; [contradiction|]. simpl in H. inversion H; subst a.
      destruct Hin as [<-|Hin]; [lia|].
      pose proof (versions_ssorted t k U) as Srt. fold vs in Srt. rewrite E in Srt.
      pose proof (ssorted_hd_min _ _ Srt _ Hin). lia.
    - assert (Hj : exists p, nth_error vs j = Some p).
      { destruct (nth_error vs j) eqn:Ej; [eauto|].
        apply nth_error_None in Ej. assert (nth_error vs (S j) = None) by (apply nth_error_None; lia).
        congruence. }
      destruct Hj as [p Hp]. rewrite Hp. simpl.
      destruct (vs_split j p Hp) as [l1 [l2 [E [L [H1 [H2 [S2 N]]]]]]].
      rewrite H in N. destruct l2 as [|r' l2]; [discriminate|]. simpl in N. inversion N; subst r'.
      apply max_below_some. split.
      + exists p. assert (Hin : In p vs) by (eapply nth_error_In; exact Hp).
        apply vs_in in Hin as [Hin Hk]. repeat split; try assumption.
        apply H2. left; reflexivity.
      + intros x Hx Hk Hlt.
        assert (Hin : In x vs) by (apply vs_in; auto).
        rewrite E in Hin. apply in_app_or in Hin as [Hin|[<-|[<-|Hin]]].
        * specialize (H1 _ Hin). lia.
        * lia.
        * lia.
        * pose proof (ssorted_hd_min _ _ S2 _ Hin). lia.
  Qed.
End Position.

(* ---------- find with a predicate that singles out one row ---------- *)
Lemma find_unique {A} (p : A -> bool) (l : list A) (n : A) :
  In n l -> p n = true -> (forall x, In x l -> p x = true -> x = n) -> find p l = Some n.
Proof.
  induction l as [|a l IH]; simpl; intros Hin Hp Hu; [contradiction|].
  destruct (p a) eqn:E.
  - f_equal. apply Hu; auto.
  - destruct Hin as [->|Hin]; [congruence|]. apply IH; auto.
Qed.

Lemma find_none_iff {A} (p : A -> bool) (l : list A) :
  find p l = None <-> forall x, In x l -> p x = false.
Proof.
  split; [apply find_none|]. induction l as [|a l IH]; simpl; intro H; [reflexivity|].
  rewrite (H a (or_introl eq_refl)). apply IH. intros x Hx. apply H; right; exact Hx.
Qed.

Lemma find_by_tx t k (m : option Z) (o : option vrow) :
  pk_unique t ->
  (forall n, o = Some n -> In n t /\ vkey n = k) ->
  m = option_map vtx o ->
  find (fun x => same_key k x && sql_eq (Some (vtx x)) m) t = o.
Proof.
  intros U Ho Hm. destruct o as [n|]; simpl in Hm; subst m.
  - destruct (Ho n eq_refl) as [Hin Hk]. apply find_unique; [exact Hin| |].
    + apply andb_true_iff. split; [apply same_key_eq; exact Hk|]. simpl. apply Z.eqb_refl.
    + intros x Hx Hp. apply andb_true_iff in Hp as [P1 P2]. apply same_key_eq in P1.
      simpl in P2. apply Z.eqb_eq in P2. eapply pk_unique_inj; eauto. congruence.
  - apply find_none_iff. intros x _. simpl. apply andb_false_r.
Qed.

(* ---------- the C08 statements ---------- *)
Theorem next_S_position t k i r :
  pk_unique t -> nth_error (versions t k) i = Some r ->
  next_S t r = nth_error (versions t k) (S i).
Proof.
  intros U H. assert (Hk : vkey r = k).
  { apply nth_error_In in H. apply versions_members in H. tauto. }
  unfold next_S. rewrite Hk. apply find_by_tx; [exact U| |].
  - intros n Hn. apply nth_error_In in Hn. apply versions_members in Hn. exact Hn.
  - apply min_above_position; assumption.
Qed.

Theorem prev_S_position t k i r :
  pk_unique t -> nth_error (versions t k) i = Some r ->
  prev_S t r = match i with O => None | S j => nth_error (versions t k) j end.
Proof.
  intros U H. assert (Hk : vkey r = k).
  { apply nth_error_In in H. apply versions_members in H. tauto. }
  unfold prev_S. rewrite Hk. apply find_by_tx; [exact U| |].
  - intros n Hn. destruct i as [|j]; [discriminate|].
    apply nth_error_In in Hn. apply versions_members in Hn. exact Hn.
  - rewrite (max_below_position t k U i r H). destruct i; reflexivity.
Qed.

Lemma filter_length_perm {A} (p : A -> bool) (l l' : list A) :
  Permutation l l' -> length (filter p l) = length (filter p l').
Proof.
  induction 1; simpl; try congruence.
  - destruct (p x); simpl; congruence.
  - destruct (p x), (p y); reflexivity.
Qed.

Lemma filter_all {A} (p : A -> bool) l : (forall x, In x l -> p x = true) -> filter p l = l.
Proof.
  induction l as [|a l IH]; simpl; intro H; [reflexivity|].
  rewrite (H a (or_introl eq_refl)). f_equal. apply IH. intros; apply H; right; assumption.
Qed.

Lemma filter_none {A} (p : A -> bool) l : (forall x, In x l -> p x = false) -> filter p l = [].
Proof.
  induction l as [|a l IH]; simpl; intro H; [reflexivity|].
  rewrite (H a (or_introl eq_refl)). apply IH. intros; apply H; right; assumption.
Qed.

Lemma filter_filter {A} (p q : A -> bool) l :
  filter p (filter q l) = filter (fun x => q x && p x) l.
Proof.
  induction l as [|a l IH]; simpl; [reflexivity|].
  destruct (q a); simpl; [destruct (p a); simpl; congruence | exact IH].
Qed.

Theorem index_position t k i r :
  pk_unique t -> nth_error (versions t k) i = Some r -> index t r = i.
Proof.
  intros U H. assert (Hk : vkey r = k).
  { apply nth_error_In in H. apply versions_members in H. tauto. }
  destruct (vs_split t k U i r H) as [l1 [l2 [E [L [H1 [H2 _]]]]]].
  unfold index. rewrite Hk.
  rewrite <- (filter_filter (fun x => vtx x <? vtx r) (same_key k) t).
  fold (rows_of t k).
  rewrite <- (filter_length_perm _ _ _ (versions_perm t k)). rewrite E.
  rewrite filter_app. simpl. rewrite Z.ltb_irrefl.
  rewrite (filter_all _ l1), (filter_none _ l2).
  - rewrite app_nil_r. exact L.
  - intros x Hx. apply Z.ltb_ge. specialize (H2 _ Hx). lia.
  - intros x Hx. apply Z.ltb_lt. apply H1; exact Hx.
Qed.

(* validity fetcher: under chain_ok it coincides with the subquery fetcher *)
Theorem next_V_position t k i r :
  pk_unique t -> chain_ok t -> nth_error (versions t k) i = Some r ->
  next_V t r = nth_error (versions t k) (S i).
Proof.
  intros U C H. rewrite <- (next_S_position t k i r U H).
  unfold next_V, next_S. rewrite C; [reflexivity|].
  apply nth_error_In in H. apply versions_members in H. tauto.
Qed.

(* rows of key k whose end equals the transaction id of the i-th version: exactly the (i-1)-th *)
Lemma chain_pred_char t k i r :
  pk_unique t -> chain_ok t -> nth_error (versions t k) i = Some r ->
  forall x, In x t -> vkey x = k ->
    (sql_eq (vend x) (Some (vtx r)) = true <->
     exists j, nth_error (versions t k) j = Some x /\ i = S j).
Proof.
  intros U C H x Hx Hxk.
  pose proof (versions_ssorted t k U) as Srt.
  assert (Hxv : In x (versions t k)) by (apply versions_members; auto).
  apply In_nth_error in Hxv as [j Hj].
  rewrite (C x Hx), Hxk, (min_above_position t k U j x Hj).
  split.
  - intro Hs. apply sql_eq_some in Hs as [y [Hy1 Hy2]]. inversion Hy2; subst y.
    destruct (nth_error (versions t k) (S j)) as [n|] eqn:En; [|discriminate].
    simpl in Hy1. inversion Hy1 as [Hy]. exists j. split; [exact Hj|].
    eapply ssorted_nth_tx_inj; [exact Srt | exact H | exact En | congruence].
  - intros [j' [Hj' ->]].
    assert (j' = j) by (eapply ssorted_nth_tx_inj; [exact Srt | exact Hj' | exact Hj | reflexivity]).
    subst j'. rewrite H. simpl. apply Z.eqb_refl.
Qed.

Lemma nth_error_pred {A} (l : list A) j r : nth_error l (S j) = Some r -> exists p, nth_error l j = Some p.
Proof.
  intro H. destruct (nth_error l j) eqn:Ej; [eauto|].
  apply nth_error_None in Ej. assert (nth_error l (S j) = None) by (apply nth_error_None; lia). congruence.
Qed.

Theorem prev_V_position t k i r :
  pk_unique t -> chain_ok t -> nth_error (versions t k) i = Some r ->
  prev_V t r = match i with O => None | S j => nth_error (versions t k) j end.
Proof.
  intros U C H. assert (Hin : In r t /\ vkey r = k).
  { apply nth_error_In in H. apply versions_members in H. exact H. }
  destruct Hin as [Hin Hk]. unfold prev_V. rewrite Hk.
  pose proof (chain_pred_char t k i r U C H) as Hchar.
  destruct i as [|j].
  - apply find_none_iff. intros x Hx.
    destruct (same_key k x) eqn:Ek; [|reflexivity]. simpl.
    apply same_key_eq in Ek.
    destruct (sql_eq (vend x) (Some (vtx r))) eqn:Es; [|reflexivity].
    apply (Hchar x Hx Ek) in Es as [j [_ Hj]]. discriminate.
  - destruct (nth_error_pred _ _ _ H) as [p Hp]. rewrite Hp.
    assert (Hpin : In p t /\ vkey p = k).
    { apply nth_error_In in Hp. apply versions_members in Hp. exact Hp. }
    destruct Hpin as [Hpin Hpk].
    apply find_unique; [exact Hpin| |].
    + apply andb_true_iff. split; [apply same_key_eq; exact Hpk|].
      apply (Hchar p Hpin Hpk). exists j. auto.
    + intros x Hx Hp'. apply andb_true_iff in Hp' as [P1 P2]. apply same_key_eq in P1.
      apply (Hchar x Hx P1) in P2 as [j' [Hj' Hij]]. inversion Hij; subst j'. congruence.
Qed.

Lemma pk_unique_nodup t : pk_unique t -> NoDup t.
Proof. unfold pk_unique. apply NoDup_map_inv. Qed.

Lemma filter_unique {A} (p : A -> bool) (l : list A) (n : A) :
  NoDup l -> In n l -> p n = true -> (forall x, In x l -> p x = true -> x = n) -> filter p l = [n].
Proof.
  induction l as [|a l IH]; simpl; intros ND Hin Hp Hu; [contradiction|].
  inversion ND as [|? ? Hnotin ND']; subst.
  destruct (p a) eqn:E.
  - assert (a = n) by (apply Hu; auto). subst a. f_equal.
    apply filter_none. intros x Hx. destruct (p x) eqn:Ex; [|reflexivity].
    assert (x = n) by (apply Hu; auto). subst x. contradiction.
  - destruct Hin as [->|Hin]; [congruence|]. apply IH; auto.
Qed.

Lemma chain_okb_spec t : chain_okb t = true <-> chain_ok t.
Proof.
  unfold chain_okb, chain_ok. rewrite forallb_forall.
  split; intros H r Hr; specialize (H r Hr); apply oz_eqb_eq; exact H.
Qed.
