(* CoreC01P.v — C01 at machine level: after every flush of a well-formed trace the newest version
   of every live versioned entity is a non-DELETE row holding exactly the versioned columns of
   the live row, and the newest version of every removed entity is a DELETE. *)
From Continuum Require Import Model.Base Model.VTable Model.Backfill Model.Core
     Proofs.BaseP Proofs.VTableP Proofs.CoreP Proofs.ChainP Proofs.CoreChainP
     Proofs.TrackP Proofs.RowsP Proofs.LiveP.

(* ------------------------------------------------------------------ shape of a flush *)
Lemma flush_shape g s objs ents assoc :
  g_versioning g = true -> g_native g = false ->
  let s1 := before_flush g s objs ents in
  let ops' := fold_left (track g) ents (u_ops (s_uow s1)) in
  let s' := flush g s objs ents assoc in
  d_live (s_db s') = fold_left (apply_live g) ents (d_live (s_db s)) /\
  u_cur (s_uow s') = u_cur (s_uow s1) /\
  match u_cur (s_uow s1) with
  | None => d_vt (s_db s') = d_vt (s_db s1) /\ u_ops (s_uow s') = ops'
  | Some T =>
      d_vt (s_db s') = fst (fst (fold_left (process_op g T) ops'
                                   (d_vt (s_db s1), u_vobjs (s_uow s1), s_err s1))) /\
      u_ops (s_uow s') = map mark_proc ops'
  end.
Proof.
  intros Hv Hn s1 ops' s'. subst s'. unfold flush. rewrite Hv. simpl.
  fold (before_flush g s objs ents). fold s1. fold ops'.
  destruct (u_cur (s_uow s1)) as [T|] eqn:Ecur; [|simpl; auto].
  destruct ops' as [|o l] eqn:Eops; [simpl; auto|].
  rewrite Hn.
  destruct (fold_left (process_op g T) (o :: l) (d_vt (s_db s1), u_vobjs (s_uow s1), s_err s1))
    as [[vt' vobjs'] err'] eqn:Ef.
  simpl. auto.
Qed.

Lemma before_flush_same g s objs ents :
  let s1 := before_flush g s objs ents in
  d_vt (s_db s1) = d_vt (s_db s) /\ d_live (s_db s1) = d_live (s_db s) /\
  u_ops (s_uow s1) = u_ops (s_uow s) /\
  (u_cur (s_uow s1) = None <-> (u_cur (s_uow s) = None /\ existsb (obj_modified g) objs || existsb (tracked g) ents = false)).
Proof.
  unfold before_flush. destruct (existsb (obj_modified g) objs || existsb (tracked g) ents) eqn:M.
  - destruct (u_cur (s_uow s)) eqn:C; simpl.
    + split; [reflexivity|]. split; [reflexivity|]. split; [reflexivity|].
      rewrite C. split; [discriminate | intros [X _]; discriminate].
    + split; [reflexivity|]. split; [reflexivity|]. split; [reflexivity|].
      split; [discriminate | intros [_ X]; discriminate].
  - split; [reflexivity|]. split; [reflexivity|]. split; [reflexivity|]. tauto.
Qed.

(* ------------------------------------------------------------------ hypotheses *)
Definition flat_cfg (g : cfg) : Prop :=
  forall c c', (c < length (g_classes g))%nat -> (c' < length (g_classes g))%nat ->
    k_tab (cls_of g c) = k_tab (cls_of g c') -> c = c'.

(* environment assumptions on one flush, relative to the live tables before it *)
Record flush_wf (g : cfg) (live : list lrow) (objs : list obj_st) (ents : list ent_ev) : Prop := {
  fw_nodup : NoDup (map (ev_id g) ents);
  fw_cls : forall e, In e ents -> (e_cls e < length (g_classes g))%nat;
  fw_kind : forall e, In e ents -> e_kind e = OP_INS \/ e_kind e = OP_UPD \/ e_kind e = OP_DEL;
  (* every flushed object is up to date when its event is applied (no row switch, no stale object) *)
  fw_fresh : all_fresh g live ents;
  fw_ins : forall e, In e ents -> e_kind e = OP_INS -> find_live live (e_cls e) (ev_key g e) = None;
  (* an update whose versioned data differs from the stored row is seen as modified *)
  fw_upd : forall e, In e ents -> e_kind e = OP_UPD -> k_versioned (cls_of g (e_cls e)) = true ->
           exists old, find_live live (e_cls e) (ev_key g e) = Some old /\
                       (dat_of (cls_of g (e_cls e)) (e_vals e) <> dat_of (cls_of g (e_cls e)) (l_vals old) ->
                        tracked g e = true);
  fw_unused : True }.

Definition ops_valid (g : cfg) (ops : list oper) : Prop :=
  forall o, In o ops -> (op_cls o < length (g_classes g))%nat.

Definition Inv3 (g : cfg) (s : state) : Prop :=
  NoDup (map op_id (u_ops (s_uow s))) /\ ops_valid g (u_ops (s_uow s)) /\
  (u_cur (s_uow s) = None -> u_ops (s_uow s) = []) /\
  (forall o, In o (u_ops (s_uow s)) -> op_proc o = true).

Definition newest (vt : vtable) (K : pk) (r : vrow) : Prop :=
  In r vt /\ vkey r = K /\ forall r', In r' vt -> vkey r' = K -> vtx r' <= vtx r.

Definition c01_rel (g : cfg) (live : list lrow) (vt : vtable) (c : nat) (k : pk) : Prop :=
  let cc := cls_of g c in
  let K := k_tab cc :: k in
  match find_live live c k with
  | Some l => exists r, newest vt K r /\ vop r <> OP_DEL /\ vdat r = dat_of cc (l_vals l)
  | None => (forall r, In r vt -> vkey r <> K) \/ (exists r, newest vt K r /\ vop r = OP_DEL)
  end.

Definition Inv4 (g : cfg) (s : state) : Prop :=
  forall c k, (c < length (g_classes g))%nat -> k_versioned (cls_of g c) = true ->
    c01_rel g (d_live (s_db s)) (d_vt (s_db s)) c k.

(* ------------------------------------------------------------------ the operations after the trackers *)
Lemma put_op_in o x ops : In x (put_op o ops) -> x = o \/ In x ops.
Proof.
  induction ops as [|a ops IH]; simpl; [intros [<-|[]]; auto|].
  destruct (same_op (op_cls o) (op_key o) a).
  - intros [<-|H]; auto.
  - intros [<-|H]; [auto|]. destruct (IH H); auto.
Qed.

Lemma track_in g ops e x :
  In x (track g ops e) ->
  In x ops \/ (tracked g e = true /\ op_id x = ev_id g e /\ op_proc x = false /\ op_vals x = e_vals e /\
               (op_kind x = OP_DEL <-> (e_kind e <> OP_INS /\ e_kind e <> OP_UPD))).
Proof.
  unfold track, tracked. set (cc := cls_of g (e_cls e)).
  destruct (k_versioned cc); simpl; [|auto].
  assert (G : forall kind, In x (put_op (mk_oper cc e kind) ops) ->
            In x ops \/ (op_id x = ev_id g e /\ op_proc x = false /\ op_vals x = e_vals e /\ op_kind x = kind)).
  { intros kind H. apply put_op_in in H as [->|H]; [right|left; exact H].
    unfold op_id, ev_id, ev_key, mk_oper. simpl. auto. }
  destruct (e_kind e =? OP_INS) eqn:EI; simpl.
  - intro H. apply G in H as [H|[H1 [H2 [H3 H4]]]]; [auto|]. right.
    split; [reflexivity|]. split; [exact H1|]. split; [exact H2|]. split; [exact H3|]. split.
    + intro Hd. exfalso. rewrite Hd in H4.
      destruct (existsb (same_op (e_cls e) (key_of cc (e_vals e))) ops); unfold OP_DEL, OP_UPD, OP_INS in H4; lia.
    + intros [Hn _]. apply Z.eqb_eq in EI. contradiction.
  - destruct (e_kind e =? OP_UPD) eqn:EU; simpl.
    + destruct (is_modified cc (e_colchg e) (e_relchg e) && existsb (real_change cc e) (e_cstate e)); [|auto].
      intro H. apply G in H as [H|[H1 [H2 [H3 H4]]]]; [auto|]. right.
      split; [reflexivity|]. split; [exact H1|]. split; [exact H2|]. split; [exact H3|]. split.
      * intro Hd. exfalso. rewrite Hd in H4. unfold OP_DEL, OP_UPD in H4. lia.
      * intros [_ Hn]. apply Z.eqb_eq in EU. contradiction.
    + intro H. apply G in H as [H|[H1 [H2 [H3 H4]]]]; [auto|]. right.
      split; [reflexivity|]. split; [exact H1|]. split; [exact H2|]. split; [exact H3|]. split.
      * intros _. split; [apply Z.eqb_neq; exact EI | apply Z.eqb_neq; exact EU].
      * intros _. exact H4.
Qed.

Lemma fold_track_in g : forall ents ops x,
  In x (fold_left (track g) ents ops) ->
  In x ops \/ (exists e, In e ents /\ tracked g e = true /\ op_id x = ev_id g e /\ op_proc x = false).
Proof.
  induction ents as [|e ents IH]; intros ops x H; simpl in H; [auto|].
  apply IH in H as [H|[e' [He' Hrest]]].
  - apply track_in in H as [H|[H1 [H2 [H3 _]]]]; [auto|].
    right. exists e. split; [left; reflexivity|]. auto.
  - right. exists e'. split; [right; exact He' | exact Hrest].
Qed.

Lemma fold_track_nodup g : forall ents ops,
  NoDup (map op_id ops) -> NoDup (map op_id (fold_left (track g) ents ops)).
Proof.
  induction ents as [|e ents IH]; intros ops ND; simpl; [exact ND|].
  apply IH. apply track_nodup. exact ND.
Qed.

(* an operation's row key determines the operation's identity *)
Lemma vk_inj g o c k :
  flat_cfg g -> (op_cls o < length (g_classes g))%nat -> (c < length (g_classes g))%nat ->
  vk g o = k_tab (cls_of g c) :: k -> op_id o = (c, k).
Proof.
  intros F H1 H2 E. unfold vk in E. inversion E as [[Et Ek]]. unfold op_id.
  rewrite (F _ _ H1 H2 Et). reflexivity.
Qed.

Lemma vk_nodup g ops :
  flat_cfg g -> ops_valid g ops -> NoDup (map op_id ops) -> NoDup (map (vk g) ops).
Proof.
  intros F V. induction ops as [|o ops IH]; simpl; intro ND; [constructor|].
  inversion ND as [|? ? Hn ND']; subst. constructor.
  - intro Hin. apply in_map_iff in Hin as [o' [E Ho']]. apply Hn.
    assert (op_id o' = op_id o).
    { unfold op_id at 2. apply (vk_inj g o' (op_cls o) (op_key o) F);
        [apply V; right; exact Ho' | apply V; left; reflexivity | exact E]. }
    rewrite <- H. apply in_map. exact Ho'.
  - apply IH; [intros x Hx; apply V; right; exact Hx | exact ND'].
Qed.

Lemma nodup_filter {A B} (f : A -> B) (p : A -> bool) l : NoDup (map f l) -> NoDup (map f (filter p l)).
Proof.
  induction l as [|a l IH]; simpl; intro ND; [constructor|].
  inversion ND as [|? ? Hn ND']; subst. destruct (p a); simpl; [|apply IH; exact ND'].
  constructor; [|apply IH; exact ND'].
  intro H. apply Hn. apply in_map_iff in H as [x [E Hx]]. apply filter_In in Hx as [Hx _].
  rewrite <- E. apply in_map. exact Hx.
Qed.

(* ------------------------------------------------------------------ newest rows survive "up to end" *)
Lemma newest_transfer vt vt' K r :
  (forall x, In x vt -> vkey x = K -> exists x', In x' vt' /\ upto_end x x') ->
  (forall x', In x' vt' -> vkey x' = K -> exists x, In x vt /\ upto_end x x') ->
  newest vt K r -> exists r', newest vt' K r' /\ upto_end r r'.
Proof.
  intros Hf Hb [Hin [Hk Hmax]]. destruct (Hf r Hin Hk) as [r' [Hr' U]].
  exists r'. split; [|exact U]. destruct U as [U1 [U2 _]].
  split; [exact Hr'|]. split; [congruence|].
  intros x' Hx' Hxk. destruct (Hb x' Hx' Hxk) as [x [Hx [V1 [V2 _]]]].
  rewrite V2, U2. apply Hmax; [exact Hx | congruence].
Qed.

Definition c01_some (vt : vtable) (K : pk) (d : list val) : Prop :=
  exists r, newest vt K r /\ vop r <> OP_DEL /\ vdat r = d.
Definition c01_none (vt : vtable) (K : pk) : Prop :=
  (forall r, In r vt -> vkey r <> K) \/ (exists r, newest vt K r /\ vop r = OP_DEL).

Lemma c01_rel_unfold g live vt c k :
  c01_rel g live vt c k <->
  match find_live live c k with
  | Some l => c01_some vt (k_tab (cls_of g c) :: k) (dat_of (cls_of g c) (l_vals l))
  | None => c01_none vt (k_tab (cls_of g c) :: k)
  end.
Proof. unfold c01_rel, c01_some, c01_none. destruct (find_live live c k); reflexivity. Qed.

Definition transfers (vt vt' : vtable) (K : pk) : Prop :=
  (forall x, In x vt -> vkey x = K -> exists x', In x' vt' /\ upto_end x x') /\
  (forall x', In x' vt' -> vkey x' = K -> exists x, In x vt /\ upto_end x x').

Lemma c01_some_transfer vt vt' K d : transfers vt vt' K -> c01_some vt K d -> c01_some vt' K d.
Proof.
  intros [Hf Hb] [r [Hn [Ho Hd]]]. destruct (newest_transfer vt vt' K r Hf Hb Hn) as [r' [Hn' [_ [_ [U3 U4]]]]].
  exists r'. split; [exact Hn'|]. split; congruence.
Qed.

Lemma c01_none_transfer vt vt' K : transfers vt vt' K -> c01_none vt K -> c01_none vt' K.
Proof.
  intros [Hf Hb] [H|[r [Hn Ho]]].
  - left. intros r' Hr' Hk. destruct (Hb r' Hr' Hk) as [x [Hx [U1 _]]]. apply (H x Hx). congruence.
  - right. destruct (newest_transfer vt vt' K r Hf Hb Hn) as [r' [Hn' [_ [_ [U3 _]]]]].
    exists r'. split; [exact Hn' | congruence].
Qed.

Lemma transfers_refl vt K : transfers vt vt K.
Proof. split; intros x Hx _; exists x; split; [exact Hx | apply upto_end_refl | exact Hx | apply upto_end_refl]. Qed.

Lemma track_untracked g ops e : tracked g e = false -> track g ops e = ops.
Proof.
  unfold tracked, track. destruct (k_versioned (cls_of g (e_cls e))); simpl; [|reflexivity].
  destruct (e_kind e =? OP_INS); simpl; [discriminate|].
  destruct (e_kind e =? OP_UPD); simpl; [|discriminate].
  intro H. rewrite H. reflexivity.
Qed.

Lemma fold_track_untracked g ents ops :
  (forall e, In e ents -> tracked g e = false) -> fold_left (track g) ents ops = ops.
Proof.
  revert ops. induction ents as [|e ents IH]; intros ops H; simpl; [reflexivity|].
  rewrite track_untracked by (apply H; left; reflexivity). apply IH. intros; apply H; right; assumption.
Qed.

Lemma val_eq_dec (a b : val) : {a = b} + {a <> b}.
Proof. decide equality. apply Z.eq_dec. Qed.

(* an untracked event of a versioned class is an update that leaves the versioned data alone *)
Lemma untracked_is_quiet_update g live objs ents e :
  flush_wf g live objs ents -> In e ents -> k_versioned (cls_of g (e_cls e)) = true ->
  tracked g e = false ->
  e_kind e <> OP_DEL /\
  exists old, find_live live (e_cls e) (ev_key g e) = Some old /\
              dat_of (cls_of g (e_cls e)) (e_vals e) = dat_of (cls_of g (e_cls e)) (l_vals old).
Proof.
  intros WF He Hver Ht.
  assert (Hk : e_kind e = OP_UPD).
  { unfold tracked in Ht. rewrite Hver in Ht. simpl in Ht.
    destruct (e_kind e =? OP_INS) eqn:EI; simpl in Ht; [discriminate|].
    destruct (e_kind e =? OP_UPD) eqn:EU; simpl in Ht; [apply Z.eqb_eq; exact EU | discriminate]. }
  split; [rewrite Hk; unfold OP_UPD, OP_DEL; lia|].
  destruct (fw_upd _ _ _ _ WF e He Hk Hver) as [old [Hold Hdiff]].
  exists old. split; [exact Hold|].
  destruct (list_eq_dec val_eq_dec (dat_of (cls_of g (e_cls e)) (e_vals e)) (dat_of (cls_of g (e_cls e)) (l_vals old))) as [E|N];
    [exact E|]. specialize (Hdiff N). congruence.
Qed.

(* ------------------------------------------------------------------ one flush *)
Section FlushC01.
  Variables (g : cfg) (s : state) (objs : list obj_st) (ents : list ent_ev) (assoc : list assoc_ev).
  Hypothesis CC : cfg_consistent g.
  Hypothesis FL : flat_cfg g.
  Hypothesis Hv : g_versioning g = true.
  Hypothesis Hn : g_native g = false.
  Hypothesis IA : InvAll g s.
  Hypothesis I3 : Inv3 g s.
  Hypothesis I4 : Inv4 g s.
  Hypothesis WF : flush_wf g (d_live (s_db s)) objs ents.

  Let s1 := before_flush g s objs ents.
  Let ops' := fold_left (track g) ents (u_ops (s_uow s1)).
  Let s' := flush g s objs ents assoc.

  Lemma ops'_valid : ops_valid g ops'.
  Proof.
    intros o Ho. unfold ops' in Ho. apply fold_track_in in Ho as [Ho|[e [He [_ [Hid _]]]]].
    - destruct I3 as [_ [V _]]. apply V. destruct (before_flush_same g s objs ents) as [_ [_ [E _]]].
      fold s1 in E. rewrite <- E. exact Ho.
    - unfold op_id, ev_id in Hid. inversion Hid as [[E1 E2]]. rewrite E1. apply (fw_cls _ _ _ _ WF e He).
  Qed.

  Lemma ops'_nodup : NoDup (map op_id ops').
  Proof.
    unfold ops'. apply fold_track_nodup. destruct (before_flush_same g s objs ents) as [_ [_ [E _]]].
    fold s1 in E. rewrite E. apply I3.
  Qed.

  Lemma no_tracked_ops' : (forall e, In e ents -> tracked g e = false) -> ops' = u_ops (s_uow s).
  Proof.
    intro H. unfold ops'. rewrite fold_track_untracked by exact H.
    destruct (before_flush_same g s objs ents) as [_ [_ [E _]]]. exact E.
  Qed.

  Lemma cur_none_no_tracked :
    u_cur (s_uow s1) = None -> forall e, In e ents -> tracked g e = false.
  Proof.
    intros Hc e He. destruct (tracked g e) eqn:T; [|reflexivity]. exfalso.
    destruct (before_flush_same g s objs ents) as [_ [_ [_ Hiff]]]. fold s1 in Hiff.
    apply Hiff in Hc as [_ Hm]. apply orb_false_iff in Hm as [_ Hm].
    assert (existsb (tracked g) ents = true) by (apply existsb_exists; exists e; auto). congruence.
  Qed.

  Theorem flush_Inv3 : Inv3 g s'.
  Proof.
    destruct (flush_shape g s objs ents assoc Hv Hn) as [_ [Ecur Hshape]].
    fold s1 ops' s' in Ecur, Hshape.
    unfold Inv3. destruct (u_cur (s_uow s1)) as [T|] eqn:C.
    - destruct Hshape as [_ Eops]. rewrite Eops, Ecur.
      assert (Eid : map op_id (map mark_proc ops') = map op_id ops') by (rewrite map_map; reflexivity).
      split; [rewrite Eid; apply ops'_nodup|]. split; [|split; [discriminate|]].
      + intros o Ho. apply in_map_iff in Ho as [o0 [<- Ho0]]. simpl. apply ops'_valid; exact Ho0.
      + intros o Ho. apply in_map_iff in Ho as [o0 [<- _]]. reflexivity.
    - destruct Hshape as [_ Eops]. rewrite Eops, Ecur.
      pose proof (no_tracked_ops' (cur_none_no_tracked C)) as E0.
      destruct (before_flush_same g s objs ents) as [_ [_ [_ Hiff]]]. fold s1 in Hiff.
      apply Hiff in C as [C0 _]. destruct I3 as [_ [_ [Hnone _]]].
      rewrite E0, (Hnone C0). repeat split; try constructor; try contradiction; auto.
      intros o [].
  Qed.

  (* rows of an entity that has no tracked event in this flush are not targeted *)
  Lemma untargeted T c k r :
    (c < length (g_classes g))%nat ->
    (forall e, In e ents -> tracked g e && is_ev g c k e = false) ->
    vkey r = k_tab (cls_of g c) :: k -> ~ targeted g T ops' r.
  Proof.
    intros Hc Hno Hk [o [Ho [Hp [E _]]]].
    assert (Hid : op_id o = (c, k)).
    { apply (vk_inj g o c k FL); [apply ops'_valid; exact Ho | exact Hc | congruence]. }
    unfold ops' in Ho. apply fold_track_in in Ho as [Ho|[e [He [Ht [Hide _]]]]].
    - destruct I3 as [_ [_ [_ Hproc]]]. destruct (before_flush_same g s objs ents) as [_ [_ [E0 _]]].
      fold s1 in E0. rewrite E0 in Ho. rewrite (Hproc o Ho) in Hp. discriminate.
    - specialize (Hno e He). rewrite Ht in Hno. simpl in Hno.
      assert (is_ev g c k e = true) by (apply is_ev_spec; congruence). congruence.
  Qed.

  Lemma acc0_ok T :
    u_cur (s_uow s1) = Some T ->
    In T (d_tx (s_db s1)) /\
    acc_ok g T (d_tx (s_db s1)) (d_vt (s_db s1), u_vobjs (s_uow s1), s_err s1) /\
    NoDup (map (vk g) (unproc ops')).
  Proof.
    intro C.
    destruct (before_flush_all g s objs ents IA) as [[[V _] [_ [HcurI _]]] [[Hdb [Hcm [VI [Hcache Herr]]]] _]].
    fold s1 in V, HcurI, Hdb, Hcm, VI, Hcache, Herr.
    destruct (HcurI T C) as [HT Hmax].
    split; [exact HT|]. split.
    - split; [exact Hdb|]. split; [intros r Hr; apply Hmax, V, Hr|].
      split; [exact (Hcache T C)|]. split; [exact VI | exact Herr].
    - unfold unproc. apply nodup_filter. apply vk_nodup; [exact FL | exact ops'_valid | exact ops'_nodup].
  Qed.

  (* an entity without a tracked event keeps its rows, up to end columns *)
  Lemma transfers_untouched c k :
    (c < length (g_classes g))%nat ->
    (forall e, In e ents -> tracked g e && is_ev g c k e = false) ->
    transfers (d_vt (s_db s)) (d_vt (s_db s')) (k_tab (cls_of g c) :: k).
  Proof.
    intros Hc Hno.
    destruct (flush_shape g s objs ents assoc Hv Hn) as [_ [_ Hshape]].
    fold s1 ops' s' in Hshape.
    destruct (before_flush_same g s objs ents) as [Evt1 _]. fold s1 in Evt1.
    destruct (u_cur (s_uow s1)) as [T|] eqn:C.
    - destruct Hshape as [Evt' _]. destruct (acc0_ok T C) as [HT [A0 NDk]].
      destruct (fold_rows g T (d_tx (s_db s1)) ops' _ CC HT A0 NDk) as [_ [F2 F3]].
      cbn [fst] in F2, F3. rewrite <- Evt' in F2, F3. rewrite Evt1 in F2, F3.
      split.
      + intros x Hx Hxk. apply F2; [exact Hx|]. apply (untargeted T c k x Hc Hno Hxk).
      + intros x' Hx' Hxk'. destruct (F3 x' Hx') as [[o [Ho [Hp [R1 [R2 _]]]]]|[x [Hx [U _]]]].
        * exfalso. apply (untargeted T c k x' Hc Hno Hxk'). exists o. auto.
        * exists x. auto.
    - destruct Hshape as [Evt' _]. rewrite Evt', Evt1. apply transfers_refl.
  Qed.

  Lemma nodup_ev_unique e e0 :
    In e ents -> In e0 ents -> ev_id g e = ev_id g e0 -> e0 = e.
  Proof.
    pose proof (fw_nodup _ _ _ _ WF) as ND. revert ND. generalize ents. intro l.
    induction l as [|a l IH]; [contradiction|]. simpl. intro ND. inversion ND as [|? ? Hni ND']; subst.
    intros [<-|He] [<-|He0] E; auto.
    - exfalso. apply Hni. rewrite E. apply in_map; exact He0.
    - exfalso. apply Hni. rewrite <- E. apply in_map; exact He.
  Qed.

  Theorem flush_Inv4 : Inv4 g s'.
  Proof.
    destruct (flush_shape g s objs ents assoc Hv Hn) as [Elive [Ecur Hshape]].
    fold s1 ops' s' in Elive, Ecur, Hshape.
    intros c k Hc Hver. apply c01_rel_unfold. rewrite Elive.
    pose proof (proj1 (c01_rel_unfold g _ _ c k) (I4 c k Hc Hver)) as Hold.
    set (cc := cls_of g c) in *. set (K := k_tab cc :: k) in *.
    pose proof (fw_fresh _ _ _ _ WF) as Hsw.
    (* is there an event for (c,k) in this flush? *)
    destruct (find (is_ev g c k) ents) as [e|] eqn:Fe.
    - apply find_some in Fe as [He Hev].
      assert (Hec : e_cls e = c /\ ev_key g e = k).
      { apply is_ev_spec in Hev. unfold ev_id in Hev. inversion Hev. auto. }
      destruct Hec as [Hec Hek].
      rewrite (fold_live_one g c k ents _ e Hsw (fw_nodup _ _ _ _ WF) He Hev).
      destruct (tracked g e) eqn:Ht.
      + (* tracked: the row at the current transaction is written *)
        assert (Hcur : exists T, u_cur (s_uow s1) = Some T).
        { destruct (u_cur (s_uow s1)) eqn:C; [eauto|]. rewrite (cur_none_no_tracked C e He) in Ht. discriminate. }
        destruct Hcur as [T C]. rewrite C in Hshape. destruct Hshape as [Evt' _].
        destruct (acc0_ok T C) as [HT [A0 NDk]].
        destruct (fold_rows g T (d_tx (s_db s1)) ops' _ CC HT A0 NDk) as [F1 _].
        pose proof (fold_process_ok g T (d_tx (s_db s1)) ops' _ CC HT A0) as A1.
        destruct (fold_left (process_op g T) ops' (d_vt (s_db s1), u_vobjs (s_uow s1), s_err s1))
          as [[vtr vobjsr] errr] eqn:Ef.
        simpl in F1, Evt'. destruct A1 as [_ [LE' _]].
        destruct (fold_track_one g c k ents (u_ops (s_uow s1)) e (fw_nodup _ _ _ _ WF) He Hev Ht
                    (fw_kind _ _ _ _ WF e He)) as [kind [Hop Hdel]].
        fold ops' in Hop. unfold op_at in Hop. apply find_some in Hop as [Hoin _].
        set (o := mk_oper (cls_of g (e_cls e)) e kind) in *.
        destruct (F1 o Hoin eq_refl) as [r [Hr [R1 [R2 [R3 R4]]]]].
        assert (RK : vkey r = K).
        { rewrite R1. unfold vk, o, mk_oper. simpl. unfold K, cc. rewrite Hec. f_equal.
          unfold ev_key in Hek. rewrite Hec in Hek. exact Hek. }
        assert (Hnew : newest (d_vt (s_db s')) K r).
        { rewrite Evt'. split; [exact Hr|]. split; [exact RK|].
          intros r' Hr' _. rewrite R2. apply LE'; exact Hr'. }
        destruct (e_kind e =? OP_DEL) eqn:ED.
        * right. exists r. split; [exact Hnew|]. rewrite R3. unfold o, mk_oper; simpl.
          apply Hdel. apply Z.eqb_eq; exact ED.
        * exists r. split; [exact Hnew|]. split.
          -- rewrite R3. unfold o, mk_oper; simpl. intro Hd. apply Hdel in Hd.
             apply Z.eqb_neq in ED. contradiction.
          -- rewrite R4. unfold op_dat, o, mk_oper. simpl.
             assert (Hkd : (kind =? OP_DEL) = false).
             { apply Z.eqb_neq. intro Hd. apply Hdel in Hd. apply Z.eqb_neq in ED. contradiction. }
             rewrite Hkd, andb_false_r. rewrite Hec. reflexivity.
      + (* untracked: a quiet update; the rows of the entity are untouched up to end *)
        assert (Hver' : k_versioned (cls_of g (e_cls e)) = true) by (rewrite Hec; exact Hver).
        destruct (untracked_is_quiet_update g _ objs ents e WF He Hver' Ht) as [Hnd [old [Hfo Hsame]]].
        rewrite Hec, Hek in Hfo. rewrite Hec in Hsame. fold cc in Hsame.
        assert (ED : (e_kind e =? OP_DEL) = false) by (apply Z.eqb_neq; exact Hnd).
        rewrite ED. simpl. rewrite Hfo in Hold. rewrite Hsame.
        assert (Htr : transfers (d_vt (s_db s)) (d_vt (s_db s')) K).
        { apply transfers_untouched; [exact Hc|].
          intros e0 He0. destruct (tracked g e0 && is_ev g c k e0) eqn:X; [|reflexivity]. exfalso.
          apply andb_true_iff in X as [X1 X2].
          assert (e0 = e).
          { apply nodup_ev_unique; [exact He | exact He0|].
            apply is_ev_spec in X2. apply is_ev_spec in Hev. congruence. }
          subst e0. congruence. }
        exact (c01_some_transfer _ _ K _ Htr Hold).
    - (* no event for (c,k) *)
      assert (Hno0 : forall e0, In e0 ents -> is_ev g c k e0 = false) by (apply find_none; exact Fe).
      rewrite (fold_live_none g c k ents _ Hsw Hno0).
      assert (Htr : transfers (d_vt (s_db s)) (d_vt (s_db s')) K).
      { apply transfers_untouched; [exact Hc|]. intros e0 He0. rewrite (Hno0 e0 He0). apply andb_false_r. }
      destruct (find_live (d_live (s_db s)) c k).
      + exact (c01_some_transfer _ _ K _ Htr Hold).
      + exact (c01_none_transfer _ _ K Htr Hold).
  Qed.
End FlushC01.

(* ------------------------------------------------------------------ whole traces *)
Fixpoint trace_wf (g : cfg) (s : state) (evs : list ev) : Prop :=
  match evs with
  | [] => True
  | e :: evs' =>
      match e with
      | Flush objs ents _ => flush_wf g (d_live (s_db s)) objs ents
      | ManualTx => False
      | RawAssoc _ => True
      | _ => True
      end /\ trace_wf g (step g s e) evs'
  end.

Definition Inv4c (g : cfg) (s : state) : Prop :=
  forall c k, (c < length (g_classes g))%nat -> k_versioned (cls_of g c) = true ->
    c01_rel g (d_live (s_committed s)) (d_vt (s_committed s)) c k.

Definition J (g : cfg) (s : state) : Prop := InvAll g s /\ Inv3 g s /\ Inv4 g s /\ Inv4c g s.

Lemma J_init g : J g state0.
Proof.
  split; [apply InvAll_init|]. split; [|split].
  - unfold Inv3; simpl. repeat split; try constructor; try contradiction; auto. intros o [].
  - intros c k _ _. unfold c01_rel; simpl. left. intros r [].
  - intros c k _ _. unfold c01_rel; simpl. left. intros r [].
Qed.

Lemma flush_committed g s objs ents assoc :
  g_versioning g = true -> s_committed (flush g s objs ents assoc) = s_committed s.
Proof.
  intro Hv. destruct (flush_unfold g s objs ents assoc Hv) as [_ [_ E]]. rewrite E.
  unfold before_flush. destruct (existsb (obj_modified g) objs || existsb (tracked g) ents); [|reflexivity].
  destruct (u_cur (s_uow s)); reflexivity.
Qed.

Lemma step_J g s e :
  cfg_consistent g -> flat_hier g -> flat_cfg g -> g_versioning g = true -> g_native g = false ->
  J g s -> trace_wf g s [e] -> J g (step g s e).
Proof.
  intros CC FH FL Hv Hn [IA [I3 [I4 I4c]]] [Hwf _]. destruct e as [objs ents assoc| | | |a]; simpl.
  - rewrite (hier_pass_flat g _ FH). split; [apply flush_all; assumption|]. split; [apply flush_Inv3; assumption|].
    split; [apply flush_Inv4; assumption|].
    unfold Inv4c. rewrite flush_committed by exact Hv. exact I4c.
  - split; [apply (step_all g s Commit CC (flat_hier_consistent g FH) IA)|]. split; [|split; exact I4].
    unfold Inv3; simpl. repeat split; try constructor; try contradiction; auto. intros o [].
  - split; [apply (step_all g s Rollback CC (flat_hier_consistent g FH) IA)|]. split; [|split; exact I4c].
    unfold Inv3; simpl. repeat split; try constructor; try contradiction; auto. intros o [].
  - contradiction.
  - split; [apply (step_all g s (RawAssoc a) CC (flat_hier_consistent g FH) IA)|]. rewrite Hv. simpl.
    destruct (u_live (s_uow s)); (split; [exact I3|]; split; [exact I4 | exact I4c]).
Qed.

Theorem run_J g : forall evs s,
  cfg_consistent g -> flat_hier g -> flat_cfg g -> g_versioning g = true -> g_native g = false ->
  J g s -> trace_wf g s evs -> J g (fold_left (step g) evs s).
Proof.
  induction evs as [|e evs IH]; intros s CC FH FL Hv Hn HJ Hwf; simpl; [exact HJ|].
  destruct Hwf as [H1 H2]. apply IH; try assumption.
  apply step_J; try assumption. simpl. auto.
Qed.

(* C01 for every reachable state of every well-formed trace *)
Theorem reachable_c01 g evs :
  cfg_consistent g -> flat_hier g -> flat_cfg g -> g_versioning g = true -> g_native g = false ->
  trace_wf g state0 evs ->
  forall c k, (c < length (g_classes g))%nat -> k_versioned (cls_of g c) = true ->
    c01_rel g (d_live (s_db (run g evs))) (d_vt (s_db (run g evs))) c k.
Proof.
  intros CC FH FL Hv Hn Hwf. destruct (run_J g evs state0 CC FH FL Hv Hn (J_init g) Hwf) as [_ [_ [I4 _]]].
  exact I4.
Qed.

(* ------------------------------------------------------------------ only tracked entities get rows *)
Section FlushOnly.
  Variables (g : cfg) (s : state) (objs : list obj_st) (ents : list ent_ev) (assoc : list assoc_ev).
  Hypothesis CC : cfg_consistent g.
  Hypothesis FL : flat_cfg g.
  Hypothesis Hv : g_versioning g = true.
  Hypothesis Hn : g_native g = false.
  Hypothesis IA : InvAll g s.
  Hypothesis I3 : Inv3 g s.
  Hypothesis WF : flush_wf g (d_live (s_db s)) objs ents.

  (* a row of the new table either has the identity (key, transaction) of an old row, or belongs to
     an entity with a tracked event in this flush and carries the current transaction id *)
  Theorem flush_rows_only_for_tracked r' :
    In r' (d_vt (s_db (flush g s objs ents assoc))) ->
    (exists r, In r (d_vt (s_db s)) /\ vkey r = vkey r' /\ vtx r = vtx r' /\ vop r = vop r' /\ vdat r = vdat r') \/
    (exists e, In e ents /\ tracked g e = true /\
               vkey r' = k_tab (cls_of g (e_cls e)) :: ev_key g e /\
               u_cur (s_uow (flush g s objs ents assoc)) = Some (vtx r')).
  Proof.
    intro Hr'.
    destruct (flush_shape g s objs ents assoc Hv Hn) as [_ [Ecur Hshape]].
    destruct (before_flush_same g s objs ents) as [Evt1 [_ [Eops1 _]]].
    destruct (u_cur (s_uow (before_flush g s objs ents))) as [T|] eqn:C.
    - destruct Hshape as [Evt' _].
      destruct (acc0_ok g s objs ents FL IA I3 WF T C) as [HT [A0 NDk]].
      destruct (fold_rows g T (d_tx (s_db (before_flush g s objs ents))) (fold_left (track g) ents (u_ops (s_uow (before_flush g s objs ents)))) _ CC HT A0 NDk) as [_ [_ F3]].
      cbn [fst] in F3. rewrite <- Evt' in F3. rewrite Evt1 in F3.
      destruct (F3 r' Hr') as [[o [Ho [Hp [R1 [R2 _]]]]]|[r [Hr [[U1 [U2 [U3 U4]]] _]]]].
      + right. apply fold_track_in in Ho as [Ho|[e [He [Ht [Hid _]]]]].
        * destruct I3 as [_ [_ [_ Hproc]]]. rewrite Eops1 in Ho. rewrite (Hproc o Ho) in Hp. discriminate.
        * exists e. split; [exact He|]. split; [exact Ht|]. split.
          -- rewrite R1. unfold vk. unfold op_id, ev_id in Hid. inversion Hid as [[E1 E2]]. reflexivity.
          -- rewrite Ecur, R2. reflexivity.
      + left. exists r. repeat split; auto.
    - destruct Hshape as [Evt' _]. rewrite Evt', Evt1 in Hr'. left. exists r'. auto.
  Qed.
End FlushOnly.

(* ------------------------------------------------------------------ excluded columns (C13) *)
Lemma any2_false {A B} (f : A -> B -> bool) : forall a b,
  (forall i x y, nth_error a i = Some x -> nth_error b i = Some y -> f x y = false) -> any2 f a b = false.
Proof.
  induction a as [|x a IH]; intros [|y b] H; simpl; try reflexivity.
  rewrite (H 0%nat x y eq_refl eq_refl). simpl. apply IH.
  intros i x' y' Hx Hy. apply (H (S i)); assumption.
Qed.

(* an update whose history shows changes on excluded columns and excluded (or unversioned)
   relationships only is not tracked: no operation, hence no version row for it *)
Theorem excluded_only_update_untracked g e :
  let cc := cls_of g (e_cls e) in
  e_kind e = OP_UPD ->
  (forall i c chg, nth_error (k_cols cc) i = Some c -> nth_error (e_colchg e) i = Some chg ->
                   chg = true -> c_excl c = true) ->
  (forall j r chg, nth_error (k_rels cc) j = Some r -> nth_error (e_relchg e) j = Some chg ->
                   chg = true -> rel_versioned cc r = false) ->
  tracked g e = false.
Proof.
  intros cc Hk Hc Hr. unfold tracked. fold cc. rewrite Hk.
  assert (Hm : is_modified cc (e_colchg e) (e_relchg e) = false).
  { unfold is_modified. apply orb_false_iff. split.
    - apply any2_false. intros i v chg Hv Hchg. unfold ver_flags in Hv.
      rewrite nth_error_map in Hv. destruct (nth_error (k_cols cc) i) as [c|] eqn:Ec; [|discriminate].
      simpl in Hv. inversion Hv; subst v. destruct chg; [|apply andb_false_r].
      rewrite (Hc i c true Ec Hchg eq_refl). reflexivity.
    - apply any2_false. intros j r chg Hj Hchg. destruct chg; [|apply andb_false_r].
      rewrite (Hr j r true Hj Hchg eq_refl). reflexivity. }
  rewrite Hm. simpl. destruct (k_versioned cc); reflexivity.
Qed.

(* the same for the session-level test that decides whether a transaction record is created *)
Theorem excluded_only_object_unmodified g o :
  let cc := cls_of g (o_cls o) in
  o_new o = false -> o_del o = false ->
  (forall i c chg, nth_error (k_cols cc) i = Some c -> nth_error (o_colchg o) i = Some chg ->
                   chg = true -> c_excl c = true) ->
  (forall j r chg, nth_error (k_rels cc) j = Some r -> nth_error (o_relchg o) j = Some chg ->
                   chg = true -> rel_versioned cc r = false) ->
  obj_modified g o = false.
Proof.
  intros cc Hnew Hdel Hc Hr. unfold obj_modified. fold cc. rewrite Hnew, Hdel.
  assert (Hm : is_modified cc (o_colchg o) (o_relchg o) = false).
  { unfold is_modified. apply orb_false_iff. split.
    - apply any2_false. intros i v chg Hv Hchg. unfold ver_flags in Hv.
      rewrite nth_error_map in Hv. destruct (nth_error (k_cols cc) i) as [c|] eqn:Ec; [|discriminate].
      simpl in Hv. inversion Hv; subst v. destruct chg; [|apply andb_false_r].
      rewrite (Hc i c true Ec Hchg eq_refl). reflexivity.
    - apply any2_false. intros j r chg Hj Hchg. destruct chg; [|apply andb_false_r].
      rewrite (Hr j r true Hj Hchg eq_refl). reflexivity. }
  rewrite Hm. simpl. apply andb_false_r.
Qed.

(* the stored data of a version never depends on excluded column values *)
Fixpoint agree_on (flags : list bool) (a b : list val) : Prop :=
  match flags, a, b with
  | f :: flags', x :: a', y :: b' => (f = true -> x = y) /\ agree_on flags' a' b'
  | _, [], [] => True
  | [], _, _ => True
  | _, _, _ => False
  end.

Lemma proj_agree flags : forall a b, agree_on flags a b -> proj flags a = proj flags b.
Proof.
  induction flags as [|f flags IH]; intros a b H; [destruct a, b; reflexivity|].
  destruct a as [|x a], b as [|y b]; simpl in *; try reflexivity; try contradiction.
  destruct H as [H1 H2]. destruct f; [rewrite (H1 eq_refl); f_equal; apply IH; exact H2 | apply IH; exact H2].
Qed.

Theorem version_data_ignores_excluded cc vals vals' :
  (forall c, In c (k_cols cc) -> c_pk c = true -> c_excl c = false) ->
  agree_on (ver_flags cc) vals vals' ->
  dat_of cc vals = dat_of cc vals' /\ key_of cc vals = key_of cc vals'.
Proof.
  intros Hpk H. unfold dat_of, key_of. split.
  - apply proj_agree. unfold dat_flags, ver_flags in *. clear Hpk.
    revert vals vals' H. induction (k_cols cc) as [|c cols IH]; intros a b H; simpl in *.
    + destruct a, b; exact I.
    + destruct a as [|x a], b as [|y b]; try exact I; try contradiction.
      destruct H as [H1 H2]. split; [|apply IH; exact H2].
      intro E. apply andb_true_iff in E as [E _]. apply andb_true_iff in E as [E _]. apply H1; exact E.
  - f_equal. apply proj_agree. unfold pk_flags, ver_flags in *.
    revert vals vals' H. induction (k_cols cc) as [|c cols IH]; intros a b H; simpl in *.
    + destruct a, b; exact I.
    + destruct a as [|x a], b as [|y b]; try exact I; try contradiction.
      destruct H as [H1 H2]. split.
      * intro E. apply H1. rewrite (Hpk c (or_introl eq_refl) E). reflexivity.
      * apply IH; [intros c0 Hc0; apply Hpk; right; exact Hc0 | exact H2].
Qed.
