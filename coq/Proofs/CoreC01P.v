(* CoreC01P.v — C01 at machine level: after every flush of a well-formed trace the newest version
   of every live versioned entity is a non-DELETE row holding exactly the versioned columns of
   the live row, and the newest version of every removed entity is a DELETE. *)
From Continuum Require Import Model.Base Model.VTable Model.Backfill Model.Core
     Proofs.BaseP Proofs.VTableP Proofs.CoreP Proofs.ChainP Proofs.CoreChainP
     Proofs.TrackP Proofs.RowsP Proofs.LiveP.

(* ------------------------------------------------------------------ shape of a flush *)
Lemma flush_shape g s objs ents assoc :
  g_versioning g = true -> g_native g = false ->
  let s1 := before_flush g s objs in
  let ops' := fold_left (track g) ents (u_ops (s_uow s1)) in
  let s' := flush g s objs ents assoc in
  d_live (s_db s') = fold_left (apply_live g) ents (d_live (s_db s)) /\
  u_cur (s_uow s') = u_cur (s_uow s1) /\
  match u_cur (s_uow s1) with
  | None => d_vt (s_db s') = d_vt (s_db s1) /\ u_ops (s_uow s') = ops'
  | Some T =>
      d_vt (s_db s') = fst (fst (fold_left (process_op g T) ops'
                                   (d_vt (s_db s1), u_vobjs (s_uow s1), s_err s1))) /\
      u_ops (s_uow s') = map mark_proc ops'
  end.
Proof.
  intros Hv Hn s1 ops' s'. subst s'. unfold flush. rewrite Hv. simpl.
  fold (before_flush g s objs). fold s1. fold ops'.
  destruct (u_cur (s_uow s1)) as [T|] eqn:Ecur; [|simpl; auto].
  destruct ops' as [|o l] eqn:Eops; [simpl; auto|].
  rewrite Hn.
  destruct (fold_left (process_op g T) (o :: l) (d_vt (s_db s1), u_vobjs (s_uow s1), s_err s1))
    as [[vt' vobjs'] err'] eqn:Ef.
  simpl. auto.
Qed.

Lemma before_flush_same g s objs :
  let s1 := before_flush g s objs in
  d_vt (s_db s1) = d_vt (s_db s) /\ d_live (s_db s1) = d_live (s_db s) /\
  u_ops (s_uow s1) = u_ops (s_uow s) /\
  (u_cur (s_uow s1) = None <-> (u_cur (s_uow s) = None /\ existsb (obj_modified g) objs = false)).
Proof.
  unfold before_flush. destruct (existsb (obj_modified g) objs) eqn:M.
  - destruct (u_cur (s_uow s)) eqn:C; simpl.
    + split; [reflexivity|]. split; [reflexivity|]. split; [reflexivity|].
      rewrite C. split; [discriminate | intros [X _]; discriminate].
    + split; [reflexivity|]. split; [reflexivity|]. split; [reflexivity|].
      split; [discriminate | intros [_ X]; discriminate].
  - split; [reflexivity|]. split; [reflexivity|]. split; [reflexivity|]. tauto.
Qed.

(* ------------------------------------------------------------------ hypotheses *)
Definition flat_cfg (g : cfg) : Prop :=
  forall c c', (c < length (g_classes g))%nat -> (c' < length (g_classes g))%nat ->
    k_tab (cls_of g c) = k_tab (cls_of g c') -> c = c'.

(* environment assumptions on one flush, relative to the live tables before it *)
Record flush_wf (g : cfg) (live : list lrow) (objs : list obj_st) (ents : list ent_ev) : Prop := {
  fw_nodup : NoDup (map (ev_id g) ents);
  fw_cls : forall e, In e ents -> (e_cls e < length (g_classes g))%nat;
  fw_kind : forall e, In e ents -> e_kind e = OP_INS \/ e_kind e = OP_UPD \/ e_kind e = OP_DEL;
  fw_switch : forall e, In e ents -> (e_kind e =? OP_UPD) && e_isnew e = false;
  fw_ins : forall e, In e ents -> e_kind e = OP_INS -> find_live live (e_cls e) (ev_key g e) = None;
  (* an update whose versioned data differs from the stored row is seen as modified *)
  fw_upd : forall e, In e ents -> e_kind e = OP_UPD -> k_versioned (cls_of g (e_cls e)) = true ->
           exists old, find_live live (e_cls e) (ev_key g e) = Some old /\
                       (dat_of (cls_of g (e_cls e)) (e_vals e) <> dat_of (cls_of g (e_cls e)) (l_vals old) ->
                        tracked g e = true);
  (* a tracked change makes the session count as modified (finding 10 is where this fails) *)
  fw_mod : (exists e, In e ents /\ tracked g e = true) -> existsb (obj_modified g) objs = true }.

Definition ops_valid (g : cfg) (ops : list oper) : Prop :=
  forall o, In o ops -> (op_cls o < length (g_classes g))%nat.

Definition Inv3 (g : cfg) (s : state) : Prop :=
  NoDup (map op_id (u_ops (s_uow s))) /\ ops_valid g (u_ops (s_uow s)) /\
  (u_cur (s_uow s) = None -> u_ops (s_uow s) = []) /\
  (forall o, In o (u_ops (s_uow s)) -> op_proc o = true).

Definition newest (vt : vtable) (K : pk) (r : vrow) : Prop :=
  In r vt /\ vkey r = K /\ forall r', In r' vt -> vkey r' = K -> vtx r' <= vtx r.

Definition c01_rel (g : cfg) (live : list lrow) (vt : vtable) (c : nat) (k : pk) : Prop :=
  let cc := cls_of g c in
  let K := k_tab cc :: k in
  match find_live live c k with
  | Some l => exists r, newest vt K r /\ vop r <> OP_DEL /\ vdat r = dat_of cc (l_vals l)
  | None => (forall r, In r vt -> vkey r <> K) \/ (exists r, newest vt K r /\ vop r = OP_DEL)
  end.

Definition Inv4 (g : cfg) (s : state) : Prop :=
  forall c k, (c < length (g_classes g))%nat -> k_versioned (cls_of g c) = true ->
    c01_rel g (d_live (s_db s)) (d_vt (s_db s)) c k.

(* ------------------------------------------------------------------ the operations after the trackers *)
Lemma put_op_in o x ops : In x (put_op o ops) -> x = o \/ In x ops.
Proof.
  induction ops as [|a ops IH]; simpl; [intros [<-|[]]; auto|].
  destruct (same_op (op_cls o) (op_key o) a).
  - intros [<-|H]; auto.
  - intros [<-|H]; [auto|]. destruct (IH H); auto.
Qed.

Lemma track_in g ops e x :
  In x (track g ops e) ->
  In x ops \/ (tracked g e = true /\ op_id x = ev_id g e /\ op_proc x = false /\ op_vals x = e_vals e /\
               (op_kind x = OP_DEL <-> (e_kind e <> OP_INS /\ e_kind e <> OP_UPD))).
Proof.
  unfold track, tracked. set (cc := cls_of g (e_cls e)).
  destruct (k_versioned cc); simpl; [|auto].
  assert (G : forall kind, In x (put_op (mk_oper cc e kind) ops) ->
            In x ops \/ (op_id x = ev_id g e /\ op_proc x = false /\ op_vals x = e_vals e /\ op_kind x = kind)).
  { intros kind H. apply put_op_in in H as [->|H]; [right|left; exact H].
    unfold op_id, ev_id, ev_key, mk_oper. simpl. auto. }
  destruct (e_kind e =? OP_INS) eqn:EI; simpl.
  - intro H. apply G in H as [H|[H1 [H2 [H3 H4]]]]; [auto|]. right. repeat split; auto.
    + intro Hd. exfalso. rewrite Hd in H4. destruct (existsb _ ops); unfold OP_DEL, OP_UPD, OP_INS in H4; lia.
    + intros [Hn _]. apply Z.eqb_eq in EI. contradiction.
  - destruct (e_kind e =? OP_UPD) eqn:EU; simpl.
    + destruct (is_modified cc (e_colchg e) (e_relchg e) && existsb (real_change cc e) (e_cstate e)); [|auto].
      intro H. apply G in H as [H|[H1 [H2 [H3 H4]]]]; [auto|]. right. repeat split; auto.
      * intro Hd. exfalso. rewrite Hd in H4. unfold OP_DEL, OP_UPD in H4. lia.
      * intros [_ Hn]. apply Z.eqb_eq in EU. contradiction.
    + intro H. apply G in H as [H|[H1 [H2 [H3 H4]]]]; [auto|]. right. repeat split; auto.
      * intros _. apply Z.eqb_neq in EI. exact EI.
      * apply Z.eqb_neq in EU. exact EU.
Qed.

Lemma fold_track_in g : forall ents ops x,
  In x (fold_left (track g) ents ops) ->
  In x ops \/ (exists e, In e ents /\ tracked g e = true /\ op_id x = ev_id g e /\ op_proc x = false).
Proof.
  induction ents as [|e ents IH]; intros ops x H; simpl in H; [auto|].
  apply IH in H as [H|[e' [He' Hrest]]].
  - apply track_in in H as [H|[H1 [H2 [H3 _]]]]; [auto|].
    right. exists e. split; [left; reflexivity|]. auto.
  - right. exists e'. split; [right; exact He' | exact Hrest].
Qed.

Lemma fold_track_nodup g : forall ents ops,
  NoDup (map op_id ops) -> NoDup (map op_id (fold_left (track g) ents ops)).
Proof.
  induction ents as [|e ents IH]; intros ops ND; simpl; [exact ND|].
  apply IH. apply track_nodup. exact ND.
Qed.

(* an operation's row key determines the operation's identity *)
Lemma vk_inj g o c k :
  flat_cfg g -> (op_cls o < length (g_classes g))%nat -> (c < length (g_classes g))%nat ->
  vk g o = k_tab (cls_of g c) :: k -> op_id o = (c, k).
Proof.
  intros F H1 H2 E. unfold vk in E. inversion E as [[Et Ek]]. unfold op_id.
  rewrite (F _ _ H1 H2 Et). reflexivity.
Qed.

Lemma vk_nodup g ops :
  flat_cfg g -> ops_valid g ops -> NoDup (map op_id ops) -> NoDup (map (vk g) ops).
Proof.
  intros F V. induction ops as [|o ops IH]; simpl; intro ND; [constructor|].
  inversion ND as [|? ? Hn ND']; subst. constructor.
  - intro Hin. apply in_map_iff in Hin as [o' [E Ho']]. apply Hn.
    assert (op_id o' = op_id o).
    { unfold op_id at 2. apply vk_inj; [exact F | apply V; right; exact Ho' | apply V; left; reflexivity|].
      exact E. }
    rewrite <- H. apply in_map. exact Ho'.
  - apply IH; [intros x Hx; apply V; right; exact Hx | exact ND'].
Qed.

Lemma nodup_filter {A B} (f : A -> B) (p : A -> bool) l : NoDup (map f l) -> NoDup (map f (filter p l)).
Proof.
  induction l as [|a l IH]; simpl; intro ND; [constructor|].
  inversion ND as [|? ? Hn ND']; subst. destruct (p a); simpl; [|apply IH; exact ND'].
  constructor; [|apply IH; exact ND'].
  intro H. apply Hn. apply in_map_iff in H as [x [E Hx]]. apply filter_In in Hx as [Hx _].
  rewrite <- E. apply in_map. exact Hx.
Qed.

(* ------------------------------------------------------------------ newest rows survive "up to end" *)
Lemma newest_transfer vt vt' K r :
  (forall x, In x vt -> vkey x = K -> exists x', In x' vt' /\ upto_end x x') ->
  (forall x', In x' vt' -> vkey x' = K -> exists x, In x vt /\ upto_end x x') ->
  newest vt K r -> exists r', newest vt' K r' /\ upto_end r r'.
Proof.
  intros Hf Hb [Hin [Hk Hmax]]. destruct (Hf r Hin Hk) as [r' [Hr' U]].
  exists r'. split; [|exact U]. destruct U as [U1 [U2 _]].
  split; [exact Hr'|]. split; [congruence|].
  intros x' Hx' Hxk. destruct (Hb x' Hx' Hxk) as [x [Hx [V1 [V2 _]]]].
  rewrite V2, U2. apply Hmax; [exact Hx | congruence].
Qed.
