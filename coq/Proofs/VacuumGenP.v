(* VacuumGenP.v — the single pass of utils.vacuum (Gen/VacuumGen.v, regenerated from the source on
   every run) deletes exactly the rows of Model.Vacuum.vacuum_deleted, for every order in which the
   query may return rows of different entities that share a transaction id. *)
From Continuum Require Import Model.Base Model.VTable Model.Vacuum Gen.VacuumGen
     Proofs.BaseP Proofs.VTableP Proofs.VacuumP.

Lemma pk_eqb_refl k : pk_eqb k k = true.
Proof. apply pk_eqb_eq. reflexivity. Qed.

Lemma pk_eqb_neq a b : a <> b -> pk_eqb a b = false.
Proof. intro N. destruct (pk_eqb a b) eqn:E; [|reflexivity]. apply pk_eqb_eq in E. contradiction. Qed.

Lemma d_set_same m k r : d_set m k r k = Some r.
Proof. unfold d_set. rewrite pk_eqb_refl. reflexivity. Qed.

Lemma d_set_other m k k' r : k <> k' -> d_set m k r k' = m k'.
Proof. intro N. unfold d_set. rewrite (pk_eqb_neq _ _ N). reflexivity. Qed.

(* restricted to one key, the single pass is the per-key pass started from the remembered row *)
Lemma gen_vac_pass_per_key k : forall L m,
  filter (same_key k) (gen_vac_pass m L) = vac_key (m k) (filter (same_key k) L).
Proof.
  induction L as [|v L IH]; intro m; [reflexivity|].
  cbn [gen_vac_pass filter].
  destruct (same_key k v) eqn:Ek.
  - apply same_key_eq in Ek. subst k. cbn [vac_key].
    destruct (m (vkey v)) as [p|] eqn:Em.
    + destruct (same_data p v) eqn:Es.
      * cbn [filter]. assert (Hs : same_key (vkey v) v = true) by (apply same_key_eq; reflexivity).
        rewrite Hs, IH, Em. reflexivity.
      * rewrite IH, d_set_same. reflexivity.
    + rewrite IH, d_set_same. reflexivity.
  - assert (N : vkey v <> k) by (intro E; apply same_key_eq in E; congruence).
    destruct (m (vkey v)) as [p|] eqn:Em.
    + destruct (same_data p v) eqn:Es.
      * cbn [filter]. rewrite Ek. apply IH.
      * rewrite IH, d_set_other by exact N. reflexivity.
    + rewrite IH, d_set_other by exact N. reflexivity.
Qed.

(* L is any enumeration of the table in which every entity's rows appear in transaction order *)
Definition query_order (t L : vtable) : Prop :=
  forall k, filter (same_key k) L = versions t k.

Theorem gen_vacuum_deleted_is_model t L d :
  query_order t L -> (In d (gen_vacuum_deleted L) <-> In d (vacuum_deleted t)).
Proof.
  intro Q. unfold gen_vacuum_deleted.
  pose proof (gen_vac_pass_per_key (vkey d) L d_empty) as P. rewrite (Q (vkey d)) in P.
  change (d_empty (vkey d)) with (@None vrow) in P. rewrite in_vacuum_deleted, <- P, filter_In. split.
  - intros H. split.
    + split; [exact H | apply same_key_eq; reflexivity].
    + assert (Hf : In d (filter (same_key (vkey d)) (gen_vac_pass d_empty L))).
      { apply filter_In. split; [exact H | apply same_key_eq; reflexivity]. }
      rewrite P in Hf. apply vac_key_subset in Hf. apply versions_members in Hf. tauto.
  - intros [[H _] _]. exact H.
Qed.

(* ---- the table sorted by transaction id (ORDER BY transaction_id) is such an enumeration ---- *)
From Coq Require Import Sorting.Sorted Sorting.Permutation.

Lemma ssorted_ext (l1 : vtable) : forall l2,
  ssorted l1 -> ssorted l2 -> (forall x, In x l1 <-> In x l2) -> l1 = l2.
Proof.
  induction l1 as [|a l1 IH]; intros [|b l2] S1 S2 M.
  - reflexivity.
  - exfalso. apply (proj2 (M b)). left; reflexivity.
  - exfalso. apply (proj1 (M a)). left; reflexivity.
  - pose proof (ssorted_hd_min _ _ S1) as H1. pose proof (ssorted_hd_min _ _ S2) as H2.
    assert (E : a = b).
    { destruct (proj1 (M a) (or_introl eq_refl)) as [E|Ha]; [auto|].
      destruct (proj2 (M b) (or_introl eq_refl)) as [E|Hb]; [auto|].
      specialize (H1 _ Hb). specialize (H2 _ Ha). lia. }
    subst b. f_equal. apply IH; [eapply ssorted_tail; eauto | eapply ssorted_tail; eauto |].
    intro x. split; intro Hx.
    + destruct (proj1 (M x) (or_intror Hx)) as [E|Hx']; [|exact Hx'].
      subst x. specialize (H1 _ Hx). lia.
    + destruct (proj2 (M x) (or_intror Hx)) as [E|Hx']; [|exact Hx'].
      subst x. specialize (H2 _ Hx). lia.
Qed.

Lemma sorted_le_filter (f : vrow -> bool) l :
  StronglySorted tx_le l -> StronglySorted tx_le (filter f l).
Proof.
  induction l as [|x l IH]; simpl; intro S; [constructor|].
  inversion S as [|? ? S' Hall]; subst. destruct (f x); [|auto].
  constructor; [auto|]. rewrite Forall_forall in *. intros y Hy. apply filter_In in Hy. apply Hall. tauto.
Qed.

Lemma sorted_le_inj_lt l :
  StronglySorted tx_le l -> NoDup l -> (forall a b, In a l -> In b l -> vtx a = vtx b -> a = b) -> ssorted l.
Proof.
  unfold ssorted. induction l as [|x l IH]; simpl; intros S ND Inj; [constructor|].
  inversion S as [|? ? S' Hall]; subst. inversion ND as [|? ? Hnotin ND']; subst.
  constructor; [apply IH; auto|].
  rewrite Forall_forall in *. intros y Hy. specialize (Hall y Hy). unfold tx_le, tx_lt in *.
  assert (vtx x <> vtx y).
  { intro E. apply Hnotin. rewrite (Inj x y); auto. }
  lia.
Qed.

Theorem sort_tx_query_order t : pk_unique t -> query_order t (sort_tx t).
Proof.
  intros U k. apply ssorted_ext.
  - apply sorted_le_inj_lt.
    + apply sorted_le_filter, sort_tx_sorted.
    + apply NoDup_filter. eapply Permutation_NoDup; [apply Permutation_sym, sort_tx_perm|].
      apply pk_unique_nodup; exact U.
    + intros a b Ha Hb E. apply filter_In in Ha as [Ha Ka]. apply filter_In in Hb as [Hb Kb].
      apply (proj1 (in_sort_tx _ _)) in Ha. apply (proj1 (in_sort_tx _ _)) in Hb. apply same_key_eq in Ka. apply same_key_eq in Kb.
      apply (pk_unique_inj t a b U Ha Hb); [congruence | exact E].
  - apply versions_ssorted; exact U.
  - intro x. rewrite filter_In, in_sort_tx, versions_members, same_key_eq. tauto.
Qed.

(* the statement the tie uses: ORDER BY transaction id, single pass = the model's deleted rows *)
Theorem gen_vacuum_sorted_is_model t d :
  pk_unique t -> (In d (gen_vacuum_deleted (sort_tx t)) <-> In d (vacuum_deleted t)).
Proof. intro U. apply gen_vacuum_deleted_is_model, sort_tx_query_order, U. Qed.
