(* ChainP.v — writing a version row at the maximal transaction id preserves the table's primary
   key and the validity chain (C03), and leaves every other entity's rows alone. *)
From Continuum Require Import Model.Base Model.VTable Model.Backfill Model.Core
     Proofs.BaseP Proofs.VTableP Proofs.BackfillP Proofs.CoreP.

(* NoDup of an appended list *)
Lemma NoDup_app_snoc {A} (l : list A) (x : A) : NoDup l -> ~ In x l -> NoDup (l ++ [x]).
Proof.
  intros ND Hx. induction l as [|a l IH]; simpl.
  - constructor; [intros []|constructor].
  - inversion ND as [|? ? Ha ND']; subst. constructor.
    + intro H. apply in_app_or in H as [H|[<-|[]]]; [contradiction|]. apply Hx. left; reflexivity.
    + apply IH; [exact ND'|]. intro H. apply Hx. right; exact H.
Qed.

Definition chain_at (t : vtable) (r : vrow) : Prop := vend r = min_above t (vkey r) (vtx r).

Section WriteRow.
  Variables (vt : vtable) (k : pk) (T : Z) (kind : Z) (dat : list val) (fl : list bool).
  Hypothesis U : pk_unique vt.
  Hypothesis LE : forall r, In r vt -> vtx r <= T.

  Let present := existsb (is_row k T) vt.
  Let upd (r : vrow) := if is_row k T r then mkv k T (vend r) kind dat (orb_list (vmod r) fl) else r.
  Let vt1 := if present then map upd vt else vt ++ [mkv k T None kind dat fl].

  Lemma is_row_spec r : is_row k T r = true <-> vkey r = k /\ vtx r = T.
  Proof. unfold is_row. rewrite andb_true_iff, same_key_eq, Z.eqb_eq. tauto. Qed.

  Lemma present_spec : present = true <-> In (k, T) (vids vt).
  Proof.
    unfold present. rewrite existsb_exists. unfold vids. rewrite in_map_iff. split.
    - intros [r [Hr E]]. apply is_row_spec in E as [E1 E2]. exists r. split; [|exact Hr].
      unfold vid. congruence.
    - intros [r [E Hr]]. exists r. split; [exact Hr|]. apply is_row_spec.
      unfold vid in E. inversion E. auto.
  Qed.

  Lemma vt1_ids : vids vt1 = if present then vids vt else vids vt ++ [(k, T)].
  Proof.
    unfold vt1. destruct present.
    - unfold vids. rewrite map_map. apply map_ext. intro r. unfold upd.
      destruct (is_row k T r) eqn:Er; [|reflexivity].
      apply is_row_spec in Er as [E1 E2]. unfold vid. simpl. congruence.
    - unfold vids. rewrite map_app. reflexivity.
  Qed.

  Lemma vt1_unique : pk_unique vt1.
  Proof.
    unfold pk_unique. fold (vids vt1). rewrite vt1_ids. destruct present eqn:P; [exact U|].
    apply NoDup_app_snoc; [exact U|].
    intro Hin. apply present_spec in Hin. congruence.
  Qed.

  Lemma vt1_le r : In r vt1 -> vtx r <= T.
  Proof.
    unfold vt1. destruct present.
    - intro H. apply in_map_iff in H as [r0 [E Hr0]]. unfold upd in E.
      destruct (is_row k T r0); subst r; [simpl; lia | apply LE; exact Hr0].
    - intro H. apply in_app_or in H as [H|[<-|[]]]; [apply LE; exact H | simpl; lia].
  Qed.

  (* rows of other entities are untouched *)
  Lemma vt1_other r : vkey r <> k -> (In r vt1 <-> In r vt).
  Proof.
    intro Hk. unfold vt1. destruct present.
    - rewrite in_map_iff. split.
      + intros [r0 [E Hr0]]. unfold upd in E. destruct (is_row k T r0) eqn:Er.
        * subst r. simpl in Hk. congruence.
        * subst r. exact Hr0.
      + intro H. exists r. split; [|exact H]. unfold upd.
        destruct (is_row k T r) eqn:Er; [|reflexivity].
        apply is_row_spec in Er as [E _]. congruence.
    - rewrite in_app_iff. simpl. split; [|auto].
      intros [H|[<-|[]]]; [exact H | simpl in Hk; congruence].
  Qed.

  (* the end column of pre-existing rows of the same entity is not changed by the insert/update *)
  Lemma vt1_same_key r :
    In r vt1 -> vkey r = k ->
    (vtx r = T /\ (present = false -> vend r = None)) \/
    (vtx r < T /\ exists r0, In r0 vt /\ vkey r0 = k /\ vtx r0 = vtx r /\ vend r0 = vend r).
  Proof.
    intros H Hk. unfold vt1 in H. destruct present eqn:P.
    - apply in_map_iff in H as [r0 [E Hr0]]. unfold upd in E. destruct (is_row k T r0) eqn:Er.
      + left. subst r. simpl. split; [reflexivity | discriminate].
      + subst r. right. assert (vtx r0 <> T).
        { intro E. assert (is_row k T r0 = true) by (apply is_row_spec; auto). congruence. }
        specialize (LE r0 Hr0). split; [lia|]. exists r0. auto.
    - apply in_app_or in H as [H|[<-|[]]].
      + right. assert (vtx r <> T).
        { intro E. assert (Hp : present = true).
          { apply present_spec. unfold vids. apply in_map_iff. exists r. split; [|exact H].
            unfold vid. congruence. }
          congruence. }
        specialize (LE r H). split; [lia|]. exists r. auto.
      + left. simpl. auto.
  Qed.
End WriteRow.


(* ------------------------------------------------------------------ min_above via ids only *)
Fixpoint mai (ids : list (pk * Z)) (k : pk) (x : Z) : option Z :=
  match ids with
  | [] => None
  | (k0, t0) :: r =>
      let m := mai r k x in
      if pk_eqb k0 k && (x <? t0)
      then Some (match m with None => t0 | Some y => Z.min t0 y end) else m
  end.

Lemma min_above_mai t k x : min_above t k x = mai (vids t) k x.
Proof.
  induction t as [|a t IH]; simpl; [reflexivity|]. rewrite IH. unfold same_key. reflexivity.
Qed.

Lemma mai_snoc ids k0 T k x :
  mai (ids ++ [(k0, T)]) k x =
  let c := pk_eqb k0 k && (x <? T) in
  match mai ids k x with
  | Some m => Some (if c then Z.min m T else m)
  | None => if c then Some T else None
  end.
Proof.
  induction ids as [|[k1 t1] ids IH]; simpl.
  - destruct (pk_eqb k0 k && (x <? T)); reflexivity.
  - rewrite IH. clear IH. simpl.
    destruct (pk_eqb k1 k && (x <? t1)); destruct (mai ids k x) as [m|];
      destruct (pk_eqb k0 k && (x <? T)); try reflexivity; f_equal; lia.
Qed.

Lemma in_vids t k tx : In (k, tx) (vids t) <-> exists r, In r t /\ vkey r = k /\ vtx r = tx.
Proof.
  unfold vids. rewrite in_map_iff. split.
  - intros [r [E Hr]]. unfold vid in E. inversion E. eauto.
  - intros [r [Hr [E1 E2]]]. exists r. unfold vid. split; [congruence | exact Hr].
Qed.

Lemma max_below_ext t t' k x : map vid t = map vid t' -> max_below t k x = max_below t' k x.
Proof.
  revert t'. induction t as [|a t IH]; intros [|b t'] H; simpl in *; try discriminate; [reflexivity|].
  inversion H as [[Hk Ht Hr]]. unfold same_key. rewrite Hk, Ht, (IH t' Hr). reflexivity.
Qed.

Lemma max_below_snoc_T t n k T : vtx n = T -> max_below (t ++ [n]) k T = max_below t k T.
Proof.
  intro E. induction t as [|a t IH]; simpl.
  - rewrite E, Z.ltb_irrefl, andb_false_r. reflexivity.
  - rewrite IH. reflexivity.
Qed.

(* ------------------------------------------------------------------ the chain lemma *)
Section Chain.
  Variables (vt : vtable) (k : pk) (T : Z) (kind : Z) (dat : list val) (fl : list bool).
  Hypothesis U : pk_unique vt.
  Hypothesis LE : forall r, In r vt -> vtx r <= T.
  Hypothesis CH : forall r, In r vt -> vkey r = k -> chain_at vt r.

  Let present := existsb (is_row k T) vt.
  Let vt1 := if present
             then map (fun r => if is_row k T r then mkv k T (vend r) kind dat (orb_list (vmod r) fl) else r) vt
             else vt ++ [mkv k T None kind dat fl].
  Let t2 := write_row present vt k T kind dat fl true.

  Lemma t2_def : t2 = close_pred vt1 k T.
  Proof. reflexivity. Qed.

  Lemma ids_t2 : vids t2 = vids vt1.
  Proof. rewrite t2_def. apply close_pred_ids. Qed.

  Lemma ids_vt1 : vids vt1 = if present then vids vt else vids vt ++ [(k, T)].
  Proof. apply vt1_ids. Qed.

  Lemma mb_vt1 : max_below vt1 k T = max_below vt k T.
  Proof.
    unfold vt1. destruct present.
    - apply max_below_ext. fold (vids vt). symmetry.
      pose proof (vt1_ids vt k T kind dat fl) as H. fold present in H.
      unfold vids in *. destruct (existsb (is_row k T) vt) eqn:P.
      + exact (eq_sym (eq_sym H)) || idtac. rewrite map_map. apply map_ext. intro r.
        destruct (is_row k T r) eqn:Er; [|reflexivity].
        apply is_row_spec in Er as [E1 E2]. unfold vid. simpl. congruence.
      + rewrite map_map. apply map_ext. intro r.
        destruct (is_row k T r) eqn:Er; [|reflexivity].
        apply is_row_spec in Er as [E1 E2]. unfold vid. simpl. congruence.
    - apply max_below_snoc_T. reflexivity.
  Qed.

  (* nothing of key k lies strictly between the maximum below T and T *)
  Lemma above_max m r : max_below vt k T = Some m -> In r vt -> vkey r = k -> m < vtx r -> vtx r = T.
  Proof.
    intros Hm Hr Hk Hlt. apply max_below_some in Hm as [_ Hmax].
    specialize (LE r Hr). destruct (Z.eq_dec (vtx r) T) as [E|E]; [exact E|].
    assert (vtx r < T) by lia. specialize (Hmax r Hr Hk H). lia.
  Qed.

  Lemma min_above_t2 k' x : min_above t2 k' x = min_above vt1 k' x.
  Proof. rewrite !min_above_mai, ids_t2. reflexivity. Qed.

  Theorem write_row_chain_same r : In r t2 -> vkey r = k -> chain_at t2 r.
  Proof.
    intros Hr Hk. unfold chain_at. rewrite Hk, min_above_t2.
    rewrite t2_def in Hr. unfold close_pred in Hr. rewrite mb_vt1 in Hr.
    apply in_map_iff in Hr as [r1 [E Hr1]].
    assert (Hk1 : vkey r1 = k).
    { destruct (same_key k r1 && sql_eq (Some (vtx r1)) (max_below vt k T)); subst r; exact Hk. }
    assert (Htx : vtx r = vtx r1).
    { destruct (same_key k r1 && sql_eq (Some (vtx r1)) (max_below vt k T)); subst r; reflexivity. }
    rewrite Htx.
    destruct (vt1_same_key vt k T kind dat fl LE r1 Hr1 Hk1) as [[HT Hnone]|[Hlt [r0 [Hr0 [Hk0 [Htx0 Hend0]]]]]].
    - (* the row at T *)
      assert (Hcl : r = r1).
      { destruct (same_key k r1 && sql_eq (Some (vtx r1)) (max_below vt k T)) eqn:C; [|auto].
        exfalso. apply andb_true_iff in C as [_ C]. apply sql_eq_some in C as [y [Y1 Y2]].
        inversion Y1; subst y. apply max_below_some in Y2 as [[p [_ [_ [Hp Hlt]]]] _]. lia. }
      subst r1. rewrite HT.
      assert (Hnone' : min_above vt1 k T = None).
      { apply min_above_none. intros x Hx _. eapply vt1_le; eauto. }
      rewrite Hnone'.
      unfold vt1, present in Hr1, Hnone.
      destruct (existsb (is_row k T) vt) eqn:P.
      + (* updated in place: end is the old row's end, which chain_at says is None *)
        apply in_map_iff in Hr1 as [r0 [E0 Hr0]].
        destruct (is_row k T r0) eqn:Er.
        * apply is_row_spec in Er as [E1 E2]. subst r. simpl.
          rewrite (CH r0 Hr0 E1), E1, E2. apply min_above_none. intros x Hx _. apply LE; exact Hx.
        * subst r. exfalso. assert (is_row k T r0 = true) by (apply is_row_spec; auto). congruence.
      + apply Hnone. reflexivity.
    - (* an older row of the same entity *)
      assert (Hmin1 : min_above vt1 k (vtx r1) =
                      match min_above vt k (vtx r1) with Some m0 => Some m0 | None => Some T end).
      { rewrite !min_above_mai, ids_vt1. destruct present eqn:P.
        - (* row (k,T) already in vt: something above exists *)
          destruct (mai (vids vt) k (vtx r1)) eqn:M; [reflexivity|]. exfalso.
          rewrite <- min_above_mai in M.
          assert (Hp : In (k, T) (vids vt)) by (apply present_spec; exact P).
          apply in_vids in Hp as [p [Hp [Hpk Hpt]]].
          pose proof (proj1 (min_above_none vt k (vtx r1)) M p Hp Hpk). lia.
        - rewrite mai_snoc. simpl. rewrite pk_eqb_refl. simpl.
          assert (vtx r1 <? T = true) by (apply Z.ltb_lt; exact Hlt). rewrite H.
          destruct (mai (vids vt) k (vtx r1)) as [m0|] eqn:M; [|reflexivity].
          rewrite <- min_above_mai in M. apply min_above_some in M as [[p [Hp [_ [Hpt _]]]] _].
          specialize (LE p Hp). f_equal. lia. }
      rewrite Hmin1. rewrite <- Htx0. rewrite <- Htx0 in Hlt.
      destruct (max_below vt k T) as [m|] eqn:Em.
      + destruct (Z.eq_dec (vtx r0) m) as [Eq|Ne].
        * (* r0 is the newest older row: closed with T *)
          assert (Hc : same_key k r1 && sql_eq (Some (vtx r1)) (Some m) = true).
          { apply andb_true_iff. split; [apply same_key_eq; exact Hk1|]. simpl. apply Z.eqb_eq. congruence. }
          rewrite Hc in E. subst r. simpl.
          assert (Hm0 : min_above vt k (vtx r0) = None \/ min_above vt k (vtx r0) = Some T).
          { destruct (min_above vt k (vtx r0)) as [m0|] eqn:M; [right|left; reflexivity].
            apply min_above_some in M as [[p [Hp [Hpk [Hpt Hgt]]]] _].
            f_equal. rewrite <- Hpt. eapply above_max; eauto. lia. }
          destruct Hm0 as [M|M]; rewrite M; reflexivity.
        * assert (Hc : same_key k r1 && sql_eq (Some (vtx r1)) (Some m) = false).
          { apply andb_false_iff. right. simpl. apply Z.eqb_neq. congruence. }
          rewrite Hc in E. subst r. rewrite <- Hend0, (CH r0 Hr0 Hk0), Hk0.
          destruct (min_above vt k (vtx r0)) as [m0|] eqn:M; [reflexivity|]. exfalso.
          (* m is a row of key k above vtx r0 *)
          pose proof Em as Em'. apply max_below_some in Em' as [[p [Hp [Hpk [Hpt Hltm]]]] Hmax].
          specialize (Hmax r0 Hr0 Hk0 Hlt).
          pose proof (proj1 (min_above_none vt k (vtx r0)) M p Hp Hpk). lia.
      + (* no row of key k below T at all: impossible, r0 is one *)
        exfalso. pose proof (proj1 (max_below_none vt k T) Em r0 Hr0 Hk0). lia.
  Qed.
End Chain.

(* rows of the other entities: same rows, same chain status *)
Lemma write_row_other known vt k T kind dat fl validity r :
  vkey r <> k -> (In r (write_row known vt k T kind dat fl validity) <-> In r vt).
Proof.
  intro Hk. unfold write_row.
  set (vt1 := if known then _ else _).
  assert (H1 : In r vt1 <-> In r vt).
  { unfold vt1. destruct known.
    - rewrite in_map_iff. split.
      + intros [r0 [E Hr0]]. destruct (is_row k T r0) eqn:Er; subst r; [simpl in Hk; congruence | exact Hr0].
      + intro H. exists r. split; [|exact H].
        destruct (is_row k T r) eqn:Er; [|reflexivity].
        unfold is_row in Er. apply andb_true_iff in Er as [E _]. apply same_key_eq in E. congruence.
    - rewrite in_app_iff. simpl. split; [|auto]. intros [H|[<-|[]]]; [exact H | simpl in Hk; congruence]. }
  destruct validity; [|exact H1].
  rewrite <- H1. unfold close_pred. rewrite in_map_iff. split.
  - intros [r0 [E Hr0]].
    destruct (same_key k r0 && sql_eq (Some (vtx r0)) (max_below vt1 k T)) eqn:C.
    + apply andb_true_iff in C as [Ek _]. apply same_key_eq in Ek. subst r.
      unfold set_end in Hk. simpl in Hk. congruence.
    + subst r. exact Hr0.
  - intro H. exists r. split; [|exact H].
    destruct (same_key k r) eqn:Ek; [apply same_key_eq in Ek; congruence | reflexivity].
Qed.

Lemma mai_other ids k0 T k x : k0 <> k -> mai (ids ++ [(k0, T)]) k x = mai ids k x.
Proof.
  intro H. rewrite mai_snoc. simpl. apply pk_eqb_neq in H. rewrite H. simpl.
  destruct (mai ids k x); reflexivity.
Qed.

Lemma write_row_min_above_other known vt k T kind dat fl validity k' x :
  k' <> k -> min_above (write_row known vt k T kind dat fl validity) k' x = min_above vt k' x.
Proof.
  intro H. rewrite !min_above_mai, write_row_ids. destruct known; [reflexivity|].
  apply mai_other. congruence.
Qed.

Lemma write_row_chain_other known vt k T kind dat fl validity r :
  vkey r <> k -> In r vt -> chain_at vt r -> chain_at (write_row known vt k T kind dat fl validity) r.
Proof.
  intros Hk _ C. unfold chain_at in *. rewrite write_row_min_above_other by exact Hk. exact C.
Qed.
