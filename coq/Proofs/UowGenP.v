(* UowGenP.v - the savepoint state of the CODE is a complete copy of the unit of work.
   Gen/UowGen.v is regenerated from the current unit_of_work.py on every build (harness/pytrans_uow.py).
   Model/Savepoint.v saves and restores the whole unit of work (u_cur, u_ops, u_vobjs, u_pend) at a savepoint; the
   code does it field by field.  Proved here, about the generated lists:
     - every field that reset() initialises is captured by savepoint() and put back by rollback_to_savepoint();
     - a field whose value is mutated in place ([] , {} , Operations()) is captured as a copy (or, for the operations,
       as a rebuilt list of immutable tuples), never by reference;
     - the four components of the model's unit of work have their counterparts among those fields. *)
From Coq Require Import ZArith List Bool.
From Continuum Require Import Gen.UowGen.
Import ListNotations.
Open Scope Z_scope.

Definition F_SESSION := 1. Definition F_CUR := 2. Definition F_OPS := 3. Definition F_PEND := 4. Definition F_VOBJS := 5.

Definition kind_of (f : Z) : option Z := option_map snd (find (fun p => fst p =? f) gen_uow_fields).
Definition how_saved (f : Z) : option Z := option_map snd (find (fun p => fst p =? f) gen_uow_saved).
Definition restored (f : Z) : bool := existsb (Z.eqb f) gen_uow_restored.

(* a snapshot of field f taken the way `how` is independent of later in-place mutation *)
Definition snapshot_ok (kind how : Z) : bool :=
  if kind =? 0 then true                       (* None / an object reference that is only ever re-bound *)
  else if kind =? 3 then how =? 2              (* Operations(): rebuilt from (key, target, type, processed) tuples *)
  else how =? 1.                               (* [] / {}: list(...) / dict(...) *)

Definition field_ok (p : Z * Z) : bool :=
  match how_saved (fst p) with
  | Some how => snapshot_ok (snd p) how && restored (fst p)
  | None => false
  end.

Definition savepoint_completeb : bool := forallb field_ok gen_uow_fields.

Lemma savepoint_complete : savepoint_completeb = true.
Proof. vm_compute. reflexivity. Qed.

Lemma savepoint_state_is_complete f kind :
  In (f, kind) gen_uow_fields ->
  exists how, how_saved f = Some how /\ snapshot_ok kind how = true /\ restored f = true.
Proof.
  intro H. pose proof savepoint_complete as C. unfold savepoint_completeb in C.
  rewrite forallb_forall in C. specialize (C _ H). unfold field_ok in C. cbn [fst snd] in C.
  destruct (how_saved f) as [how|]; [|discriminate].
  apply andb_true_iff in C as [C1 C2]. exists how. auto.
Qed.

(* the components of the model's unit of work (Model/Core.v uow: u_cur, u_ops, u_vobjs, u_pend) are fields of the code *)
Lemma model_components_are_fields :
  forallb (fun f => match kind_of f with Some _ => true | None => false end) [F_CUR; F_OPS; F_VOBJS; F_PEND] = true.
Proof. vm_compute. reflexivity. Qed.

(* nothing is restored or captured that reset() does not know: the three methods talk about one set of fields *)
Lemma no_foreign_fields :
  forallb (fun f => match kind_of f with Some _ => true | None => false end) gen_uow_restored = true /\
  forallb (fun p => match kind_of (fst p) with Some _ => true | None => false end) gen_uow_saved = true.
Proof. split; vm_compute; reflexivity. Qed.
