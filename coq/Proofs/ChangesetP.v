(* ChangesetP.v — proofs for C15 (a) changeset and (c) flag back-fill. *)
From Continuum Require Import Model.Base Model.VTable Model.Backfill Model.Changeset
     Proofs.BaseP Proofs.VTableP.

Lemma diff_cols_spec new : forall i old c o n,
  In (c, o, n) (diff_cols i old new) <->
  (i <= c)%nat /\ nth_error new (c - i) = Some n /\ o = nth (c - i) old None /\ o <> n.
Proof.
  induction new as [|x new IH]; intros i old c o n; simpl.
  - split; [contradiction|]. intros [_ [H _]]. destruct (c - i)%nat; discriminate.
  - assert (Hrest : In (c, o, n) (diff_cols (S i) (tl old) new) <->
              (S i <= c)%nat /\ nth_error new (c - S i) = Some n /\ o = nth (c - S i) (tl old) None /\ o <> n)
      by apply IH.
    assert (Hnth : forall m, nth m (tl old) None = nth (S m) old None).
    { intro m. destruct old as [|a old]; simpl; [destruct m; reflexivity | reflexivity]. }
    destruct (val_eqb (hd None old) x) eqn:E.
    + rewrite Hrest. split.
      * intros [H1 [H2 [H3 H4]]]. split; [lia|].
        replace (c - i)%nat with (S (c - S i)) by lia. simpl. rewrite <- Hnth. auto.
      * intros [H1 [H2 [H3 H4]]].
        destruct (Nat.eq_dec c i) as [->|Hne].
        -- exfalso. rewrite Nat.sub_diag in *. simpl in H2. inversion H2; subst.
           apply oz_eqb_eq in E. destruct old; simpl in *; congruence.
        -- split; [lia|]. replace (c - i)%nat with (S (c - S i)) in H2, H3 by lia.
           simpl in H2. rewrite <- Hnth in H3. auto.
    + simpl. rewrite Hrest. split.
      * intros [H|[H1 [H2 [H3 H4]]]].
        -- inversion H; subst. rewrite Nat.sub_diag. simpl. split; [lia|]. split; [reflexivity|].
           split; [destruct old; reflexivity|].
           intro Heq. assert (val_eqb (hd None old) n = true) by (apply oz_eqb_eq; exact Heq). congruence.
        -- split; [lia|]. replace (c - i)%nat with (S (c - S i)) by lia. simpl. rewrite <- Hnth. auto.
      * intros [H1 [H2 [H3 H4]]].
        destruct (Nat.eq_dec c i) as [->|Hne].
        -- left. rewrite Nat.sub_diag in *. simpl in H2. inversion H2; subst.
           f_equal. f_equal. destruct old; reflexivity.
        -- right. split; [lia|]. replace (c - i)%nat with (S (c - S i)) in H2, H3 by lia.
           simpl in H2. rewrite <- Hnth in H3. auto.
Qed.

(* (a) the changeset is the column-wise difference to the positional predecessor *)
Theorem changeset_S_position t k i r :
  pk_unique t -> nth_error (versions t k) i = Some r ->
  changeset_S t r = changeset (match i with O => None | S j => nth_error (versions t k) j end) r.
Proof. intros U H. unfold changeset_S. rewrite (prev_S_position t k i r U H). reflexivity. Qed.

Theorem changeset_V_position t k i r :
  pk_unique t -> chain_ok t -> nth_error (versions t k) i = Some r ->
  changeset_V t r = changeset (match i with O => None | S j => nth_error (versions t k) j end) r.
Proof. intros U C H. unfold changeset_V. rewrite (prev_V_position t k i r U C H). reflexivity. Qed.

Theorem changeset_entries prev r c o n :
  In (c, o, n) (changeset prev r) <->
  nth_error (cols_of r) c = Some n /\
  o = nth c (match prev with Some p => cols_of p | None => [] end) None /\ o <> n.
Proof.
  unfold changeset. rewrite diff_cols_spec. rewrite Nat.sub_0_r. split; [tauto|].
  intros [H1 [H2 H3]]. split; [lia|]. tauto.
Qed.

(* (c) flag back-fill *)
Lemma preds_by_end_position t k i r :
  pk_unique t -> chain_ok t -> nth_error (versions t k) i = Some r ->
  preds_by_end t r = match i with
                     | O => []
                     | S j => match nth_error (versions t k) j with Some p => [p] | None => [] end
                     end.
Proof.
  intros U C H. assert (Hk : vkey r = k).
  { apply nth_error_In in H. apply versions_members in H. tauto. }
  pose proof (chain_pred_char t k i r U C H) as Hchar.
  unfold preds_by_end. rewrite Hk. destruct i as [|j].
  - apply filter_none. intros x Hx.
    destruct (same_key k x) eqn:Ek; [|reflexivity]. simpl. apply same_key_eq in Ek.
    destruct (sql_eq (vend x) (Some (vtx r))) eqn:Es; [|reflexivity].
    apply (Hchar x Hx Ek) in Es as [j [_ Hj]]. discriminate.
  - destruct (nth_error_pred _ _ _ H) as [p Hp]. rewrite Hp.
    assert (Hpin : In p t /\ vkey p = k).
    { apply nth_error_In in Hp. apply versions_members in Hp. exact Hp. }
    destruct Hpin as [Hpin Hpk].
    apply filter_unique; [apply pk_unique_nodup; exact U | exact Hpin | |].
    + apply andb_true_iff. split; [apply same_key_eq; exact Hpk|].
      apply (Hchar p Hpin Hpk). exists j. auto.
    + intros x Hx Hp'. apply andb_true_iff in Hp' as [P1 P2]. apply same_key_eq in P1.
      apply (Hchar x Hx P1) in P2 as [j' [Hj' Hij]]. inversion Hij; subst j'. congruence.
Qed.

Definition expected_flags (t : vtable) (k : pk) (i : nat) (r : vrow) : list bool :=
  orb_list (vmod r)
    (match i with
     | O => map (fun _ => true) (vdat r)
     | S j => match nth_error (versions t k) j with
              | Some p => differs (vdat r) (vdat p)
              | None => []
              end
     end).

Lemma orb_list_nil_r m : orb_list m [] = m.
Proof. destruct m; reflexivity. Qed.

Theorem backfill_flags_row t k i r :
  pk_unique t -> chain_ok t -> nth_error (versions t k) i = Some r ->
  In (set_mod r (expected_flags t k i r)) (backfill_flags t).
Proof.
  intros U C H. assert (Hin : In r t).
  { apply nth_error_In in H. apply versions_members in H. tauto. }
  unfold backfill_flags. apply in_map_iff. exists r. split; [|exact Hin].
  rewrite (preds_by_end_position t k i r U C H). unfold expected_flags.
  destruct i as [|j]; [reflexivity|].
  destruct (nth_error_pred _ _ _ H) as [p Hp]. rewrite Hp. simpl. reflexivity.
Qed.

(* nothing but the flags changes, and no row is added or lost *)
Definition strip_mod (r : vrow) : vrow := set_mod r [].
Theorem backfill_flags_frame t : map strip_mod (backfill_flags t) = map strip_mod t.
Proof.
  unfold backfill_flags. rewrite map_map. apply map_ext. intro r.
  destruct (preds_by_end t r); reflexivity.
Qed.

Lemma differs_nth a : forall b c x y,
  nth_error a c = Some x -> nth_error b c = Some y ->
  nth_error (differs a b) c = Some (negb (val_eqb x y)).
Proof.
  induction a as [|x0 a IH]; intros b c x y Ha Hb; [destruct c; discriminate|].
  destruct b as [|y0 b]; [destruct c; discriminate|].
  destruct c as [|c]; simpl in *.
  - inversion Ha; inversion Hb; subst. reflexivity.
  - apply IH; assumption.
Qed.
