(* TriggerP.v — proofs about the generated trigger programs (C14). *)
From Continuum Require Import Model.Base Model.VTable Model.Trigger Proofs.BaseP.

(* ---- the INSERT column list and value list are aligned and complete ---- *)
Definition aligned1 (col : colref) (v : vexpr) : Prop :=
  match col, v with
  | CCol c, VRow _ c' => c = c'
  | CMod c, VTrue => True
  | CMod c, VDistinct c' => c = c'
  | _, _ => False
  end.

Lemma Forall2_map2 {A B C} (R : B -> C -> Prop) (f : A -> B) (h : A -> C) (l : list A) :
  (forall x, In x l -> R (f x) (h x)) -> Forall2 R (map f l) (map h l).
Proof.
  induction l as [|a l IH]; simpl; intro H; constructor; [apply H; left; reflexivity|].
  apply IH. intros x Hx. apply H. right; exact Hx.
Qed.

Lemma gen_upsert_aligned g s optype mods upd :
  Forall2 aligned1 (map (fun c => CMod (tc_name c)) (tnonpk g)) mods ->
  Forall2 aligned1 (up_cols (gen_upsert g s optype mods upd)) (up_vals (gen_upsert g s optype mods upd)).
Proof.
  intro Hm. unfold gen_upsert, gen_cols. simpl. apply Forall2_app.
  - apply Forall2_map2. intros x _. reflexivity.
  - destruct (tg_tracker g); [exact Hm | constructor].
Qed.

Theorem gen_aligned g :
  Forall2 aligned1 (up_cols (tp_ins (gen g))) (up_vals (tp_ins (gen g))) /\
  Forall2 aligned1 (up_cols (tp_upd (gen g))) (up_vals (tp_upd (gen g))) /\
  Forall2 aligned1 (up_cols (tp_del (gen g))) (up_vals (tp_del (gen g))).
Proof.
  unfold gen; simpl. split; [|split].
  - apply (gen_upsert_aligned g NEW OP_INS _ (gen_update_values g)). apply Forall2_map2. intros x _. simpl. auto.
  - apply (gen_upsert_aligned g NEW OP_UPD _ (gen_update_values g)). apply Forall2_map2. intros x _. simpl. auto.
  - apply (gen_upsert_aligned g OLD OP_DEL _ (map (fun c => USet (tc_name c) OLD) (tcols g))). apply Forall2_map2. intros x _. simpl. auto.
Qed.

(* every non-excluded column is written, excluded ones never, by all three arms *)
Theorem gen_complete g c :
  In c (tg_cols g) ->
  (tc_excl c = false -> In (CCol (tc_name c)) (up_cols (tp_ins (gen g))) /\
                        In (CCol (tc_name c)) (up_cols (tp_upd (gen g))) /\
                        In (CCol (tc_name c)) (up_cols (tp_del (gen g)))) /\
  (tc_excl c = true -> In (tc_name c) (tp_excluded (gen g))).
Proof.
  intro Hc. split.
  - intro He. assert (Hin : In (CCol (tc_name c)) (gen_cols g)).
    { unfold gen_cols. apply in_or_app. left. apply in_map_iff. exists c. split; [reflexivity|].
      unfold tcols. apply filter_In. rewrite He. auto. }
    unfold gen; simpl. auto.
  - intro He. unfold gen; simpl. apply in_map_iff. exists c. split; [reflexivity|].
    apply filter_In. auto.
Qed.

(* the excluded array of the no-op guard is exactly the configured excluded set *)
Theorem gen_excluded_exact g n :
  In n (tp_excluded (gen g)) <-> exists c, In c (tg_cols g) /\ tc_excl c = true /\ tc_name c = n.
Proof.
  unfold gen; simpl. rewrite in_map_iff. split.
  - intros [c [E Hc]]. apply filter_In in Hc as [Hc He]. exists c. auto.
  - intros [c [Hc [He E]]]. exists c. split; [exact E | apply filter_In; auto].
Qed.

(* ---- nothing is written without an active transaction, nor for a no-op update ---- *)
Theorem texec_no_transaction p e t : texec p None e t = t.
Proof. reflexivity. Qed.

Theorem texec_noop_update p T old new t : noop_update p old new = true -> texec p (Some T) (TUpd old new) t = t.
Proof. intro H. simpl. rewrite H. reflexivity. Qed.

(* ---- the first event on a row within a transaction (no validity): one row is appended ---- *)
Lemma pair_insert_cols cs s old new : forall r rest_c rest_v,
  pair_insert (map (fun c => CCol (tc_name c)) cs ++ rest_c)
              (map (fun c => VRow s (tc_name c)) cs ++ rest_v) old new r =
  pair_insert rest_c rest_v old new
    (mktr (tr_tx r) (tr_end r) (tr_op r)
          (tr_dat r ++ map (fun c => (tc_name c, pget (row_of s old new) (tc_name c))) cs) (tr_mod r)).
Proof.
  induction cs as [|c cs IH]; intros r rc rv; simpl.
  - rewrite app_nil_r. destruct r; reflexivity.
  - rewrite IH. simpl. rewrite <- app_assoc. reflexivity.
Qed.

Lemma pair_insert_mods_true ms old new : forall r,
  pair_insert (map (fun c => CMod (tc_name c)) ms) (map (fun _ => VTrue) ms) old new r =
  mktr (tr_tx r) (tr_end r) (tr_op r) (tr_dat r) (tr_mod r ++ map (fun c => (tc_name c, true)) ms).
Proof.
  induction ms as [|c ms IH]; intro r; simpl.
  - rewrite app_nil_r. destruct r; reflexivity.
  - rewrite IH. simpl. rewrite <- app_assoc. reflexivity.
Qed.

Lemma pair_insert_mods_distinct ms old new : forall r,
  pair_insert (map (fun c => CMod (tc_name c)) ms) (map (fun c => VDistinct (tc_name c)) ms) old new r =
  mktr (tr_tx r) (tr_end r) (tr_op r) (tr_dat r)
       (tr_mod r ++ map (fun c => (tc_name c, distinct (pget old (tc_name c)) (pget new (tc_name c)))) ms).
Proof.
  induction ms as [|c ms IH]; intro r; simpl.
  - rewrite app_nil_r. destruct r; reflexivity.
  - rewrite IH. simpl. rewrite <- app_assoc. reflexivity.
Qed.

Definition no_row_at (u : upsert) (T : Z) (old new : prow) (t : ttable) : Prop :=
  existsb (fun r => (tr_tx r =? T) && crit_holds (up_crit u) old new r) t = false.

Lemma exec_upsert_insert u T old new t :
  no_row_at u T old new t ->
  exec_upsert u T old new t = t ++ [pair_insert (up_cols u) (up_vals u) old new (mktr T None (up_optype u) [] [])].
Proof. intro H. unfold exec_upsert. unfold no_row_at in H. rewrite H. reflexivity. Qed.

Lemma gen_no_validity g : tg_validity g = false ->
  tp_ins_val (gen g) = [] /\ tp_upd_val (gen g) = [] /\ tp_del_val (gen g) = [].
Proof. intro H. unfold gen; simpl. unfold gen_validity. rewrite H. auto. Qed.

Lemma gen_pair_insert g s optype mods upd old new T rowmods :
  (forall r, pair_insert (map (fun c => CMod (tc_name c)) (tnonpk g)) mods old new r =
             mktr (tr_tx r) (tr_end r) (tr_op r) (tr_dat r) (tr_mod r ++ rowmods)) ->
  pair_insert (up_cols (gen_upsert g s optype mods upd)) (up_vals (gen_upsert g s optype mods upd)) old new
              (mktr T None optype [] []) =
  mktr T None optype (map (fun c => (tc_name c, pget (row_of s old new) (tc_name c))) (tcols g))
       (if tg_tracker g then rowmods else []).
Proof.
  intro Hm. unfold gen_upsert, gen_cols. simpl. destruct (tg_tracker g).
  - rewrite pair_insert_cols. simpl. rewrite Hm. reflexivity.
  - rewrite !app_nil_r.
    rewrite <- (app_nil_r (map (fun c => CCol (tc_name c)) (tcols g))).
    rewrite <- (app_nil_r (map (fun c => VRow s (tc_name c)) (tcols g))).
    rewrite pair_insert_cols. reflexivity.
Qed.

(* INSERT event: the appended row carries the transaction id, INSERT, every non-excluded column of
   NEW, and (with tracking) all flags set *)
Theorem texec_first_insert g T new t :
  tg_validity g = false -> no_row_at (tp_ins (gen g)) T [] new t ->
  texec (gen g) (Some T) (TIns new) t =
  t ++ [mktr T None OP_INS (map (fun c => (tc_name c, pget new (tc_name c))) (tcols g))
             (if tg_tracker g then map (fun c => (tc_name c, true)) (tnonpk g) else [])].
Proof.
  intros Hv Hn. destruct (gen_no_validity g Hv) as [E1 _]. unfold texec. rewrite E1. simpl fold_left.
  rewrite (exec_upsert_insert _ _ _ _ _ Hn). f_equal. f_equal.
  unfold gen; simpl tp_ins. apply gen_pair_insert. intro r. apply pair_insert_mods_true.
Qed.

(* DELETE event: the row holds OLD's values, DELETE, all flags set *)
Theorem texec_first_delete g T old t :
  tg_validity g = false -> no_row_at (tp_del (gen g)) T old [] t ->
  texec (gen g) (Some T) (TDel old) t =
  t ++ [mktr T None OP_DEL (map (fun c => (tc_name c, pget old (tc_name c))) (tcols g))
             (if tg_tracker g then map (fun c => (tc_name c, true)) (tnonpk g) else [])].
Proof.
  intros Hv Hn. destruct (gen_no_validity g Hv) as [_ [_ E3]]. unfold texec. rewrite E3. simpl fold_left.
  rewrite (exec_upsert_insert _ _ _ _ _ Hn). f_equal. f_equal.
  unfold gen; simpl tp_del. apply gen_pair_insert. intro r. apply pair_insert_mods_true.
Qed.

(* UPDATE event that changes a versioned column: NEW's values, UPDATE, flag = column differs *)
Theorem texec_first_update g T old new t :
  tg_validity g = false -> noop_update (gen g) old new = false ->
  no_row_at (tp_upd (gen g)) T old new t ->
  texec (gen g) (Some T) (TUpd old new) t =
  t ++ [mktr T None OP_UPD (map (fun c => (tc_name c, pget new (tc_name c))) (tcols g))
             (if tg_tracker g
              then map (fun c => (tc_name c, distinct (pget old (tc_name c)) (pget new (tc_name c)))) (tnonpk g)
              else [])].
Proof.
  intros Hv Hno Hn. destruct (gen_no_validity g Hv) as [_ [E2 _]]. unfold texec. rewrite Hno, E2. simpl fold_left.
  rewrite (exec_upsert_insert _ _ _ _ _ Hn). f_equal. f_equal.
  unfold gen; simpl tp_upd. apply gen_pair_insert. intro r. apply pair_insert_mods_distinct.
Qed.
