(* RevertP.v — C05: what revert leaves in the live tables. *)
From Continuum Require Import Model.Base Model.VTable Model.Rel Model.Revert Proofs.BaseP Proofs.VTableP Proofs.RelP.

Lemma lget_lset_same t k v : lget (lset t k v) k = Some v.
Proof.
  unfold lget. induction t as [|[k' v'] t IH]; simpl; [rewrite Z.eqb_refl; reflexivity|].
  destruct (k' =? k) eqn:E; simpl; [rewrite Z.eqb_refl; reflexivity | rewrite E; exact IH].
Qed.

Lemma lget_lset_other t k k' v : k' <> k -> lget (lset t k v) k' = lget t k'.
Proof.
  intro H. unfold lget. induction t as [|[k0 v0] t IH]; simpl.
  - destruct (k =? k') eqn:E; [apply Z.eqb_eq in E; congruence | reflexivity].
  - destruct (k0 =? k) eqn:E; simpl.
    + apply Z.eqb_eq in E. subst k0. destruct (k =? k') eqn:E2; [apply Z.eqb_eq in E2; congruence | reflexivity].
    + destruct (k0 =? k'); [reflexivity | exact IH].
Qed.

Lemma lget_ldel_same t k : lget (ldel t k) k = None.
Proof.
  unfold lget, ldel. induction t as [|[k0 v0] t IH]; simpl; [reflexivity|].
  destruct (k0 =? k) eqn:E; simpl; [exact IH | rewrite E; exact IH].
Qed.

(* columns: a non-delete article version restores exactly its versioned columns, re-creating the
   entity if needed; the excluded column keeps its value *)
Theorem revert_article_columns tt tl av L v :
  vop v <> OP_DEL ->
  let L' := revert_article tt tl av L v false false in
  lget (rl_art L') (key0 v) =
    Some (vdat v ++ [match lget (rl_art L) (key0 v) with Some [_; _; x] => x | _ => None end]) /\
  (forall k', k' <> key0 v -> lget (rl_art L') k' = lget (rl_art L) k') /\
  rl_tag L' = rl_tag L /\ rl_lab L' = rl_lab L /\ rl_lnk L' = rl_lnk L.
Proof.
  intro Hop. unfold revert_article. apply Z.eqb_neq in Hop. rewrite Hop. simpl.
  repeat split; [apply lget_lset_same | intros k' Hk; apply lget_lset_other; exact Hk].
Qed.

(* reverting a delete version leaves the entity absent, whether or not it was live *)
Theorem revert_article_delete tt tl av L v tags labels :
  vop v = OP_DEL -> lget (rl_art (revert_article tt tl av L v tags labels)) (key0 v) = None.
Proof.
  intro Hop. unfold revert_article. rewrite Hop. simpl.
  destruct (lget (rl_art L) (key0 v)) eqn:E; [|exact E].
  unfold delete_article. simpl. apply lget_ldel_same.
Qed.

(* relationships that are not named are left untouched (for a non-delete version) *)
Theorem revert_article_unnamed_untouched tt tl av L v :
  vop v <> OP_DEL ->
  rl_tag (revert_article tt tl av L v false true) = rl_tag L /\
  rl_lnk (revert_article tt tl av L v true false) = rl_lnk L.
Proof.
  intro Hop. apply Z.eqb_neq in Hop. unfold revert_article. rewrite Hop. simpl. split.
  - assert (G : forall l L0, rl_tag (fold_left (fun L c => put_label L (key0 c) (vdat c)) l L0) = rl_tag L0).
    { induction l as [|c l IH]; intro L0; simpl; [reflexivity | rewrite IH; reflexivity]. }
    rewrite G. reflexivity.
  - assert (G : forall l L0, rl_lnk (fold_left (fun L c => put_tag L (key0 c) (vdat c)) l L0) = rl_lnk L0).
    { induction l as [|c l IH]; intro L0; simpl; [reflexivity | rewrite IH; reflexivity]. }
    rewrite G. reflexivity.
Qed.

(* many-to-many named: the article's links become exactly the targets the version shows *)
Theorem revert_article_links tt tl av L v tags l :
  vop v <> OP_DEL ->
  (In (key0 v, l) (rl_lnk (revert_article tt tl av L v tags true)) <->
   exists c, In c (rel_m2m av tl v) /\ key0 c = l).
Proof.
  intro Hop. apply Z.eqb_neq in Hop. unfold revert_article. rewrite Hop. simpl.
  rewrite in_app_iff, filter_In, in_map_iff. split.
  - intros [[_ H]|[c [E Hc]]].
    + simpl in H. rewrite Z.eqb_refl in H. discriminate.
    + inversion E. eauto.
  - intros [c [Hc E]]. right. exists c. subst l. auto.
Qed.

(* one-to-many named: afterwards a tag points at the article iff the version shows it as a child *)
Lemma put_tag_fold_tags l : forall L0 k,
  (forall c, In c l -> key0 c <> k) ->
  lget (rl_tag (fold_left (fun L c => put_tag L (key0 c) (vdat c)) l L0)) k = lget (rl_tag L0) k.
Proof.
  induction l as [|c l IH]; intros L0 k H; simpl; [reflexivity|].
  rewrite IH by (intros c' Hc'; apply H; right; exact Hc').
  simpl. apply lget_lset_other. intro E. apply (H c (or_introl eq_refl)). auto.
Qed.

Theorem revert_article_removes_later_children tt tl av L v labels k a fk :
  vop v <> OP_DEL ->
  In (k, [a; fk]) (rl_tag (revert_article tt tl av L v true labels)) ->
  sql_eq fk (Some (key0 v)) = true ->
  exists c, In c (rel_o2m 1 tt v) /\ key0 c = k.
Proof.
  intros Hop Hin Hfk. apply Z.eqb_neq in Hop. unfold revert_article in Hin. rewrite Hop in Hin.
  assert (G : forall l L0, rl_tag (fold_left (fun L c => put_label L (key0 c) (vdat c)) l L0) = rl_tag L0).
  { induction l as [|c l IH]; intro L0; simpl; [reflexivity | rewrite IH; reflexivity]. }
  assert (Hin' : In (k, [a; fk])
     (filter (fun p => match snd p with
                       | [_; fk0] => negb (sql_eq fk0 (Some (key0 v))) || existsb (fun c => key0 c =? fst p) (rel_o2m 1 tt v)
                       | _ => true end)
             (rl_tag (fold_left (fun L c => put_tag L (key0 c) (vdat c)) (rel_o2m 1 tt v)
                                (put_article L (key0 v) (vdat v)))))).
  { destruct labels; simpl in Hin; [rewrite G in Hin|]; exact Hin. }
  apply filter_In in Hin' as [_ Hp]. simpl in Hp. rewrite Hfk in Hp. simpl in Hp.
  apply existsb_exists in Hp as [c [Hc E]]. apply Z.eqb_eq in E. eauto.
Qed.

(* ---- dotted paths: first_level / subpaths of reverter.py ---- *)
Lemma heads_In (paths : list (list Z)) (h : Z) : In h (heads paths) <-> exists t, In (h :: t) paths.
Proof.
  unfold heads. rewrite in_flat_map. split.
  - intros [p [Hp Hh]]. destruct p as [|h' t]; [contradiction|]. destruct Hh as [<-|[]]. exists t. exact Hp.
  - intros [t Ht]. exists (h :: t). split; [exact Ht | left; reflexivity].
Qed.

Lemma subpaths_In (paths : list (list Z)) (r : Z) (p : list Z) :
  In p (subpaths paths r) <-> p <> [] /\ In (r :: p) paths.
Proof.
  unfold subpaths. rewrite in_flat_map. split.
  - intros [q [Hq Hp]]. destruct q as [|h [|x t]]; try contradiction.
    destruct (Z.eqb_spec h r) as [->|N]; [|contradiction].
    destruct Hp as [<-|[]]. split; [discriminate | exact Hq].
  - intros [Hne Hin]. exists (r :: p). split; [exact Hin|].
    destruct p as [|x t]; [congruence|]. rewrite Z.eqb_refl. left. reflexivity.
Qed.

(* every named path shorter than the fuel is followed: the traversal never runs out of fuel on it *)
Lemma subpaths_shorter (paths : list (list Z)) (r : Z) (n : nat) :
  (forall p, In p paths -> (length p <= S n)%nat) -> forall p, In p (subpaths paths r) -> (length p <= n)%nat.
Proof.
  intros H p Hp. apply subpaths_In in Hp as [_ Hin]. specialize (H _ Hin). simpl in H. lia.
Qed.
