(* TransparentP.v — versioning is transparent to the application's own tables (C07): in the model the
   live tables are a function of the event trace alone; whether versioning is on, which strategy or
   plugins are configured, makes no difference. *)
From Continuum Require Import Model.Base Model.VTable Model.Core Proofs.CoreP.

Definition same_classes (g g' : cfg) : Prop := g_classes g = g_classes g'.

Lemma apply_live_cfg g g' live e : same_classes g g' -> apply_live g live e = apply_live g' live e.
Proof. intro H. unfold apply_live, cls_of. rewrite H. reflexivity. Qed.

Lemma fold_live_cfg g g' ents : forall live,
  same_classes g g' -> fold_left (apply_live g) ents live = fold_left (apply_live g') ents live.
Proof.
  induction ents as [|e ents IH]; intros live H; simpl; [reflexivity|].
  rewrite (apply_live_cfg g g' live e H). apply IH; exact H.
Qed.

Lemma create_transaction_live s :
  d_live (s_db (create_transaction s)) = d_live (s_db s) /\
  d_live (s_committed (create_transaction s)) = d_live (s_committed s).
Proof. unfold create_transaction; simpl. auto. Qed.

Lemma flush_live g s objs ents assoc :
  d_live (s_db (flush g s objs ents assoc)) = fold_left (apply_live g) ents (d_live (s_db s)) /\
  d_live (s_committed (flush g s objs ents assoc)) = d_live (s_committed s).
Proof.
  unfold flush. destruct (g_versioning g); simpl; [|auto].
  fold (before_flush g s objs ents). set (s1 := before_flush g s objs ents).
  assert (E1 : d_live (s_committed s1) = d_live (s_committed s)).
  { unfold s1, before_flush. destruct (existsb (obj_modified g) objs || existsb (tracked g) ents); [|reflexivity].
    destruct (u_cur (s_uow s)); [reflexivity | apply create_transaction_live]. }
  destruct (u_cur (s_uow s1)) as [T|]; [|simpl; auto].
  destruct (fold_left (track g) ents (u_ops (s_uow s1))) as [|o l]; [simpl; auto|].
  destruct (g_native g); [simpl; auto|].
  destruct (fold_left (process_op g T) (o :: l) (d_vt (s_db s1), u_vobjs (s_uow s1), s_err s1))
    as [[vt' vobjs'] err']. simpl. auto.
Qed.

Definition live_eq (s s' : state) : Prop :=
  d_live (s_db s) = d_live (s_db s') /\ d_live (s_committed s) = d_live (s_committed s').

Lemma step_live g g' s s' e :
  same_classes g g' -> live_eq s s' -> live_eq (step g s e) (step g' s' e).
Proof.
  intros H [E1 E2]. destruct e as [objs ents assoc| | | |a]; simpl.
  - destruct (flush_live g s objs ents assoc) as [A1 A2].
    destruct (flush_live g' s' objs ents assoc) as [B1 B2].
    destruct (hier_pass_parts g (flush g s objs ents assoc)) as [P1 [_ [_ [_ [P5 _]]]]].
    destruct (hier_pass_parts g' (flush g' s' objs ents assoc)) as [Q1 [_ [_ [_ [Q5 _]]]]].
    unfold live_eq. rewrite P1, Q1, P5, Q5.
    split; [rewrite A1, B1, E1; apply fold_live_cfg; exact H | congruence].
  - split; simpl; assumption.
  - split; simpl; assumption.
  - destruct (g_versioning g), (g_versioning g'); unfold live_eq;
      rewrite ?(proj1 (create_transaction_live s)), ?(proj2 (create_transaction_live s)),
              ?(proj1 (create_transaction_live s')), ?(proj2 (create_transaction_live s')); auto.
  - destruct ((g_versioning g || g_native g) && u_live (s_uow s)), ((g_versioning g' || g_native g') && u_live (s_uow s')); split; simpl; assumption.
Qed.

Theorem versioning_transparent g g' evs :
  same_classes g g' -> d_live (s_db (run g evs)) = d_live (s_db (run g' evs)).
Proof.
  intro H. unfold run.
  assert (G : forall s s', live_eq s s' -> live_eq (fold_left (step g) evs s) (fold_left (step g') evs s')).
  { induction evs as [|e evs IH]; intros s s' L; simpl; [exact L|].
    apply IH. apply step_live; assumption. }
  apply G. split; reflexivity.
Qed.
