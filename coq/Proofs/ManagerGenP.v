(* ManagerGenP.v — the functions GENERATED from the current source of manager.py / operation.py
   (Gen/ManagerGen.v, rewritten by harness/pytrans.py on every build) are the hand-written model
   functions of Model/Manager.v and the operation kinds of Model/Core.v.  If the source changes, the
   generated terms change and these proofs stop checking (or the translator refuses the source and
   Gen/ManagerGen.v does not compile). *)
From Continuum Require Import Model.Base Model.VTable Model.Core Model.Manager Proofs.BaseP Proofs.ManagerP
     Gen.ManagerGen.

(* ------------------------------------------------------------------ association lists as dicts *)
Lemma adel_absent {A} (l : list (nat * A)) k : aget l k = None -> adel l k = l.
Proof.
  unfold adel. induction l as [|[k0 v0] l IH]; simpl; [reflexivity|].
  destruct (k0 =? k)%nat eqn:E; [discriminate|]. intro H. simpl. rewrite IH by exact H. reflexivity.
Qed.

Lemma aset_absent {A} (l : list (nat * A)) k v : aget l k = None -> aset l k v = l ++ [(k, v)].
Proof.
  induction l as [|[k0 v0] l IH]; simpl; [reflexivity|].
  destruct (k0 =? k)%nat eqn:E; [discriminate|]. intro H. rewrite IH by exact H. reflexivity.
Qed.

Lemma aset_last {A} (l : list (nat * A)) k v v' : aget l k = None -> aset (l ++ [(k, v')]) k v = l ++ [(k, v)].
Proof.
  induction l as [|[k0 v0] l IH]; simpl.
  - rewrite Nat.eqb_refl. reflexivity.
  - destruct (k0 =? k)%nat eqn:E; [discriminate|]. intro H. rewrite IH by exact H. reflexivity.
Qed.

Lemma filter_twice {A} (f g : A -> bool) l : filter f (filter g l) = filter (fun x => g x && f x) l.
Proof.
  induction l as [|a l IH]; simpl; [reflexivity|].
  destruct (g a); simpl; [destruct (f a); rewrite IH; reflexivity | exact IH].
Qed.

Lemma filter_same {A} (f g : A -> bool) l : (forall x, f x = g x) -> filter f l = filter g l.
Proof. intro H. induction l as [|a l IH]; simpl; [reflexivity|]. rewrite H, IH. reflexivity. Qed.

Lemma mem_spec {A} (l : list (nat * A)) k : mem l k = match aget l k with Some _ => true | None => false end.
Proof. reflexivity. Qed.

(* deleting, key by key, the entries whose key satisfies c = filtering them out *)
Lemma fold_del {A B} (c : nat -> bool) (M : B) : forall keys (U : list (nat * A)),
  fold_left (fun (st : list (nat * A) * B) k =>
               let '(U, M) := st in let '(U, M) := if c k then (adel U k, M) else (U, M) in (U, M)) keys (U, M) =
  (filter (fun p => negb (c (fst p) && existsb (Nat.eqb (fst p)) keys)) U, M).
Proof.
  induction keys as [|k keys IH]; intro U.
  - cbn [fold_left existsb]. f_equal. induction U as [|p U IHU]; cbn [filter]; [reflexivity|].
    rewrite andb_false_r. cbn [negb]. f_equal. exact IHU.
  - cbn [fold_left]. destruct (c k) eqn:Ck.
    + rewrite IH. f_equal. unfold adel. rewrite filter_twice. apply filter_same. intro p. cbn [existsb].
      destruct (Nat.eqb (fst p) k) eqn:E.
      * apply Nat.eqb_eq in E. rewrite E, Ck. reflexivity.
      * destruct (c (fst p)); destruct (existsb (Nat.eqb (fst p)) keys); reflexivity.
    + rewrite IH. f_equal. apply filter_same. intro p. cbn [existsb].
      destruct (Nat.eqb (fst p) k) eqn:E.
      * apply Nat.eqb_eq in E. rewrite E, Ck. reflexivity.
      * destruct (c (fst p)); destruct (existsb (Nat.eqb (fst p)) keys); reflexivity.
Qed.

Lemma existsb_own_key {A} (U : list (nat * A)) p : In p U -> existsb (Nat.eqb (fst p)) (map fst U) = true.
Proof.
  intro H. apply existsb_exists. exists (fst p). split; [apply in_map; exact H | apply Nat.eqb_refl].
Qed.

Lemma filter_ext_in' {A} (f g : A -> bool) l : (forall x, In x l -> f x = g x) -> filter f l = filter g l.
Proof.
  induction l as [|a l IH]; intro H; simpl; [reflexivity|].
  rewrite (H a (or_introl eq_refl)). rewrite IH; [reflexivity|]. intros x Hx. apply H. right. exact Hx.
Qed.

Section GenP.
  Variable dbapi : nat -> nat.
  Variable closed : nat -> bool.

  (* the sweep loop of clear / clear_connection *)
  Lemma sweep_loop (U : list (nat * uow)) (M : list (nat * nat)) conn :
    fold_left (fun (st : list (nat * uow) * list (nat * nat)) connection =>
                 let '(U, M) := st in
                 let '(U, M) := if closed connection || Nat.eqb (dbapi conn) (dbapi connection)
                                then (adel U connection, M) else (U, M) in (U, M))
              (map fst U) (U, M) = (sweep dbapi closed U conn, M).
  Proof.
    rewrite (fold_del (fun k => closed k || Nat.eqb (dbapi conn) (dbapi k)) M (map fst U) U).
    f_equal. unfold sweep. apply filter_ext_in'. intros p Hp. rewrite (existsb_own_key U p Hp), andb_true_r.
    rewrite (Nat.eqb_sym (dbapi conn)). reflexivity.
  Qed.

  (* ---- manager.unit_of_work(session) ---- *)
  Theorem gen_unit_of_work_is_register G s :
    gen_unit_of_work (g_uows G) (g_smap G) (ss_id s) (ss_conn s) =
    (g_uows (register G s), g_smap (register G s)).
  Proof.
    unfold gen_unit_of_work, register. cbv zeta. simpl.
    destruct (existsb (fun p => (snd p =? ss_conn s)%nat) (g_smap G)); simpl;
      rewrite mem_spec; destruct (aget (g_uows G) (ss_conn s)); reflexivity.
  Qed.

  (* ---- manager.clear(session), outside a nested transaction ---- *)
  Theorem gen_clear_is_clear G s :
    gen_clear dbapi closed false (g_uows G) (g_smap G) (ss_id s) =
    (g_uows (clear dbapi closed G s), g_smap (clear dbapi closed G s)).
  Proof.
    unfold gen_clear, clear. cbv zeta. destruct (aget (g_smap G) (ss_id s)) as [c|] eqn:E.
    - assert (HU : (if mem (g_uows G) c then (adel (g_uows G) c, adel (g_smap G) (ss_id s))
                    else (g_uows G, adel (g_smap G) (ss_id s))) = (adel (g_uows G) c, adel (g_smap G) (ss_id s))).
      { rewrite mem_spec. destruct (aget (g_uows G) c) eqn:Eu; [reflexivity|]. rewrite (adel_absent _ _ Eu). reflexivity. }
      rewrite HU. rewrite sweep_loop. reflexivity.
    - rewrite (adel_absent _ _ E). reflexivity.
  Qed.

  (* inside a nested transaction (savepoint) clear does nothing at all *)
  Theorem gen_clear_nested U M sid : gen_clear dbapi closed true U M sid = (U, M).
  Proof. reflexivity. Qed.

  (* ---- manager.clear_connection(conn) ---- *)
  Lemma smap_loop (U : list (nat * uow)) conn : forall (L M : list (nat * nat)),
    fold_left (fun (st : list (nat * uow) * list (nat * nat)) entry =>
                 let '(U, M) := st in
                 let '(U, M) := if Nat.eqb (snd entry) conn then (U, adel M (fst entry)) else (U, M) in (U, M))
              L (U, M) =
    (U, filter (fun p => negb (existsb (fun e => Nat.eqb (fst e) (fst p) && Nat.eqb (snd e) conn) L)) M).
  Proof.
    induction L as [|e L IH]; intro M.
    - cbn [fold_left existsb]. f_equal. induction M as [|p M IHM]; cbn [filter negb]; [reflexivity|]. f_equal. exact IHM.
    - cbn [fold_left]. destruct (Nat.eqb (snd e) conn) eqn:Ec.
      + rewrite IH. f_equal. unfold adel. rewrite filter_twice. apply filter_same. intro p. cbn [existsb].
        rewrite Ec, (Nat.eqb_sym (fst e)).
        destruct (Nat.eqb (fst p) (fst e)); destruct (existsb _ L); reflexivity.
      + rewrite IH. f_equal. apply filter_same. intro p. cbn [existsb]. rewrite Ec, andb_false_r. reflexivity.
  Qed.

  Theorem gen_clear_connection_is_clear_connection G c :
    NoDup (map fst (g_smap G)) ->
    gen_clear_connection dbapi closed (g_uows G) (g_smap G) c =
    (g_uows (clear_connection dbapi closed G c), g_smap (clear_connection dbapi closed G c)).
  Proof.
    intro ND. unfold gen_clear_connection, clear_connection. cbv zeta. cbn [g_uows g_smap].
    assert (HU : (if mem (g_uows G) c then (adel (g_uows G) c, g_smap G) else (g_uows G, g_smap G)) =
                 (adel (g_uows G) c, g_smap G)).
    { rewrite mem_spec. destruct (aget (g_uows G) c) eqn:Eu; [reflexivity|]. rewrite (adel_absent _ _ Eu). reflexivity. }
    rewrite HU. rewrite smap_loop. rewrite sweep_loop. f_equal.
    apply filter_ext_in'. intros p Hp. f_equal.
    destruct (snd p =? c)%nat eqn:Ep.
    - apply existsb_exists. exists p. split; [exact Hp|]. rewrite Nat.eqb_refl. exact Ep.
    - destruct (existsb _ (g_smap G)) eqn:Ex; [|reflexivity]. exfalso.
      apply existsb_exists in Ex as [e [He Hc]]. apply andb_true_iff in Hc as [H1 H2].
      apply Nat.eqb_eq in H1. assert (e = p).
      { clear - ND He Hp H1. induction (g_smap G) as [|a l IH]; [contradiction|]. simpl in ND.
        inversion ND as [|? ? Hn ND']; subst. destruct He as [->|He], Hp as [->|Hp]; auto.
        - exfalso. apply Hn. rewrite H1. apply in_map. exact Hp.
        - exfalso. apply Hn. rewrite <- H1. apply in_map. exact He. }
      subst e. rewrite H2 in Ep. discriminate.
  Qed.

  (* ---- manager.track_cloned_connections(c, opt) ---- *)
  Lemma clone_loop (c : nat) (U0 : list (nat * uow)) (M : list (nat * nat)) :
    aget U0 c = None ->
    forall L,
    fold_left (fun (st : list (nat * uow) * list (nat * nat)) entry =>
                 let '(U, M) := st in
                 let '(U, M) := if negb (closed (fst entry)) && Nat.eqb (dbapi (fst entry)) (dbapi c)
                                then (aset U c (snd entry), M) else (U, M) in (U, M))
              L (U0, M) =
    match rev (filter (fun p => negb (closed (fst p)) && (dbapi (fst p) =? dbapi c)%nat) L) with
    | [] => (U0, M)
    | p :: _ => (U0 ++ [(c, snd p)], M)
    end.
  Proof.
    intro Hn. induction L as [|e L IH] using rev_ind; [reflexivity|].
    rewrite fold_left_app, IH, filter_app, rev_app_distr. simpl.
    destruct (negb (closed (fst e)) && (dbapi (fst e) =? dbapi c)%nat) eqn:Ce; simpl.
    - destruct (rev (filter _ L)) as [|p l]; simpl.
      + rewrite (aset_absent _ _ _ Hn). reflexivity.
      + rewrite (aset_last _ _ _ _ Hn). reflexivity.
    - destruct (rev (filter _ L)); reflexivity.
  Qed.

  Theorem gen_track_cloned_connections_is_clone_track G c :
    gen_track_cloned_connections dbapi closed (g_uows G) (g_smap G) c =
    (g_uows (clone_track dbapi closed G c), g_smap (clone_track dbapi closed G c)).
  Proof.
    unfold gen_track_cloned_connections, clone_track. cbv zeta. rewrite mem_spec.
    destruct (aget (g_uows G) c) eqn:E; simpl; [reflexivity|].
    rewrite (clone_loop c (g_uows G) (g_smap G) E).
    destruct (rev (filter _ (g_uows G))); reflexivity.
  Qed.
End GenP.

(* ------------------------------------------------------------------ operation.py *)
Theorem gen_operation_constants : gen_OP_INSERT = OP_INS /\ gen_OP_UPDATE = OP_UPD /\ gen_OP_DELETE = OP_DEL.
Proof. repeat split; reflexivity. Qed.

(* the kinds the model's trackers store are the ones Operations.add_insert / add_delete store *)
Theorem track_insert_uses_generated_kind g ops e :
  k_versioned (cls_of g (e_cls e)) = true -> e_kind e = OP_INS ->
  track g ops e =
  put_op (mk_oper (cls_of g (e_cls e)) e
            (gen_add_insert (existsb (same_op (e_cls e) (key_of (cls_of g (e_cls e)) (e_vals e))) ops))) ops.
Proof.
  intros Hv Hk. unfold track. rewrite Hv, Hk. simpl. unfold gen_add_insert.
  destruct (existsb _ ops); reflexivity.
Qed.

Theorem track_delete_uses_generated_kind g ops e :
  k_versioned (cls_of g (e_cls e)) = true -> e_kind e = OP_DEL ->
  track g ops e = put_op (mk_oper (cls_of g (e_cls e)) e (gen_add_delete true)) ops.
Proof. intros Hv Hk. unfold track. rewrite Hv, Hk. reflexivity. Qed.

(* ------------------------------------------------------------------ the maps stay dictionaries *)
(* the association lists of the model have unique keys in every reachable state (they model Python
   dicts); this is the hypothesis of gen_clear_connection_is_clear_connection *)
Lemma keys_aset_nodup {A} (l : list (nat * A)) k v : NoDup (map fst l) -> NoDup (map fst (aset l k v)).
Proof.
  induction l as [|[k0 v0] l IH]; simpl; intro ND.
  - constructor; [intros []|constructor].
  - inversion ND as [|? ? Hn ND']; subst. destruct (k0 =? k)%nat eqn:E; simpl.
    + apply Nat.eqb_eq in E. subst k0. constructor; assumption.
    + constructor; [|apply IH; exact ND'].
      intro Hin. apply in_map_iff in Hin as [x [Ex Hx]]. apply in_aset in Hx as [Hx|Hx].
      * subst x. simpl in Ex. subst k0. rewrite Nat.eqb_refl in E. discriminate.
      * apply Hn. rewrite <- Ex. apply in_map. exact Hx.
Qed.

Lemma keys_filter_nodup {A} (f : nat * A -> bool) (l : list (nat * A)) :
  NoDup (map fst l) -> NoDup (map fst (filter f l)).
Proof.
  induction l as [|a l IH]; simpl; intro ND; [constructor|].
  inversion ND as [|? ? Hn ND']; subst. destruct (f a); simpl; [|apply IH; exact ND'].
  constructor; [|apply IH; exact ND'].
  intro Hin. apply Hn. apply in_map_iff in Hin as [x [Ex Hx]]. apply filter_In in Hx as [Hx _].
  rewrite <- Ex. apply in_map. exact Hx.
Qed.

Section DictShape.
  Variable dbapi : nat -> nat.
  Variable closed : nat -> bool.

  Theorem gstep2_keeps_dict_shape g G s x :
    NoDup (map fst (g_smap G)) -> NoDup (map fst (g_smap (gstep2 dbapi closed g G s x))).
  Proof.
    intro ND. destruct x as [e|]; simpl.
    - unfold gstep. destruct e as [objs ents assoc| | | |a].
      + destruct (g_versioning g); unfold store, register; simpl; [|exact ND].
        destruct (existsb _ (g_smap G)); [exact ND | apply keys_aset_nodup; exact ND].
      + unfold clear, store. simpl. destruct (aget (g_smap G) (ss_id s)); simpl; [|exact ND].
        unfold adel. apply keys_filter_nodup. exact ND.
      + unfold clear, clear_connection, store. simpl.
        destruct (aget (filter _ (g_smap G)) (ss_id s)); simpl.
        * unfold adel. apply keys_filter_nodup. apply keys_filter_nodup. exact ND.
        * apply keys_filter_nodup. exact ND.
      + destruct (g_versioning g); unfold store, register; simpl; [|exact ND].
        destruct (existsb _ (g_smap G)); [exact ND | apply keys_aset_nodup; exact ND].
      + unfold store. simpl. exact ND.
    - unfold clone_track. destruct (aget (g_uows G) (ss_conn s)); [exact ND|].
      destruct (rev _); exact ND.
  Qed.

  Theorem reachable_dict_shape g sched : NoDup (map fst (g_smap (grun2 dbapi closed g sched))).
  Proof.
    unfold grun2. assert (H : NoDup (map fst (g_smap gstate0))) by constructor.
    revert H. generalize gstate0. induction sched as [|[s x] sched IH]; intros G H; simpl; [exact H|].
    apply IH. apply gstep2_keeps_dict_shape. exact H.
  Qed.
End DictShape.
