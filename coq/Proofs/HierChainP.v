(* HierChainP.v — joined-table hierarchies, machine level: what a flush does to the rows of the child tables, and
   from it, by induction over the trace, the chain of the child tables in every reachable state - under ONE
   monitored hypothesis about the environment: after every flush every version of a subclass entity has its row in
   the base table too (paired; it holds because the Recorder hands every mapper event of a subclass object to the
   model once per table). *)
From Continuum Require Import Model.Base Model.VTable Model.Backfill Model.Core
     Proofs.BaseP Proofs.VTableP Proofs.CoreP Proofs.ChainP Proofs.CoreChainP Proofs.HierP.

(* ---- one operation: rows of tables that are not validity tables are only ever written at (k, T) ---- *)
Lemma write_row_noval_other known vt k T kind dat fl r :
  vtx r <> T -> (In r (write_row known vt k T kind dat fl false) <-> In r vt).
Proof.
  intro Ht. unfold write_row. destruct known.
  - rewrite in_map_iff. split.
    + intros [r0 [E Hr0]]. destruct (is_row k T r0) eqn:I; [|subst r0; exact Hr0].
      subst r. simpl in Ht. congruence.
    + intro Hr. exists r. split; [|exact Hr].
      destruct (is_row k T r) eqn:I; [|reflexivity].
      unfold is_row in I. apply andb_true_iff in I as [_ I]. apply Z.eqb_eq in I. congruence.
  - rewrite in_app_iff. split; [intros [H|[H|[]]]; [exact H | subst r; simpl in Ht; congruence] | intro H; left; exact H].
Qed.

Lemma hd_key_neq (r : vrow) (k : pk) : hd 0 (vkey r) <> hd 0 k -> vkey r <> k.
Proof. intros H E. apply H. rewrite E. reflexivity. Qed.

Definition nonval (g : cfg) (r : vrow) : Prop := tab_valid g (hd 0 (vkey r)) = false.

(* how a flush of transaction T relates the version table vt to the one it started from, as far as the tables that
   are not validity tables (the child tables of a hierarchy) and the row identities are concerned *)
Record acc_h (g : cfg) (T : Z) (vt0 vt : vtable) : Prop := mk_acc_h {
  ah_below : forall r, nonval g r -> vtx r <> T -> (In r vt <-> In r vt0);
  ah_top   : forall r, In r vt -> nonval g r -> vtx r = T ->
               vend r = None \/ exists r0, In r0 vt0 /\ vid r0 = vid r /\ vend r0 = vend r;
  ah_ids1  : forall i, In i (vids vt) -> In i (vids vt0) \/ snd i = T;
  ah_ids2  : forall i, In i (vids vt0) -> In i (vids vt) }.

Lemma acc_h_refl g T vt : acc_h g T vt vt.
Proof.
  constructor.
  - intros; reflexivity.
  - intros r Hr _ _. right. exists r. auto.
  - intros i Hi. left. exact Hi.
  - intros i Hi. exact Hi.
Qed.

Lemma cls_valid_tab g c : cfg_consistent g -> k_validity (cls_of g c) = true -> tab_valid g (k_tab (cls_of g c)) = true.
Proof. intros CC H. rewrite <- (CC c). exact H. Qed.

Lemma process_op_acc_h g T vt0 vt vobjs err o :
  cfg_consistent g -> acc_h g T vt0 vt ->
  acc_h g T vt0 (fst (fst (process_op g T (vt, vobjs, err) o))).
Proof.
  intros CC [B Tp I1 I2]. unfold process_op. destruct (op_proc o); [constructor; assumption|].
  set (cc := cls_of g (op_cls o)). set (k := k_tab cc :: op_key o).
  set (known := existsb (fun i : pk * Z => pk_eqb (fst i) k && (snd i =? T)) vobjs).
  cbn [fst].
  assert (IDS : forall i, In i (vids (write_row known vt k T (op_kind o) (op_dat g cc o) (flags_now g cc o) (k_validity cc))) <->
                          In i (vids vt) \/ (known = false /\ i = (k, T))).
  { intro i. rewrite write_row_ids. destruct known.
    - split; [auto | intros [H|[H _]]; [exact H | discriminate]].
    - rewrite in_app_iff. simpl. split.
      + intros [H|[H|[]]]; [left; exact H | right; split; [reflexivity | symmetry; exact H]].
      + intros [H|[_ H]]; [left; exact H | right; left; symmetry; exact H]. }
  destruct (k_validity cc) eqn:Val.
  - (* an operation on a validity table: rows of the other tables are not touched *)
    assert (Hk : forall r, nonval g r -> vkey r <> k).
    { intros r Hr. apply hd_key_neq. unfold k. cbn [hd]. intro E. unfold nonval in Hr. rewrite E in Hr.
      pose proof (cls_valid_tab g (op_cls o) CC Val) as V. fold cc in V. congruence. }
    constructor.
    + intros r Hr Ht. rewrite (write_row_other known vt k T _ _ _ true r (Hk r Hr)). apply B; assumption.
    + intros r Hin Hr Ht. apply (write_row_other known vt k T _ _ _ true r (Hk r Hr)) in Hin. apply Tp; assumption.
    + intros i Hi. apply IDS in Hi as [Hi|[_ ->]]; [apply I1; exact Hi | right; reflexivity].
    + intros i Hi. apply IDS. left. apply I2. exact Hi.
  - constructor.
    + intros r Hr Ht. rewrite (write_row_noval_other known vt k T _ _ _ r Ht). apply B; assumption.
    + intros r Hin Hr Ht. unfold write_row in Hin. destruct known.
      * apply in_map_iff in Hin as [r0 [E Hr0]]. destruct (is_row k T r0) eqn:Ir.
        -- (* the row of this transaction, rewritten in place: it keeps its end *)
           unfold is_row in Ir. apply andb_true_iff in Ir as [Ik It]. apply same_key_eq in Ik. apply Z.eqb_eq in It.
           assert (Hr0n : nonval g r0). { unfold nonval. rewrite Ik. subst r. exact Hr. }
           destruct (Tp r0 Hr0 Hr0n It) as [N|[r00 [H00 [Ev Ee]]]].
           ++ left. subst r. simpl. exact N.
           ++ right. exists r00. split; [exact H00|]. subst r. simpl. unfold vid in *. simpl. rewrite Ev, Ik, It. auto.
        -- subst r0. apply Tp; assumption.
      * apply in_app_or in Hin as [Hin|[E|[]]]; [apply Tp; assumption|]. left. subst r. reflexivity.
    + intros i Hi. apply IDS in Hi as [Hi|[_ ->]]; [apply I1; exact Hi | right; reflexivity].
    + intros i Hi. apply IDS. left. apply I2. exact Hi.
Qed.

Lemma fold_process_acc_h g T vt0 ops : forall acc,
  cfg_consistent g -> acc_h g T vt0 (fst (fst acc)) ->
  acc_h g T vt0 (fst (fst (fold_left (process_op g T) ops acc))).
Proof.
  induction ops as [|o ops IH]; intros acc CC H; simpl; [exact H|].
  apply IH; [exact CC|]. destruct acc as [[vt vobjs] err]. apply process_op_acc_h; assumption.
Qed.

Lemma before_flush_vt g s objs ents : d_vt (s_db (before_flush g s objs ents)) = d_vt (s_db s).
Proof.
  unfold before_flush. destruct (existsb (obj_modified g) objs || existsb (tracked g) ents); [|reflexivity].
  destruct (u_cur (s_uow s)); reflexivity.
Qed.

(* a flush of transaction T *)
Lemma flush_acc_h g s objs ents assoc T :
  cfg_consistent g -> u_cur (s_uow (flush g s objs ents assoc)) = Some T ->
  acc_h g T (d_vt (s_db s)) (d_vt (s_db (flush g s objs ents assoc))).
Proof.
  intros CC. unfold flush. destruct (g_versioning g); cbn [negb].
  2:{ intros _. simpl. apply acc_h_refl. }
  fold (before_flush g s objs ents). set (s1 := before_flush g s objs ents).
  rewrite <- (before_flush_vt g s objs ents). fold s1.
  destruct (u_cur (s_uow s1)) as [T'|] eqn:Ecur.
  2:{ simpl. discriminate. }
  destruct (fold_left (track g) ents (u_ops (s_uow s1))) as [|o ops'] eqn:Eops.
  { simpl. intros _. apply acc_h_refl. }
  destruct (g_native g).
  { simpl. intros _. apply acc_h_refl. }
  pose proof (fold_process_acc_h g T' (d_vt (s_db s1)) (o :: ops') (d_vt (s_db s1), u_vobjs (s_uow s1), s_err s1) CC
                (acc_h_refl g T' _)) as A.
  destruct (fold_left (process_op g T') (o :: ops') (d_vt (s_db s1), u_vobjs (s_uow s1), s_err s1))
    as [[vt' vobjs'] err'] eqn:Ef.
  simpl. intro E. inversion E; subst T'. exact A.
Qed.

(* ---- from the chain before the flush to "right already or stale in the one way" after it ---- *)
Definition hier_chain (g : cfg) (vt : vtable) : Prop :=
  forall cc x, In cc (g_classes g) -> In x vt -> child_of cc x -> vend x = want vt cc x.

Lemma min_above_grow_top t0 t k p T :
  (forall i, In i (vids t) -> In i (vids t0) \/ snd i = T) ->
  (forall i, In i (vids t0) -> In i (vids t)) ->
  min_above t k p = min_above t0 k p \/ min_above t k p = Some T.
Proof.
  intros H1 H2. destruct (min_above t k p) as [m|] eqn:M.
  - apply min_above_some in M as [[r [Hr [Hk [Ht Hlt]]]] Hmin].
    destruct (Z.eq_dec m T) as [->|N]; [right; reflexivity|]. left. symmetry.
    apply min_above_some. split.
    + assert (Hi : In (k, m) (vids t)) by (apply in_vids; exists r; auto).
      destruct (H1 _ Hi) as [H0|E]; [|simpl in E; congruence].
      apply in_vids in H0 as [r0 [Hr0 [Hk0 Ht0]]]. exists r0. auto.
    + intros r0 Hr0 Hk0 Hp.
      assert (Hi : In (vkey r0, vtx r0) (vids t)) by (apply H2; apply in_vids; exists r0; auto).
      apply in_vids in Hi as [r1 [Hr1 [Hk1 Ht1]]]. rewrite <- Ht1. apply Hmin; [exact Hr1 | congruence | lia].
  - left. symmetry. apply min_above_none. intros r0 Hr0 Hk0.
    assert (Hi : In (vkey r0, vtx r0) (vids t)) by (apply H2; apply in_vids; exists r0; auto).
    apply in_vids in Hi as [r1 [Hr1 [Hk1 Ht1]]]. rewrite <- Ht1.
    apply (proj1 (min_above_none t k p) M r1 Hr1). congruence.
Qed.

Lemma min_above_top_none t k T : (forall r, In r t -> vtx r <= T) -> min_above t k T = None.
Proof. intro H. apply min_above_none. intros r Hr _. apply H; exact Hr. Qed.

Lemma child_nonval g cc x : hier_consistent g -> In cc (g_classes g) -> child_of cc x -> nonval g x.
Proof. intros HC Hcc Hch. unfold nonval. apply (HC cc _ Hcc Hch). Qed.

Lemma stale_after_flush g T vt0 vt :
  hier_consistent g -> acc_h g T vt0 vt -> (forall r, In r vt -> vtx r <= T) -> hier_chain g vt0 ->
  forall cc x, In cc (g_classes g) -> In x vt -> child_of cc x ->
    vend x = want vt cc x \/ want vt cc x = Some T.
Proof.
  intros HC [B Tp I1 I2] LE IH cc x Hcc Hx Hch.
  pose proof (child_nonval g cc x HC Hcc Hch) as Hn.
  assert (LE0 : forall r, In r vt0 -> vtx r <= T).
  { intros r Hr. assert (Hi : In (vkey r, vtx r) (vids vt)) by (apply I2; apply in_vids; exists r; auto).
    apply in_vids in Hi as [r1 [Hr1 [_ Ht1]]]. rewrite <- Ht1. apply LE; exact Hr1. }
  destruct (Z.eq_dec (vtx x) T) as [Et|Nt].
  - (* a row of this transaction: nothing can follow it *)
    left. unfold want. rewrite Et. rewrite (min_above_top_none vt _ T LE).
    destruct (Tp x Hx Hn Et) as [N|[r0 [Hr0 [Ev Ee]]]]; [exact N|].
    rewrite <- Ee. assert (Hch0 : child_of cc r0).
    { unfold child_of. unfold vid in Ev. inversion Ev as [[Ek Etx]]. rewrite Ek. exact Hch. }
    rewrite (IH cc r0 Hcc Hr0 Hch0). unfold want, base_key.
    unfold vid in Ev. inversion Ev as [[Ek Etx]]. rewrite Etx, Et. apply min_above_top_none. exact LE0.
  - (* an older row: it is unchanged, and its successor in the base table is the old one or the new row at T *)
    assert (Hx0 : In x vt0) by (apply (B x Hn Nt); exact Hx).
    rewrite (IH cc x Hcc Hx0 Hch). unfold want.
    destruct (min_above_grow_top vt0 vt (base_key cc x) (vtx x) T I1 I2) as [E|E]; [left; symmetry; exact E | right; exact E].
Qed.

(* ---- the machine ---- *)
Lemma flush_committed_any g s objs ents assoc : s_committed (flush g s objs ents assoc) = s_committed s.
Proof.
  unfold flush. destruct (g_versioning g); cbn [negb]; [|reflexivity].
  fold (before_flush g s objs ents). set (s1 := before_flush g s objs ents).
  assert (E : s_committed s1 = s_committed s).
  { unfold s1, before_flush. destruct (existsb (obj_modified g) objs || existsb (tracked g) ents); [|reflexivity].
    destruct (u_cur (s_uow s)); reflexivity. }
  destruct (u_cur (s_uow s1)); [|simpl; exact E].
  destruct (fold_left (track g) ents (u_ops (s_uow s1))); [simpl; exact E|].
  destruct (g_native g); [simpl; exact E|].
  destruct (fold_left (process_op g z) (o :: l) (d_vt (s_db s1), u_vobjs (s_uow s1), s_err s1)) as [[vt' vobjs'] err'].
  simpl. exact E.
Qed.

Lemma flush_vt_none g s objs ents assoc :
  u_cur (s_uow (flush g s objs ents assoc)) = None -> d_vt (s_db (flush g s objs ents assoc)) = d_vt (s_db s).
Proof.
  unfold flush. destruct (g_versioning g); cbn [negb]; [|reflexivity].
  fold (before_flush g s objs ents). set (s1 := before_flush g s objs ents).
  rewrite <- (before_flush_vt g s objs ents). fold s1.
  destruct (u_cur (s_uow s1)); [|reflexivity].
  destruct (fold_left (track g) ents (u_ops (s_uow s1))); [simpl; discriminate|].
  destruct (g_native g); [simpl; discriminate|].
  destruct (fold_left (process_op g z) (o :: l) (d_vt (s_db s1), u_vobjs (s_uow s1), s_err s1)) as [[vt' vobjs'] err'].
  simpl. discriminate.
Qed.

Lemma hier_chain_flat g vt : no_hierb g = true -> hier_chain g vt.
Proof.
  intros H cc x Hcc _ Hch. unfold no_hierb in H. rewrite forallb_forall in H. specialize (H cc Hcc).
  unfold child_of in Hch. destruct (k_also cc); [contradiction | discriminate].
Qed.

Definition HInv (g : cfg) (s : state) : Prop :=
  InvAll g s /\ hier_chain g (d_vt (s_db s)) /\ hier_chain g (d_vt (s_committed s)).

(* the environment hypothesis, per flush: every version of a subclass entity has its base-table row, keys are not empty *)
Definition flush_paired (g : cfg) (s : state) (e : ev) : Prop :=
  match e with
  | Flush objs ents assoc =>
      let mid := flush g s objs ents assoc in
      match u_cur (s_uow mid) with
      | Some _ => paired g (d_vt (s_db mid)) /\ (forall r, In r (d_vt (s_db mid)) -> vkey r <> [])
      | None => True
      end
  | _ => True
  end.

Lemma step_H g s e :
  cfg_consistent g -> hier_consistent g -> one_base g -> flush_paired g s e -> HInv g s -> HInv g (step g s e).
Proof.
  intros CC HC OB FP [IA [Hdb Hc]].
  split; [apply step_all; assumption|].
  destruct e as [objs ents assoc| | | |a]; cbn [step].
  - set (mid := flush g s objs ents assoc) in *.
    destruct (hier_pass_parts g mid) as [_ [_ [_ [_ [Em _]]]]].
    split; [|rewrite Em; unfold mid; rewrite flush_committed_any; exact Hc].
    destruct (no_hierb g) eqn:NH; [apply hier_chain_flat; exact NH|].
    pose proof (flush_all g s objs ents assoc CC IA) as IAm. fold mid in IAm.
    destruct (u_cur (s_uow mid)) as [T|] eqn:Ecur.
    + rewrite (hier_pass_is_hier_rows g mid T NH Ecur).
      cbn [flush_paired] in FP. fold mid in FP. rewrite Ecur in FP. destruct FP as [PA NE].
      assert (LE : forall r, In r (d_vt (s_db mid)) -> vtx r <= T).
      { destruct IAm as [[[V _] [_ [Hcur _]]] _]. intros r Hr. apply (proj2 (Hcur T Ecur)). apply V. exact Hr. }
      pose proof (flush_acc_h g s objs ents assoc T CC Ecur) as A. fold mid in A.
      pose proof (stale_after_flush g T _ _ HC A LE Hdb) as ST.
      intros cc x' Hcc Hx' Hch.
      apply (hier_pass_closes_superseded g T (d_vt (s_db mid)) OB PA NE ST cc x' Hcc Hx' Hch).
    + unfold hier_pass. rewrite NH, Ecur. unfold mid. rewrite flush_vt_none; [exact Hdb | exact Ecur].
  - split; exact Hdb.
  - split; exact Hc.
  - destruct (g_versioning g); [|split; assumption]. split; assumption.
  - destruct ((g_versioning g || g_native g) && u_live (s_uow s)); split; assumption.
Qed.

Fixpoint trace_paired (g : cfg) (s : state) (evs : list ev) : Prop :=
  match evs with
  | [] => True
  | e :: evs' => flush_paired g s e /\ trace_paired g (step g s e) evs'
  end.

Lemma HInv_init g : HInv g state0.
Proof. split; [apply InvAll_init|]. split; intros cc x _ [] . Qed.

Lemma fold_H g evs : forall s,
  cfg_consistent g -> hier_consistent g -> one_base g -> trace_paired g s evs -> HInv g s ->
  HInv g (fold_left (step g) evs s).
Proof.
  induction evs as [|e evs IH]; intros s CC HC OB TP H; simpl; [exact H|].
  destruct TP as [FP TP]. apply IH; try assumption. apply step_H; assumption.
Qed.

(* every reachable state: the rows of the child tables of a joined-table hierarchy are closed by the next version of
   their key in the base table, whatever class it has, and open while there is none *)
Theorem reachable_hier_chain g evs :
  cfg_consistent g -> hier_consistent g -> one_base g -> trace_paired g state0 evs ->
  hier_chain g (d_vt (s_db (run g evs))) /\ hier_chain g (d_vt (s_committed (run g evs))).
Proof.
  intros CC HC OB TP. destruct (fold_H g evs state0 CC HC OB TP (HInv_init g)) as [_ H]. exact H.
Qed.

(* decidable form of the trace hypothesis, evaluated on every recorded trace *)
Fixpoint trace_pairedb (g : cfg) (s : state) (evs : list ev) : bool :=
  match evs with
  | [] => true
  | e :: evs' =>
      (match e with
       | Flush objs ents assoc =>
           let mid := flush g s objs ents assoc in
           match u_cur (s_uow mid) with
           | Some _ => pairedb g (d_vt (s_db mid)) && keys_nonemptyb (d_vt (s_db mid))
           | None => true
           end
       | _ => true
       end) && trace_pairedb g (step g s e) evs'
  end.

Lemma trace_pairedb_spec g evs : forall s, trace_pairedb g s evs = true -> trace_paired g s evs.
Proof.
  induction evs as [|e evs IH]; intros s H; simpl; [exact I|].
  simpl in H. apply andb_true_iff in H as [H1 H2]. split; [|apply IH; exact H2].
  destruct e; simpl; try exact I.
  destruct (u_cur (s_uow (flush g s objs ents assoc))); [|exact I].
  apply andb_true_iff in H1 as [P N]. split; [apply pairedb_spec; exact P | apply keys_nonemptyb_spec; exact N].
Qed.
