(* CoreChainP.v — machine-level invariant: in every reachable state of the Layer-B machine the
   version tables satisfy their primary key, the rows of validity-strategy tables form the
   validity chain, the version-object cache agrees with the rows of the current transaction, and
   the package never raises an error of its own (C03; also used by C01/C07/C11). *)
From Continuum Require Import Model.Base Model.VTable Model.Backfill Model.Core
     Proofs.BaseP Proofs.VTableP Proofs.CoreP Proofs.ChainP.

Definition tab_valid (g : cfg) (tab : Z) : bool :=
  existsb (fun cc => (k_tab cc =? tab) && k_validity cc) (g_classes g).

(* classes that share a version table agree on the strategy *)
Definition cfg_consistent (g : cfg) : Prop :=
  forall c, k_validity (cls_of g c) = tab_valid g (k_tab (cls_of g c)).

Definition chain_v (g : cfg) (t : vtable) : Prop :=
  forall r, In r t -> tab_valid g (hd 0 (vkey r)) = true -> chain_at t r.

Definition tbl_ok (g : cfg) (t : vtable) : Prop := pk_unique t /\ chain_v g t.

Definition cache_ok (T : Z) (vt : vtable) (vobjs : list (pk * Z)) : Prop :=
  forall k, In (k, T) vobjs <-> In (k, T) (vids vt).

Definition Inv2 (g : cfg) (s : state) : Prop :=
  tbl_ok g (d_vt (s_db s)) /\ tbl_ok g (d_vt (s_committed s)) /\
  (forall i, In i (u_vobjs (s_uow s)) -> In (snd i) (d_tx (s_db s))) /\
  (forall T, u_cur (s_uow s) = Some T -> cache_ok T (d_vt (s_db s)) (u_vobjs (s_uow s))) /\
  s_err s = false.

(* ------------------------------------------------------------------ one operation *)
Definition acc_ok (g : cfg) (T : Z) (txs : list Z) (acc : vtable * list (pk * Z) * bool) : Prop :=
  let '(vt, vobjs, err) := acc in
  tbl_ok g vt /\ (forall r, In r vt -> vtx r <= T) /\ cache_ok T vt vobjs /\
  (forall i, In i vobjs -> In (snd i) txs) /\ err = false.

Lemma known_iff_present T vt vobjs k :
  cache_ok T vt vobjs ->
  existsb (fun i : pk * Z => pk_eqb (fst i) k && (snd i =? T)) vobjs = existsb (is_row k T) vt.
Proof.
  intro C. apply eq_true_iff_eq. rewrite !existsb_exists. split.
  - intros [[k0 t0] [Hi E]]. simpl in E. apply andb_true_iff in E as [E1 E2].
    apply pk_eqb_eq in E1. apply Z.eqb_eq in E2. subst k0 t0.
    apply C in Hi. apply in_vids in Hi as [r [Hr [E1 E2]]]. exists r. split; [exact Hr|].
    unfold is_row. apply andb_true_iff. split; [apply same_key_eq; exact E1 | apply Z.eqb_eq; exact E2].
  - intros [r [Hr E]]. unfold is_row in E. apply andb_true_iff in E as [E1 E2].
    apply same_key_eq in E1. apply Z.eqb_eq in E2.
    exists (k, T). split.
    + apply C. apply in_vids. exists r. auto.
    + simpl. rewrite pk_eqb_refl, Z.eqb_refl. reflexivity.
Qed.

Lemma write_row_unique vt k T kind dat fl validity :
  pk_unique vt -> pk_unique (write_row (existsb (is_row k T) vt) vt k T kind dat fl validity).
Proof.
  intro U. unfold pk_unique. fold (vids (write_row (existsb (is_row k T) vt) vt k T kind dat fl validity)).
  rewrite write_row_ids. destruct (existsb (is_row k T) vt) eqn:P; [exact U|].
  apply NoDup_app_snoc; [exact U|]. intro Hin.
  apply in_vids in Hin as [r [Hr [E1 E2]]].
  assert (existsb (is_row k T) vt = true).
  { apply existsb_exists. exists r. split; [exact Hr|]. unfold is_row.
    apply andb_true_iff. split; [apply same_key_eq; exact E1 | apply Z.eqb_eq; exact E2]. }
  congruence.
Qed.

Lemma vtx_in_ids t r : In r t -> In (vkey r, vtx r) (vids t).
Proof. intro H. unfold vids. apply in_map_iff. exists r. auto. Qed.

Lemma write_row_le known vt k T kind dat fl validity :
  (forall r, In r vt -> vtx r <= T) ->
  forall r, In r (write_row known vt k T kind dat fl validity) -> vtx r <= T.
Proof.
  intros LE r Hr. apply vtx_in_ids in Hr. rewrite write_row_ids in Hr.
  assert (G : In (vkey r, vtx r) (vids vt) -> vtx r <= T).
  { intro H. apply in_vids in H as [r0 [Hr0 [_ E]]]. rewrite <- E. apply LE; exact Hr0. }
  destruct known; [apply G; exact Hr|].
  apply in_app_or in Hr as [Hr|[E|[]]]; [apply G; exact Hr | inversion E; lia].
Qed.

Lemma process_op_ok g T txs acc o :
  cfg_consistent g -> In T txs -> acc_ok g T txs acc -> acc_ok g T txs (process_op g T acc o).
Proof.
  intros CC HT. destruct acc as [[vt vobjs] err]. intros [[U CH] [LE [C [VI E]]]].
  unfold process_op. destruct (op_proc o).
  { split; [split; assumption|]. split; [exact LE|]. split; [exact C|]. split; [exact VI | exact E]. }
  set (cc := cls_of g (op_cls o)). set (k := k_tab cc :: op_key o).
  rewrite (known_iff_present T vt vobjs k C).
  set (present := existsb (is_row k T) vt).
  simpl. repeat split.
  - apply write_row_unique; exact U.
  - intros r Hr Hv. destruct (list_eq_dec Z.eq_dec (vkey r) k) as [Ek|Nk].
    + assert (Hval : k_validity cc = true).
      { unfold cc. rewrite (CC (op_cls o)). fold cc. rewrite Ek in Hv. simpl in Hv. exact Hv. }
      revert Hr. rewrite Hval. intro Hr.
      apply (write_row_chain_same vt k T (op_kind o) (op_dat g cc o) (flags_now g cc o) LE); [|exact Hr | exact Ek].
      intros r0 Hr0 Hk0. apply CH; [exact Hr0|]. rewrite Hk0. simpl.
      unfold cc in Hval. rewrite (CC (op_cls o)) in Hval. exact Hval.
    + pose proof (proj1 (write_row_other present vt k T _ _ _ _ r Nk) Hr) as Hin.
      apply write_row_chain_other; [exact Nk | exact Hin | apply CH; assumption].
  - apply write_row_le; exact LE.
  - intro H. rewrite write_row_ids. fold present.
    destruct present eqn:P; [apply C; exact H|].
    apply in_app_or in H as [H|[H|[]]].
    + apply in_or_app. left. apply C; exact H.
    + apply in_or_app. right. left. exact H.
  - intro H. rewrite write_row_ids in H. fold present in H.
    destruct present eqn:P; [apply C; exact H|].
    apply in_app_or in H as [H|[H|[]]].
    + apply in_or_app. left. apply C; exact H.
    + apply in_or_app. right. left. exact H.
  - intros i Hi. destruct present; [apply VI; exact Hi|].
    apply in_app_or in Hi as [Hi|[<-|[]]]; [apply VI; exact Hi | exact HT].
  - rewrite E. simpl. unfold present. destruct (existsb (is_row k T) vt); reflexivity.
Qed.

Lemma fold_process_ok g T txs ops acc :
  cfg_consistent g -> In T txs -> acc_ok g T txs acc ->
  acc_ok g T txs (fold_left (process_op g T) ops acc).
Proof.
  intros CC HT H. apply fold_left_inv; [exact H|].
  intros a b Ha _. apply process_op_ok; assumption.
Qed.

(* ------------------------------------------------------------------ the machine *)
Definition InvAll (g : cfg) (s : state) : Prop := Inv1w s /\ Inv2 g s /\
  (u_cur (s_uow s) = None -> u_vobjs (s_uow s) = []).

Lemma InvAll_init g : InvAll g state0.
Proof.
  split; [apply Inv1_weaken, Inv1_init|]. split.
  - unfold Inv2, tbl_ok, chain_v, cache_ok, pk_unique; simpl.
    repeat split; try constructor; try contradiction; try discriminate; auto.
  - reflexivity.
Qed.

Lemma create_transaction_all g s : InvAll g s -> InvAll g (create_transaction s).
Proof.
  intros [H1 [[Hdb [Hc [VI [Hcache Herr]]]] Hn]].
  split; [apply create_transaction_invw; exact H1|]. split.
  - unfold Inv2, create_transaction; simpl. split; [exact Hdb|]. split; [exact Hc|]. split; [|split; [|exact Herr]].
    + intros i Hi. apply in_or_app. left. apply VI; exact Hi.
    + intros T E. inversion E; subst T. intro k.
      set (T := next_tx (d_tx (s_db s))).
      destruct H1 as [[V _] _].
      split; intro H; exfalso.
      * apply VI in H. simpl in H. pose proof (next_tx_gt _ _ H). fold T in H0. lia.
      * apply in_vids in H as [r [Hr [_ E2]]]. apply V in Hr. rewrite E2 in Hr.
        pose proof (next_tx_gt _ _ Hr). fold T in H. lia.
  - discriminate.
Qed.

Lemma before_flush_all g s objs ents : InvAll g s -> InvAll g (before_flush g s objs ents).
Proof.
  intro H. unfold before_flush. destruct (existsb (obj_modified g) objs || existsb (tracked g) ents); [|exact H].
  destruct (u_cur (s_uow s)); [exact H | apply create_transaction_all; exact H].
Qed.

Lemma flush_all g s objs ents assoc :
  cfg_consistent g -> InvAll g s -> InvAll g (flush g s objs ents assoc).
Proof.
  intros CC H. split; [apply flush_invw; apply H|].
  destruct (g_versioning g) eqn:Hv.
  2:{ destruct (flush_off g s objs ents assoc Hv) as [E1 [E2 [E3 [E4 [E5 E6]]]]].
      destruct H as [_ [[Hdb [Hc [VI [Hcache Herr]]]] Hn]].
      assert (Eerr : s_err (flush g s objs ents assoc) = s_err s) by (unfold flush; rewrite Hv; reflexivity).
      split; [|rewrite E6; exact Hn].
      unfold Inv2. rewrite E1, E3, E5, E6, Eerr.
      split; [exact Hdb|]. split; [exact Hc|]. split; [exact VI|]. split; [exact Hcache | exact Herr]. }
  pose proof (before_flush_all g s objs ents H) as [H1 [[Hdb [Hc [VI [Hcache Herr]]]] Hn]].
  unfold flush. rewrite Hv. simpl. fold (before_flush g s objs ents). set (s1 := before_flush g s objs ents) in *.
  destruct (u_cur (s_uow s1)) as [T|] eqn:Ecur.
  2:{ simpl. unfold Inv2; simpl. split; [|intros _; exact (Hn eq_refl)].
      split; [exact Hdb|]. split; [exact Hc|]. split; [exact VI|]. split; [discriminate | exact Herr]. }
  destruct (fold_left (track g) ents (u_ops (s_uow s1))) as [|o ops'] eqn:Eops.
  { simpl. unfold Inv2; simpl. split; [|discriminate].
    split; [exact Hdb|]. split; [exact Hc|]. split; [exact VI|]. split; [|exact Herr].
    intros T' E. inversion E; subst T'. apply Hcache; reflexivity. }
  destruct (g_native g).
  { simpl. unfold Inv2; simpl. split; [|discriminate].
    split; [exact Hdb|]. split; [exact Hc|]. split; [exact VI|]. split; [|exact Herr].
    intros T' E. inversion E; subst T'. apply Hcache; reflexivity. }
  destruct H1 as [[V _] [_ [Hcur _]]]. destruct (Hcur T Ecur) as [HT Hmax].
  assert (A0 : acc_ok g T (d_tx (s_db s1)) (d_vt (s_db s1), u_vobjs (s_uow s1), s_err s1)).
  { split; [exact Hdb|]. split; [intros r Hr; apply Hmax, V, Hr|].
    split; [exact (Hcache T eq_refl)|]. split; [exact VI | exact Herr]. }
  pose proof (fold_process_ok g T (d_tx (s_db s1)) (o :: ops') _ CC HT A0) as A1.
  destruct (fold_left (process_op g T) (o :: ops') (d_vt (s_db s1), u_vobjs (s_uow s1), s_err s1))
    as [[vt' vobjs'] err'] eqn:Ef.
  destruct A1 as [Htbl [LE' [C' [VI' E']]]].
  simpl. unfold Inv2; simpl. split; [|discriminate].
  split; [exact Htbl|]. split; [exact Hc|]. split; [exact VI'|]. split; [|exact E'].
  intros T' E. inversion E; subst T'. exact C'.
Qed.

(* ------------------------------------------------------------------ joined-table hierarchies
   The child tables of a joined-table hierarchy are not validity tables of their own in the model (their rows
   are closed by the hierarchy pass, by the next version of the key in the BASE table): hier_consistent says so.
   It holds trivially for configurations without joined hierarchies (flat_hier).                              *)
Definition hier_consistent (g : cfg) : Prop :=
  forall cc t, In cc (g_classes g) -> In t (k_also cc) -> tab_valid g t = false.

Definition flat_hier (g : cfg) : Prop := no_hierb g = true.

Lemma flat_hier_consistent g : flat_hier g -> hier_consistent g.
Proof.
  unfold flat_hier, no_hierb, hier_consistent. intros H cc t Hcc Ht.
  rewrite forallb_forall in H. specialize (H cc Hcc). destruct (k_also cc); [contradiction | discriminate].
Qed.

Lemma hier_closed_tab g T vt x :
  hier_closed g T vt x = true -> exists cc, In cc (g_classes g) /\ In (hd 0 (vkey x)) (k_also cc).
Proof.
  unfold hier_closed. intro H. apply existsb_exists in H as [cc [Hcc H]].
  apply andb_true_iff in H as [H _]. apply existsb_exists in H as [t [Ht E]].
  apply Z.eqb_eq in E. exists cc. split; [exact Hcc | rewrite E; exact Ht].
Qed.

(* the hierarchy pass keeps the identities of all rows and touches rows of child tables only *)
Lemma hier_pass_vt g s :
  vids (d_vt (s_db (hier_pass g s))) = vids (d_vt (s_db s)) /\
  (forall r', In r' (d_vt (s_db (hier_pass g s))) ->
     In r' (d_vt (s_db s)) \/ exists cc, In cc (g_classes g) /\ In (hd 0 (vkey r')) (k_also cc)).
Proof.
  unfold hier_pass. destruct (no_hierb g); [split; [reflexivity | auto]|].
  destruct (u_cur (s_uow s)) as [T|]; [|split; [reflexivity | auto]].
  cbn [s_db d_vt]. split.
  - unfold vids. rewrite map_map. apply map_ext. intro x.
    destruct (hier_closed g T (d_vt (s_db s)) x); reflexivity.
  - intros r' Hr'. apply in_map_iff in Hr' as [x [E Hx]].
    destruct (hier_closed g T (d_vt (s_db s)) x) eqn:Hc; subst r'; [right | left; exact Hx].
    apply (hier_closed_tab g T (d_vt (s_db s))). exact Hc.
Qed.

Lemma tbl_ok_hier g vt vt' :
  hier_consistent g -> vids vt' = vids vt ->
  (forall r', In r' vt' -> In r' vt \/ exists cc, In cc (g_classes g) /\ In (hd 0 (vkey r')) (k_also cc)) ->
  tbl_ok g vt -> tbl_ok g vt'.
Proof.
  intros HC Ev Hr [U CH]. split.
  - unfold pk_unique. fold (vids vt'). rewrite Ev. exact U.
  - intros r' Hin Hv. destruct (Hr r' Hin) as [Hold|[cc [Hcc Ht]]].
    + unfold chain_at. rewrite min_above_mai, Ev, <- min_above_mai. apply CH; assumption.
    + rewrite (HC cc _ Hcc Ht) in Hv. discriminate.
Qed.

Lemma hier_pass_all g s : hier_consistent g -> InvAll g s -> InvAll g (hier_pass g s).
Proof.
  intros HC [H1 [[Hdb [Hc [VI [Hcache Herr]]]] Hn]].
  destruct (hier_pass_parts g s) as [El [Ea [Et [Ec [Em [Eu [Ee _]]]]]]].
  destruct (hier_pass_vt g s) as [Ev Hr].
  split; [apply hier_pass_invw; exact H1|]. split.
  - unfold Inv2. rewrite Em, Eu, Et, Ee.
    split; [apply (tbl_ok_hier g (d_vt (s_db s))); assumption|].
    split; [exact Hc|]. split; [exact VI|]. split; [|exact Herr].
    intros T ET k. unfold cache_ok in Hcache. rewrite Ev. apply Hcache. exact ET.
  - rewrite Eu. exact Hn.
Qed.

Lemma step_all g s e : cfg_consistent g -> hier_consistent g -> InvAll g s -> InvAll g (step g s e).
Proof.
  intros CC FH H. destruct e; simpl.
  - apply hier_pass_all; [exact FH|]. apply flush_all; assumption.
  - destruct H as [H1 [[Hdb [Hc [VI [Hcache Herr]]]] Hn]].
    split; [apply (step_invw g s Commit); exact H1|]. split; [|reflexivity].
    unfold Inv2; simpl. repeat split; try apply Hdb; try contradiction; try discriminate; auto.
  - destruct H as [H1 [[Hdb [Hc [VI [Hcache Herr]]]] Hn]].
    split; [apply (step_invw g s Rollback); exact H1|]. split; [|reflexivity].
    unfold Inv2; simpl. repeat split; try apply Hc; try contradiction; try discriminate; auto.
  - destruct (g_versioning g); [apply create_transaction_all; exact H | exact H].
  - destruct ((g_versioning g || g_native g) && u_live (s_uow s)); exact H.
Qed.

Theorem run_all g evs : cfg_consistent g -> hier_consistent g -> InvAll g (run g evs).
Proof.
  intros CC FH. unfold run. apply fold_left_inv; [apply InvAll_init|].
  intros a b Ha _. apply step_all; assumption.
Qed.

(* ------------------------------------------------------------------ C03 at machine level *)
Theorem reachable_tables_ok g evs :
  cfg_consistent g -> hier_consistent g ->
  pk_unique (d_vt (s_db (run g evs))) /\ chain_v g (d_vt (s_db (run g evs))).
Proof. intros CC FH. destruct (run_all g evs CC FH) as [_ [[H _] _]]. exact H. Qed.

(* the package never raises an error of its own on the version tables *)
Theorem reachable_no_error g evs : cfg_consistent g -> hier_consistent g -> s_err (run g evs) = false.
Proof. intros CC FH. destruct (run_all g evs CC FH) as [_ [[_ [_ [_ [_ H]]]] _]]. exact H. Qed.

(* chain_v on the sub-table of one validity table is the plain chain_ok of VTable.v *)
Lemma chain_v_table g t tab :
  tab_valid g tab = true -> chain_v g t ->
  forall r, In r t -> hd 0 (vkey r) = tab -> vend r = min_above t (vkey r) (vtx r).
Proof. intros Hv C r Hr Ht. apply C; [exact Hr | rewrite Ht; exact Hv]. Qed.

(* decidable form of the configuration hypothesis, monitored by the correspondence check *)
Definition cfg_consistentb (g : cfg) : bool :=
  forallb (fun cc => Bool.eqb (k_validity cc) (tab_valid g (k_tab cc))) (g_classes g) &&
  negb (tab_valid g (-1)).

Lemma cfg_consistentb_spec g : cfg_consistentb g = true -> cfg_consistent g.
Proof.
  unfold cfg_consistentb, cfg_consistent. intro H. apply andb_true_iff in H as [H1 H2].
  rewrite forallb_forall in H1. intro c. unfold cls_of.
  destruct (nth_in_or_default c (g_classes g) dflt_cls) as [Hin|Hd].
  - apply Bool.eqb_prop. apply H1. exact Hin.
  - rewrite Hd. simpl. apply negb_true_iff in H2. symmetry. exact H2.
Qed.

(* decidable form of hier_consistent, monitored by the correspondence check as well *)
Definition hier_consistentb (g : cfg) : bool :=
  forallb (fun cc => forallb (fun t => negb (tab_valid g t)) (k_also cc)) (g_classes g).

Lemma hier_consistentb_spec g : hier_consistentb g = true -> hier_consistent g.
Proof.
  unfold hier_consistentb, hier_consistent. intros H cc t Hcc Ht.
  rewrite forallb_forall in H. specialize (H cc Hcc). rewrite forallb_forall in H.
  apply negb_true_iff. apply H. exact Ht.
Qed.
