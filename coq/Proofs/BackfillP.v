(* BackfillP.v — proofs for update_end_tx_column (C16). *)
From Continuum Require Import Model.Base Model.VTable Model.Backfill Proofs.BaseP Proofs.VTableP.

Lemma min_above_ext t t' k x :
  map vid t = map vid t' -> min_above t k x = min_above t' k x.
Proof.
  revert t'. induction t as [|a t IH]; intros [|b t'] H; simpl in *; try discriminate; [reflexivity|].
  inversion H as [[Hk Ht Hr]]. unfold same_key. rewrite Hk, Ht, (IH t' Hr). reflexivity.
Qed.

Lemma vid_backfill_end t0 t :
  map vid (map (fun r => match min_above t0 (vkey r) (vtx r) with
                | Some m => if m =? 0 then r else set_end r (Some m)
                | None => r end) t) = map vid t.
Proof.
  induction t as [|a t IH]; simpl; [reflexivity|]. rewrite IH. f_equal.
  destruct (min_above t0 (vkey a) (vtx a)) as [m|]; [destruct (m =? 0)|]; reflexivity.
Qed.

Lemma vid_backfill t : map vid (backfill_end t) = map vid t.
Proof. apply vid_backfill_end. Qed.

Lemma min_above_pos t k x m : min_above t k x = Some m -> 0 < x -> m =? 0 = false.
Proof.
  intros H Hx. apply min_above_some in H as [[r [_ [_ [_ Hlt]]]] _]. apply Z.eqb_neq. lia.
Qed.

(* what the tool does to each row, and that nothing else changes *)
Definition row_spec (t0 : vtable) (r r' : vrow) : Prop :=
  vkey r' = vkey r /\ vtx r' = vtx r /\ vop r' = vop r /\ vdat r' = vdat r /\ vmod r' = vmod r /\
  vend r' = match min_above t0 (vkey r) (vtx r) with Some m => Some m | None => vend r end.

Lemma backfill_end_rows_gen t0 t :
  (forall r, In r t -> 0 < vtx r) ->
  Forall2 (row_spec t0) t
    (map (fun r => match min_above t0 (vkey r) (vtx r) with
                   | Some m => if m =? 0 then r else set_end r (Some m) | None => r end) t).
Proof.
  induction t as [|a t IH]; simpl; intro P; constructor.
  - unfold row_spec. destruct (min_above t0 (vkey a) (vtx a)) as [m|] eqn:E.
    + rewrite (min_above_pos _ _ _ _ E (P a (or_introl eq_refl))). simpl. repeat split; reflexivity.
    + repeat split; reflexivity.
  - apply IH. intros r Hr. apply P. right; exact Hr.
Qed.

Theorem backfill_end_rows t : all_pos t -> Forall2 (row_spec t) t (backfill_end t).
Proof. intro P. apply backfill_end_rows_gen. exact P. Qed.

Lemma in_backfill_end t r' :
  In r' (backfill_end t) -> exists r, In r t /\
    r' = match min_above t (vkey r) (vtx r) with
         | Some m => if m =? 0 then r else set_end r (Some m) | None => r end.
Proof. unfold backfill_end. intro H. apply in_map_iff in H as [r [E Hr]]. eauto. Qed.

Theorem backfill_end_chain t :
  all_pos t -> newest_open t -> chain_ok (backfill_end t).
Proof.
  intros P N r' Hr'. apply in_backfill_end in Hr' as [r [Hr ->]].
  rewrite (min_above_ext (backfill_end t) t) by apply vid_backfill.
  destruct (min_above t (vkey r) (vtx r)) as [m|] eqn:E.
  - rewrite (min_above_pos _ _ _ _ E (P r Hr)). simpl. symmetry; exact E.
  - rewrite E. apply N; assumption.
Qed.

Theorem backfill_end_idem t : backfill_end (backfill_end t) = backfill_end t.
Proof.
  unfold backfill_end at 1.
  assert (H : forall k x, min_above (backfill_end t) k x = min_above t k x).
  { intros. apply min_above_ext, vid_backfill. }
  rewrite (map_ext _ (fun r => match min_above t (vkey r) (vtx r) with
                | Some m => if m =? 0 then r else set_end r (Some m) | None => r end))
    by (intro r; rewrite H; reflexivity).
  unfold backfill_end. rewrite map_map. apply map_ext. intro r.
  destruct (min_above t (vkey r) (vtx r)) as [m|] eqn:E; simpl.
  - destruct (m =? 0) eqn:Z0; simpl; rewrite E, Z0; reflexivity.
  - rewrite E. reflexivity.
Qed.

Lemma set_end_same r : set_end r (vend r) = r.
Proof. destruct r; reflexivity. Qed.

(* a table that already carries the chain is a fixpoint *)
Theorem backfill_end_fix t : chain_ok t -> backfill_end t = t.
Proof.
  intro C. unfold backfill_end. rewrite <- (map_id t) at 2. apply map_ext_in. intros r Hr.
  rewrite <- (C r Hr). destruct (vend r) as [m|] eqn:E; [|reflexivity].
  destruct (m =? 0); [reflexivity|]. rewrite <- E. apply set_end_same.
Qed.

Lemma vid_wipe t : map vid (wipe_end t) = map vid t.
Proof. unfold wipe_end. rewrite map_map. reflexivity. Qed.

(* wiping the end column of a chained table and back-filling restores the table *)
Theorem backfill_end_restores t : all_pos t -> chain_ok t -> backfill_end (wipe_end t) = t.
Proof.
  intros P C. unfold backfill_end.
  rewrite (map_ext _ (fun r => match min_above t (vkey r) (vtx r) with
                | Some m => if m =? 0 then r else set_end r (Some m) | None => r end))
    by (intro r; rewrite (min_above_ext (wipe_end t) t) by apply vid_wipe; reflexivity).
  unfold wipe_end. rewrite map_map. rewrite <- (map_id t) at 2. apply map_ext_in. intros r Hr. simpl.
  specialize (C r Hr). destruct (min_above t (vkey r) (vtx r)) as [m|] eqn:E.
  - rewrite (min_above_pos _ _ _ _ E (P r Hr)). destruct r; simpl in *. subst. reflexivity.
  - destruct r; simpl in *. subst. reflexivity.
Qed.

Lemma newest_openb_spec t : newest_openb t = true <-> newest_open t.
Proof.
  unfold newest_openb, newest_open. rewrite forallb_forall. split; intros H r Hr.
  - intro E. specialize (H r Hr). rewrite E in H. apply oz_eqb_eq in H. exact H.
  - destruct (min_above t (vkey r) (vtx r)) eqn:E; [reflexivity|]. apply oz_eqb_eq. apply H; assumption.
Qed.

Lemma all_posb_spec t : all_posb t = true <-> all_pos t.
Proof.
  unfold all_posb, all_pos. rewrite forallb_forall. split; intros H r Hr; specialize (H r Hr).
  - apply Z.ltb_lt; exact H.
  - apply Z.ltb_lt; exact H.
Qed.
