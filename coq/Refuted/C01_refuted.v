(* C01_refuted.v — witness for the open finding F-C01-row-switch, valid while it stays open.
   The full statement of C01 without the "no row switch" environment assumption is FALSE of the
   faithful model (and of the code: the same history is the replay in known_findings.json):
   delete + add of one key in one flush is delivered by SQLAlchemy as one after_update on the new
   object; the UPDATE statement sets only the attributes assigned on it, the others keep the old
   row's values, but the version stores what the new object holds (None). *)
From Continuum Require Import Model.Base Model.VTable Model.Core.

Definition rcfg : cfg :=
  mkcfg true false false false false
    [mkcls true true 0 [mkcol true false true; mkcol false false true; mkcol false false true] []].

Definition rtrace : list ev :=
  [ Flush [mkobj 0 [true;true;true] [] true false]
          [mkev 0 0 [Some 1; Some 5; Some 7] [true;true;true] [] [0%nat;1%nat;2%nat] false true [true;true;true]] [];
    Commit;
    (* session.delete(old); session.add(Article(id=1, a=6)); flush *)
    Flush [mkobj 0 [false;false;false] [] false true; mkobj 0 [true;true;false] [] true false]
          [mkev 0 1 [Some 1; Some 6; None] [true;true;false] [] [0%nat;1%nat] false true [true;true;false]] [];
    Commit ].

Theorem C01_refuted_by_row_switch :
  let s := run rcfg rtrace in
  map l_vals (d_live (s_db s)) = [[Some 1; Some 6; Some 7]] /\
  map (fun r => (vtx r, vop r, vdat r)) (d_vt (s_db s)) =
    [(1, 0, [Some 5; Some 7]); (2, 1, [Some 6; None])].
Proof. split; vm_compute; reflexivity. Qed.

Print Assumptions C01_refuted_by_row_switch.
