(* C06_refuted.v — witness for the open finding F-C06-savepoint-inner-flush (valid while open).
   "Rolling back a savepoint discards exactly the versioning effects of the work done inside it":
   the database is restored, but the unit of work keeps the transaction id, the processed
   operation and the version-object cache entry of the flush that was rolled back.  A later change
   of the same entity in the same transaction then updates a version row that no longer exists
   (the real code raises StaleDataError; the model's table simply lacks the row while the cache
   claims it). *)
From Continuum Require Import Model.Base Model.VTable Model.Core Model.Savepoint.

Definition scfg : cfg :=
  mkcfg true false false false false [mkcls true true 0 [mkcol true false true; mkcol false false true] []].
Definition s_ins := mkev 0 0 [Some 1; Some 5] [true;true] [] [0%nat;1%nat] false true [false;false].
Definition s_upd := mkev 0 1 [Some 1; Some 6] [false;true] [] [1%nat] false false [false;false].
Definition s_dirty := [mkobj 0 [false;true] [] false false].

Theorem C06_refuted_by_savepoint :
  let m := mrun scfg [SpBegin; MCore (Flush s_dirty [s_ins] []); SpRollback] in
  d_vt (s_db (m_core m)) = [] /\ d_tx (s_db (m_core m)) = [] /\
  u_cur (s_uow (m_core m)) = Some 1 /\ u_vobjs (s_uow (m_core m)) = [([0;1], 1)] /\
  (* re-inserting inside the same transaction: the cache says "update the row in place", no row exists *)
  d_vt (s_db (m_core (mstep scfg m (MCore (Flush s_dirty [s_ins] []))))) = [].
Proof. repeat split; vm_compute; reflexivity. Qed.

Print Assumptions C06_refuted_by_savepoint.
