(* C14_refuted.v — witnesses for the open findings on the generated trigger text (valid while they
   stay open).  Both concern several events on one row within one transaction; neither can be
   validated against a PostgreSQL server in this sandbox, so they are recorded, not repaired.
   F-C14-validity-self-close: under the validity strategy the validity UPDATE of the second event
     closes the row written by the first event of the same transaction (end = own transaction).
   F-C14-delete-arm: the DELETE arm's UPDATE path sets neither operation_type nor the flags, so a
     delete after an earlier event of the same transaction keeps the earlier operation type. *)
From Continuum Require Import Model.Base Model.VTable Model.Trigger.

Definition g_val : tcfg := mktcfg [mktc 1 true false; mktc 2 false false] false true.
Theorem C14_refuted_validity_self_close :
  let t1 := texec (gen g_val) (Some 5) (TIns [(1, Some 7); (2, Some 1)]) [] in
  let t2 := texec (gen g_val) (Some 5) (TUpd [(1, Some 7); (2, Some 1)] [(1, Some 7); (2, Some 2)]) t1 in
  map (fun r => (tr_tx r, tr_end r, tr_op r)) t2 = [(5, Some 5, 1)].
Proof. vm_compute. reflexivity. Qed.

Definition g_plain : tcfg := mktcfg [mktc 1 true false; mktc 2 false false] true false.
Theorem C14_refuted_delete_arm :
  let t1 := texec (gen g_plain) (Some 5) (TUpd [(1, Some 7); (2, Some 1)] [(1, Some 7); (2, Some 2)]) [] in
  let t2 := texec (gen g_plain) (Some 5) (TDel [(1, Some 7); (2, Some 2)]) t1 in
  map (fun r => (tr_tx r, tr_op r)) t2 = [(5, 1)].      (* the object path records DELETE (2) *)
Proof. vm_compute. reflexivity. Qed.

Print Assumptions C14_refuted_validity_self_close.
Print Assumptions C14_refuted_delete_arm.
