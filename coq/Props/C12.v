(* C12 — the version schema is derived correctly for every model configuration.
   `build` mirrors table_builder.py and the tracker plugin's column hook; column lists are
   unbounded, attributes range over the alphabet of the pcol record. *)
From Continuum Require Import Model.Base Model.Schema Proofs.SchemaP Gen.SchemaGen Proofs.SchemaGenP.

Theorem C12_kept_column_reflected : forall m c,
  In c (m_cols m) -> pc_excl c = false ->
  In (mkvc (pc_name c) (pc_type c) (pc_pk c)
           (if pc_pk c then (if pc_name c =? m_txn m then false else pc_nullable c) else true)
           false false false false false false) (build m).
Proof. exact kept_column_reflected. Qed.

Theorem C12_excluded_column_absent : forall m c,
  names_ok m -> In c (m_cols m) -> pc_excl c = true ->
  forall v, In v (build m) -> vc_name v <> pc_name c.
Proof. exact excluded_column_absent. Qed.

Theorem C12_primary_key : forall m v,
  m_internal m = true -> In v (build m) -> vc_pk v = true ->
  (v = tx_column m /\ vc_nullable v = false) \/
  (exists c, In c (m_cols m) /\ pc_excl c = false /\ pc_pk c = true /\ vc_name v = pc_name c).
Proof. exact primary_key_shape. Qed.

Theorem C12_transaction_column : forall m, m_internal m = true -> In (tx_column m) (build m).
Proof. exact transaction_column_in_key. Qed.

Theorem C12_other_columns_nullable : forall m c,
  In c (kept m) -> pc_pk c = false -> vc_nullable (reflect_column m c) = true.
Proof. exact non_key_parent_columns_nullable. Qed.

Theorem C12_end_column_iff_validity : forall m,
  names_ok m -> m_internal m = true ->
  ((exists v, In v (build m) /\ vc_name v = m_endn m) <-> m_validity m = true).
Proof. exact end_column_iff_validity. Qed.

Theorem C12_operation_type_column : forall m, m_internal m = true -> In (op_column m) (build m).
Proof. exact operation_type_column_present. Qed.

Theorem C12_flag_columns : forall m c,
  In c (m_cols m) -> pc_excl c = false -> pc_pk c = false ->
  (m_tracker m = true -> In (mod_column m c) (build m)).
Proof. exact flag_columns. Qed.

Theorem C12_no_flag_columns_without_tracker : forall m v,
  m_tracker m = false -> In v (build m) ->
  vc_type v <> T_BOOL \/ exists c, In c (m_cols m) /\ vc_name v = pc_name c.
Proof. exact no_flag_columns_without_tracker. Qed.

(* Open finding F-C07-keyless-association-table, in the model (which IS the code, see C12_build_is_the_code): a parent
   table without primary-key columns - an association table declared with two foreign-key columns only - gets a
   version table whose only key column is the transaction column, so it can hold one row per transaction. *)
Theorem C12_keyless_parent_key_is_transaction_only : forall m v,
  m_internal m = true -> (forall c, In c (m_cols m) -> pc_excl c = true \/ pc_pk c = false) ->
  In v (build m) -> vc_pk v = true -> v = tx_column m.
Proof.
  intros m v Hi Hk Hin Hpk. destruct (C12_primary_key m v Hi Hin Hpk) as [[E _]|[c [Hc [He [Hp _]]]]]; [exact E|].
  destruct (Hk c Hc) as [X|X]; congruence.
Qed.

Example C12_keyless_refuted :
  exists m, m_internal m = true /\ length (m_cols m) = 2%nat /\
            map vc_name (filter vc_pk (build m)) = [m_txn m].
Proof.
  exists (mkm [mkpc 1 10 false true false false false false false true false;
               mkpc 2 10 false true false false false false false true false]
              false false true 100 101 102 (fun n => 200 + n)).
  repeat split; vm_compute; reflexivity.
Qed.

Example C12_example :
  let m := mkm [mkpc 1 10 true false false true false false false false false;
                mkpc 2 11 false false true false true true true true false;
                mkpc 3 10 false true false false false false false false true]
               true true true 100 101 102 (fun n => 200 + n) in
  map vc_name (build m) = [1; 2; 100; 101; 102; 202] /\
  map vc_nullable (build m) = [false; true; false; true; false; false] /\
  map vc_unique (build m) = [false; false; false; false; false; false].
Proof. repeat split; vm_compute; reflexivity. Qed.

(* `build` IS the code: Gen/SchemaGen.v is regenerated on every build from the current
   table_builder.py (ColumnReflector.reflect_column, the internal columns, __iter__) and
   plugins/property_mod_tracker.py (create_mod_column, after_build_version_table_columns) by a
   fail-closed translator (harness/pytrans_schema.py); the generated functions equal the model. *)
Theorem C12_build_is_the_code : forall m, gen_build m = build m.
Proof. exact gen_build_is_model. Qed.

Theorem C12_reflect_column_is_the_code : forall m c, gen_reflect_column m c = reflect_column m c.
Proof. exact gen_reflect_column_is_model. Qed.

Print Assumptions C12_keyless_parent_key_is_transaction_only.
Print Assumptions C12_keyless_refuted.
Print Assumptions C12_kept_column_reflected.
Print Assumptions C12_excluded_column_absent.
Print Assumptions C12_primary_key.
Print Assumptions C12_transaction_column.
Print Assumptions C12_other_columns_nullable.
Print Assumptions C12_end_column_iff_validity.
Print Assumptions C12_operation_type_column.
Print Assumptions C12_flag_columns.
Print Assumptions C12_no_flag_columns_without_tracker.
Print Assumptions C12_example.
Print Assumptions C12_build_is_the_code.
Print Assumptions C12_reflect_column_is_the_code.
