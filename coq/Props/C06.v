(* C06 — rolled-back work leaves no versioning trace, on disk or in memory.
   PARTIAL in one respect: process death is decided by the database's journal, not by this package:
   the model has an atomic database by assumption.  The savepoint clause used to be refuted for the
   code (F-C06-savepoint-inner-flush); since its repair the unit of work is brought back when a
   nested transaction is rolled back and the clause is proved in full. *)
From Continuum Require Import Model.Base Model.VTable Model.Core Model.Savepoint
     Proofs.CoreP Proofs.CoreChainP Proofs.RollbackP Proofs.SavepointP
     Model.Manager Proofs.ManagerP Gen.ManagerGen Proofs.ManagerGenP Gen.UowGen Proofs.UowGenP
     Model.ManagerSp Gen.ManagerSpGen Proofs.ManagerSpGenP Proofs.ManagerSpP.

(* whatever happened inside the transaction - any number of flushes, any partial work, a failure at
   any statement - the rollback restores the committed database and the initial unit of work *)
Theorem C06_rollback_restores : forall g s evs,
  no_commit evs ->
  let s' := step g (fold_left (step g) evs s) Rollback in
  s_db s' = s_committed s /\ s_committed s' = s_committed s /\ s_uow s' = uow0.
Proof. exact rollback_restores. Qed.

(* the rest of the program behaves exactly as if the rolled-back transaction had never been
   attempted: run (p1 ++ failed ++ [Rollback] ++ rest) = run (p1 ++ rest), as whole states *)
Theorem C06_as_if_never_attempted : forall g p1 failed rest,
  cfg_consistent g -> hier_consistent g -> at_boundary (run g p1) -> no_commit failed ->
  run g (p1 ++ failed ++ [Rollback] ++ rest) = run g (p1 ++ rest).
Proof. exact as_if_never_attempted_reachable. Qed.

(* savepoints: rolling a savepoint back restores the database AND the unit of work (transaction
   object, operations, pending statements, version objects) to what they were when it began ... *)
Theorem C06_savepoint_restores : forall g m evs,
  inner_ok evs ->
  let m' := mstep g (fold_left (mstep g) (map MCore evs) (mstep g m SpBegin)) SpRollback in
  s_db (m_core m') = s_db (m_core m) /\ s_uow (m_core m') = s_uow (m_core m) /\
  s_committed (m_core m') = s_committed (m_core m) /\ m_sps m' = m_sps m.
Proof. exact savepoint_rollback_restores. Qed.

(* ... so the whole state is as if the work inside had never been attempted (the package raises no
   error of its own in a reachable state of a consistent configuration: C07_versioning_never_raises) *)
Theorem C06_savepoint_as_if_never_attempted : forall g m evs,
  inner_ok evs ->
  s_err (fold_left (step g) evs (m_core m)) = s_err (m_core m) ->
  mstep g (fold_left (mstep g) (map MCore evs) (mstep g m SpBegin)) SpRollback = m.
Proof. exact savepoint_rollback_full. Qed.

(* in memory: after the rollback of its transaction a session has neither a unit of work nor a map
   entry (Layer M), and the clean-up functions of the model are the code itself - generated from the
   current manager.py on every build (Gen/ManagerGen.v).  Inside a savepoint clear() does nothing,
   savepoints are handled by the savepoint listeners instead (Model/Savepoint.v). *)
Theorem C06_no_state_left_in_memory : forall dbapi closed conn_of,
  forall g G s, owns conn_of s -> smap_ok conn_of G ->
  let G' := gstep dbapi closed g G s Rollback in
  aget (g_uows G') (ss_conn s) = None /\ aget (g_smap G') (ss_id s) = None.
Proof. exact quiescent_after_rollback. Qed.

Theorem C06_clear_connection_is_the_code : forall dbapi closed G c,
  NoDup (map fst (g_smap G)) ->
  gen_clear_connection dbapi closed (g_uows G) (g_smap G) c =
  (g_uows (clear_connection dbapi closed G c), g_smap (clear_connection dbapi closed G c)).
Proof. exact gen_clear_connection_is_clear_connection. Qed.

Theorem C06_clear_is_the_code : forall dbapi closed G s,
  gen_clear dbapi closed false (g_uows G) (g_smap G) (ss_id s) =
  (g_uows (clear dbapi closed G s), g_smap (clear dbapi closed G s)).
Proof. exact gen_clear_is_clear. Qed.

Theorem C06_clear_inside_savepoint_does_nothing : forall dbapi closed U M sid,
  gen_clear dbapi closed true U M sid = (U, M).
Proof. exact gen_clear_nested. Qed.

(* the savepoint state of the CURRENT unit_of_work.py (Gen/UowGen.v, regenerated on every build) is a complete copy
   of the unit of work: every field reset() initialises is captured by savepoint() - mutable ones as copies - and put
   back by rollback_to_savepoint(); the components of the model's unit of work are among them.  This is what
   Model/Savepoint.v assumes when it saves and restores the whole unit of work. *)
Theorem C06_savepoint_state_is_complete_in_the_code : forall f kind,
  In (f, kind) gen_uow_fields ->
  exists how, how_saved f = Some how /\ snapshot_ok kind how = true /\ restored f = true.
Proof. exact savepoint_state_is_complete. Qed.

(* ... and the manager's side of a savepoint rollback (rollback_savepoint: put the remembered unit of work back, or
   drop a unit of work that came into being inside the savepoint together with the session's map entry) is generated
   from the current manager.py as well (harness/pytrans_sp.py) and equals the model's; in any interleaving of
   independent sessions each session then behaves as the single-session machine above (Proofs/ManagerSpP.v) *)
Theorem C06_rollback_savepoint_is_the_code : forall G sid saved,
  gen_rollback_savepoint (g_uows G) (g_smap G) sid saved =
  (g_uows (rollback_savepoint G sid saved), g_smap (rollback_savepoint G sid saved)).
Proof. exact gen_rollback_savepoint_is_model. Qed.

Theorem C06_every_session_is_the_savepoint_machine : forall dbapi closed conn_of,
  (forall a b, conn_of a = conn_of b -> a = b) ->
  forall g s sched,
  owns conn_of s -> sched_ok_sp dbapi closed conn_of s sched ->
  m_of (gsrun dbapi closed g sched) s = mrun g (map mev_of (map snd (filter (mine_sp s) sched))).
Proof. exact interleaved_session_is_savepoint_run. Qed.

Theorem C06_model_unit_of_work_is_in_the_snapshot :
  forallb (fun f => match kind_of f with Some _ => true | None => false end) [F_CUR; F_OPS; F_VOBJS; F_PEND] = true.
Proof. exact model_components_are_fields. Qed.

Definition C06_cfg : cfg :=
  mkcfg true false false false true [mkcls true true 0 [mkcol true false true; mkcol false false true] []].
Definition c6_ins k v := mkev 0 0 [Some k; Some v] [true;true] [] [0%nat;1%nat] false true [false;false].
Definition c6_dirty := [mkobj 0 [false;true] [] true false].
Example C06_example :
  let p1 := [Flush c6_dirty [c6_ins 1 5] []; Commit] in
  let failed := [Flush c6_dirty [c6_ins 2 5] []; Flush c6_dirty [c6_ins 3 5] []] in
  let rest := [Flush c6_dirty [c6_ins 2 7] []; Commit] in
  at_boundary (run C06_cfg p1) /\ no_commit failed /\
  d_tx (s_db (run C06_cfg (p1 ++ failed))) = [1; 2] /\
  d_tx (s_db (run C06_cfg (p1 ++ failed ++ [Rollback] ++ rest))) = [1; 2] /\
  map vid (d_vt (s_db (run C06_cfg (p1 ++ failed ++ [Rollback] ++ rest)))) = [([0;1], 1); ([0;2], 2)].
Proof.
  split; [split; reflexivity|]. split; [unfold no_commit; simpl; intuition discriminate|].
  repeat split; vm_compute; reflexivity.
Qed.

Print Assumptions C06_rollback_restores.
Print Assumptions C06_as_if_never_attempted.
Print Assumptions C06_savepoint_restores.
Print Assumptions C06_savepoint_as_if_never_attempted.
Print Assumptions C06_example.
Print Assumptions C06_no_state_left_in_memory.
Print Assumptions C06_clear_connection_is_the_code.
Print Assumptions C06_clear_is_the_code.
Print Assumptions C06_clear_inside_savepoint_does_nothing.
Print Assumptions C06_savepoint_state_is_complete_in_the_code.
Print Assumptions C06_rollback_savepoint_is_the_code.
Print Assumptions C06_every_session_is_the_savepoint_machine.
Print Assumptions C06_model_unit_of_work_is_in_the_snapshot.
