(* C14 — generated native triggers version rows like the object-based path.
   PARTIAL: no PostgreSQL exists in the sandbox; texec (Model/Trigger.v) is a hand-written semantics
   of the statement forms the templates can produce and is in the trusted base.  Proved: alignment
   and completeness of every generated upsert for every configuration; no write without an active
   transaction or for a no-op update; for the first event on a row within a transaction (no
   validity) the appended row is exactly the object path's row.  The full statement (several events
   on one row within a transaction, with validity / flags / DELETE arm) is refuted for the code as
   it is: Refuted/C14_refuted.v (open findings). *)
From Continuum Require Import Model.Base Model.VTable Model.Trigger Proofs.TriggerP.

Theorem C14_columns_and_values_aligned : forall g,
  Forall2 aligned1 (up_cols (tp_ins (gen g))) (up_vals (tp_ins (gen g))) /\
  Forall2 aligned1 (up_cols (tp_upd (gen g))) (up_vals (tp_upd (gen g))) /\
  Forall2 aligned1 (up_cols (tp_del (gen g))) (up_vals (tp_del (gen g))).
Proof. exact gen_aligned. Qed.

Theorem C14_every_versioned_column_written : forall g c,
  In c (tg_cols g) ->
  (tc_excl c = false -> In (CCol (tc_name c)) (up_cols (tp_ins (gen g))) /\
                        In (CCol (tc_name c)) (up_cols (tp_upd (gen g))) /\
                        In (CCol (tc_name c)) (up_cols (tp_del (gen g)))) /\
  (tc_excl c = true -> In (tc_name c) (tp_excluded (gen g))).
Proof. exact gen_complete. Qed.

Theorem C14_excluded_array_exact : forall g n,
  In n (tp_excluded (gen g)) <-> exists c, In c (tg_cols g) /\ tc_excl c = true /\ tc_name c = n.
Proof. exact gen_excluded_exact. Qed.

Theorem C14_nothing_without_transaction : forall p e t, texec p None e t = t.
Proof. exact texec_no_transaction. Qed.

Theorem C14_nothing_for_noop_update : forall p T old new t,
  noop_update p old new = true -> texec p (Some T) (TUpd old new) t = t.
Proof. exact texec_noop_update. Qed.

Theorem C14_partial_first_insert : forall g T new t,
  tg_validity g = false -> no_row_at (tp_ins (gen g)) T [] new t ->
  texec (gen g) (Some T) (TIns new) t =
  t ++ [mktr T None OP_INS (map (fun c => (tc_name c, pget new (tc_name c))) (tcols g))
             (if tg_tracker g then map (fun c => (tc_name c, true)) (tnonpk g) else [])].
Proof. exact texec_first_insert. Qed.

Theorem C14_partial_first_update : forall g T old new t,
  tg_validity g = false -> noop_update (gen g) old new = false ->
  no_row_at (tp_upd (gen g)) T old new t ->
  texec (gen g) (Some T) (TUpd old new) t =
  t ++ [mktr T None OP_UPD (map (fun c => (tc_name c, pget new (tc_name c))) (tcols g))
             (if tg_tracker g
              then map (fun c => (tc_name c, distinct (pget old (tc_name c)) (pget new (tc_name c)))) (tnonpk g)
              else [])].
Proof. exact texec_first_update. Qed.

Theorem C14_partial_first_delete : forall g T old t,
  tg_validity g = false -> no_row_at (tp_del (gen g)) T old [] t ->
  texec (gen g) (Some T) (TDel old) t =
  t ++ [mktr T None OP_DEL (map (fun c => (tc_name c, pget old (tc_name c))) (tcols g))
             (if tg_tracker g then map (fun c => (tc_name c, true)) (tnonpk g) else [])].
Proof. exact texec_first_delete. Qed.

Example C14_example :
  let g := mktcfg [mktc 1 true false; mktc 2 false false; mktc 3 false true] true false in
  texec (gen g) (Some 5) (TIns [(1, Some 7); (2, Some 8); (3, Some 9)]) [] =
    [mktr 5 None 0 [(1, Some 7); (2, Some 8)] [(2, true)]] /\
  texec (gen g) (Some 6) (TUpd [(1, Some 7); (2, Some 8); (3, Some 9)] [(1, Some 7); (2, Some 8); (3, Some 0)]) [] = [].
Proof. split; vm_compute; reflexivity. Qed.

Print Assumptions C14_columns_and_values_aligned.
Print Assumptions C14_every_versioned_column_written.
Print Assumptions C14_excluded_array_exact.
Print Assumptions C14_nothing_without_transaction.
Print Assumptions C14_nothing_for_noop_update.
Print Assumptions C14_partial_first_insert.
Print Assumptions C14_partial_first_update.
Print Assumptions C14_partial_first_delete.
Print Assumptions C14_example.
