(* C14 — generated native triggers version rows like the object-based path.
   PARTIAL only in this respect: no PostgreSQL exists in the sandbox.  texec (Model/Trigger.v) is a
   hand-written semantics of the statement forms the templates can produce; on every run it is compared
   with SQLite EXECUTING the generated statements on the real version table (harness/pC14.py), and the
   generated text is parsed back (fail-closed) and compared with `gen`.  Over the model the statement is
   FULL: for every configuration with distinct column names and every sequence of row events grouped into
   transactions - several events on one row within one transaction, deletes and re-inserts, validity
   on/off, modification tracking on/off, excluded columns, events without an active transaction - the
   generated trigger program leaves exactly the version rows the object-based path leaves
   (C14_trigger_program_equals_object_path).  The two defects that refuted this for the original code
   (F-C14-validity-self-close, F-C14-delete-arm) were repaired in /repo. *)
From Continuum Require Import Model.Base Model.VTable Model.Trigger Model.TriggerSpec Proofs.TriggerP Proofs.TriggerFullP.

Theorem C14_columns_and_values_aligned : forall g,
  Forall2 aligned1 (up_cols (tp_ins (gen g))) (up_vals (tp_ins (gen g))) /\
  Forall2 aligned1 (up_cols (tp_upd (gen g))) (up_vals (tp_upd (gen g))) /\
  Forall2 aligned1 (up_cols (tp_del (gen g))) (up_vals (tp_del (gen g))).
Proof. exact gen_aligned. Qed.

Theorem C14_every_versioned_column_written : forall g c,
  In c (tg_cols g) ->
  (tc_excl c = false -> In (CCol (tc_name c)) (up_cols (tp_ins (gen g))) /\
                        In (CCol (tc_name c)) (up_cols (tp_upd (gen g))) /\
                        In (CCol (tc_name c)) (up_cols (tp_del (gen g)))) /\
  (tc_excl c = true -> In (tc_name c) (tp_excluded (gen g))).
Proof. exact gen_complete. Qed.

Theorem C14_excluded_array_exact : forall g n,
  In n (tp_excluded (gen g)) <-> exists c, In c (tg_cols g) /\ tc_excl c = true /\ tc_name c = n.
Proof. exact gen_excluded_exact. Qed.

Theorem C14_nothing_without_transaction : forall p e t, texec p None e t = t.
Proof. exact texec_no_transaction. Qed.

Theorem C14_nothing_for_noop_update : forall p T old new t,
  noop_update p old new = true -> texec p (Some T) (TUpd old new) t = t.
Proof. exact texec_noop_update. Qed.

Theorem C14_partial_first_insert : forall g T new t,
  tg_validity g = false -> no_row_at (tp_ins (gen g)) T [] new t ->
  texec (gen g) (Some T) (TIns new) t =
  t ++ [mktr T None OP_INS (map (fun c => (tc_name c, pget new (tc_name c))) (tcols g))
             (if tg_tracker g then map (fun c => (tc_name c, true)) (tnonpk g) else [])].
Proof. exact texec_first_insert. Qed.

Theorem C14_partial_first_update : forall g T old new t,
  tg_validity g = false -> noop_update (gen g) old new = false ->
  no_row_at (tp_upd (gen g)) T old new t ->
  texec (gen g) (Some T) (TUpd old new) t =
  t ++ [mktr T None OP_UPD (map (fun c => (tc_name c, pget new (tc_name c))) (tcols g))
             (if tg_tracker g
              then map (fun c => (tc_name c, distinct (pget old (tc_name c)) (pget new (tc_name c)))) (tnonpk g)
              else [])].
Proof. exact texec_first_update. Qed.

Theorem C14_partial_first_delete : forall g T old t,
  tg_validity g = false -> no_row_at (tp_del (gen g)) T old [] t ->
  texec (gen g) (Some T) (TDel old) t =
  t ++ [mktr T None OP_DEL (map (fun c => (tc_name c, pget old (tc_name c))) (tcols g))
             (if tg_tracker g then map (fun c => (tc_name c, true)) (tnonpk g) else [])].
Proof. exact texec_first_delete. Qed.

(* FULL statement.  evs_ok (Proofs/TriggerFullP.v) says what a sequence of row events is: transaction ids
   do not go backwards, rows carry exactly the configured columns, and an INSERT arrives for a row that
   already has a version in this transaction only if that version is a DELETE (the row was deleted
   earlier in the transaction).  spec_run (Model/TriggerSpec.v) is the object-based path. *)
Theorem C14_trigger_program_equals_object_path : forall g evs,
  NoDup (map tc_name (tg_cols g)) -> evs_ok g [] evs ->
  fold_left (fun t te => texec (gen g) (fst te) (snd te) t) evs [] = spec_run g evs.
Proof. exact trigger_program_equals_object_path. Qed.

(* one event, from any table satisfying the invariants (the inductive step), and the invariants *)
Theorem C14_one_event : forall g, NoDup (map tc_name (tg_cols g)) ->
  forall T e t, inv g t -> ev_ok g T e t ->
  texec (gen g) (Some T) e t = spec_step g T e t /\ inv g (spec_step g T e t).
Proof. intros g ND T e t I H. split; [apply step_eq | apply step_inv]; assumption. Qed.

(* the hypotheses are decidable; the check evaluates them on every generated event sequence *)
Theorem C14_hypotheses_decidable : forall g evs t, evs_okb g t evs = true -> evs_ok g t evs.
Proof. exact evs_okb_sound. Qed.

(* non-vacuity: insert, two updates and a delete + re-insert of one row inside transaction 5, then
   transaction 6; validity and tracking on, one excluded column *)
Definition C14_g : tcfg := mktcfg [mktc 1 true false; mktc 2 false false; mktc 3 false true] true true.
Definition c14_row (a b : Z) : prow := [(1, Some 7); (2, Some a); (3, Some b)].
Definition C14_evs : list (option Z * tevent) :=
  [ (Some 5, TIns (c14_row 1 0)); (Some 5, TUpd (c14_row 1 0) (c14_row 2 0)); (Some 5, TUpd (c14_row 2 0) (c14_row 2 9));
    (Some 5, TDel (c14_row 2 9)); (Some 5, TIns (c14_row 3 0)); (None, TUpd (c14_row 3 0) (c14_row 4 0));
    (Some 6, TUpd (c14_row 4 0) (c14_row 5 0)) ].
Example C14_full_example :
  evs_okb C14_g [] C14_evs = true /\ NoDup (map tc_name (tg_cols C14_g)) /\
  map (fun r => (tr_tx r, tr_end r, tr_op r, tr_dat r, tr_mod r)) (spec_run C14_g C14_evs) =
  [ (5, Some 6, 1, [(1, Some 7); (2, Some 3)], [(2, true)]);
    (6, None, 1, [(1, Some 7); (2, Some 5)], [(2, true)]) ].
Proof.
  split; [vm_compute; reflexivity|]. split; [|vm_compute; reflexivity].
  simpl. repeat constructor; simpl; intuition discriminate.
Qed.

Example C14_example :
  let g := mktcfg [mktc 1 true false; mktc 2 false false; mktc 3 false true] true false in
  texec (gen g) (Some 5) (TIns [(1, Some 7); (2, Some 8); (3, Some 9)]) [] =
    [mktr 5 None 0 [(1, Some 7); (2, Some 8)] [(2, true)]] /\
  texec (gen g) (Some 6) (TUpd [(1, Some 7); (2, Some 8); (3, Some 9)] [(1, Some 7); (2, Some 8); (3, Some 0)]) [] = [].
Proof. split; vm_compute; reflexivity. Qed.

Print Assumptions C14_columns_and_values_aligned.
Print Assumptions C14_every_versioned_column_written.
Print Assumptions C14_excluded_array_exact.
Print Assumptions C14_nothing_without_transaction.
Print Assumptions C14_nothing_for_noop_update.
Print Assumptions C14_partial_first_insert.
Print Assumptions C14_partial_first_update.
Print Assumptions C14_partial_first_delete.
Print Assumptions C14_example.
Print Assumptions C14_trigger_program_equals_object_path.
Print Assumptions C14_one_event.
Print Assumptions C14_hypotheses_decidable.
Print Assumptions C14_full_example.
