(* C05 — reverting to a version restores exactly the state that version recorded.
   Model: Reverter on the blog shape (columns, one-to-many, many-to-many, many-to-one; one level of
   relationships).  PARTIAL: for dotted relationship paths there is no functional model of the result; `reach`
   (Model/Revert.v) lists the versions the call visits, following first_level / subpaths of reverter.py
   (C05_first_level_spec, C05_subpaths_spec), and the check requires of every entity reached once that it holds
   the values of the version it was reached by (Checks/C05chk.v nested_ok).
   "Which children / links the version shows" is C04; "the revert is itself versioned like any other
   change" is C01 applied to the recorded revert transaction (checked on every run). *)
From Continuum Require Import Model.Base Model.VTable Model.Rel Model.Revert Proofs.RevertP.

Theorem C05_columns_restored : forall tt tl av L v,
  vop v <> OP_DEL ->
  let L' := revert_article tt tl av L v false false in
  lget (rl_art L') (key0 v) =
    Some (vdat v ++ [match lget (rl_art L) (key0 v) with Some [_; _; x] => x | _ => None end]) /\
  (forall k', k' <> key0 v -> lget (rl_art L') k' = lget (rl_art L) k') /\
  rl_tag L' = rl_tag L /\ rl_lab L' = rl_lab L /\ rl_lnk L' = rl_lnk L.
Proof. exact revert_article_columns. Qed.

Theorem C05_delete_version_leaves_entity_absent : forall tt tl av L v tags labels,
  vop v = OP_DEL -> lget (rl_art (revert_article tt tl av L v tags labels)) (key0 v) = None.
Proof. exact revert_article_delete. Qed.

Theorem C05_unnamed_relationships_untouched : forall tt tl av L v,
  vop v <> OP_DEL ->
  rl_tag (revert_article tt tl av L v false true) = rl_tag L /\
  rl_lnk (revert_article tt tl av L v true false) = rl_lnk L.
Proof. exact revert_article_unnamed_untouched. Qed.

Theorem C05_links_reset : forall tt tl av L v tags l,
  vop v <> OP_DEL ->
  (In (key0 v, l) (rl_lnk (revert_article tt tl av L v tags true)) <->
   exists c, In c (rel_m2m av tl v) /\ key0 c = l).
Proof. exact revert_article_links. Qed.

Theorem C05_children_added_since_go_away : forall tt tl av L v labels k a fk,
  vop v <> OP_DEL ->
  In (k, [a; fk]) (rl_tag (revert_article tt tl av L v true labels)) ->
  sql_eq fk (Some (key0 v)) = true ->
  exists c, In c (rel_o2m 1 tt v) /\ key0 c = k.
Proof. exact revert_article_removes_later_children. Qed.

(* dotted paths: the relationship names restored at a node are the first segments of the paths handed to it, the
   paths handed to a child reached by relationship r are the remainders of the paths that start with r and go on *)
Theorem C05_first_level_spec : forall paths h, In h (heads paths) <-> exists t, In (h :: t) paths.
Proof. exact heads_In. Qed.
Theorem C05_subpaths_spec : forall paths r p, In p (subpaths paths r) <-> p <> [] /\ In (r :: p) paths.
Proof. exact subpaths_In. Qed.

(* the traversal on a three-segment path: article 1 -> label 1 -> article 2 -> tag 1 *)
Example C05_reach_example :
  let T := mkrt [mkv [1] 1 None 0 [Some 1; None] []; mkv [2] 1 None 0 [Some 1; None] []; mkv [2] 2 None 1 [Some 2; None] []]
                [mkv [1] 1 None 0 [Some 1; Some 2] []; mkv [1] 2 None 1 [Some 2; Some 2] []]
                [mkv [1] 1 None 0 [Some 1] []]
                [mklnk 1 1 1 0; mklnk 2 1 1 0] in
  map (fun n => (rn_cls n, rn_key n, rn_tx n)) (reach 6 T (0%nat, 1) 0 (mkv [1] 1 None 0 [Some 1; None] []) [[R_LABELS; R_ARTICLES; R_TAGS]]) =
  [(0%nat, 1, 1); (2%nat, 1, 1); (0%nat, 2, 1); (1%nat, 1, 1)].
Proof. vm_compute. reflexivity. Qed.

Example C05_example :
  let tt := [mkv [1] 1 None 0 [Some 0; Some 7] []; mkv [2] 3 None 0 [Some 0; Some 7] []] in
  let L := mkrl [(7, [Some 5; None; Some 9])] [(1, [Some 0; None]); (2, [Some 0; Some 7])] [] [] in
  let v := mkv [7] 2 None 1 [Some 4; Some 4] [] in
  revert_article tt [] [] L v true false =
  mkrl [(7, [Some 4; Some 4; Some 9])] [(1, [Some 0; Some 7])] [] [].
Proof. vm_compute. reflexivity. Qed.

Print Assumptions C05_columns_restored.
Print Assumptions C05_delete_version_leaves_entity_absent.
Print Assumptions C05_unnamed_relationships_untouched.
Print Assumptions C05_links_reset.
Print Assumptions C05_children_added_since_go_away.
Print Assumptions C05_first_level_spec.
Print Assumptions C05_subpaths_spec.
Print Assumptions C05_reach_example.
Print Assumptions C05_example.
