(* C20 — count_versions equals the number of versions for any key value.
   The theorem is small: the model of the SQL COUNT equals the length of the versions collection
   for every table and key.  What the property adds - that the code computes this count for every
   key string - is the job of the correspondence check, which drives adversarial key values. *)
From Continuum Require Import Model.Base Model.VTable Model.Count Proofs.VTableP Proofs.CountP.

Theorem C20_count_is_number_of_versions : forall t k,
  count_versions t k = length (versions t k).
Proof. exact count_is_versions_length. Qed.

Theorem C20_no_rows_no_count : forall t k,
  (forall r, In r t -> vkey r <> k) -> count_versions t k = 0%nat.
Proof. exact count_absent. Qed.

Example C20_example :
  count_versions [mkv [1;7] 1 None 0 [] []; mkv [1;8] 2 None 0 [] []; mkv [1;7] 3 None 1 [] []] [1;7] = 2%nat.
Proof. reflexivity. Qed.

Print Assumptions C20_count_is_number_of_versions.
Print Assumptions C20_no_rows_no_count.
Print Assumptions C20_example.
