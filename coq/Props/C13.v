(* C13 — excluded columns are never stored and never cause a version.
   One predicate decides exclusion everywhere in the model: a column/relationship is excluded iff
   its key is in `exclude` and not in `include` (c_excl / r_excl, reflected from the configuration).
   Schema clause (no counterpart column): Props/C12.v.  Revert clause: Props/C05.v. *)
From Continuum Require Import Model.Base Model.VTable Model.Core
     Proofs.CoreP Proofs.CoreChainP Proofs.TrackP Proofs.RowsP Proofs.LiveP Proofs.CoreC01P.

(* an update whose history shows changes on excluded columns and on excluded (or unversioned)
   relationships only is not tracked ... *)
Theorem C13_excluded_only_update_not_tracked : forall g e,
  let cc := cls_of g (e_cls e) in
  e_kind e = OP_UPD ->
  (forall i c chg, nth_error (k_cols cc) i = Some c -> nth_error (e_colchg e) i = Some chg ->
                   chg = true -> c_excl c = true) ->
  (forall j r chg, nth_error (k_rels cc) j = Some r -> nth_error (e_relchg e) j = Some chg ->
                   chg = true -> rel_versioned cc r = false) ->
  tracked g e = false.
Proof. exact excluded_only_update_untracked. Qed.

(* ... and untracked entities get no row: every row a flush adds belongs to a tracked event *)
Theorem C13_no_row_without_tracked_change : forall g s objs ents assoc,
  cfg_consistent g -> flat_cfg g -> g_versioning g = true -> g_native g = false ->
  InvAll g s -> Inv3 g s -> flush_wf g (d_live (s_db s)) objs ents ->
  forall r', In r' (d_vt (s_db (flush g s objs ents assoc))) ->
    (exists r, In r (d_vt (s_db s)) /\ vkey r = vkey r' /\ vtx r = vtx r' /\ vop r = vop r' /\ vdat r = vdat r') \/
    (exists e, In e ents /\ tracked g e = true /\
               vkey r' = k_tab (cls_of g (e_cls e)) :: ev_key g e /\
               u_cur (s_uow (flush g s objs ents assoc)) = Some (vtx r')).
Proof. exact flush_rows_only_for_tracked. Qed.

(* no transaction record either: an object with such changes only does not make the session count
   as modified, and a flush without a modified object creates no record *)
Theorem C13_excluded_only_object_not_modified : forall g o,
  let cc := cls_of g (o_cls o) in
  o_new o = false -> o_del o = false ->
  (forall i c chg, nth_error (k_cols cc) i = Some c -> nth_error (o_colchg o) i = Some chg ->
                   chg = true -> c_excl c = true) ->
  (forall j r chg, nth_error (k_rels cc) j = Some r -> nth_error (o_relchg o) j = Some chg ->
                   chg = true -> rel_versioned cc r = false) ->
  obj_modified g o = false.
Proof. exact excluded_only_object_unmodified. Qed.

Theorem C13_no_record_without_modification : forall g s objs ents assoc,
  g_versioning g = true -> u_cur (s_uow s) = None ->
  existsb (obj_modified g) objs || existsb (tracked g) ents = false ->
  d_tx (s_db (flush g s objs ents assoc)) = d_tx (s_db s) /\
  u_cur (s_uow (flush g s objs ents assoc)) = None.
Proof.
  intros g s objs ents assoc Hv Hc Hm.
  exact (proj1 (flush_creates_at_most_one g s objs ents assoc Hv Hc) Hm).
Qed.

(* versions written for other reasons carry no trace of excluded values: the stored data and the
   key are functions of the non-excluded column values only *)
Theorem C13_version_data_ignores_excluded : forall cc vals vals',
  (forall c, In c (k_cols cc) -> c_pk c = true -> c_excl c = false) ->
  agree_on (ver_flags cc) vals vals' ->
  dat_of cc vals = dat_of cc vals' /\ key_of cc vals = key_of cc vals'.
Proof. exact version_data_ignores_excluded. Qed.

Definition C13_cls : clscfg :=
  mkcls true true 0 [mkcol true false true; mkcol false false true; mkcol false true true]
        [mkrel O2M [0%nat] true; mkrel M2O [1%nat] false].
Example C13_example :
  let g := mkcfg true false false false false [C13_cls] in
  tracked g (mkev 0 1 [Some 1; Some 5; Some 9] [false;false;true] [true;false] [2%nat;3%nat] false false [false;false;false]) = false /\
  tracked g (mkev 0 1 [Some 1; Some 6; Some 9] [false;true;true] [false;false] [1%nat;2%nat] false false [false;false;false]) = true /\
  dat_of C13_cls [Some 1; Some 5; Some 9] = dat_of C13_cls [Some 1; Some 5; None].
Proof. repeat split; reflexivity. Qed.

Print Assumptions C13_excluded_only_update_not_tracked.
Print Assumptions C13_no_row_without_tracked_change.
Print Assumptions C13_excluded_only_object_not_modified.
Print Assumptions C13_no_record_without_modification.
Print Assumptions C13_version_data_ignores_excluded.
Print Assumptions C13_example.
