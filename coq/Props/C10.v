(* C10 — many-to-many link history is recorded per transaction and reconstructible. *)
From Continuum Require Import Model.Base Model.VTable Model.Core Proofs.CoreP Proofs.AssocP.

(* after the link / unlink statements of one transaction (any number, any order, the same pair
   several times) have been written with the current id - which is at least every id in the table -
   replaying the association-version rows (newest row per pair, linked iff not a DELETE) yields
   exactly the live link set *)
Theorem C10_replay_yields_live_links : forall T pend av alive,
  (forall r, In r av -> a_tx r <= T) -> links_agree av alive ->
  links_agree (fold_left (write_assoc T) pend av) (fold_left apply_assoc pend alive).
Proof. exact replay_yields_live_links. Qed.

(* at most one row per link per transaction *)
Theorem C10_one_row_per_link_per_transaction : forall T av p,
  NoDup (map a_id av) -> NoDup (map a_id (write_assoc T av p)).
Proof. exact write_assoc_nodup. Qed.

(* rows of other transactions (and hence the replay up to any earlier transaction) are untouched *)
Theorem C10_earlier_transactions_untouched : forall T av p r,
  a_tx r <> T -> (In r (write_assoc T av p) <-> In r av).
Proof. exact write_assoc_frame. Qed.

(* all association-version rows carry an existing transaction id: Props/C02.v, C02_no_dangling_reference *)

Example C10_example :
  let av := fold_left (write_assoc 2) [mkas 0 [1;1] 0; mkas 0 [1;2] 0; mkas 0 [1;1] 2]
              [mka 0 [1;3] 1 0] in
  map (fun r => (a_key r, a_tx r, a_op r)) av = [([1;3], 1, 0); ([1;2], 2, 0); ([1;1], 2, 2)] /\
  fold_left apply_assoc [mkas 0 [1;1] 0; mkas 0 [1;2] 0; mkas 0 [1;1] 2] [(0, [1;3])] = [(0, [1;3]); (0, [1;2])].
Proof. split; vm_compute; reflexivity. Qed.

Print Assumptions C10_replay_yields_live_links.
Print Assumptions C10_one_row_per_link_per_transaction.
Print Assumptions C10_earlier_transactions_untouched.
Print Assumptions C10_example.
