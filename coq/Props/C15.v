(* C15 — changesets and modification flags equal the column-wise difference.
   (a) changeset, (c) flag back-fill are Layer-A statements over every version table;
   (b) flags written by the object path is stated in Props/C15b.v over the unit-of-work model. *)
From Continuum Require Import Model.Base Model.VTable Model.Backfill Model.Changeset
     Proofs.BaseP Proofs.VTableP Proofs.ChangesetP.

(* (a) the changeset of the i-th version is the difference to the (i-1)-th (to nothing for i = 0) *)
Theorem C15a_changeset_subquery : forall t k i r,
  pk_unique t -> nth_error (versions t k) i = Some r ->
  changeset_S t r = changeset (match i with O => None | S j => nth_error (versions t k) j end) r.
Proof. exact changeset_S_position. Qed.

Theorem C15a_changeset_validity : forall t k i r,
  pk_unique t -> chain_ok t -> nth_error (versions t k) i = Some r ->
  changeset_V t r = changeset (match i with O => None | S j => nth_error (versions t k) j end) r.
Proof. exact changeset_V_position. Qed.

(* ... and contains exactly the columns whose value differs, mapped to (old, new) *)
Theorem C15a_changeset_entries : forall prev r c o n,
  In (c, o, n) (changeset prev r) <->
  nth_error (cols_of r) c = Some n /\
  o = nth c (match prev with Some p => cols_of p | None => [] end) None /\ o <> n.
Proof. exact changeset_entries. Qed.

(* (c) the back-fill switches on exactly the flags of columns that differ from the predecessor
   (all of them for a first version), NULL being an ordinary value; nothing else changes *)
Theorem C15c_backfill_flags : forall t k i r,
  pk_unique t -> chain_ok t -> nth_error (versions t k) i = Some r ->
  In (set_mod r (expected_flags t k i r)) (backfill_flags t).
Proof. exact backfill_flags_row. Qed.

Theorem C15c_backfill_frame : forall t, map strip_mod (backfill_flags t) = map strip_mod t.
Proof. exact backfill_flags_frame. Qed.

Definition C15_ex : vtable :=
  [ mkv [1] 1 (Some 3) 0 [Some 7; None] [false;false]; mkv [2] 2 None 0 [Some 8; None] [false;false];
    mkv [1] 3 None 1 [None; None] [false;false] ].
Example C15_example :
  pk_unique C15_ex /\ chain_ok C15_ex /\
  changeset_V C15_ex (mkv [1] 3 None 1 [None; None] [false;false]) = [(1%nat, Some 7, None)] /\
  map vmod (backfill_flags C15_ex) = [[true;true]; [true;true]; [true;false]].
Proof.
  split; [|split; [|split]].
  - unfold pk_unique. repeat constructor; simpl; intuition discriminate.
  - apply chain_okb_spec. vm_compute. reflexivity.
  - vm_compute. reflexivity.
  - vm_compute. reflexivity.
Qed.

Print Assumptions C15a_changeset_subquery.
Print Assumptions C15a_changeset_validity.
Print Assumptions C15a_changeset_entries.
Print Assumptions C15c_backfill_flags.
Print Assumptions C15c_backfill_frame.
Print Assumptions C15_example.
