(* C18 — activities are stamped once and point at the as-of version. *)
From Continuum Require Import Model.Base Model.VTable Model.Rel Model.Core Model.Activity
     Proofs.BaseP Proofs.VTableP Proofs.RelP Proofs.CoreP Proofs.ActivityP.

(* the pointer computed for an activity's object / target is the transaction id of the newest
   version of that entity at or before the current transaction *)
Theorem C18_pointer_is_as_of_version : forall vt K cur,
  pk_unique vt -> (forall r, In r vt -> vkey r = K -> vtx r <= cur) ->
  calc_tx vt K cur = option_map vtx (as_of vt K cur).
Proof. exact calc_tx_is_as_of. Qed.

(* the premise holds in every reachable state: the current transaction id is the maximum of the
   transaction table and every version row's id is in that table *)
Theorem C18_current_transaction_is_maximal : forall g evs T,
  u_cur (s_uow (run g evs)) = Some T ->
  forall r, In r (d_vt (s_db (run g evs))) -> vtx r <= T.
Proof.
  intros g evs T HT r Hr. destruct (run_invw g evs) as [[V _] [_ [Hcur _]]].
  destruct (Hcur T HT) as [_ Hmax]. apply Hmax. apply V. exact Hr.
Qed.

(* an activity that is not pending does not make the session count as modified, hence creates no
   transaction record: it is recorded as an object that is neither new nor deleted nor changed *)
Theorem C18_old_activities_create_no_record : forall g s objs ents assoc,
  g_versioning g = true -> u_cur (s_uow s) = None ->
  existsb (obj_modified g) objs || existsb (tracked g) ents = false ->
  d_tx (s_db (flush g s objs ents assoc)) = d_tx (s_db s).
Proof.
  intros g s objs ents assoc Hv Hc Hm.
  exact (proj1 (proj1 (flush_creates_at_most_one g s objs ents assoc Hv Hc) Hm)).
Qed.

Example C18_example :
  let vt := [mkv [0;1] 1 None 0 [] []; mkv [0;1] 3 None 1 [] []; mkv [0;2] 2 None 0 [] []] in
  calc_tx vt [0;1] 3 = Some 3 /\ calc_tx vt [0;1] 4 = Some 3 /\ calc_tx vt [0;2] 4 = Some 2 /\ calc_tx vt [0;9] 4 = None.
Proof. repeat split; reflexivity. Qed.

Print Assumptions C18_pointer_is_as_of_version.
Print Assumptions C18_current_transaction_is_maximal.
Print Assumptions C18_old_activities_create_no_record.
Print Assumptions C18_example.
