(* C11 — flushes inside one transaction coalesce into one version per entity.
   Clauses: (1) at most one row per entity per transaction, (2) operation type = coalesced flushed
   operations, (3) the row holds the state of the last flushed change, its predecessor is closed
   once, flags accumulate.  (1) and (2) are stated here; (3) is C11_row_matches_operation. *)
From Continuum Require Import Model.Base Model.VTable Model.Core
     Proofs.CoreP Proofs.ChainP Proofs.CoreChainP Proofs.TrackP Gen.ManagerGen Proofs.ManagerGenP.

(* (1) however many flushes: the table primary key (entity key, transaction id) holds in every
   reachable state - a transaction leaves at most one row per entity - and the package never
   trips over a row it wrote in an earlier flush of the same transaction *)
Theorem C11_at_most_one_row : forall g evs,
  cfg_consistent g -> hier_consistent g ->
  pk_unique (d_vt (s_db (run g evs))) /\ s_err (run g evs) = false.
Proof.
  intros g evs CC FH. split; [apply (reachable_tables_ok g evs CC FH) | apply reachable_no_error; assumption].
Qed.

(* (2) the operation type recorded for an entity after ANY sequence of insert / update / delete
   events (spread over any number of flushes: the map persists across flushes) is the coalesced
   one: the last tracked kind, except that an insert on an entity that already has an entry in
   this transaction (delete followed by re-insert) counts as UPDATE *)
Theorem C11_operation_type_coalesces : forall g c k es ops,
  option_map op_kind (op_at (fold_left (track g) es ops) c k) =
  coalesce_kinds (option_map op_kind (op_at ops c k)) (kinds_for g c k es).
Proof. exact track_coalesces. Qed.

(* the kinds the model's trackers store are those Operations.add_insert / add_delete store in the
   CURRENT operation.py (Gen/ManagerGen.v is regenerated from it on every build) *)
Theorem C11_insert_kind_is_the_code : forall g ops e,
  k_versioned (cls_of g (e_cls e)) = true -> e_kind e = OP_INS ->
  track g ops e =
  put_op (mk_oper (cls_of g (e_cls e)) e
            (gen_add_insert (existsb (same_op (e_cls e) (key_of (cls_of g (e_cls e)) (e_vals e))) ops))) ops.
Proof. exact track_insert_uses_generated_kind. Qed.

Theorem C11_delete_kind_is_the_code : forall g ops e,
  k_versioned (cls_of g (e_cls e)) = true -> e_kind e = OP_DEL ->
  track g ops e = put_op (mk_oper (cls_of g (e_cls e)) e (gen_add_delete true)) ops.
Proof. exact track_delete_uses_generated_kind. Qed.

Theorem C11_operation_constants_are_the_code :
  gen_OP_INSERT = OP_INS /\ gen_OP_UPDATE = OP_UPD /\ gen_OP_DELETE = OP_DEL.
Proof. exact gen_operation_constants. Qed.

(* events of other entities never disturb an entity's entry *)
Theorem C11_other_entities_do_not_interfere : forall g c k es ops,
  kinds_for g c k es = [] -> op_at (fold_left (track g) es ops) c k = op_at ops c k.
Proof. exact track_frame. Qed.

(* the predecessor is closed with this transaction's id and nothing else of the entity changes:
   C03_write_preserves_chain (Props/C03.v) *)

Example C11_example :
  coalesce_kinds None [OP_INS; OP_UPD] = Some OP_UPD /\
  coalesce_kinds None [OP_INS; OP_DEL] = Some OP_DEL /\
  coalesce_kinds None [OP_DEL; OP_INS] = Some OP_UPD /\
  coalesce_kinds None [OP_UPD; OP_DEL; OP_INS; OP_UPD] = Some OP_UPD /\
  coalesce_kinds None [OP_INS] = Some OP_INS.
Proof. repeat split; reflexivity. Qed.

Print Assumptions C11_at_most_one_row.
Print Assumptions C11_operation_type_coalesces.
Print Assumptions C11_other_entities_do_not_interfere.
Print Assumptions C11_example.
Print Assumptions C11_insert_kind_is_the_code.
Print Assumptions C11_delete_kind_is_the_code.
Print Assumptions C11_operation_constants_are_the_code.
