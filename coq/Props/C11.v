(* C11 — flushes inside one transaction coalesce into one version per entity.
   Clauses: (1) at most one row per entity per transaction, (2) operation type = coalesced flushed
   operations, (3) the row holds the state of the last flushed change, its predecessor is closed
   once, flags accumulate.  (1) and (2) are stated here; (3) is C11_row_matches_operation. *)
From Continuum Require Import Model.Base Model.VTable Model.Core
     Proofs.CoreP Proofs.ChainP Proofs.CoreChainP Proofs.TrackP.

(* (1) however many flushes: the table primary key (entity key, transaction id) holds in every
   reachable state - a transaction leaves at most one row per entity - and the package never
   trips over a row it wrote in an earlier flush of the same transaction *)
Theorem C11_at_most_one_row : forall g evs,
  cfg_consistent g ->
  pk_unique (d_vt (s_db (run g evs))) /\ s_err (run g evs) = false.
Proof.
  intros g evs CC. split; [apply (reachable_tables_ok g evs CC) | apply reachable_no_error; exact CC].
Qed.

(* (2) the operation type recorded for an entity after ANY sequence of insert / update / delete
   events (spread over any number of flushes: the map persists across flushes) is the coalesced
   one: the last tracked kind, except that an insert on an entity that already has an entry in
   this transaction (delete followed by re-insert) counts as UPDATE *)
Theorem C11_operation_type_coalesces : forall g c k es ops,
  option_map op_kind (op_at (fold_left (track g) es ops) c k) =
  coalesce_kinds (option_map op_kind (op_at ops c k)) (kinds_for g c k es).
Proof. exact track_coalesces. Qed.

(* events of other entities never disturb an entity's entry *)
Theorem C11_other_entities_do_not_interfere : forall g c k es ops,
  kinds_for g c k es = [] -> op_at (fold_left (track g) es ops) c k = op_at ops c k.
Proof. exact track_frame. Qed.

(* the predecessor is closed with this transaction's id and nothing else of the entity changes:
   C03_write_preserves_chain (Props/C03.v) *)

Example C11_example :
  coalesce_kinds None [OP_INS; OP_UPD] = Some OP_UPD /\
  coalesce_kinds None [OP_INS; OP_DEL] = Some OP_DEL /\
  coalesce_kinds None [OP_DEL; OP_INS] = Some OP_UPD /\
  coalesce_kinds None [OP_UPD; OP_DEL; OP_INS; OP_UPD] = Some OP_UPD /\
  coalesce_kinds None [OP_INS] = Some OP_INS.
Proof. repeat split; reflexivity. Qed.

Print Assumptions C11_at_most_one_row.
Print Assumptions C11_operation_type_coalesces.
Print Assumptions C11_other_entities_do_not_interfere.
Print Assumptions C11_example.
