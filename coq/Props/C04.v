(* C04 — relationships of a version show the related entities as of that moment.
   Statements over arbitrary version and association-version tables satisfying the table primary
   key.  The end-to-end reading ("related at the end of that version's transaction") follows with
   C01: in every reachable state the as-of version of an entity is its state at that commit. *)
From Continuum Require Import Model.Base Model.VTable Model.Rel Proofs.BaseP Proofs.VTableP Proofs.RelP.

(* the as-of version: the row of the entity with the greatest transaction id <= x *)
Theorem C04_as_of : forall t k x r,
  pk_unique t ->
  (as_of t k x = Some r <->
   In r t /\ vkey r = k /\ vtx r <= x /\ forall r', In r' t -> vkey r' = k -> vtx r' <= x -> vtx r' <= vtx r).
Proof. exact as_of_spec. Qed.

(* one-to-many / one-to-one / dynamic (the same query): exactly the children whose as-of version
   points at the owner and is not a DELETE *)
Theorem C04_one_to_many : forall f tc o c,
  pk_unique tc ->
  (In c (rel_o2m f tc o) <->
   In c tc /\ as_of tc (vkey c) (vtx o) = Some c /\ vop c <> OP_DEL /\
   exists k, key1 o = Some k /\ fk_of f c = Some k).
Proof. exact rel_o2m_spec. Qed.

(* many-to-one: the parent's as-of version, unless deleted or the foreign key is NULL *)
Theorem C04_many_to_one : forall f tp o p,
  pk_unique tp ->
  (rel_m2o f tp o = Some p <->
   exists k, fk_of f o = Some k /\ as_of tp [k] (vtx o) = Some p /\ vop p <> OP_DEL).
Proof. exact rel_m2o_spec. Qed.

(* many-to-many: linked as of the owner's transaction, target as of that transaction, not deleted *)
Theorem C04_many_to_many : forall av tr o c l,
  pk_unique tr -> vkey o = [l] ->
  (In c (rel_m2m av tr o) <->
   In c tr /\ as_of tr (vkey c) (vtx o) = Some c /\ vop c <> OP_DEL /\
   exists r, vkey c = [r] /\ linked_as_of av l r (vtx o)).
Proof. exact rel_m2m_spec. Qed.

Definition C04_tags : vtable :=
  [ mkv [1] 1 None 0 [Some 0; Some 7] []; mkv [2] 1 None 0 [Some 0; Some 7] [];
    mkv [1] 3 None 1 [Some 0; Some 8] []; mkv [2] 4 None 2 [Some 0; Some 7] [] ].
Example C04_example :
  pk_unique C04_tags /\
  map vid (rel_o2m 1 C04_tags (mkv [7] 2 None 1 [] [])) = [([1], 1); ([2], 1)] /\
  map vid (rel_o2m 1 C04_tags (mkv [7] 5 None 1 [] [])) = [] /\
  map vid (rel_o2m 1 C04_tags (mkv [8] 3 None 1 [] [])) = [([1], 3)].
Proof.
  split; [unfold pk_unique; repeat constructor; simpl; intuition discriminate|].
  repeat split; vm_compute; reflexivity.
Qed.

Print Assumptions C04_as_of.
Print Assumptions C04_one_to_many.
Print Assumptions C04_many_to_one.
Print Assumptions C04_many_to_many.
Print Assumptions C04_example.
