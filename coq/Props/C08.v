(* C08 — versions / previous / next / index describe one consistent ordering.
   Statement file: statements, `exact`, Print Assumptions, non-vacuity Example. Nothing else. *)
From Continuum Require Import Model.Base Model.VTable Proofs.BaseP Proofs.VTableP.

(* versions lists all and only the entity's rows, strictly increasing in transaction id *)
Theorem C08_versions_members : forall t k r,
  In r (versions t k) <-> In r t /\ vkey r = k.
Proof. exact versions_members. Qed.

Theorem C08_versions_sorted : forall t k,
  pk_unique t -> Sorted.StronglySorted (fun a b => vtx a < vtx b) (versions t k).
Proof. exact versions_ssorted. Qed.

(* for the i-th element: index = i, next = (i+1)-th or None, previous = (i-1)-th or None;
   any table content, any number of interleaved entities, composite keys (pk = list Z) *)
Theorem C08_subquery_strategy : forall t k i r,
  pk_unique t -> nth_error (versions t k) i = Some r ->
  index t r = i /\
  next_S t r = nth_error (versions t k) (S i) /\
  prev_S t r = match i with O => None | S j => nth_error (versions t k) j end.
Proof.
  intros t k i r U H.
  exact (conj (index_position t k i r U H)
        (conj (next_S_position t k i r U H) (prev_S_position t k i r U H))).
Qed.

Theorem C08_validity_strategy : forall t k i r,
  pk_unique t -> chain_ok t -> nth_error (versions t k) i = Some r ->
  index t r = i /\
  next_V t r = nth_error (versions t k) (S i) /\
  prev_V t r = match i with O => None | S j => nth_error (versions t k) j end.
Proof.
  intros t k i r U C H.
  exact (conj (index_position t k i r U H)
        (conj (next_V_position t k i r U C H) (prev_V_position t k i r U C H))).
Qed.

(* non-vacuity: two interleaved entities, three transactions, chain closed *)
Definition C08_ex : vtable :=
  [ mkv [1] 1 (Some 3) 0 [Some 7] []; mkv [2] 2 None 0 [Some 8] [];
    mkv [1] 3 (Some 5) 1 [None] [];   mkv [1] 5 None 2 [None] [] ].
Example C08_hyps_satisfiable :
  pk_unique C08_ex /\ chain_ok C08_ex /\
  nth_error (versions C08_ex [1]) 1 = Some (mkv [1] 3 (Some 5) 1 [None] []).
Proof.
  split; [|split].
  - unfold pk_unique. repeat constructor; simpl; intuition discriminate.
  - apply chain_okb_spec. vm_compute. reflexivity.
  - vm_compute. reflexivity.
Qed.

Print Assumptions C08_versions_members.
Print Assumptions C08_versions_sorted.
Print Assumptions C08_subquery_strategy.
Print Assumptions C08_validity_strategy.
Print Assumptions C08_hyps_satisfiable.
