(* C09 — interleaved sessions never mix or leak unit-of-work state.
   Layer M (Model/Manager.v) models the manager's two maps, unit_of_work(), clear() and
   clear_connection() including their sweeps.  Sessions are independent when they have different
   ids, different live connections and different DB-API connections.  Steps are atomic session
   calls in one thread; pre-emption inside a listener is outside the property's step notion. *)
From Continuum Require Import Model.Base Model.VTable Model.Core Model.Manager Proofs.ManagerP
     Gen.ManagerGen Proofs.ManagerGenP Model.Savepoint Model.ManagerSp Proofs.ManagerSpP Proofs.SavepointP
     Gen.ManagerSpGen Proofs.ManagerSpGenP.

(* locality: a step of another session does not change anything this session can see (its unit of
   work, its map entry, its database) *)
Theorem C09_locality : forall dbapi closed conn_of g G s s' e,
  indep dbapi closed s s' -> smap_ok conn_of G ->
  conn_of (ss_id s') = ss_conn s' -> conn_of (ss_id s) = ss_conn s ->
  view (gstep dbapi closed g G s' e) s = view G s.
Proof. exact step_of_other_session_is_invisible. Qed.

(* non-interference, for ANY number of sessions and ANY interleaving: what session s sees after the
   whole schedule is what it sees after its own steps alone *)
Theorem C09_interleaving_equals_solo_run : forall dbapi closed conn_of,
  (forall a b, conn_of a = conn_of b -> a = b) ->
  forall g s sched,
  owns conn_of s -> sched_ok dbapi closed conn_of s sched ->
  view (grun dbapi closed g sched) s = view (grun dbapi closed g (filter (mine s) sched)) s.
Proof. exact interleaving_equals_solo_run. Qed.

(* ... also when the schedule contains steps that set execution options on a session's connection
   (set_connection_execution_options -> track_cloned_connections): an independent session never
   adopts another session's unit of work *)
Theorem C09_interleaving_with_execution_options : forall dbapi closed conn_of,
  (forall a b, conn_of a = conn_of b -> a = b) ->
  forall g s sched,
  owns conn_of s -> sched_ok2 dbapi closed conn_of s sched ->
  view (grun2 dbapi closed g sched) s = view (grun2 dbapi closed g (filter (mine2 s) sched)) s.
Proof. exact interleaving_equals_solo_run2. Qed.

Theorem C09_execution_options_adopt_nothing : forall dbapi closed s G,
  keys_apart dbapi s G -> clone_track dbapi closed G (ss_conn s) = G.
Proof. exact clone_track_own_noop. Qed.

(* Layer M refines Layer B: in any interleaving of independent sessions, the working database, the
   committed database and the unit of work of session s are exactly the state of the unit-of-work
   machine (Model/Core.v) after s's own events.  Hence every theorem about `run` - C01 (newest version
   = live row), C02 (transaction records), C03 (validity chain), C07, C10, C11, C13, C17, C18 - holds
   for every session of every interleaving. *)
Theorem C09_each_session_is_a_core_run : forall dbapi closed conn_of,
  (forall a b, conn_of a = conn_of b -> a = b) ->
  forall g s sched,
  owns conn_of s -> sched_ok dbapi closed conn_of s sched ->
  core_of (grun dbapi closed g sched) (ss_conn s) = run g (map snd (filter (mine s) sched)).
Proof. exact interleaved_session_is_core_run. Qed.

(* The map functions of the model ARE the code: Gen/ManagerGen.v is regenerated from the current
   sqlalchemy_continuum/manager.py on every build (harness/pytrans.py); the generated functions equal
   the model's register / clear / clear_connection / clone_track.  (U, M) = (units_of_work,
   session_connection_map); the maps are Python dicts, i.e. have unique keys, in every reachable state. *)
Theorem C09_unit_of_work_is_the_code : forall G s,
  gen_unit_of_work (g_uows G) (g_smap G) (ss_id s) (ss_conn s) = (g_uows (register G s), g_smap (register G s)).
Proof. exact gen_unit_of_work_is_register. Qed.

Theorem C09_clear_is_the_code : forall dbapi closed G s,
  gen_clear dbapi closed false (g_uows G) (g_smap G) (ss_id s) =
  (g_uows (clear dbapi closed G s), g_smap (clear dbapi closed G s)).
Proof. exact gen_clear_is_clear. Qed.

Theorem C09_clear_connection_is_the_code : forall dbapi closed G c,
  NoDup (map fst (g_smap G)) ->
  gen_clear_connection dbapi closed (g_uows G) (g_smap G) c =
  (g_uows (clear_connection dbapi closed G c), g_smap (clear_connection dbapi closed G c)).
Proof. exact gen_clear_connection_is_clear_connection. Qed.

Theorem C09_track_cloned_connections_is_the_code : forall dbapi closed G c,
  gen_track_cloned_connections dbapi closed (g_uows G) (g_smap G) c =
  (g_uows (clone_track dbapi closed G c), g_smap (clone_track dbapi closed G c)).
Proof. exact gen_track_cloned_connections_is_clone_track. Qed.

Theorem C09_maps_stay_dictionaries : forall dbapi closed g sched,
  NoDup (map fst (g_smap (grun2 dbapi closed g sched))).
Proof. exact reachable_dict_shape. Qed.

(* quiescence: after its rollback a session has neither a unit of work nor a map entry; after its
   commit likewise (it was registered by its first flush) *)
Theorem C09_quiescent_after_rollback : forall dbapi closed conn_of,
  forall g G s, owns conn_of s -> smap_ok conn_of G ->
  let G' := gstep dbapi closed g G s Rollback in
  aget (g_uows G') (ss_conn s) = None /\ aget (g_smap G') (ss_id s) = None.
Proof. exact quiescent_after_rollback. Qed.

Theorem C09_quiescent_after_commit : forall dbapi closed conn_of,
  forall g G s c, owns conn_of s -> smap_ok conn_of G -> aget (g_smap G) (ss_id s) = Some c ->
  let G' := gstep dbapi closed g G s Commit in
  aget (g_uows G') (ss_conn s) = None /\ aget (g_smap G') (ss_id s) = None.
Proof. exact quiescent_after_commit. Qed.

(* ---- sessions that open, roll back and release nested transactions (Model/ManagerSp.v: track_savepoint,
   rollback_savepoint, forget_savepoints of manager.py and SAVEPOINT / ROLLBACK TO / RELEASE of the database).
   What a session sees now includes its stack of open savepoints. *)
Theorem C09_savepoint_locality : forall dbapi closed conn_of g S s s' x,
  indep dbapi closed s s' -> sp_ok conn_of S -> owns conn_of s' -> owns conn_of s ->
  view_sp (gsstep dbapi closed g S s' x) s = view_sp S s.
Proof. exact sp_step_of_other_session_is_invisible. Qed.

Theorem C09_interleaving_with_savepoints_equals_solo_run : forall dbapi closed conn_of,
  (forall a b, conn_of a = conn_of b -> a = b) ->
  forall g s sched,
  owns conn_of s -> sched_ok_sp dbapi closed conn_of s sched ->
  view_sp (gsrun dbapi closed g sched) s = view_sp (gsrun dbapi closed g (filter (mine_sp s) sched)) s.
Proof. exact sp_interleaving_equals_solo_run. Qed.

(* ... and that is the single-session savepoint machine of Savepoint.v: the theorems of C06 about savepoints
   (C06_savepoint_restores, C06_savepoint_as_if_never_attempted) hold for every session of every interleaving *)
Theorem C09_each_session_is_a_savepoint_run : forall dbapi closed conn_of,
  (forall a b, conn_of a = conn_of b -> a = b) ->
  forall g s sched,
  owns conn_of s -> sched_ok_sp dbapi closed conn_of s sched ->
  m_of (gsrun dbapi closed g sched) s = mrun g (map mev_of (map snd (filter (mine_sp s) sched))).
Proof. exact interleaved_session_is_savepoint_run. Qed.

(* the savepoint bookkeeping of the model IS the code: Gen/ManagerSpGen.v is regenerated from the current
   manager.py (session_unit_of_work, track_savepoint, rollback_savepoint; forget_savepoints checked) on every build by
   harness/pytrans_sp.py *)
Theorem C09_session_unit_of_work_is_the_code : forall G sid,
  gen_session_unit_of_work (g_uows G) (g_smap G) sid = session_uow G sid.
Proof. exact gen_session_unit_of_work_is_session_uow. Qed.

Theorem C09_track_savepoint_is_the_code : forall G sid,
  gen_track_savepoint true (g_uows G) (g_smap G) sid = Some (option_map snd (session_uow G sid)) /\
  gen_track_savepoint false (g_uows G) (g_smap G) sid = None.
Proof. exact gen_track_savepoint_is_model. Qed.

Theorem C09_rollback_savepoint_is_the_code : forall G sid saved,
  gen_rollback_savepoint (g_uows G) (g_smap G) sid saved =
  (g_uows (rollback_savepoint G sid saved), g_smap (rollback_savepoint G sid saved)).
Proof. exact gen_rollback_savepoint_is_model. Qed.

(* once a session's transaction has ended, none of its savepoints is remembered *)
Theorem C09_no_savepoint_survives_the_transaction : forall dbapi closed g S s e,
  e = Commit \/ e = Rollback -> stack_of (gsstep dbapi closed g S s (SE e)) (ss_id s) = [].
Proof.
  intros dbapi closed g S s e [->| ->]; unfold stack_of; cbn [gsstep gs_sps]; rewrite aget_adel_same; reflexivity.
Qed.

Definition c9g : cfg := mkcfg true false false false false [mkcls true true 0 [mkcol true false true; mkcol false false true] []].
Definition c9ins k v := mkev 0 0 [Some k; Some v] [true;true] [] [0%nat;1%nat] false true [false;false].
Definition c9d := [mkobj 0 [false;true] [] true false].
Example C09_example :
  let s1 := mksess 1 1 in let s2 := mksess 2 2 in
  let sched := [(s1, Flush c9d [c9ins 1 5] []); (s2, Flush c9d [c9ins 1 7] []); (s2, Commit);
                (s1, Flush c9d [c9ins 2 5] []); (s1, Commit)] in
  let G := grun (fun c => c) (fun _ => false) c9g sched in
  g_uows G = [] /\ g_smap G = [] /\
  view G s1 = view (grun (fun c => c) (fun _ => false) c9g (filter (mine s1) sched)) s1.
Proof. repeat split; vm_compute; reflexivity. Qed.

(* two sessions, each with a savepoint rolled back over a flush, interleaved: the hypotheses are satisfiable, the
   maps end empty, session 1 keeps only what it flushed outside the savepoint *)
Example C09_savepoint_example :
  let s1 := mksess 1 1 in let s2 := mksess 2 2 in
  let sched := [(s1, SBegin); (s2, SE (Flush c9d [c9ins 1 7] [])); (s1, SE (Flush c9d [c9ins 1 5] []));
                (s2, SBegin); (s1, SRollback); (s2, SE (Flush c9d [c9ins 2 7] [])); (s2, SRollback);
                (s1, SE (Flush c9d [c9ins 2 5] [])); (s1, SE Commit); (s2, SE Commit)] in
  let S := gsrun (fun c => c) (fun _ => false) c9g sched in
  sched_ok_sp (fun c => c) (fun _ => false) (fun i => i) s1 sched /\
  g_uows (gs_G S) = [] /\ g_smap (gs_G S) = [] /\
  map l_key (d_live (s_committed (m_core (m_of S s1)))) = [[2]] /\
  map l_key (d_live (s_committed (m_core (m_of S s2)))) = [[1]].
Proof.
  split; [|repeat split; vm_compute; reflexivity].
  intros s' x Hin. split; [|].
  - simpl in Hin. repeat (destruct Hin as [Hin|Hin]; [inversion Hin; reflexivity|]). contradiction.
  - simpl in Hin.
    repeat (destruct Hin as [Hin|Hin];
            [inversion Hin; first [left; reflexivity | right; repeat split; simpl; congruence]|]). contradiction.
Qed.

Print Assumptions C09_session_unit_of_work_is_the_code.
Print Assumptions C09_track_savepoint_is_the_code.
Print Assumptions C09_rollback_savepoint_is_the_code.
Print Assumptions C09_no_savepoint_survives_the_transaction.
Print Assumptions C09_savepoint_locality.
Print Assumptions C09_interleaving_with_savepoints_equals_solo_run.
Print Assumptions C09_each_session_is_a_savepoint_run.
Print Assumptions C09_savepoint_example.
Print Assumptions C09_locality.
Print Assumptions C09_interleaving_equals_solo_run.
Print Assumptions C09_quiescent_after_rollback.
Print Assumptions C09_quiescent_after_commit.
Print Assumptions C09_example.
Print Assumptions C09_interleaving_with_execution_options.
Print Assumptions C09_execution_options_adopt_nothing.
Print Assumptions C09_each_session_is_a_core_run.
Print Assumptions C09_unit_of_work_is_the_code.
Print Assumptions C09_clear_is_the_code.
Print Assumptions C09_clear_connection_is_the_code.
Print Assumptions C09_track_cloned_connections_is_the_code.
Print Assumptions C09_maps_stay_dictionaries.
