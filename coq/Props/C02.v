(* C02 — one transaction record groups a commit; ids never dangle or leak.
   Statements over the Layer-B machine (Model/Core.v) for EVERY event trace: any number of
   flushes per transaction, relationship-only and non-versioned-only transactions, every plugin
   set, manual creation of the record.  Nothing but statements, `exact`, Print Assumptions. *)
From Continuum Require Import Model.Base Model.VTable Model.Core Proofs.CoreP.

(* no version row, association-version row or changes row ever refers to a missing record —
   in every reachable state, including after rollbacks and manual record creation *)
Theorem C02_no_dangling_reference : forall g evs,
  let d := s_db (run g evs) in
  (forall r, In r (d_vt d) -> In (vtx r) (d_tx d)) /\
  (forall a, In a (d_av d) -> In (a_tx a) (d_tx d)) /\
  (forall x, In x (d_chg d) -> In (fst x) (d_tx d)).
Proof. exact no_dangling_reference. Qed.

(* every version row a flush adds carries the id of the one current transaction record *)
Theorem C02_rows_carry_current_id : forall g s objs ents assoc,
  let s' := flush g s objs ents assoc in
  forall i, In i (vids (d_vt (s_db s'))) ->
    In i (vids (d_vt (s_db s))) \/ u_cur (s_uow s') = Some (snd i).
Proof. exact flush_stamps_current. Qed.

(* once created, the record stays the current one for all later flushes of the transaction *)
Theorem C02_one_record_per_transaction : forall g s objs ents assoc T,
  g_versioning g = true -> u_cur (s_uow s) = Some T ->
  u_cur (s_uow (flush g s objs ents assoc)) = Some T /\
  d_tx (s_db (flush g s objs ents assoc)) = d_tx (s_db s).
Proof. exact flush_keeps_transaction. Qed.

(* a flush in which no versioned object looks modified and no versioned entity is written (tracked)
   creates no record; otherwise exactly one, with an id larger than every id present before *)
Theorem C02_record_iff_modified : forall g s objs ents assoc,
  g_versioning g = true -> u_cur (s_uow s) = None ->
  let s' := flush g s objs ents assoc in
  (existsb (obj_modified g) objs || existsb (tracked g) ents = false ->
     d_tx (s_db s') = d_tx (s_db s) /\ u_cur (s_uow s') = None) /\
  (existsb (obj_modified g) objs || existsb (tracked g) ents = true ->
     exists T, d_tx (s_db s') = d_tx (s_db s) ++ [T] /\ u_cur (s_uow s') = Some T /\
               forall t, In t (d_tx (s_db s)) -> t < T).
Proof. exact flush_creates_at_most_one. Qed.

(* the reachable-state invariant behind the clauses above (no manual creation): the current id is
   a record of the working database, is the maximum, was not committed before; the committed ids
   are a subset of the working ids; outside a versioned transaction both coincide *)
Theorem C02_invariant : forall g evs, no_manual evs -> Inv1 (run g evs).
Proof. exact run_inv. Qed.

(* non-vacuity: a two-transaction trace with a versioned insert, a relationship-free update and a
   non-versioned-only flush; the second transaction gets id 2, the third creates none *)
Definition C02_cfg : cfg :=
  mkcfg true false false false true
    [mkcls true true 0 [mkcol true false true; mkcol false false true] []; mkcls false false 1 [mkcol true false true] []].
Definition C02_trace : list ev :=
  [ Flush [mkobj 0 [true;true] [] true false]
          [mkev 0 0 [Some 1; Some 5] [true;true] [] [0%nat;1%nat] false true [false;false]] [];
    Commit;
    Flush [mkobj 0 [false;true] [] false false]
          [mkev 0 1 [Some 1; Some 6] [false;true] [] [1%nat] false false [false;false]] [];
    Commit;
    Flush [mkobj 1 [true] [] true false]
          [mkev 1 0 [Some 9] [true] [] [0%nat] false true [false]] [];
    Commit ].
Example C02_example :
  d_tx (s_db (run C02_cfg C02_trace)) = [1; 2] /\
  map vid (d_vt (s_db (run C02_cfg C02_trace))) = [([0;1], 1); ([0;1], 2)] /\
  no_manual C02_trace.
Proof.
  split; [vm_compute; reflexivity|]. split; [vm_compute; reflexivity|].
  unfold no_manual, C02_trace. simpl. intuition discriminate.
Qed.

Print Assumptions C02_no_dangling_reference.
Print Assumptions C02_rows_carry_current_id.
Print Assumptions C02_one_record_per_transaction.
Print Assumptions C02_record_iff_modified.
Print Assumptions C02_invariant.
Print Assumptions C02_example.
