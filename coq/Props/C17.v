(* C17 — a transaction's changed entities are exactly the versions it wrote. *)
From Continuum Require Import Model.Base Model.VTable Model.Core
     Proofs.CoreP Proofs.CoreChainP Proofs.TrackP Proofs.RowsP Proofs.LiveP Proofs.CoreC01P.

(* changed_entities: per version class, the rows whose transaction id is the record's id *)
Definition changed_entities (t : vtable) (tx : Z) (tab : Z) : vtable :=
  filter (fun r => (vtx r =? tx) && (hd 0 (vkey r) =? tab)) t.

Theorem C17_changed_entities_exact : forall t tx tab r,
  In r (changed_entities t tx tab) <-> In r t /\ vtx r = tx /\ hd 0 (vkey r) = tab.
Proof.
  intros. unfold changed_entities. rewrite filter_In, andb_true_iff, !Z.eqb_eq. tauto.
Qed.

(* with the plugin: the names recorded for the current transaction are exactly the classes of the
   operations map (which persists over the flushes of the transaction), one entry per class however
   many flushes occur; entries of other transactions are untouched *)
Theorem C17_recorded_names : forall T ops chg x,
  In x (add_changes T chg ops) <->
  In x chg \/ (fst x = T /\ exists o, In o ops /\ op_cls o = snd x).
Proof. exact add_changes_spec. Qed.

Theorem C17_one_entry_per_class : forall T ops chg, NoDup chg -> NoDup (add_changes T chg ops).
Proof. exact add_changes_nodup. Qed.

(* classes of the operations map <-> classes with a row stamped with the transaction:
   every unprocessed operation leaves its row at the current id (fold_rows, first clause), and every
   new row belongs to a tracked event, i.e. to an operation of the map *)
Theorem C17_rows_iff_operations : forall g T txs l acc,
  cfg_consistent g -> In T txs -> acc_ok g T txs acc -> NoDup (map (vk g) (unproc l)) ->
  (forall o, In o l -> op_proc o = false ->
     exists r, In r (fst (fst (fold_left (process_op g T) l acc))) /\ row_of_op g T o r) /\
  (forall r', In r' (fst (fst (fold_left (process_op g T) l acc))) ->
     (exists o, In o l /\ op_proc o = false /\ row_of_op g T o r') \/
     (exists r, In r (fst (fst acc)) /\ upto_end r r' /\ ~ targeted g T l r)).
Proof.
  intros g T txs l acc CC HT A ND. destruct (fold_rows g T txs l acc CC HT A ND) as [F1 [_ F3]].
  split; assumption.
Qed.

Example C17_example :
  add_changes 2 [(1, 0%nat)] [mkop 0 [1] 1 false [] [] false false; mkop 1 [1] 0 false [] [] false false;
                              mkop 0 [2] 0 false [] [] false false] = [(1, 0%nat); (2, 0%nat); (2, 1%nat)].
Proof. reflexivity. Qed.

Print Assumptions C17_changed_entities_exact.
Print Assumptions C17_recorded_names.
Print Assumptions C17_one_entry_per_class.
Print Assumptions C17_rows_iff_operations.
Print Assumptions C17_example.
