(* C07 — versioning is transparent to the application's own data and outcomes.
   What a theorem about the model can carry: (1) the application tables are a function of the event
   trace alone - configuration (versioning on/off, strategy, plugins) makes no difference; (2) the
   package never raises an error of its own on its version tables in any reachable state; (3) with
   versioning off (remove_versioning / options['versioning'] = False) nothing is written.  That the
   real code's outcomes and tables are identical with and without versioning is established by the
   twin run of the correspondence check (every history is executed on an unversioned twin). *)
From Continuum Require Import Model.Base Model.VTable Model.Core
     Proofs.CoreP Proofs.CoreChainP Proofs.TransparentP.

Theorem C07_application_tables_independent_of_versioning : forall g g' evs,
  same_classes g g' -> d_live (s_db (run g evs)) = d_live (s_db (run g' evs)).
Proof. exact versioning_transparent. Qed.

Theorem C07_versioning_never_raises : forall g evs, cfg_consistent g -> hier_consistent g -> s_err (run g evs) = false.
Proof. exact reachable_no_error. Qed.

Theorem C07_removed_versioning_writes_nothing : forall g s objs ents assoc,
  g_versioning g = false ->
  let s' := flush g s objs ents assoc in
  d_vt (s_db s') = d_vt (s_db s) /\ d_av (s_db s') = d_av (s_db s) /\ d_tx (s_db s') = d_tx (s_db s).
Proof. exact versioning_off_writes_nothing. Qed.

Example C07_example :
  let g  := mkcfg true  false false false false [mkcls true true 0 [mkcol true false true; mkcol false false true] []] in
  let g' := mkcfg false false false false false [mkcls true true 0 [mkcol true false true; mkcol false false true] []] in
  let evs := [Flush [mkobj 0 [true;true] [] true false]
                    [mkev 0 0 [Some 1; Some 5] [true;true] [] [0%nat;1%nat] false true [false;false]] []; Commit] in
  same_classes g g' /\ d_live (s_db (run g evs)) = [mkl 0 [1] [Some 1; Some 5]] /\
  d_vt (s_db (run g' evs)) = [] /\ length (d_vt (s_db (run g evs))) = 1%nat.
Proof. repeat split; vm_compute; reflexivity. Qed.

Print Assumptions C07_application_tables_independent_of_versioning.
Print Assumptions C07_versioning_never_raises.
Print Assumptions C07_removed_versioning_writes_nothing.
Print Assumptions C07_example.
