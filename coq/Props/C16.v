(* C16 — end-transaction back-fill reproduces the validity chain from ids alone. *)
From Continuum Require Import Model.Base Model.VTable Model.Backfill
     Proofs.BaseP Proofs.VTableP Proofs.BackfillP.

(* each row's end := smallest larger transaction id of the same key; rows without one and all
   other columns are left as they were; the row count does not change *)
Theorem C16_rows : forall t, all_pos t ->
  Forall2 (fun r r' =>
     vkey r' = vkey r /\ vtx r' = vtx r /\ vop r' = vop r /\ vdat r' = vdat r /\ vmod r' = vmod r /\
     vend r' = match min_above t (vkey r) (vtx r) with Some m => Some m | None => vend r end)
   t (backfill_end t).
Proof. exact backfill_end_rows. Qed.

(* a table whose newest rows are open (subquery-strategy table, or end column wiped) becomes a chain *)
Theorem C16_chain : forall t, all_pos t -> newest_open t -> chain_ok (backfill_end t).
Proof. exact backfill_end_chain. Qed.

(* ... and exactly the chain the validity strategy would have written *)
Theorem C16_restores : forall t, all_pos t -> chain_ok t -> backfill_end (wipe_end t) = t.
Proof. exact backfill_end_restores. Qed.

(* applying it twice changes nothing (no hypothesis at all) *)
Theorem C16_idempotent : forall t, backfill_end (backfill_end t) = backfill_end t.
Proof. exact backfill_end_idem. Qed.

Definition C16_ex : vtable :=
  [ mkv [1;1] 4 None 1 [Some 2] []; mkv [1;2] 2 None 0 [Some 8] [];
    mkv [1;1] 2 None 0 [None] [];   mkv [1;1] 7 None 2 [None] [] ].
Example C16_hyps_satisfiable :
  all_pos C16_ex /\ newest_open C16_ex /\
  map vend (backfill_end C16_ex) = [Some 7; None; Some 4; None].
Proof.
  split; [|split].
  - apply all_posb_spec. vm_compute. reflexivity.
  - apply newest_openb_spec. vm_compute. reflexivity.
  - vm_compute. reflexivity.
Qed.

Print Assumptions C16_rows.
Print Assumptions C16_chain.
Print Assumptions C16_restores.
Print Assumptions C16_idempotent.
Print Assumptions C16_hyps_satisfiable.
