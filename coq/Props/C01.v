(* C01 — every committed change is captured faithfully, and only real changes are.
   Statements over the Layer-B machine.  The SQLAlchemy session is environment: traces are assumed
   well-formed (trace_wf / flush_wf, Proofs/CoreC01P.v): one event per entity per flush, inserts hit
   absent keys, updates/deletes present ones, an update whose versioned data differs from the stored
   row is seen as modified, the values reported for a flushed object are those of its row on the
   columns its history does not report as changed (`fresh`), no manual record creation.  The
   correspondence check evaluates these on every recorded trace.  `fresh` used to fail for row
   switches (delete + add of one key in one flush: attributes never given to the new object read as
   None during after_flush); since repair c7583cb the package reads them from the row, and so does
   the recorder, so the hypothesis holds on every recorded trace. *)
From Continuum Require Import Model.Base Model.VTable Model.Core
     Proofs.CoreP Proofs.CoreChainP Proofs.TrackP Proofs.RowsP Proofs.LiveP Proofs.CoreC01P.

(* after every event of every well-formed trace - any number of transactions and flushes, keys
   reused after delete, every plugin set, both strategies - for every versioned entity:
     live      -> its newest version is not a DELETE and holds exactly its versioned columns
     not live  -> it has no version at all, or its newest version is a DELETE *)
Theorem C01_newest_version_equals_live_row : forall g evs,
  cfg_consistent g -> flat_hier g -> flat_cfg g -> g_versioning g = true -> g_native g = false ->
  trace_wf g state0 evs ->
  forall c k, (c < length (g_classes g))%nat -> k_versioned (cls_of g c) = true ->
    match find_live (d_live (s_db (run g evs))) c k with
    | Some l => exists r, newest (d_vt (s_db (run g evs))) (k_tab (cls_of g c) :: k) r /\
                          vop r <> OP_DEL /\ vdat r = dat_of (cls_of g c) (l_vals l)
    | None => (forall r, In r (d_vt (s_db (run g evs))) -> vkey r <> k_tab (cls_of g c) :: k) \/
              (exists r, newest (d_vt (s_db (run g evs))) (k_tab (cls_of g c) :: k) r /\ vop r = OP_DEL)
    end.
Proof. exact reachable_c01. Qed.

(* one flush: the same relation is re-established from any state satisfying the invariants
   (this is the inductive step; it is what "for all histories" rests on) *)
Theorem C01_flush_step : forall g s objs ents assoc,
  cfg_consistent g -> flat_cfg g -> g_versioning g = true -> g_native g = false ->
  InvAll g s -> Inv3 g s -> Inv4 g s -> flush_wf g (d_live (s_db s)) objs ents ->
  Inv4 g (flush g s objs ents assoc).
Proof. exact flush_Inv4. Qed.

(* only real changes: a row of the new table either keeps the identity, operation type and data of
   an old row, or belongs to an entity with a tracked event in this flush (insert, delete, or an
   update whose history shows a change of a versioned column / versioned many-to-one relationship)
   and carries the current transaction id *)
Theorem C01_rows_only_for_tracked_changes : forall g s objs ents assoc,
  cfg_consistent g -> flat_cfg g -> g_versioning g = true -> g_native g = false ->
  InvAll g s -> Inv3 g s -> flush_wf g (d_live (s_db s)) objs ents ->
  forall r', In r' (d_vt (s_db (flush g s objs ents assoc))) ->
    (exists r, In r (d_vt (s_db s)) /\ vkey r = vkey r' /\ vtx r = vtx r' /\ vop r = vop r' /\ vdat r = vdat r') \/
    (exists e, In e ents /\ tracked g e = true /\
               vkey r' = k_tab (cls_of g (e_cls e)) :: ev_key g e /\
               u_cur (s_uow (flush g s objs ents assoc)) = Some (vtx r')).
Proof. exact flush_rows_only_for_tracked. Qed.

(* non-vacuity: the C03 example trace is well formed and ends with entity 1 live = its newest row *)
Definition C01_cfg : cfg :=
  mkcfg true false false false false [mkcls true true 0 [mkcol true false true; mkcol false false true] []].
Definition c1_ins k v := mkev 0 0 [Some k; Some v] [true;true] [] [0%nat;1%nat] false true [false;false].
Definition c1_upd k v := mkev 0 1 [Some k; Some v] [false;true] [] [1%nat] false false [false;false].
Definition c1_dirty := [mkobj 0 [false;true] [] false false].
Definition C01_trace : list ev :=
  [ Flush c1_dirty [c1_ins 1 5; c1_ins 2 5] []; Commit; Flush c1_dirty [c1_upd 1 6] []; Commit ].
Example C01_example :
  map (fun r => (vkey r, vtx r, vop r, vdat r)) (d_vt (s_db (run C01_cfg C01_trace))) =
    [([0;1], 1, 0, [Some 5]); ([0;2], 1, 0, [Some 5]); ([0;1], 2, 1, [Some 6])] /\
  map l_vals (d_live (s_db (run C01_cfg C01_trace))) = [[Some 2; Some 5]; [Some 1; Some 6]].
Proof. split; vm_compute; reflexivity. Qed.

Print Assumptions C01_newest_version_equals_live_row.
Print Assumptions C01_flush_step.
Print Assumptions C01_rows_only_for_tracked_changes.
Print Assumptions C01_example.
