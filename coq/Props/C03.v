(* C03 — validity intervals of an entity form one gap-free, open-ended chain.
   chain_at t r  :=  vend r = min_above t (vkey r) (vtx r)   (pointwise form of the chain, see
   Props/C08.v for its equivalence with "end = transaction id of the next version / NULL for the
   newest": C08_validity_strategy is proved from exactly this definition). *)
From Continuum Require Import Model.Base Model.VTable Model.Backfill Model.Core
     Proofs.BaseP Proofs.VTableP Proofs.CoreP Proofs.ChainP Proofs.CoreChainP.

(* table level: writing (inserting or re-writing) the row of entity k at a transaction id T that is
   at least every id in the table, then closing its predecessor, yields the chain for entity k ... *)
Theorem C03_write_preserves_chain : forall vt k T kind dat fl,
  (forall r, In r vt -> vtx r <= T) ->
  (forall r, In r vt -> vkey r = k -> chain_at vt r) ->
  forall r, In r (write_row (existsb (is_row k T) vt) vt k T kind dat fl true) -> vkey r = k ->
    chain_at (write_row (existsb (is_row k T) vt) vt k T kind dat fl true) r.
Proof. exact write_row_chain_same. Qed.

(* ... and neither the rows nor the chain of any other entity are touched *)
Theorem C03_write_frames_others : forall known vt k T kind dat fl validity r,
  vkey r <> k ->
  (In r (write_row known vt k T kind dat fl validity) <-> In r vt) /\
  (In r vt -> chain_at vt r -> chain_at (write_row known vt k T kind dat fl validity) r).
Proof.
  intros. split; [apply write_row_other; assumption | apply write_row_chain_other; assumption].
Qed.

(* machine level: after every event of every trace (any number of flushes per transaction, deletes,
   re-inserts in one or several transactions, many entities interleaved, rollbacks, manual record
   creation) every version table satisfies its primary key and every validity-strategy table the
   chain; each table of a hierarchy is a separate table id and is covered separately *)
Theorem C03_reachable_chain : forall g evs,
  cfg_consistent g -> flat_hier g ->
  pk_unique (d_vt (s_db (run g evs))) /\
  (forall r, In r (d_vt (s_db (run g evs))) -> tab_valid g (hd 0 (vkey r)) = true ->
             vend r = min_above (d_vt (s_db (run g evs))) (vkey r) (vtx r)).
Proof. exact reachable_tables_ok. Qed.

(* non-vacuity: three transactions on entity 1 (insert, update in two flushes, delete + re-insert
   in one transaction) interleaved with entity 2 *)
Definition C03_cfg : cfg :=
  mkcfg true false false false false [mkcls true true 0 [mkcol true false true; mkcol false false true] []].
Definition ins k v := mkev 0 0 [Some k; Some v] [true;true] [] [0%nat;1%nat] false true [false;false].
Definition upd k v := mkev 0 1 [Some k; Some v] [false;true] [] [1%nat] false false [false;false].
Definition del k v := mkev 0 2 [Some k; Some v] [false;false] [] [] true false [false;false].
Definition dirty := [mkobj 0 [false;true] [] false false].
Definition C03_trace : list ev :=
  [ Flush dirty [ins 1 5; ins 2 5] []; Commit;
    Flush dirty [upd 1 6] []; Flush dirty [upd 1 7] []; Commit;
    Flush dirty [upd 2 8] []; Commit;
    Flush dirty [del 1 7] []; Flush dirty [ins 1 9] []; Commit ].
Example C03_example :
  cfg_consistent C03_cfg /\
  map (fun r => (vkey r, vtx r, vend r, vop r)) (d_vt (s_db (run C03_cfg C03_trace))) =
  [ ([0;1], 1, Some 2, 0); ([0;2], 1, Some 3, 0); ([0;1], 2, Some 4, 1);
    ([0;2], 3, None, 1);   ([0;1], 4, None, 1) ].
Proof. split; [apply cfg_consistentb_spec; vm_compute; reflexivity | vm_compute; reflexivity]. Qed.

Print Assumptions C03_write_preserves_chain.
Print Assumptions C03_write_frames_others.
Print Assumptions C03_reachable_chain.
Print Assumptions C03_example.
