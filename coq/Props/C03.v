(* C03 — validity intervals of an entity form one gap-free, open-ended chain.
   chain_at t r  :=  vend r = min_above t (vkey r) (vtx r)   (pointwise form of the chain, see
   Props/C08.v for its equivalence with "end = transaction id of the next version / NULL for the
   newest": C08_validity_strategy is proved from exactly this definition). *)
From Continuum Require Import Model.Base Model.VTable Model.Backfill Model.Core
     Proofs.BaseP Proofs.VTableP Proofs.CoreP Proofs.ChainP Proofs.CoreChainP Proofs.HierP Proofs.HierChainP.

(* table level: writing (inserting or re-writing) the row of entity k at a transaction id T that is
   at least every id in the table, then closing its predecessor, yields the chain for entity k ... *)
Theorem C03_write_preserves_chain : forall vt k T kind dat fl,
  (forall r, In r vt -> vtx r <= T) ->
  (forall r, In r vt -> vkey r = k -> chain_at vt r) ->
  forall r, In r (write_row (existsb (is_row k T) vt) vt k T kind dat fl true) -> vkey r = k ->
    chain_at (write_row (existsb (is_row k T) vt) vt k T kind dat fl true) r.
Proof. exact write_row_chain_same. Qed.

(* ... and neither the rows nor the chain of any other entity are touched *)
Theorem C03_write_frames_others : forall known vt k T kind dat fl validity r,
  vkey r <> k ->
  (In r (write_row known vt k T kind dat fl validity) <-> In r vt) /\
  (In r vt -> chain_at vt r -> chain_at (write_row known vt k T kind dat fl validity) r).
Proof.
  intros. split; [apply write_row_other; assumption | apply write_row_chain_other; assumption].
Qed.

(* machine level: after every event of every trace (any number of flushes per transaction, deletes,
   re-inserts in one or several transactions, many entities interleaved, rollbacks, manual record
   creation) every version table satisfies its primary key and every validity-strategy table the
   chain; each table of a hierarchy is a separate table id and is covered separately *)
Theorem C03_reachable_chain : forall g evs,
  cfg_consistent g -> hier_consistent g ->
  pk_unique (d_vt (s_db (run g evs))) /\
  (forall r, In r (d_vt (s_db (run g evs))) -> tab_valid g (hd 0 (vkey r)) = true ->
             vend r = min_above (d_vt (s_db (run g evs))) (vkey r) (vtx r)).
Proof. exact reachable_tables_ok. Qed.

(* joined-table hierarchies.  The base table of a hierarchy is a validity table like any other and is covered by
   C03_reachable_chain (hier_consistent: the child tables are not validity tables of their own).  A row of a CHILD
   table has to be closed by the next version of its key in the base table, whatever class that version has, and be
   open while there is none.  C03_reachable_hierarchy_chain: that holds in every reachable state (working and
   committed database) of every trace - by induction over the events; a flush leaves every child row right or stale
   in the one way the hierarchy pass repairs (Proofs/HierChainP.v stale_after_flush), the pass - the model of the
   repaired update_version_validity, applied after every flush (C03_machine_applies_the_pass) - repairs exactly
   those (C03_hierarchy_pass_closes_superseded) and changes nothing else (C03_hierarchy_pass_frame).
   One hypothesis about the environment remains, trace_paired: after every flush every version of a subclass entity
   has its row in the base table too and keys are not empty.  It is decidable (trace_pairedb) and evaluated on every
   recorded trace of a hierarchy (Checks/Corechk.v); it holds because the Recorder hands every mapper event of a
   subclass object to the model once per table - that it follows from a well-formedness condition on the events
   alone is NOT proved (it would need the lock-step of the per-table parts through track / process_op). *)
Theorem C03_reachable_hierarchy_chain : forall g evs,
  cfg_consistent g -> hier_consistent g -> one_base g -> trace_paired g state0 evs ->
  forall cc x, In cc (g_classes g) -> In (hd 0 (vkey x)) (k_also cc) ->
    (In x (d_vt (s_db (run g evs))) ->
       vend x = min_above (d_vt (s_db (run g evs))) (k_tab cc :: tl (vkey x)) (vtx x)) /\
    (In x (d_vt (s_committed (run g evs))) ->
       vend x = min_above (d_vt (s_committed (run g evs))) (k_tab cc :: tl (vkey x)) (vtx x)).
Proof.
  intros g evs CC HC OB TP cc x Hcc Hch. destruct (reachable_hier_chain g evs CC HC OB TP) as [H1 H2].
  split; intro Hx; [apply (H1 cc x Hcc Hx Hch) | apply (H2 cc x Hcc Hx Hch)].
Qed.

Theorem C03_trace_hypothesis_decidable : forall g evs s, trace_pairedb g s evs = true -> trace_paired g s evs.
Proof. exact trace_pairedb_spec. Qed.

Theorem C03_hierarchy_pass_closes_superseded : forall g T vt,
  one_base g -> paired g vt -> (forall r, In r vt -> vkey r <> []) ->
  (forall cc x, In cc (g_classes g) -> In x vt -> child_of cc x ->
     vend x = want vt cc x \/ want vt cc x = Some T) ->
  forall cc x', In cc (g_classes g) -> In x' (hier_rows g T vt) -> child_of cc x' ->
    vend x' = min_above (hier_rows g T vt) (k_tab cc :: tl (vkey x')) (vtx x').
Proof. exact hier_pass_closes_superseded. Qed.

Theorem C03_hierarchy_pass_frame : forall g T vt,
  vids (hier_rows g T vt) = vids vt /\
  (forall x', In x' (hier_rows g T vt) ->
     In x' vt \/ (exists x cc, In x vt /\ In cc (g_classes g) /\ child_of cc x /\ x' = set_end x (Some T))).
Proof. exact hier_pass_frame. Qed.

Theorem C03_machine_applies_the_pass : forall g s objs ents assoc T,
  no_hierb g = false -> u_cur (s_uow (flush g s objs ents assoc)) = Some T ->
  d_vt (s_db (step g s (Flush objs ents assoc))) = hier_rows g T (d_vt (s_db (flush g s objs ents assoc))).
Proof. intros g s objs ents assoc T H E. cbn [step]. apply hier_pass_is_hier_rows; assumption. Qed.

Theorem C03_hierarchy_hypotheses_decidable : forall g T vt,
  one_baseb g = true -> pairedb g vt = true -> keys_nonemptyb vt = true -> staleb g T vt = true ->
  hier_chainb g (hier_rows g T vt) = true.
Proof. exact hier_pass_closes_superseded_b. Qed.

(* non-vacuity for hierarchies: Item <- Book (joined, table 1) and Cd (single table); key 1 is a Book (transaction
   1), deleted (2), comes back as a plain Item (3), is deleted (4) and comes back as a Book (5).  The book rows of
   transactions 1 and 2 are closed by 2 and 3 - the latter by the ITEM version of transaction 3 *)
Definition C03_hcfg : cfg :=
  mkcfg true false false false false
    [ mkcls7 true true 0 [mkcol true false true; mkcol false false true; mkcol false false true] [] [1];
      mkcls true false 1 [mkcol true false true; mkcol false false false; mkcol false false false; mkcol false false true] [];
      mkcls7 true true 0 [mkcol true false true; mkcol false false true; mkcol false false true; mkcol false false true] [] [1];
      mkcls7 true true 0 [mkcol true false true; mkcol false false true; mkcol false false true; mkcol false false false] [] [1] ].
Definition bk (kind : Z) (new del : bool) (a p : Z) : ev :=
  let ch := if del then [false;false;false;false] else [true;true;true;true] in
  let e c := mkev c kind [Some 1; Some a; Some 7; Some p] ch [] (if del then [] else [0;1;2;3]%nat) del new ch in
  Flush [mkobj 1 ch [] new del; mkobj 3 ch [] new del] [e 1%nat; e 3%nat] [].
Definition it (kind : Z) (new del : bool) (a : Z) : ev :=
  let ch := if del then [false;false;false] else [true;true;true] in
  Flush [mkobj 0 ch [] new del] [mkev 0 kind [Some 1; Some a; Some 8] ch [] (if del then [] else [0;1;2]%nat) del new ch] [].
Definition C03_htrace : list ev :=
  [ bk 0 true false 1 1; Commit; bk 2 false true 1 1; Commit; it 0 true false 2; Commit; it 2 false true 2; Commit;
    bk 0 true false 3 3; Commit ].
Example C03_hierarchy_example :
  cfg_consistent C03_hcfg /\ hier_consistent C03_hcfg /\ one_base C03_hcfg /\ trace_paired C03_hcfg state0 C03_htrace /\
  map (fun r => (vkey r, vtx r, vend r, vop r)) (d_vt (s_db (run C03_hcfg C03_htrace))) =
  [ ([1;1], 1, Some 2, 0); ([0;1], 1, Some 2, 0); ([1;1], 2, Some 3, 2); ([0;1], 2, Some 3, 2);
    ([0;1], 3, Some 4, 0); ([0;1], 4, Some 5, 2); ([1;1], 5, None, 0); ([0;1], 5, None, 0) ] /\
  (* the hypotheses of the pass theorem hold at the flush of transaction 3 (the Item version that supersedes a Book) *)
  (let s := run C03_hcfg (firstn 4 C03_htrace) in
   let mid := match nth 4 C03_htrace Commit with Flush o e a => flush C03_hcfg s o e a | _ => s end in
   u_cur (s_uow mid) = Some 3 /\ pairedb C03_hcfg (d_vt (s_db mid)) = true /\
   keys_nonemptyb (d_vt (s_db mid)) = true /\ staleb C03_hcfg 3 (d_vt (s_db mid)) = true /\
   hier_chainb C03_hcfg (d_vt (s_db mid)) = false /\ hier_chainb C03_hcfg (hier_rows C03_hcfg 3 (d_vt (s_db mid))) = true).
Proof.
  split; [apply cfg_consistentb_spec; vm_compute; reflexivity|].
  split; [apply hier_consistentb_spec; vm_compute; reflexivity|].
  split; [apply one_baseb_spec; vm_compute; reflexivity|].
  split; [apply trace_pairedb_spec; vm_compute; reflexivity|].
  split; [vm_compute; reflexivity|]. repeat split; vm_compute; reflexivity.
Qed.

(* non-vacuity: three transactions on entity 1 (insert, update in two flushes, delete + re-insert
   in one transaction) interleaved with entity 2 *)
Definition C03_cfg : cfg :=
  mkcfg true false false false false [mkcls true true 0 [mkcol true false true; mkcol false false true] []].
Definition ins k v := mkev 0 0 [Some k; Some v] [true;true] [] [0%nat;1%nat] false true [false;false].
Definition upd k v := mkev 0 1 [Some k; Some v] [false;true] [] [1%nat] false false [false;false].
Definition del k v := mkev 0 2 [Some k; Some v] [false;false] [] [] true false [false;false].
Definition dirty := [mkobj 0 [false;true] [] false false].
Definition C03_trace : list ev :=
  [ Flush dirty [ins 1 5; ins 2 5] []; Commit;
    Flush dirty [upd 1 6] []; Flush dirty [upd 1 7] []; Commit;
    Flush dirty [upd 2 8] []; Commit;
    Flush dirty [del 1 7] []; Flush dirty [ins 1 9] []; Commit ].
Example C03_example :
  cfg_consistent C03_cfg /\
  map (fun r => (vkey r, vtx r, vend r, vop r)) (d_vt (s_db (run C03_cfg C03_trace))) =
  [ ([0;1], 1, Some 2, 0); ([0;2], 1, Some 3, 0); ([0;1], 2, Some 4, 1);
    ([0;2], 3, None, 1);   ([0;1], 4, None, 1) ].
Proof. split; [apply cfg_consistentb_spec; vm_compute; reflexivity | vm_compute; reflexivity]. Qed.

Print Assumptions C03_write_preserves_chain.
Print Assumptions C03_write_frames_others.
Print Assumptions C03_reachable_chain.
Print Assumptions C03_reachable_hierarchy_chain.
Print Assumptions C03_trace_hypothesis_decidable.
Print Assumptions C03_hierarchy_pass_closes_superseded.
Print Assumptions C03_hierarchy_pass_frame.
Print Assumptions C03_machine_applies_the_pass.
Print Assumptions C03_hierarchy_hypotheses_decidable.
Print Assumptions C03_hierarchy_example.
Print Assumptions C03_example.
