(* C19 — vacuum never discards a version that recorded a real change. *)
From Continuum Require Import Model.Base Model.VTable Model.Vacuum
     Proofs.BaseP Proofs.VTableP Proofs.VacuumP Gen.VacuumGen Proofs.VacuumGenP Proofs.VacuumIdemP.

(* a deleted row is identical to the nearest earlier surviving row of the same entity *)
Theorem C19_only_redundant_rows_deleted : forall t d,
  pk_unique t -> In d (vacuum_deleted t) ->
  exists p, In p t /\ vkey p = vkey d /\ vtx p < vtx d /\ ~ In p (vacuum_deleted t) /\
            same_data p d = true /\
            (forall q, In q t -> vkey q = vkey d -> vtx p < vtx q < vtx d -> In q (vacuum_deleted t)).
Proof. exact vacuum_only_equal_to_surviving_predecessor. Qed.

(* the first version of every entity is kept (whatever its operation type) *)
Theorem C19_first_kept : forall t k r,
  pk_unique t -> nth_error (versions t k) 0 = Some r -> ~ In r (vacuum_deleted t).
Proof. exact vacuum_keeps_first. Qed.

(* a version that differs from its immediate predecessor is kept - A, B, A keeps all three *)
Theorem C19_changed_kept : forall t k i q r,
  pk_unique t ->
  nth_error (versions t k) i = Some q -> nth_error (versions t k) (S i) = Some r ->
  same_data q r = false -> ~ In r (vacuum_deleted t).
Proof. exact vacuum_keeps_changed. Qed.

(* consequence for every reader of history: the state of an entity "as of" any transaction id x
   (its newest version at or below x) is answered by the vacuumed table with a surviving row that
   agrees in every non-key column (end id, operation type, data, _mod flags) *)
Theorem C19_as_of_preserved : forall t k x r,
  pk_unique t -> In r t -> vkey r = k -> vtx r <= x ->
  (forall q, In q t -> vkey q = k -> vtx q <= x -> vtx q <= vtx r) ->
  exists r', In r' (vacuum t) /\ vkey r' = k /\ vtx r' <= x /\ same_data r' r = true /\
     (forall q, In q (vacuum t) -> vkey q = k -> vtx q <= x -> vtx q <= vtx r').
Proof. exact vacuum_as_of. Qed.

(* the table after vacuum is exactly the rows that were not deleted *)
Theorem C19_vacuum_is_survivors : forall t r,
  pk_unique t -> (In r (vacuum t) <-> In r t /\ ~ In r (vacuum_deleted t)).
Proof. exact vacuum_survivor. Qed.

(* the loop of utils.vacuum as it is written NOW (Gen/VacuumGen.v, regenerated from utils.py on every
   run: one pass over all rows ordered by transaction id, a dictionary from keys to the last surviving
   row) deletes exactly the rows the theorems above speak about - for the sorted table and for every
   other order the database may choose among rows of different entities with equal transaction ids *)
Theorem C19_code_pass_is_model : forall t L d,
  query_order t L -> (In d (gen_vacuum_deleted L) <-> In d (vacuum_deleted t)).
Proof. exact gen_vacuum_deleted_is_model. Qed.

Theorem C19_code_pass_sorted : forall t d,
  pk_unique t -> (In d (gen_vacuum_deleted (sort_tx t)) <-> In d (vacuum_deleted t)).
Proof. exact gen_vacuum_sorted_is_model. Qed.

(* a second vacuum finds nothing to delete: every row it would discard was already gone, so what
   the first run kept is exactly the rows that record a change (no hypothesis beyond the primary key) *)
Theorem C19_second_vacuum_deletes_nothing : forall t,
  pk_unique t -> vacuum_deleted (vacuum t) = [] /\ vacuum (vacuum t) = vacuum t.
Proof. intros t U. split; [exact (vacuum_deleted_vacuum t U) | exact (vacuum_idempotent t U)]. Qed.

(* non-vacuity: A, B, A, A for entity 1 (first version an UPDATE) interleaved with entity 2 *)
Definition C19_ex : vtable :=
  [ mkv [1] 1 None 1 [Some 5] []; mkv [2] 2 None 0 [Some 5] []; mkv [1] 3 None 1 [Some 6] [];
    mkv [1] 4 None 1 [Some 5] []; mkv [2] 5 None 0 [Some 5] []; mkv [1] 6 None 1 [Some 5] [] ].
Example C19_example :
  map vid (vacuum_deleted C19_ex) = [([2], 5); ([1], 6)] /\
  nth_error (versions C19_ex [1]) 1 = Some (mkv [1] 3 None 1 [Some 6] []) /\
  nth_error (versions C19_ex [1]) 2 = Some (mkv [1] 4 None 1 [Some 5] []) /\
  same_data (mkv [1] 3 None 1 [Some 6] []) (mkv [1] 4 None 1 [Some 5] []) = false.
Proof. vm_compute. repeat split; reflexivity. Qed.
Example C19_code_pass_example :
  map vid (gen_vacuum_deleted (sort_tx C19_ex)) = [([2], 5); ([1], 6)].
Proof. vm_compute. reflexivity. Qed.
(* as of transaction 6 entity 1 is answered by the surviving row of transaction 4 *)
Example C19_as_of_example :
  map vid (vacuum C19_ex) = [([1], 1); ([2], 2); ([1], 3); ([1], 4)].
Proof. vm_compute. reflexivity. Qed.

Print Assumptions C19_only_redundant_rows_deleted.
Print Assumptions C19_first_kept.
Print Assumptions C19_changed_kept.
Print Assumptions C19_as_of_preserved.
Print Assumptions C19_vacuum_is_survivors.
Print Assumptions C19_second_vacuum_deletes_nothing.
Print Assumptions C19_code_pass_is_model.
Print Assumptions C19_code_pass_sorted.
Print Assumptions C19_example.
Print Assumptions C19_code_pass_example.
Print Assumptions C19_as_of_example.
