(* Vacuum.v — Layer A: utils.vacuum.
   The code makes one pass over the version rows ordered by transaction id and keeps, per parent
   key, the last row it did not delete; a row is deleted when sqlalchemy_utils.naturally_equivalent
   says it equals that remembered row.  naturally_equivalent compares every mapped column that is
   not part of the version table's primary key: end_transaction_id, operation_type, the data
   columns and the _mod flags.  The pass is independent per key, so the model runs it key by key
   over the sorted version list of each key. *)
From Continuum Require Export Model.Base Model.VTable.

Definition same_data (p r : vrow) : bool :=
  oz_eqb (vend p) (vend r) && (vop p =? vop r) &&
  list_eqb val_eqb (vdat p) (vdat r) && list_eqb Bool.eqb (vmod p) (vmod r).

(* rows deleted from one entity's sorted version list; prev = last surviving row so far *)
Fixpoint vac_key (prev : option vrow) (l : vtable) : vtable :=
  match l with
  | [] => []
  | r :: l' =>
      match prev with
      | Some p => if same_data p r then r :: vac_key prev l' else vac_key (Some r) l'
      | None => vac_key (Some r) l'
      end
  end.

Definition vacuum_deleted (t : vtable) : vtable :=
  flat_map (fun k => vac_key None (versions t k)) (keys_of t).

Definition in_table (t : vtable) (r : vrow) : bool :=
  match find_row t (vkey r) (vtx r) with Some _ => true | None => false end.

Definition vacuum (t : vtable) : vtable :=
  filter (fun r => negb (in_table (vacuum_deleted t) r)) t.
