(* Backfill.v — Layer A: the two migration tools of schema.py.
     backfill_end    update_end_tx_column: the SELECT pairs every row v1 with the rows v2 whose
                     tx equals (SELECT min(v3.tx) WHERE v3.tx > v1.tx AND v3.key = v1.key); the loop
                     issues `UPDATE ... SET end = value WHERE pk = v1.pk` for every result row whose
                     value is truthy (not NULL and not 0).  Duplicate result rows (several v2 rows of
                     different entities sharing that tx) carry the same value, so the effect is one
                     assignment per row.
     backfill_flags  update_property_mod_flags: v1 LEFT JOIN v2 ON v2.end = v1.tx AND same key;
                     flag := (v1.col IS DISTINCT FROM v2.col) OR v2.tx IS NULL; only true flags are
                     written (false flags are left as they are).                                      *)
From Continuum Require Export Model.Base Model.VTable.

Definition set_end (r : vrow) (e : option Z) : vrow :=
  mkv (vkey r) (vtx r) e (vop r) (vdat r) (vmod r).

Definition backfill_end (t : vtable) : vtable :=
  map (fun r => match min_above t (vkey r) (vtx r) with
                | Some m => if m =? 0 then r else set_end r (Some m)
                | None => r
                end) t.

Definition wipe_end (t : vtable) : vtable := map (fun r => set_end r None) t.

(* the hypothesis under which "leaves the newest row of each key open" yields a chain *)
Definition newest_open (t : vtable) : Prop :=
  forall r, In r t -> min_above t (vkey r) (vtx r) = None -> vend r = None.
Definition newest_openb (t : vtable) : bool :=
  forallb (fun r => match min_above t (vkey r) (vtx r) with
                    | None => oz_eqb (vend r) None | Some _ => true end) t.
Definition all_pos (t : vtable) : Prop := forall r, In r t -> 0 < vtx r.
Definition all_posb (t : vtable) : bool := forallb (fun r => 0 <? vtx r) t.

(* ---------- modification flags ---------- *)
Definition set_mod (r : vrow) (m : list bool) : vrow :=
  mkv (vkey r) (vtx r) (vend r) (vop r) (vdat r) m.

(* rows v2 joined to v1: same key and v2.end = v1.tx *)
Definition preds_by_end (t : vtable) (r : vrow) : vtable :=
  filter (fun x => same_key (vkey r) x && sql_eq (vend x) (Some (vtx r))) t.

Fixpoint differs (a b : list val) : list bool :=
  match a, b with
  | x :: a', y :: b' => negb (val_eqb x y) :: differs a' b'
  | x :: a', [] => true :: differs a' []
  | [], _ => []
  end.

Fixpoint orb_list (a b : list bool) : list bool :=
  match a, b with
  | x :: a', y :: b' => (x || y) :: orb_list a' b'
  | a, [] => a
  | [], b => b
  end.

(* one UPDATE per joined result row, each can only switch flags on *)
Definition backfill_flags (t : vtable) : vtable :=
  map (fun r =>
         match preds_by_end t r with
         | [] => set_mod r (orb_list (vmod r) (map (fun _ => true) (vdat r)))
         | ps => set_mod r (fold_left (fun m p => orb_list m (differs (vdat r) (vdat p))) ps (vmod r))
         end) t.
