(* ManagerSp.v — Layer M with savepoints: several sessions sharing one VersioningManager, each of which may
   open nested transactions.  Mirrors manager.py:
     track_savepoint(session, transaction)     after_transaction_create of a nested transaction: remember
                                               (session_unit_of_work(session), its savepoint() state)
     rollback_savepoint(session, transaction)  after_soft_rollback of the nested transaction: bring the unit of work
                                               back, or drop it (and the session's map entry) when it came into being
                                               inside the savepoint
     forget_savepoints(session)                from clear(session): after_commit / after_rollback
   and the database's SAVEPOINT / ROLLBACK TO SAVEPOINT / RELEASE on the session's connection.  The state of a unit
   of work that savepoint() captures and rollback_to_savepoint() restores is the whole model unit of work
   (Gen/UowGen.v + Proofs/UowGenP.v: the code's snapshot is complete). *)
From Continuum Require Export Model.Base Model.VTable Model.Core Model.Manager Model.Savepoint.

Section ManagerSp.
  Variable dbapi : nat -> nat.
  Variable closed : nat -> bool.

  Inductive sev := SE (e : ev) | SBegin | SRollback | SRelease.

  (* per session: the stack of open savepoints, newest first: the working database of the connection and the unit of
     work the manager found for the session (None: there was none) when the savepoint began *)
  Record gsp := mkgsp { gs_G : gstate; gs_sps : list (nat * list (db * option uow)) }.
  Definition gsp0 : gsp := mkgsp gstate0 [].

  Definition stack_of (S : gsp) (sid : nat) : list (db * option uow) :=
    match aget (gs_sps S) sid with Some l => l | None => [] end.

  (* manager.session_unit_of_work(session): no registration *)
  Definition session_uow (G : gstate) (sid : nat) : option (nat * uow) :=
    match aget (g_smap G) sid with
    | None => None
    | Some c => match aget (g_uows G) c with Some u => Some (c, u) | None => None end
    end.

  (* ROLLBACK TO SAVEPOINT on connection c *)
  Definition set_db (G : gstate) (c : nat) (d : db) : gstate :=
    let '(_, cm, err) := db_of G c in mkg (g_uows G) (g_smap G) (aset (g_dbs G) c (d, cm, err)).

  (* manager.rollback_savepoint, after the entry of the savepoint was found *)
  Definition rollback_savepoint (G : gstate) (sid : nat) (saved : option uow) : gstate :=
    match session_uow G sid with
    | None => G
    | Some (c, _) =>
        match saved with
        | Some u0 => mkg (aset (g_uows G) c u0) (g_smap G) (g_dbs G)
        | None => mkg (adel (g_uows G) c) (adel (g_smap G) sid) (g_dbs G)
        end
    end.

  Definition gsstep (g : cfg) (S : gsp) (s : sess) (x : sev) : gsp :=
    let G := gs_G S in
    match x with
    | SE e => mkgsp (gstep dbapi closed g G s e)
                    (match e with
                     | Commit | Rollback => adel (gs_sps S) (ss_id s)     (* clear -> forget_savepoints *)
                     | _ => gs_sps S
                     end)
    | SBegin =>
        mkgsp G (aset (gs_sps S) (ss_id s)
                      ((fst (fst (db_of G (ss_conn s))), option_map snd (session_uow G (ss_id s)))
                       :: stack_of S (ss_id s)))
    | SRollback =>
        match stack_of S (ss_id s) with
        | [] => S
        | (d, u) :: rest =>
            mkgsp (rollback_savepoint (set_db G (ss_conn s) d) (ss_id s) u) (aset (gs_sps S) (ss_id s) rest)
        end
    | SRelease =>
        match stack_of S (ss_id s) with
        | [] => S
        | _ :: rest => mkgsp G (aset (gs_sps S) (ss_id s) rest)
        end
    end.

  Definition gsrun (g : cfg) (steps : list (sess * sev)) : gsp :=
    fold_left (fun S se => gsstep g S (fst se) (snd se)) steps gsp0.

  Definition gsrun_trace (g : cfg) : gsp -> list (sess * sev) -> list gsp :=
    fix go S steps := match steps with
                      | [] => []
                      | se :: rest => let S' := gsstep g S (fst se) (snd se) in S' :: go S' rest
                      end.

  (* what session s can see *)
  Definition view_sp (S : gsp) (s : sess) :=
    (view (gs_G S) s, stack_of S (ss_id s)).

  (* the session's state as a state of the single-session savepoint machine of Savepoint.v *)
  Definition uow_or0 (u : option uow) : uow := match u with Some u0 => u0 | None => uow0 end.
  Definition m_of (S : gsp) (s : sess) : mstate :=
    mkms (core_of (gs_G S) (ss_conn s))
         (map (fun du => (fst du, uow_or0 (snd du))) (stack_of S (ss_id s))).
  Definition mev_of (x : sev) : mev :=
    match x with SE e => MCore e | SBegin => Savepoint.SpBegin | SRollback => Savepoint.SpRollback
            | SRelease => Savepoint.SpRelease end.
End ManagerSp.
