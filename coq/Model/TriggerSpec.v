(* TriggerSpec.v — the object-based path as a reference for the native triggers (C14): what
   UnitOfWork leaves in one version table for a sequence of row events grouped into transactions
   (Model/Core.v restricted to one class, phrased over the trigger model's rows). *)
From Continuum Require Export Model.Base Model.VTable Model.Trigger.

Definition same_pk (g : tcfg) (r : trow) (p : prow) : bool :=
  forallb (fun c => sql_eq (tget r (tc_name c)) (pget p (tc_name c))) (tpk g).

Definition spec_step (g : tcfg) (T : Z) (e : tevent) (t : ttable) : ttable :=
  let '(kind, cur, old, new) :=
    match e with
    | TIns n => (OP_INS, n, [], n) | TUpd o n => (OP_UPD, n, o, n) | TDel o => (OP_DEL, o, o, []) end in
  let unchanged :=
    match e with
    | TUpd o n => forallb (fun c => tc_excl c || val_eqb (pget o (tc_name c)) (pget n (tc_name c))) (tg_cols g)
    | _ => false end in
  if unchanged then t else
  let newflags :=
    if tg_tracker g
    then map (fun c => (tc_name c,
               if kind =? OP_UPD then distinct (pget old (tc_name c)) (pget new (tc_name c)) else true)) (tnonpk g)
    else [] in
  let at_T r := (tr_tx r =? T) && same_pk g r cur in
  if existsb at_T t then
    (* a later event on the same row within the transaction: the object path rewrites the row of
       this transaction: last state, coalesced operation type, flags OR-ed; nothing else changes *)
    map (fun r => if at_T r
                  then mktr T (tr_end r) (if kind =? OP_DEL then OP_DEL else OP_UPD)
                            (map (fun c => (tc_name c, pget cur (tc_name c))) (tcols g))
                            (map (fun cf => (fst cf, snd cf || mget r (fst cf))) newflags)
                  else r) t
  else
  let closed :=
    if tg_validity g
    then (* close the newest open row of the entity *)
      let open := filter (fun r => match tr_end r with None => same_pk g r cur | Some _ => false end) t in
      match map tr_tx open with
      | [] => t
      | x :: xs => let m := fold_left Z.min xs x in
                   map (fun r => if (tr_tx r =? m) && same_pk g r cur
                                 then mktr (tr_tx r) (Some T) (tr_op r) (tr_dat r) (tr_mod r) else r) t
      end
    else t in
  closed ++ [mktr T None kind
               (map (fun c => (tc_name c, pget cur (tc_name c))) (tcols g))
               (if tg_tracker g
                then map (fun c => (tc_name c,
                           if kind =? OP_UPD then distinct (pget old (tc_name c)) (pget new (tc_name c)) else true))
                         (tnonpk g)
                else [])].

Definition spec_run (g : tcfg) (evs : list (option Z * tevent)) : ttable :=
  fold_left (fun t te => match fst te with None => t | Some T => spec_step g T (snd te) t end) evs [].
Definition prog_run (p : tprog) (evs : list (option Z * tevent)) : ttable :=
  fold_left (fun t te => texec p (fst te) (snd te) t) evs [].

