(* Core.v — Layer B: the versioning core as a reactive machine at the listener boundary.

   Input alphabet = what SQLAlchemy delivers to the package's listeners during one database
   transaction of one session (DESIGN §4.2, Appendix D).  The SQLAlchemy session itself is
   environment: its behaviour enters as the recorded event trace, whose well-formedness is
   monitored by the correspondence check.

   Code mirrored (file: function):
     manager.py:       before_flush, after_flush, track_inserts/updates/deletes, clear,
                       track_association_operations, is_excluded_property
     unit_of_work.py:  process_before_flush, create_transaction, process_after_flush, make_versions,
                       create_association_versions, create_version_objects, process_operation,
                       get_or_create_version_object, assign_attributes, update_version_validity
     operation.py:     Operations.add_insert / add_update / add_delete
     utils.py:         is_modified, is_modified_or_deleted, is_session_modified,
                       versioned_column_properties, versioned_relationships
     plugins:          null_delete, property_mod_tracker (after_create_version_object),
                       transaction_changes (before_create_version_objects)                     *)
From Continuum Require Export Model.Base Model.VTable Model.Backfill.

(* ------------------------------------------------------------------ configuration *)
Inductive reldir := M2O | O2M | M2M.
Record relcfg := mkrel { r_dir : reldir; r_local : list nat; r_excl : bool }.
(* c_here: the column is stored in the table this (part of a) class writes; false for the columns a
   joined-table hierarchy keeps in another table: they count for change detection, not as data *)
Record colcfg := mkcol { c_pk : bool; c_excl : bool; c_here : bool }.
Record clscfg := mkcls7 {
  k_versioned : bool;          (* has __versioned__ and option 'versioning'            *)
  k_validity  : bool;          (* option 'strategy' = 'validity' and this (part of a) class closes its
                                  predecessor itself: false for the child-table part of a joined hierarchy *)
  k_tab       : Z;             (* identifies the version table (first component of vkey) *)
  k_cols      : list colcfg;   (* mapped table columns, in mapper order                *)
  k_rels      : list relcfg;   (* relationships, in mapper order                       *)
  k_also      : list Z }.      (* base-table part of a joined-table hierarchy under the validity strategy: the
                                  child tables of the hierarchy; closing the predecessor (looked up in the base
                                  table, update_version_validity) closes its rows in those tables too *)
Definition mkcls (v val : bool) (tab : Z) (cols : list colcfg) (rels : list relcfg) : clscfg :=
  mkcls7 v val tab cols rels [].
Record cfg := mkcfg {
  g_versioning  : bool;        (* manager.options['versioning']        *)
  g_native      : bool;        (* manager.options['native_versioning'] *)
  g_null_delete : bool;        (* NullDeletePlugin                     *)
  g_tracker     : bool;        (* PropertyModTrackerPlugin             *)
  g_changes     : bool;        (* TransactionChangesPlugin             *)
  g_classes     : list clscfg }.

Definition dflt_cls : clscfg := mkcls false false (-1) [] [].
Definition cls_of (g : cfg) (c : nat) : clscfg := nth c (g_classes g) dflt_cls.

(* ------------------------------------------------------------------ events *)
Record ent_ev := mkev {
  e_cls    : nat;
  e_kind   : Z;              (* OP_INS after_insert / OP_UPD after_update / OP_DEL after_delete *)
  e_vals   : list val;       (* every mapped column value of the object as read at after_flush    *)
  e_colchg : list bool;      (* per column: attribute history has_changes()                       *)
  e_relchg : list bool;      (* per relationship: history has_changes()                           *)
  e_cstate : list nat;       (* keys of committed_state: column i -> i, relationship j -> #cols+j *)
  e_indel  : bool;           (* object in session.deleted                                          *)
  e_isnew  : bool;           (* object in session.new                                              *)
  e_blind  : list bool }.    (* per column: assigned while the old value was not loaded (history has
                                an added value but no deleted one); read only by the monitors      *)

Record obj_st := mkobj {     (* one object of the session as seen by is_session_modified           *)
  o_cls : nat; o_colchg : list bool; o_relchg : list bool; o_new : bool; o_del : bool }.

Record assoc_ev := mkas { as_tab : Z; as_key : list Z; as_op : Z }.   (* one parameter set *)

Inductive ev :=
| Flush (objs : list obj_st) (ents : list ent_ev) (assoc : list assoc_ev)
| Commit
| Rollback
| ManualTx                   (* uow.create_transaction(session) called by the application *)
| RawAssoc (a : assoc_ev).   (* Core INSERT/DELETE on an association table outside a flush
                                (track_association_operations appends to pending_statements) *)

(* ------------------------------------------------------------------ state *)
Record arow := mka { a_tab : Z; a_key : list Z; a_tx : Z; a_op : Z }.
Record lrow := mkl { l_cls : nat; l_key : pk; l_vals : list val }.

Record db := mkdb {
  d_live : list lrow;          (* application tables (as defined by the DML of the trace)  *)
  d_vt   : vtable;             (* all version tables; vkey = table id :: parent key         *)
  d_av   : list arow;          (* association version tables                                *)
  d_tx   : list Z;             (* transaction table (ids)                                   *)
  d_chg  : list (Z * nat) }.   (* transaction_changes (transaction id, class)               *)

Record oper := mkop {
  op_cls : nat; op_key : pk; op_kind : Z; op_proc : bool;
  op_vals : list val; op_colchg : list bool; op_indel : bool; op_isnew : bool }.

Record uow := mku {
  u_cur   : option Z;          (* current_transaction.id                   *)
  u_ops   : list oper;         (* Operations.objects (ordered)             *)
  u_vobjs : list (pk * Z);     (* keys of version_objs                      *)
  u_pend  : list assoc_ev;     (* pending_statements                        *)
  u_live  : bool }.            (* a UnitOfWork object exists for the connection (created by the first
                                  before_flush / unit_of_work() call of the transaction)           *)

Record state := mks {
  s_db : db;                   (* working copy inside the database transaction *)
  s_committed : db;            (* last committed content                        *)
  s_uow : uow;
  s_err : bool }.              (* the package itself raised (never expected)   *)

Definition uow0 : uow := mku None [] [] [] false.
Definition db0 : db := mkdb [] [] [] [] [].
Definition state0 : state := mks db0 db0 uow0 false.

(* ------------------------------------------------------------------ projections *)
Fixpoint proj {A} (flags : list bool) (l : list A) : list A :=
  match flags, l with
  | f :: flags', x :: l' => if f then x :: proj flags' l' else proj flags' l'
  | _, _ => []
  end.

Definition vz (v : val) : Z := match v with Some z => z | None => 0 end.

Definition pk_flags (cc : clscfg) : list bool := map c_pk (k_cols cc).
(* versioned_column_properties: table columns that are not excluded *)
Definition ver_flags (cc : clscfg) : list bool := map (fun c => negb (c_excl c)) (k_cols cc).
(* the data columns of the version row: versioned and not part of the key *)
Definition dat_flags (cc : clscfg) : list bool :=
  map (fun c => negb (c_excl c) && negb (c_pk c) && c_here c) (k_cols cc).

Definition key_of (cc : clscfg) (vals : list val) : pk := map vz (proj (pk_flags cc) vals).
Definition dat_of (cc : clscfg) (vals : list val) : list val := proj (dat_flags cc) vals.
Definition vkey_of (cc : clscfg) (vals : list val) : pk := k_tab cc :: key_of cc vals.

(* ------------------------------------------------------------------ utils.is_modified *)
Definition col_versioned (cc : clscfg) (i : nat) : bool := nth i (ver_flags cc) false.

(* versioned_relationships: some local column is a versioned column (and, since the repair of
   finding 7, the relationship itself is not excluded) *)
Definition rel_versioned (cc : clscfg) (r : relcfg) : bool :=
  negb (r_excl r) && existsb (col_versioned cc) (r_local r).

Fixpoint any2 {A B} (f : A -> B -> bool) (a : list A) (b : list B) : bool :=
  match a, b with
  | x :: a', y :: b' => f x y || any2 f a' b'
  | _, _ => false
  end.

Definition is_modified (cc : clscfg) (colchg relchg : list bool) : bool :=
  any2 (fun v chg => v && chg) (ver_flags cc) colchg ||
  any2 (fun r chg => rel_versioned cc r && chg) (k_rels cc) relchg.

Definition obj_modified (g : cfg) (o : obj_st) : bool :=
  let cc := cls_of g (o_cls o) in
  k_versioned cc && (is_modified cc (o_colchg o) (o_relchg o) || o_new o || o_del o).

(* ------------------------------------------------------------------ operation.py *)
Definition is_collection (d : reldir) : bool := match d with M2O => false | _ => true end.

(* add_update (after the repair of finding 8): a key of committed_state counts when it is a
   versioned column, or a versioned non-collection relationship, whose history has changes *)
Definition real_change (cc : clscfg) (e : ent_ev) (a : nat) : bool :=
  let n := length (k_cols cc) in
  if (a <? n)%nat then col_versioned cc a && nth a (e_colchg e) false
  else match nth_error (k_rels cc) (a - n) with
       | Some r => negb (is_collection (r_dir r)) && rel_versioned cc r && nth (a - n) (e_relchg e) false
       | None => false
       end.

Definition same_op (c : nat) (k : pk) (o : oper) : bool := (op_cls o =? c)%nat && pk_eqb (op_key o) k.

(* OrderedDict assignment: overwrite in place, else append *)
Fixpoint put_op (o : oper) (ops : list oper) : list oper :=
  match ops with
  | [] => [o]
  | x :: ops' => if same_op (op_cls o) (op_key o) x then o :: ops' else x :: put_op o ops'
  end.

Definition mk_oper (cc : clscfg) (e : ent_ev) (kind : Z) : oper :=
  mkop (e_cls e) (key_of cc (e_vals e)) kind false (e_vals e) (e_colchg e) (e_indel e) (e_isnew e).

Definition track (g : cfg) (ops : list oper) (e : ent_ev) : list oper :=
  let cc := cls_of g (e_cls e) in
  if negb (k_versioned cc) then ops else
  let k := key_of cc (e_vals e) in
  if e_kind e =? OP_INS then
    (* add_insert: delete + insert within one transaction is an update *)
    put_op (mk_oper cc e (if existsb (same_op (e_cls e) k) ops then OP_UPD else OP_INS)) ops
  else if e_kind e =? OP_UPD then
    if is_modified cc (e_colchg e) (e_relchg e) && existsb (real_change cc e) (e_cstate e)
    then put_op (mk_oper cc e OP_UPD) ops else ops
  else put_op (mk_oper cc e OP_DEL) ops.

(* does this mapper event leave an (unprocessed) entry in the operations map? *)
Definition tracked (g : cfg) (e : ent_ev) : bool :=
  let cc := cls_of g (e_cls e) in
  k_versioned cc &&
  ((e_kind e =? OP_INS) || negb (e_kind e =? OP_UPD) ||
   (is_modified cc (e_colchg e) (e_relchg e) && existsb (real_change cc e) (e_cstate e))).

(* ------------------------------------------------------------------ the application's own DML *)
Definition same_l (c : nat) (k : pk) (r : lrow) : bool := (l_cls r =? c)%nat && pk_eqb (l_key r) k.

Fixpoint merge_vals (chg : list bool) (new old : list val) : list val :=
  match chg, new, old with
  | c :: chg', n :: new', o :: old' => (if c then n else o) :: merge_vals chg' new' old'
  | _, new, _ => new
  end.

Definition apply_live (g : cfg) (live : list lrow) (e : ent_ev) : list lrow :=
  let cc := cls_of g (e_cls e) in
  let k := key_of cc (e_vals e) in
  let rest := filter (fun r => negb (same_l (e_cls e) k r)) live in
  if e_kind e =? OP_DEL then rest
  else if e_kind e =? OP_UPD then
    (* an UPDATE statement sets only the attributes whose history has changes; every other column
       keeps the row's value.  For an up-to-date object that is what the object holds anyway; for a
       row switch (delete + add of one key in one flush, delivered as one after_update on the new
       object) and for objects left stale by one, the object and the row differ *)
    match find (same_l (e_cls e) k) live with
    | Some old => rest ++ [mkl (e_cls e) k (merge_vals (e_colchg e) (e_vals e) (l_vals old))]
    | None => rest ++ [mkl (e_cls e) k (e_vals e)]
    end
  else rest ++ [mkl (e_cls e) k (e_vals e)].

(* ------------------------------------------------------------------ unit_of_work.py *)
Definition next_tx (txs : list Z) : Z := 1 + fold_right Z.max 0 txs.

Definition create_transaction (s : state) : state :=
  let T := next_tx (d_tx (s_db s)) in
  let d := s_db s in
  mks (mkdb (d_live d) (d_vt d) (d_av d) (d_tx d ++ [T]) (d_chg d)) (s_committed s)
      (mku (Some T) (u_ops (s_uow s)) (u_vobjs (s_uow s)) (u_pend (s_uow s)) true) (s_err s).

Definition is_row (k : pk) (T : Z) (r : vrow) : bool := same_key k r && (vtx r =? T).

(* update_version_validity: rows with tx = (SELECT max(tx) WHERE tx < T AND key) get end := T *)
Definition close_pred (t : vtable) (k : pk) (T : Z) : vtable :=
  let m := max_below t k T in
  map (fun r => if same_key k r && sql_eq (Some (vtx r)) m then set_end r (Some T) else r) t.

Definition flags_now (g : cfg) (cc : clscfg) (o : oper) : list bool :=
  if g_tracker g
  then map (fun chg => chg || op_indel o || op_isnew o)
           (proj (dat_flags cc) (op_colchg o ++ repeat false (length (k_cols cc))))
  else [].

(* get_or_create_version_object + assign_attributes + plugins + update_version_validity on the
   version tables: `known` = the version object is in version_objs (updated in place), otherwise a
   new row is inserted *)
Definition write_row (known : bool) (vt : vtable) (k : pk) (T : Z) (kind : Z) (dat : list val)
                     (fl : list bool) (validity : bool) : vtable :=
  let vt1 :=
    if known
    then map (fun r => if is_row k T r then mkv k T (vend r) kind dat (orb_list (vmod r) fl) else r) vt
    else vt ++ [mkv k T None kind dat fl] in
  if validity then close_pred vt1 k T else vt1.

Definition op_dat (g : cfg) (cc : clscfg) (o : oper) : list val :=
  let dat0 := dat_of cc (op_vals o) in
  if g_null_delete g && (op_kind o =? OP_DEL) then map (fun _ => None) dat0 else dat0.

(* process_operation; returns the new version tables, the new version_objs keys and an error flag *)
Definition process_op (g : cfg) (T : Z) (acc : vtable * list (pk * Z) * bool) (o : oper)
  : vtable * list (pk * Z) * bool :=
  let '(vt, vobjs, err) := acc in
  if op_proc o then acc else
  let cc := cls_of g (op_cls o) in
  let k := k_tab cc :: op_key o in
  let known := existsb (fun i => pk_eqb (fst i) k && (snd i =? T)) vobjs in
  let present := existsb (is_row k T) vt in
  (write_row known vt k T (op_kind o) (op_dat g cc o) (flags_now g cc o) (k_validity cc),
   if known then vobjs else vobjs ++ [(k, T)],
   err || (negb known && present)).

(* create_association_versions (after the repair of finding 11): one row per (table, pair, T) *)
Definition same_a (p : assoc_ev) (T : Z) (r : arow) : bool :=
  (a_tab r =? as_tab p) && list_eqb Z.eqb (a_key r) (as_key p) && (a_tx r =? T).
Definition write_assoc (T : Z) (av : list arow) (p : assoc_ev) : list arow :=
  filter (fun r => negb (same_a p T r)) av ++ [mka (as_tab p) (as_key p) T (as_op p)].

Fixpoint add_changes (T : Z) (chg : list (Z * nat)) (ops : list oper) : list (Z * nat) :=
  match ops with
  | [] => chg
  | o :: ops' =>
      let chg' := if existsb (fun x => (fst x =? T) && (snd x =? op_cls o)%nat) chg
                  then chg else chg ++ [(T, op_cls o)] in
      add_changes T chg' ops'
  end.

Definition mark_proc (o : oper) : oper :=
  mkop (op_cls o) (op_key o) (op_kind o) true (op_vals o) (op_colchg o) (op_indel o) (op_isnew o).

Definition flush (g : cfg) (s : state) (objs : list obj_st) (ents : list ent_ev)
                 (assoc : list assoc_ev) : state :=
  let d := s_db s in
  let live' := fold_left (apply_live g) ents (d_live d) in
  if negb (g_versioning g)
  then mks (mkdb live' (d_vt d) (d_av d) (d_tx d) (d_chg d)) (s_committed s) (s_uow s) (s_err s)
  else
  (* before_flush creates the transaction record when the session looks modified; since the repair
     of finding 10, after_flush creates it as well when operations were tracked although nothing
     looked modified beforehand (objects loaded and written during the flush).  Nothing in between
     reads the record, so the model creates it at one point. *)
  let s1 := if existsb (obj_modified g) objs || existsb (tracked g) ents
            then match u_cur (s_uow s) with None => create_transaction s | Some _ => s end
            else s in
  let d1 := s_db s1 in
  let u1 := s_uow s1 in
  (* mapper and engine listeners during the flush *)
  let ops' := fold_left (track g) ents (u_ops u1) in
  let pend' := u_pend u1 ++ assoc in
  (* after_flush *)
  match u_cur u1 with
  | None => mks (mkdb live' (d_vt d1) (d_av d1) (d_tx d1) (d_chg d1)) (s_committed s1)
                (mku None ops' (u_vobjs u1) pend' true) (s_err s1)
  | Some T =>
      let av' := fold_left (write_assoc T) pend' (d_av d1) in
      match ops' with
      | [] => mks (mkdb live' (d_vt d1) av' (d_tx d1) (d_chg d1)) (s_committed s1)
                  (mku (Some T) [] (u_vobjs u1) [] true) (s_err s1)
      | _ =>
          let chg' := if g_changes g then add_changes T (d_chg d1) ops' else d_chg d1 in
          if g_native g
          then mks (mkdb live' (d_vt d1) av' (d_tx d1) chg') (s_committed s1)
                   (mku (Some T) ops' (u_vobjs u1) [] true) (s_err s1)
          else
          let '(vt', vobjs', err') := fold_left (process_op g T) ops' (d_vt d1, u_vobjs u1, s_err s1) in
          mks (mkdb live' vt' av' (d_tx d1) chg') (s_committed s1)
              (mku (Some T) (map mark_proc ops') vobjs' [] true) err'
      end
  end.

(* ---- joined-table hierarchies: the predecessor of a version is the previous version of the key in the
   BASE table of the hierarchy, whichever class it had; closing it closes its rows in the child tables *)
Definition no_hierb (g : cfg) : bool :=
  forallb (fun cc => match k_also cc with [] => true | _ => false end) (g_classes g).

Definition hier_closed (g : cfg) (T : Z) (vt : vtable) (x : vrow) : bool :=
  existsb (fun cc =>
     existsb (Z.eqb (hd 0 (vkey x))) (k_also cc) &&
     existsb (fun r => (hd 0 (vkey r) =? k_tab cc) && (vtx r =? T) &&
                       list_eqb Z.eqb (tl (vkey r)) (tl (vkey x)) &&
                       sql_eq (Some (vtx x)) (max_below vt (vkey r) T)) vt) (g_classes g).

Definition hier_pass (g : cfg) (s : state) : state :=
  if no_hierb g then s else
  match u_cur (s_uow s) with
  | None => s
  | Some T =>
      let d := s_db s in
      mks (mkdb (d_live d)
                (map (fun x => if hier_closed g T (d_vt d) x then set_end x (Some T) else x) (d_vt d))
                (d_av d) (d_tx d) (d_chg d))
          (s_committed s) (s_uow s) (s_err s)
  end.

Definition step (g : cfg) (s : state) (e : ev) : state :=
  match e with
  | Flush objs ents assoc => hier_pass g (flush g s objs ents assoc)
  | Commit => mks (s_db s) (s_db s) uow0 (s_err s)               (* after_commit -> clear      *)
  | Rollback => mks (s_committed s) (s_committed s) uow0 (s_err s) (* database + clear(_connection) *)
  | ManualTx => if g_versioning g then create_transaction s else s
  | RawAssoc a =>
      (* skipped when no unit of work exists for the connection (after the repair of finding 12) *)
      if (g_versioning g || g_native g) && u_live (s_uow s)
      then mks (s_db s) (s_committed s)
               (mku (u_cur (s_uow s)) (u_ops (s_uow s)) (u_vobjs (s_uow s)) (u_pend (s_uow s) ++ [a]) true) (s_err s)
      else s
  end.

Definition run (g : cfg) (evs : list ev) : state := fold_left (step g) evs state0.

(* states after every event, for the step-by-step comparison with the implementation *)
Fixpoint run_trace (g : cfg) (s : state) (evs : list ev) : list state :=
  match evs with
  | [] => []
  | e :: evs' => let s' := step g s e in s' :: run_trace g s' evs'
  end.
