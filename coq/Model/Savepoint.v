(* Savepoint.v — savepoints around the Layer-B machine.  ROLLBACK TO SAVEPOINT restores the database;
   since the repair of F-C06-savepoint-inner-flush the manager remembers the state of the unit of work
   when a nested transaction begins (after_transaction_create) and brings it back when the nested
   transaction is rolled back (after_soft_rollback): transaction object, operations, pending
   statements, version objects. *)
From Continuum Require Export Model.Base Model.VTable Model.Core.

Inductive mev := MCore (e : ev) | SpBegin | SpRollback | SpRelease.
Record mstate := mkms { m_core : state; m_sps : list (db * uow) }.

Definition with_saved (s : state) (du : db * uow) : state := mks (fst du) (s_committed s) (snd du) (s_err s).

Definition mstep (g : cfg) (m : mstate) (e : mev) : mstate :=
  match e with
  | MCore Commit => mkms (step g (m_core m) Commit) []
  | MCore Rollback => mkms (step g (m_core m) Rollback) []
  | MCore e' => mkms (step g (m_core m) e') (m_sps m)
  | SpBegin => mkms (m_core m) ((s_db (m_core m), s_uow (m_core m)) :: m_sps m)
  | SpRollback => match m_sps m with
                  | du :: rest => mkms (with_saved (m_core m) du) rest
                  | [] => m end
  | SpRelease => match m_sps m with _ :: rest => mkms (m_core m) rest | [] => m end
  end.

Definition mrun (g : cfg) (evs : list mev) : mstate := fold_left (mstep g) evs (mkms state0 []).
