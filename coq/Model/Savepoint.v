(* Savepoint.v — savepoints around the Layer-B machine.  The database is restored by ROLLBACK TO
   SAVEPOINT; no listener of the package runs (manager.clear returns early inside a nested
   transaction, the engine 'rollback' event is not fired), so the unit of work is left as it is. *)
From Continuum Require Export Model.Base Model.VTable Model.Core.

Inductive mev := MCore (e : ev) | SpBegin | SpRollback | SpRelease.
Record mstate := mkms { m_core : state; m_sps : list db }.

Definition with_db (s : state) (d : db) : state := mks d (s_committed s) (s_uow s) (s_err s).

Definition mstep (g : cfg) (m : mstate) (e : mev) : mstate :=
  match e with
  | MCore Commit => mkms (step g (m_core m) Commit) []
  | MCore Rollback => mkms (step g (m_core m) Rollback) []
  | MCore e' => mkms (step g (m_core m) e') (m_sps m)
  | SpBegin => mkms (m_core m) (s_db (m_core m) :: m_sps m)
  | SpRollback => match m_sps m with
                  | d :: rest => mkms (with_db (m_core m) d) rest
                  | [] => m end
  | SpRelease => match m_sps m with _ :: rest => mkms (m_core m) rest | [] => m end
  end.

Definition mrun (g : cfg) (evs : list mev) : mstate := fold_left (mstep g) evs (mkms state0 []).
