(* Activity.v — ActivityPlugin: which version an activity's object / target pointer refers to.
   Activity._calculate_tx_id: the in-flight version object of the entity in the version session
   (its transaction id is the current one), else SELECT max(transaction_id) of the entity's rows. *)
From Continuum Require Export Model.Base Model.VTable Model.Rel Model.Core.

Fixpoint max_tx (t : vtable) (k : pk) : option Z :=
  match t with
  | [] => None
  | r :: t' =>
      let m := max_tx t' k in
      if same_key k r then Some (match m with None => vtx r | Some y => Z.max (vtx r) y end) else m
  end.

Definition calc_tx (vt : vtable) (K : pk) (cur : Z) : option Z :=
  if existsb (is_row K cur) vt then Some cur else max_tx vt K.
