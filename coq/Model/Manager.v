(* Manager.v — Layer M: several sessions, each on its own connection, sharing one VersioningManager.
   Mirrors manager.py: units_of_work (connection -> UnitOfWork), session_connection_map
   (session -> connection), unit_of_work(session), clear(session) (after_commit / after_rollback),
   clear_connection(conn) (engine 'rollback' event), including the sweeps of closed connections and
   of connections sharing the DB-API connection.  Connections are compared by identity (an id);
   their DB-API connection and closed flag are environment, given by functions. *)
From Continuum Require Export Model.Base Model.VTable Model.Core.

Section Manager.
  Variable dbapi : nat -> nat.        (* connection id -> id of its DB-API connection *)
  Variable closed : nat -> bool.      (* connection.closed                             *)

  Record sess := mksess { ss_id : nat; ss_conn : nat }.

  Record gstate := mkg {
    g_uows : list (nat * uow);                  (* units_of_work                              *)
    g_smap : list (nat * nat);                  (* session_connection_map                     *)
    g_dbs  : list (nat * (db * db * bool)) }.   (* per connection: working db, committed db, error flag *)

  Definition gstate0 : gstate := mkg [] [] [].

  Fixpoint aget {A} (l : list (nat * A)) (k : nat) : option A :=
    match l with [] => None | (k', v) :: l' => if (k' =? k)%nat then Some v else aget l' k end.
  Fixpoint aset {A} (l : list (nat * A)) (k : nat) (v : A) : list (nat * A) :=
    match l with
    | [] => [(k, v)]
    | (k', v') :: l' => if (k' =? k)%nat then (k, v) :: l' else (k', v') :: aset l' k v
    end.
  Definition adel {A} (l : list (nat * A)) (k : nat) : list (nat * A) :=
    filter (fun p => negb (fst p =? k)%nat) l.

  Definition db_of (G : gstate) (c : nat) : db * db * bool :=
    match aget (g_dbs G) c with Some x => x | None => (db0, db0, false) end.

  (* manager.unit_of_work(session) *)
  Definition register (G : gstate) (s : sess) : gstate :=
    let smap' := if existsb (fun p => (snd p =? ss_conn s)%nat) (g_smap G)
                 then g_smap G else aset (g_smap G) (ss_id s) (ss_conn s) in
    let uows' := match aget (g_uows G) (ss_conn s) with
                 | Some _ => g_uows G | None => aset (g_uows G) (ss_conn s) uow0 end in
    mkg uows' smap' (g_dbs G).

  (* the sweep shared by clear and clear_connection *)
  Definition sweep (uows : list (nat * uow)) (c : nat) : list (nat * uow) :=
    filter (fun p => negb (closed (fst p) || (dbapi (fst p) =? dbapi c)%nat)) uows.

  Definition clear (G : gstate) (s : sess) : gstate :=
    match aget (g_smap G) (ss_id s) with
    | None => G
    | Some c => mkg (sweep (adel (g_uows G) c) c) (adel (g_smap G) (ss_id s)) (g_dbs G)
    end.

  Definition clear_connection (G : gstate) (c : nat) : gstate :=
    mkg (sweep (adel (g_uows G) c) c) (filter (fun p => negb (snd p =? c)%nat) (g_smap G)) (g_dbs G).

  Definition core_of (G : gstate) (c : nat) : state :=
    let '(d, cm, e) := db_of G c in
    mks d cm (match aget (g_uows G) c with Some u => u | None => uow0 end) e.

  Definition store (G : gstate) (c : nat) (st : state) (keep_uow : bool) : gstate :=
    mkg (if keep_uow then aset (g_uows G) c (s_uow st) else g_uows G) (g_smap G)
        (aset (g_dbs G) c (s_db st, s_committed st, s_err st)).

  (* one step of session s *)
  Definition gstep (g : cfg) (G : gstate) (s : sess) (e : ev) : gstate :=
    let c := ss_conn s in
    match e with
    | Flush _ _ _ | ManualTx =>
        if g_versioning g
        then let G1 := register G s in store G1 c (step g (core_of G1 c) e) true
        else store G c (step g (core_of G c) e) false
    | RawAssoc _ => store G c (step g (core_of G c) e)
                          (match aget (g_uows G) c with Some _ => true | None => false end)
    | Commit =>
        (* the database commits; after_commit -> clear(session) *)
        clear (store G c (step g (core_of G c) Commit) false) s
    | Rollback =>
        (* engine 'rollback' -> clear_connection(conn); after_rollback -> clear(session) *)
        clear (clear_connection (store G c (step g (core_of G c) Rollback) false) c) s
    end.

  Definition grun (g : cfg) (steps : list (sess * ev)) : gstate :=
    fold_left (fun G se => gstep g G (fst se) (snd se)) steps gstate0.

  (* ---- connection execution options (set_connection_execution_options -> track_cloned_connections):
     a connection that has no unit of work adopts the one of an OPEN connection sharing its DB-API
     connection (a clone / branch of it); the last such entry wins.  The adopted unit of work is the
     same Python object; the model copies it, which is exact as long as the two connections are not
     both used afterwards (never the case for independent sessions, see ManagerP). *)
  Inductive gev := GE (e : ev) | GOpt.

  Definition clone_track (G : gstate) (c : nat) : gstate :=
    match aget (g_uows G) c with
    | Some _ => G
    | None =>
        match rev (filter (fun p => negb (closed (fst p)) && (dbapi (fst p) =? dbapi c)%nat) (g_uows G)) with
        | [] => G
        | p :: _ => mkg (g_uows G ++ [(c, snd p)]) (g_smap G) (g_dbs G)
        end
    end.

  Definition gstep2 (g : cfg) (G : gstate) (s : sess) (x : gev) : gstate :=
    match x with GE e => gstep g G s e | GOpt => clone_track G (ss_conn s) end.

  Definition grun2 (g : cfg) (steps : list (sess * gev)) : gstate :=
    fold_left (fun G se => gstep2 g G (fst se) (snd se)) steps gstate0.

  (* what session s can see of the global state *)
  Definition view (G : gstate) (s : sess) : option uow * option nat * option (db * db * bool) :=
    (aget (g_uows G) (ss_conn s), aget (g_smap G) (ss_id s), aget (g_dbs G) (ss_conn s)).
End Manager.
