(* Trigger.v — Layer D: the native (PostgreSQL trigger) versioning path.
     tprog   AST of the generated trigger function (dialects/postgresql.py templates)
     gen     hand-written mirror of the template instantiation (UpsertSQL / ValiditySQL subclasses)
     texec   semantics of the statement forms the templates can produce, over version tables:
             NULL transaction id => no-op; hstore no-op guard; validity UPDATE; CTE upsert =
             UPDATE-else-INSERT with positional column/value lists; IS DISTINCT FROM.
   The text produced by the real code is parsed (harness/pgparse.py, fail-closed) into a tprog and
   compared structurally with `gen cfg` inside Coq on every run.  PostgreSQL itself is not available
   in the sandbox: texec is in the trusted base. *)
From Continuum Require Export Model.Base Model.VTable Model.Backfill.

Inductive src := NEW | OLD.
Definition src_eqb (a b : src) : bool := match a, b with NEW, NEW | OLD, OLD => true | _, _ => false end.

(* one entry of the INSERT column list: "name" (quoted) or name_mod (unquoted) *)
Inductive colref := CCol (c : Z) | CMod (c : Z).
(* one entry of the INSERT value list *)
Inductive vexpr := VRow (s : src) (c : Z) | VTrue | VDistinct (c : Z).
(* one assignment of the UPDATE arm *)
Inductive uexpr := UOp1 | UOp2 | USet (c : Z) (s : src) | UModOr (c : Z) | UModTrue (c : Z).

Record upsert := mkups {
  up_update : list uexpr;          (* SET ...                                             *)
  up_crit   : list (Z * src);      (* AND-ed "c" = S."c" key criteria                     *)
  up_cols   : list colref;         (* INSERT column list after (tx, operation_type)       *)
  up_optype : Z;                   (* operation type constant of the INSERT arm           *)
  up_vals   : list vexpr }.        (* SELECT value list after (tx value, operation type)  *)

Record validity := mkval { va_crit : list (Z * src) }.   (* key criteria of the validity UPDATE *)

Record tprog := mkprog {
  tp_excluded : list Z;            (* ARRAY[...] of the hstore no-op guard *)
  tp_ins_val : list validity; tp_ins : upsert;
  tp_upd_val : list validity; tp_upd : upsert;
  tp_del_val : list validity; tp_del : upsert }.

(* ---- configuration and generator ---- *)
Record tcol := mktc { tc_name : Z; tc_pk : bool; tc_excl : bool }.
Record tcfg := mktcfg { tg_cols : list tcol; tg_tracker : bool; tg_validity : bool }.

Definition tcols (g : tcfg) : list tcol := filter (fun c => negb (tc_excl c)) (tg_cols g).
Definition tnonpk (g : tcfg) : list tcol := filter (fun c => negb (tc_pk c)) (tcols g).
Definition tpk (g : tcfg) : list tcol := filter tc_pk (tcols g).

Definition gen_cols (g : tcfg) : list colref :=
  map (fun c => CCol (tc_name c)) (tcols g) ++
  (if tg_tracker g then map (fun c => CMod (tc_name c)) (tnonpk g) else []).

Definition gen_upsert (g : tcfg) (s : src) (optype : Z) (mods : list vexpr) (upd : list uexpr) : upsert :=
  mkups upd (map (fun c => (tc_name c, s)) (tpk g)) (gen_cols g) optype
        (map (fun c => VRow s (tc_name c)) (tcols g) ++ (if tg_tracker g then mods else [])).

Definition gen_update_values (g : tcfg) : list uexpr :=
  [UOp1] ++ map (fun c => USet (tc_name c) NEW) (tcols g) ++
  (if tg_tracker g then map (fun c => UModOr (tc_name c)) (tnonpk g) else []).

Definition gen_validity (g : tcfg) (s : src) : list validity :=
  if tg_validity g then [mkval (map (fun c => (tc_name c, s)) (tpk g))] else [].

Definition gen (g : tcfg) : tprog :=
  mkprog (map tc_name (filter tc_excl (tg_cols g)))
    (gen_validity g NEW)
    (gen_upsert g NEW OP_INS (map (fun _ => VTrue) (tnonpk g)) (gen_update_values g))
    (gen_validity g NEW)
    (gen_upsert g NEW OP_UPD (map (fun c => VDistinct (tc_name c)) (tnonpk g)) (gen_update_values g))
    (gen_validity g OLD)
    (gen_upsert g OLD OP_DEL (map (fun _ => VTrue) (tnonpk g))
                ([UOp2] ++ map (fun c => USet (tc_name c) OLD) (tcols g) ++
                 (if tg_tracker g then map (fun c => UModTrue (tc_name c)) (tnonpk g) else []))).

(* ---- structural equality (for the tie with the parsed text) ---- *)
Definition colref_eqb (a b : colref) : bool :=
  match a, b with CCol x, CCol y | CMod x, CMod y => x =? y | _, _ => false end.
Definition vexpr_eqb (a b : vexpr) : bool :=
  match a, b with
  | VRow s x, VRow t y => src_eqb s t && (x =? y) | VTrue, VTrue => true
  | VDistinct x, VDistinct y => x =? y | _, _ => false end.
Definition uexpr_eqb (a b : uexpr) : bool :=
  match a, b with
  | UOp1, UOp1 => true | UOp2, UOp2 => true | USet x s, USet y t => (x =? y) && src_eqb s t
  | UModOr x, UModOr y => x =? y | UModTrue x, UModTrue y => x =? y | _, _ => false end.
Definition crit_eqb (a b : Z * src) : bool := (fst a =? fst b) && src_eqb (snd a) (snd b).
Definition upsert_eqb (a b : upsert) : bool :=
  list_eqb uexpr_eqb (up_update a) (up_update b) && list_eqb crit_eqb (up_crit a) (up_crit b) &&
  list_eqb colref_eqb (up_cols a) (up_cols b) && (up_optype a =? up_optype b) &&
  list_eqb vexpr_eqb (up_vals a) (up_vals b).
Definition validity_eqb (a b : validity) : bool := list_eqb crit_eqb (va_crit a) (va_crit b).
Definition tprog_eqb (a b : tprog) : bool :=
  list_eqb Z.eqb (tp_excluded a) (tp_excluded b) &&
  list_eqb validity_eqb (tp_ins_val a) (tp_ins_val b) && upsert_eqb (tp_ins a) (tp_ins b) &&
  list_eqb validity_eqb (tp_upd_val a) (tp_upd_val b) && upsert_eqb (tp_upd a) (tp_upd b) &&
  list_eqb validity_eqb (tp_del_val a) (tp_del_val b) && upsert_eqb (tp_del a) (tp_del b).

(* ---- semantics ---- *)
(* a parent row: column name -> value (association list over all parent columns) *)
Definition prow := list (Z * val).
Definition pget (r : prow) (c : Z) : val :=
  match find (fun p => fst p =? c) r with Some p => snd p | None => None end.

Inductive tevent := TIns (new : prow) | TUpd (old new : prow) | TDel (old : prow).

Definition row_of (s : src) (old new : prow) : prow := match s with NEW => new | OLD => old end.

(* version rows carry their data by column name here; mods by column name *)
Record trow := mktr { tr_tx : Z; tr_end : option Z; tr_op : Z; tr_dat : list (Z * val); tr_mod : list (Z * bool) }.
Definition ttable := list trow.

Definition tget (r : trow) (c : Z) : val :=
  match find (fun p => fst p =? c) (tr_dat r) with Some p => snd p | None => None end.
Definition mget (r : trow) (c : Z) : bool :=
  match find (fun p => fst p =? c) (tr_mod r) with Some p => snd p | None => false end.

Definition crit_holds (crit : list (Z * src)) (old new : prow) (r : trow) : bool :=
  forallb (fun cs => sql_eq (tget r (fst cs)) (pget (row_of (snd cs) old new) (fst cs))) crit.

Definition distinct (a b : val) : bool := negb (val_eqb a b).      (* IS DISTINCT FROM *)

Fixpoint set_assoc {A} (c : Z) (v : A) (l : list (Z * A)) : list (Z * A) :=
  match l with
  | [] => [(c, v)]
  | (c', v') :: l' => if c' =? c then (c, v) :: l' else (c', v') :: set_assoc c v l'
  end.

Definition apply_uexpr (old new : prow) (r0 r : trow) (u : uexpr) : trow :=
  match u with
  | UOp1 => mktr (tr_tx r) (tr_end r) OP_UPD (tr_dat r) (tr_mod r)
  | UOp2 => mktr (tr_tx r) (tr_end r) OP_DEL (tr_dat r) (tr_mod r)
  | UModTrue c => mktr (tr_tx r) (tr_end r) (tr_op r) (tr_dat r) (set_assoc c true (tr_mod r))
  | USet c s => mktr (tr_tx r) (tr_end r) (tr_op r) (set_assoc c (pget (row_of s old new) c) (tr_dat r)) (tr_mod r)
  | UModOr c => mktr (tr_tx r) (tr_end r) (tr_op r) (tr_dat r)
                     (set_assoc c (mget r0 c || distinct (pget old c) (pget new c)) (tr_mod r))
  end.

Definition eval_vexpr (old new : prow) (v : vexpr) : val + bool :=
  match v with
  | VRow s c => inl (pget (row_of s old new) c)
  | VTrue => inr true
  | VDistinct c => inr (distinct (pget old c) (pget new c))
  end.

(* INSERT ... (cols) SELECT (vals): positional pairing *)
Fixpoint pair_insert (cols : list colref) (vals : list vexpr) (old new : prow) (r : trow) : trow :=
  match cols, vals with
  | CCol c :: cols', v :: vals' =>
      let r' := match eval_vexpr old new v with
                | inl x => mktr (tr_tx r) (tr_end r) (tr_op r) (tr_dat r ++ [(c, x)]) (tr_mod r)
                | inr b => mktr (tr_tx r) (tr_end r) (tr_op r) (tr_dat r ++ [(c, Some (if b then 1 else 0))]) (tr_mod r)
                end in pair_insert cols' vals' old new r'
  | CMod c :: cols', v :: vals' =>
      let r' := match eval_vexpr old new v with
                | inr b => mktr (tr_tx r) (tr_end r) (tr_op r) (tr_dat r) (tr_mod r ++ [(c, b)])
                | inl x => mktr (tr_tx r) (tr_end r) (tr_op r) (tr_dat r) (tr_mod r ++ [(c, negb (val_eqb x None))])
                end in pair_insert cols' vals' old new r'
  | _, _ => r
  end.

Definition exec_upsert (u : upsert) (T : Z) (old new : prow) (t : ttable) : ttable :=
  let hit r := (tr_tx r =? T) && crit_holds (up_crit u) old new r in
  if existsb hit t
  then map (fun r => if hit r then fold_left (apply_uexpr old new r) (up_update u) r else r) t
  else t ++ [pair_insert (up_cols u) (up_vals u) old new (mktr T None (up_optype u) [] [])].

(* UPDATE vt SET end = T WHERE tx = (SELECT MIN(tx) FROM vt WHERE end IS NULL AND tx <> T AND crit) AND crit
   (tx <> T since repair of F-C14-validity-self-close: the row an earlier event of this transaction wrote
   is not a predecessor) *)
Definition exec_validity (v : validity) (T : Z) (old new : prow) (t : ttable) : ttable :=
  let open := filter (fun r => match tr_end r with
                               | None => negb (tr_tx r =? T) && crit_holds (va_crit v) old new r
                               | Some _ => false end) t in
  match map tr_tx open with
  | [] => t
  | x :: xs =>
      let m := fold_left Z.min xs x in
      map (fun r => if (tr_tx r =? m) && crit_holds (va_crit v) old new r
                    then mktr (tr_tx r) (Some T) (tr_op r) (tr_dat r) (tr_mod r) else r) t
  end.

(* the hstore guard: every differing column is in the excluded array *)
Definition noop_update (p : tprog) (old new : prow) : bool :=
  forallb (fun cv => negb (distinct (pget old (fst cv)) (snd cv)) || existsb (Z.eqb (fst cv)) (tp_excluded p)) new.

Definition texec (p : tprog) (cur : option Z) (e : tevent) (t : ttable) : ttable :=
  match cur with
  | None => t                                     (* transaction_id_value IS NULL: RETURN NEW *)
  | Some T =>
      match e with
      | TIns new =>
          exec_upsert (tp_ins p) T [] new (fold_left (fun t v => exec_validity v T [] new t) (tp_ins_val p) t)
      | TUpd old new =>
          if noop_update p old new then t
          else exec_upsert (tp_upd p) T old new (fold_left (fun t v => exec_validity v T old new t) (tp_upd_val p) t)
      | TDel old =>
          exec_upsert (tp_del p) T old [] (fold_left (fun t v => exec_validity v T old [] t) (tp_del_val p) t)
      end
  end.
