(* Revert.v — Layer R: Reverter (reverter.py) on the blog shape
     Article(id, a, b, x[excluded])  1-n Tag(id, a, article_id)   n-m Label(id, a)
   as a function from the live tables, the version tables and the target version to the live tables
   after `version.revert(relations); session.commit()`.  One level of relationships; the effect of
   SQLAlchemy's own cascades (deleting an article nullifies its tags' foreign key and removes its
   links) is part of the function. *)
From Continuum Require Export Model.Base Model.VTable Model.Rel.

Definition ltab := list (Z * list val).     (* live table: key -> all column values *)
Record rlive := mkrl { rl_art : ltab; rl_tag : ltab; rl_lab : ltab; rl_lnk : list (Z * Z) }.

Definition lget (t : ltab) (k : Z) : option (list val) :=
  option_map snd (find (fun p => fst p =? k) t).
Fixpoint lset (t : ltab) (k : Z) (v : list val) : ltab :=
  match t with
  | [] => [(k, v)]
  | (k', v') :: t' => if k' =? k then (k, v) :: t' else (k', v') :: lset t' k v
  end.
Definition ldel (t : ltab) (k : Z) : ltab := filter (fun p => negb (fst p =? k)) t.

Definition key0 (r : vrow) : Z := hd 0 (vkey r).

(* revert_properties on an article: versioned columns from the version, the excluded column is not
   touched (None on a re-created object) *)
Definition put_article (L : rlive) (k : Z) (dat : list val) : rlive :=
  let x := match lget (rl_art L) k with Some [_; _; x] => x | _ => None end in
  mkrl (lset (rl_art L) k (dat ++ [x])) (rl_tag L) (rl_lab L) (rl_lnk L).
Definition put_tag (L : rlive) (k : Z) (dat : list val) : rlive :=
  mkrl (rl_art L) (lset (rl_tag L) k dat) (rl_lab L) (rl_lnk L).
Definition put_label (L : rlive) (k : Z) (dat : list val) : rlive :=
  mkrl (rl_art L) (rl_tag L) (lset (rl_lab L) k dat) (rl_lnk L).

(* session.delete(article): its tags keep existing with a NULL foreign key, its links disappear *)
Definition delete_article (L : rlive) (k : Z) : rlive :=
  mkrl (ldel (rl_art L) k)
       (map (fun p => match snd p with
                      | [a; fk] => if sql_eq fk (Some k) then (fst p, [a; None]) else p
                      | _ => p end) (rl_tag L))
       (rl_lab L)
       (filter (fun p => negb (fst p =? k)) (rl_lnk L)).

Definition revert_article (tt tl : vtable) (av : list lnk) (L : rlive) (v : vrow)
                          (tags labels : bool) : rlive :=
  let k := key0 v in
  if vop v =? OP_DEL then
    match lget (rl_art L) k with Some _ => delete_article L k | None => L end
  else
    let L1 := put_article L k (vdat v) in
    let L2 :=
      if tags then
        let S := rel_o2m 1 tt v in
        let L' := fold_left (fun L c => put_tag L (key0 c) (vdat c)) S L1 in
        (* children added since go away *)
        mkrl (rl_art L')
             (filter (fun p => match snd p with
                               | [_; fk] => negb (sql_eq fk (Some k)) || existsb (fun c => key0 c =? fst p) S
                               | _ => true end) (rl_tag L'))
             (rl_lab L') (rl_lnk L')
      else L1 in
    if labels then
      let Ls := rel_m2m av tl v in
      let L' := fold_left (fun L c => put_label L (key0 c) (vdat c)) Ls L2 in
      mkrl (rl_art L') (rl_tag L') (rl_lab L')
           (filter (fun p => negb (fst p =? k)) (rl_lnk L') ++ map (fun c => (k, key0 c)) Ls)
    else L2.

Definition revert_tag (ta : vtable) (L : rlive) (v : vrow) (article : bool) : rlive :=
  let k := key0 v in
  if vop v =? OP_DEL then mkrl (rl_art L) (ldel (rl_tag L) k) (rl_lab L) (rl_lnk L)
  else
    let L1 := put_tag L k (vdat v) in
    if article then
      match rel_m2o 1 ta v with
      | Some p => put_article L1 (key0 p) (vdat p)
      | None => L1
      end
    else L1.

(* ------------------------------------------------------------------ dotted paths
   Reverter descends: revert_child builds a Reverter for every related version with the paths below the
   relationship's name (reverter.py first_level / subpaths); an entity that was visited already is not reverted
   again.  `reach` lists the versions such a call visits when no entity is reached twice: one node per reverted
   version with the relationship names that continue below it.  Relationship codes: *)
Definition R_TAGS : Z := 0.      (* Article.tags      one-to-many  *)
Definition R_LABELS : Z := 1.    (* Article.labels    many-to-many *)
Definition R_ARTICLE : Z := 2.   (* Tag.article       many-to-one  *)
Definition R_ARTICLES : Z := 3.  (* Label.articles    many-to-many, other side *)

Definition heads (paths : list (list Z)) : list Z :=
  flat_map (fun p => match p with [] => [] | h :: _ => [h] end) paths.
Definition subpaths (paths : list (list Z)) (r : Z) : list (list Z) :=
  flat_map (fun p => match p with
                     | h :: ((_ :: _) as t) => if h =? r then [t] else []
                     | _ => [] end) paths.

Record rtabs := mkrt { t_art : vtable; t_tag : vtable; t_lab : vtable; t_av : list lnk }.
Record rnode := mkrn { rn_cls : nat; rn_key : Z; rn_tx : Z; rn_heads : list Z }.
Definition swap_lnk (a : lnk) : lnk := mklnk (k_r a) (k_l a) (k_tx a) (k_op a).
Definition in_heads (hs : list Z) (r : Z) : bool := existsb (Z.eqb r) hs.

Fixpoint reach (fuel : nat) (T : rtabs) (root : nat * Z) (c : nat) (v : vrow) (paths : list (list Z)) : list rnode :=
  match fuel with
  | O => []
  | S f =>
      let hs := heads paths in
      let kids (r : Z) (c' : nat) (vs : vtable) : list rnode :=
        if in_heads hs r
        then flat_map (fun ch => if (c' =? fst root)%nat && (key0 ch =? snd root) then []   (* back at the root: visited *)
                                 else reach f T root c' ch (subpaths paths r)) vs
        else [] in
      mkrn c (key0 v) (vtx v) hs ::
      match c with
      | 0%nat => kids R_TAGS 1%nat (rel_o2m 1 (t_tag T) v) ++ kids R_LABELS 2%nat (rel_m2m (t_av T) (t_lab T) v)
      | 1%nat => kids R_ARTICLE 0%nat (match rel_m2o 1 (t_art T) v with Some p => [p] | None => [] end)
      | _ => kids R_ARTICLES 0%nat (rel_m2m (map swap_lnk (t_av T)) (t_art T) v)
      end
  end.
