(* Changeset.v — Layer A: VersionClassBase.changeset.
   The code iterates over the mapped columns of the version class, skips the three internal columns
   (and, with the tracker plugin, the *_mod keys), reads `old` from self.previous (None when there
   is no previous version) and keeps the column when Python `old != new`.  Columns are numbered:
   parent key columns first, then the data columns. *)
From Continuum Require Export Model.Base Model.VTable.

Definition cols_of (r : vrow) : list val := map Some (vkey r) ++ vdat r.

Fixpoint diff_cols (i : nat) (old new : list val) : list (nat * val * val) :=
  match new with
  | [] => []
  | n :: new' =>
      let o := hd None old in
      let rest := diff_cols (S i) (tl old) new' in
      if val_eqb o n then rest else (i, o, n) :: rest
  end.

Definition changeset (prev : option vrow) (r : vrow) : list (nat * val * val) :=
  diff_cols 0 (match prev with Some p => cols_of p | None => [] end) (cols_of r).

Definition changeset_S (t : vtable) (r : vrow) := changeset (prev_S t r) r.
Definition changeset_V (t : vtable) (r : vrow) := changeset (prev_V t r) r.
