(* VTable.v — Layer A: the version-history accessors as functions over an
   arbitrary version table.  Each definition mirrors the SQL the code emits:
     versions   model_builder.build_parent_relationship (primaryjoin on key, order_by tx)
     min_above  fetcher._transaction_id_subquery 'next'  (SELECT min(tx) WHERE tx > x AND key)
     max_below  fetcher._transaction_id_subquery 'prev'  (SELECT max(tx) WHERE tx < x AND key)
     next_S/prev_S  SubqueryFetcher   (tx = subquery AND key) .first()
     next_V/prev_V  ValidityFetcher   (tx = obj.end AND key) / (end = obj.tx AND key) .first()
     index      fetcher._index_query  (count of rows of the same entity with smaller tx)     *)
From Continuum Require Export Model.Base.

Definition rows_of (t : vtable) (k : pk) : vtable := filter (same_key k) t.

Fixpoint insert_tx (r : vrow) (l : vtable) : vtable :=
  match l with
  | [] => [r]
  | x :: l' => if vtx r <=? vtx x then r :: l else x :: insert_tx r l'
  end.
Fixpoint sort_tx (l : vtable) : vtable :=
  match l with
  | [] => []
  | x :: l' => insert_tx x (sort_tx l')
  end.

Definition versions (t : vtable) (k : pk) : vtable := sort_tx (rows_of t k).

Fixpoint min_above (t : vtable) (k : pk) (x : Z) : option Z :=
  match t with
  | [] => None
  | r :: t' =>
      let m := min_above t' k x in
      if same_key k r && (x <? vtx r)
      then Some (match m with None => vtx r | Some y => Z.min (vtx r) y end)
      else m
  end.

Fixpoint max_below (t : vtable) (k : pk) (x : Z) : option Z :=
  match t with
  | [] => None
  | r :: t' =>
      let m := max_below t' k x in
      if same_key k r && (vtx r <? x)
      then Some (match m with None => vtx r | Some y => Z.max (vtx r) y end)
      else m
  end.

Definition next_S (t : vtable) (r : vrow) : option vrow :=
  find (fun x => same_key (vkey r) x && sql_eq (Some (vtx x)) (min_above t (vkey r) (vtx r))) t.
Definition prev_S (t : vtable) (r : vrow) : option vrow :=
  find (fun x => same_key (vkey r) x && sql_eq (Some (vtx x)) (max_below t (vkey r) (vtx r))) t.

Definition next_V (t : vtable) (r : vrow) : option vrow :=
  find (fun x => same_key (vkey r) x && sql_eq (Some (vtx x)) (vend r)) t.
Definition prev_V (t : vtable) (r : vrow) : option vrow :=
  find (fun x => same_key (vkey r) x && sql_eq (vend x) (Some (vtx r))) t.

Definition index (t : vtable) (r : vrow) : nat :=
  length (filter (fun x => same_key (vkey r) x && (vtx x <? vtx r)) t).

(* Validity chain, pointwise form (DESIGN C03 / Appendix B): every row's end
   is the least transaction id of the same key above its own, NULL if none. *)
Definition chain_ok (t : vtable) : Prop :=
  forall r, In r t -> vend r = min_above t (vkey r) (vtx r).
Definition chain_okb (t : vtable) : bool :=
  forallb (fun r => oz_eqb (vend r) (min_above t (vkey r) (vtx r))) t.

(* distinct keys of a table, in first-occurrence order *)
Fixpoint keys_of (t : vtable) : list pk :=
  match t with
  | [] => []
  | r :: t' => let ks := keys_of t' in
               if existsb (pk_eqb (vkey r)) ks then ks else vkey r :: ks
  end.

Definition find_row (t : vtable) (k : pk) (tx : Z) : option vrow :=
  find (fun r => same_key k r && (vtx r =? tx)) t.

(* equality of two tables as sets of rows (both satisfy the table primary key) *)
Definition table_eqb (t1 t2 : vtable) : bool :=
  (length t1 =? length t2)%nat &&
  forallb (fun r => match find_row t2 (vkey r) (vtx r) with
                    | Some r' => vrow_eqb r r' | None => false end) t1.

(* successor / predecessor of a row by position in the sorted version list (specification side) *)
Fixpoint succ_in (l : vtable) (tx : Z) : option vrow :=
  match l with
  | [] => None
  | x :: l' => if vtx x =? tx then hd_error l' else succ_in l' tx
  end.
Fixpoint pred_in (l : vtable) (tx : Z) : option vrow :=
  match l with
  | x :: ((y :: _) as l') => if vtx y =? tx then Some x else pred_in l' tx
  | _ => None
  end.
