(* Base.v — data encoding shared by every layer of the model (DESIGN §4.1).
   Definitions only; all proofs live under Proofs/. *)
From Coq Require Export List ZArith Bool Lia.
Export ListNotations.
Open Scope Z_scope.

(* A stored value: None is SQL NULL; ints and strings are coded as Z by the harness. *)
Definition val := option Z.
(* A (composite) primary key of the parent entity. *)
Definition pk := list Z.

Fixpoint list_eqb {A} (eqb : A -> A -> bool) (a b : list A) : bool :=
  match a, b with
  | [], [] => true
  | x :: a', y :: b' => eqb x y && list_eqb eqb a' b'
  | _, _ => false
  end.

Definition pk_eqb (a b : pk) : bool := list_eqb Z.eqb a b.

Definition oz_eqb (a b : option Z) : bool :=
  match a, b with
  | None, None => true
  | Some x, Some y => x =? y
  | _, _ => false
  end.

Definition val_eqb : val -> val -> bool := oz_eqb.

(* SQL "a = b" under three-valued logic, as used in a WHERE clause: NULL never matches. *)
Definition sql_eq (a b : option Z) : bool :=
  match a, b with
  | Some x, Some y => x =? y
  | _, _ => false
  end.

Definition opt_eqb {A} (eqb : A -> A -> bool) (a b : option A) : bool :=
  match a, b with
  | None, None => true
  | Some x, Some y => eqb x y
  | _, _ => false
  end.

(* operation_type column: 0 INSERT, 1 UPDATE, 2 DELETE *)
Definition OP_INS : Z := 0.
Definition OP_UPD : Z := 1.
Definition OP_DEL : Z := 2.

(* One row of a version table. *)
Record vrow := mkv {
  vkey : pk;            (* parent primary key columns                       *)
  vtx  : Z;             (* transaction_id                                   *)
  vend : option Z;      (* end_transaction_id (None = NULL / column absent) *)
  vop  : Z;             (* operation_type                                   *)
  vdat : list val;      (* non-key versioned columns, in column order       *)
  vmod : list bool      (* <col>_mod flags (PropertyModTracker)             *)
}.
Definition vtable := list vrow.

Definition vrow_eqb (a b : vrow) : bool :=
  pk_eqb (vkey a) (vkey b) && (vtx a =? vtx b) && oz_eqb (vend a) (vend b)
  && (vop a =? vop b) && list_eqb val_eqb (vdat a) (vdat b)
  && list_eqb Bool.eqb (vmod a) (vmod b).

(* The version table's primary key: (parent key, transaction id). *)
Definition vid (r : vrow) : pk * Z := (vkey r, vtx r).
Definition pk_unique (t : vtable) : Prop := NoDup (map vid t).

Definition same_key (k : pk) (r : vrow) : bool := pk_eqb (vkey r) k.

(* generic helpers used by the check predicates *)
Fixpoint bad_cases_from {A} (n : nat) (chk : A -> bool) (l : list A) : list nat :=
  match l with
  | [] => []
  | x :: l' => if chk x then bad_cases_from (S n) chk l' else n :: bad_cases_from (S n) chk l'
  end.
Definition bad_cases {A} (chk : A -> bool) (l : list A) : list nat := bad_cases_from 0 chk l.
