(* Count.v — Layer A: utils.count_versions = SELECT COUNT(1) FROM <version table> WHERE key = :key *)
From Continuum Require Export Model.Base Model.VTable.
Definition count_versions (t : vtable) (k : pk) : nat := length (rows_of t k).
