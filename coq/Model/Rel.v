(* Rel.v — Layer A: the relationships of version objects (relationship_builder.py), written in the
   shape of the SQL the code emits, over arbitrary version / association-version tables.
   Single-column keys and foreign keys (composite foreign keys are not modelled). *)
From Continuum Require Export Model.Base Model.VTable.

(* SELECT max(tx) FROM t WHERE tx <= x AND key = k   (GROUP BY key: one group, or none) *)
Fixpoint max_le (t : vtable) (k : pk) (x : Z) : option Z :=
  match t with
  | [] => None
  | r :: t' =>
      let m := max_le t' k x in
      if same_key k r && (vtx r <=? x)
      then Some (match m with None => vtx r | Some y => Z.max (vtx r) y end)
      else m
  end.

(* EXISTS (SELECT 1 FROM t a WHERE a.tx <= x AND a.key = c.key GROUP BY a.key HAVING max(a.tx) = c.tx) *)
Definition is_asof (t : vtable) (c : vrow) (x : Z) : bool := sql_eq (max_le t (vkey c) x) (Some (vtx c)).

Definition fk_of (f : nat) (c : vrow) : val := nth f (vdat c) None.
Definition key1 (o : vrow) : val := match vkey o with [k] => Some k | _ => None end.

(* one_to_many_criteria: children whose as-of version points at the owner and is not a DELETE *)
Definition rel_o2m (f : nat) (tc : vtable) (o : vrow) : vtable :=
  filter (fun c => sql_eq (fk_of f c) (key1 o) && is_asof tc c (vtx o) && negb (vop c =? OP_DEL)) tc.

(* many_to_one_criteria: .first() of the parent rows selected by the scalar MAX subquery *)
Definition rel_m2o (f : nat) (tp : vtable) (o : vrow) : option vrow :=
  match fk_of f o with
  | None => None
  | Some k =>
      find (fun p => same_key [k] p && sql_eq (Some (vtx p)) (max_le tp [k] (vtx o)) && negb (vop p =? OP_DEL)) tp
  end.

(* association version rows: left key, right key, transaction, operation *)
Record lnk := mklnk { k_l : Z; k_r : Z; k_tx : Z; k_op : Z }.

Fixpoint max_le_lnk (av : list lnk) (l r : Z) (x : Z) : option Z :=
  match av with
  | [] => None
  | a :: av' =>
      let m := max_le_lnk av' l r x in
      if (k_l a =? l) && (k_r a =? r) && (k_tx a <=? x)
      then Some (match m with None => k_tx a | Some y => Z.max (k_tx a) y end)
      else m
  end.

(* association_subquery *)
Definition assoc_exists (av : list lnk) (l r : Z) (x : Z) : bool :=
  existsb (fun a => (k_l a =? l) && (k_r a =? r) && negb (k_op a =? OP_DEL) &&
                    sql_eq (max_le_lnk av l r x) (Some (k_tx a))) av.

(* many_to_many_criteria, from the left side (owner = left entity, targets = right entities) *)
Definition rel_m2m (av : list lnk) (tr : vtable) (o : vrow) : vtable :=
  match vkey o with
  | [l] => filter (fun c => match vkey c with
                            | [r] => assoc_exists av l r (vtx o) && is_asof tr c (vtx o) && negb (vop c =? OP_DEL)
                            | _ => false end) tr
  | _ => []
  end.

(* ---- specification side ---- *)
(* the version of entity k as of transaction x: the row with the greatest tx <= x *)
Definition as_of (t : vtable) (k : pk) (x : Z) : option vrow :=
  match max_le t k x with
  | None => None
  | Some m => find_row t k m
  end.
