(* Schema.v — Layer D: model configuration -> version table description.
   Mirrors table_builder.py (ColumnReflector.reflect_column, the internal columns, TableBuilder) and
   PropertyModTrackerPlugin.after_build_version_table_columns.  Names, types and formats are
   opaque codes (the harness numbers strings injectively per case). *)
From Continuum Require Export Model.Base.

Record pcol := mkpc {
  pc_name : Z; pc_type : Z; pc_pk : bool; pc_nullable : bool; pc_unique : bool; pc_autoinc : bool;
  pc_default : bool; pc_sdefault : bool; pc_onupdate : bool; pc_fk : bool;
  pc_excl : bool }.            (* key in exclude and not in include *)

Record vcol := mkvc {
  vc_name : Z; vc_type : Z; vc_pk : bool; vc_nullable : bool; vc_unique : bool; vc_autoinc : bool;
  vc_default : bool; vc_sdefault : bool; vc_onupdate : bool; vc_fk : bool }.

Record mcfg := mkm {
  m_cols : list pcol;
  m_validity : bool;           (* strategy = validity                       *)
  m_tracker : bool;            (* PropertyModTrackerPlugin                  *)
  m_internal : bool;           (* false for a single-table-inheritance child *)
  m_txn : Z; m_endn : Z; m_opn : Z;       (* names of the internal columns  *)
  m_modname : Z -> Z }.        (* column name -> name of its _mod column    *)

Definition T_BIGINT : Z := -1.
Definition T_SMALLINT : Z := -2.
Definition T_BOOL : Z := -3.

Definition reflect_column (m : mcfg) (c : pcol) : vcol :=
  let nullable0 := if pc_name c =? m_txn m then false else pc_nullable c in
  mkvc (pc_name c) (pc_type c) (pc_pk c)
       (if pc_pk c then nullable0 else true)
       false false false false false false.

Definition tx_column (m : mcfg) : vcol := mkvc (m_txn m) T_BIGINT true false false false false false false false.
Definition end_column (m : mcfg) : vcol := mkvc (m_endn m) T_BIGINT false true false false false false false false.
Definition op_column (m : mcfg) : vcol := mkvc (m_opn m) T_SMALLINT false false false false false false false false.
Definition mod_column (m : mcfg) (c : pcol) : vcol :=
  mkvc (m_modname m (pc_name c)) T_BOOL false false false false true true false false.

Definition kept (m : mcfg) : list pcol := filter (fun c => negb (pc_excl c)) (m_cols m).

Definition build (m : mcfg) : list vcol :=
  map (reflect_column m) (kept m) ++
  (if m_internal m
   then [tx_column m] ++ (if m_validity m then [end_column m] else []) ++ [op_column m]
   else []) ++
  (if m_tracker m
   then map (mod_column m) (filter (fun c => negb (pc_pk c)) (kept m))
   else []).
