(* C08chk.v — decidable predicates evaluated by the correspondence check of C08.
   C08_corr : the code's observations equal the model's accessors on this table.
   C08_prop : the code's observations satisfy the positional specification
              (stated without any reference to the model's accessors).          *)
From Continuum Require Import Model.Base Model.VTable.

Record C08_obs_row := { or_key : pk; or_tx : Z; or_index : nat;
                        or_next : option Z; or_prev : option Z;
                        or_same : bool }.   (* next / previous, when present, are versions of the SAME entity *)
Record C08_case := {
  c8_validity : bool;                      (* strategy = validity?                       *)
  c8_e2e  : bool;                          (* the table was written by the code's own write path *)
  c8_tbl  : vtable;                        (* rows loaded into the version table          *)
  c8_vers : list (pk * list Z);            (* per parent key: tx ids of obj.versions.all() *)
  c8_rows : list C08_obs_row;              (* per version row: index / next / previous     *)
  c8_exc  : bool }.                        (* the code raised                               *)

Definition otx (o : option vrow) : option Z := option_map vtx o.

Definition C08_corr (c : C08_case) : bool :=
  negb (c8_exc c) &&
  forallb (fun kv => list_eqb Z.eqb (map vtx (versions (c8_tbl c) (fst kv))) (snd kv)) (c8_vers c) &&
  (length (c8_rows c) =? length (c8_tbl c))%nat &&
  forallb (fun o =>
    match find_row (c8_tbl c) (or_key o) (or_tx o) with
    | None => false
    | Some r =>
        or_same o &&
        (index (c8_tbl c) r =? or_index o)%nat &&
        oz_eqb (otx (if c8_validity c then next_V (c8_tbl c) r else next_S (c8_tbl c) r)) (or_next o) &&
        oz_eqb (otx (if c8_validity c then prev_V (c8_tbl c) r else prev_S (c8_tbl c) r)) (or_prev o)
    end) (c8_rows c).

(* ---- specification side: only list positions ---- *)
Fixpoint strictly_inc (l : list Z) : bool :=
  match l with
  | x :: ((y :: _) as l') => (x <? y) && strictly_inc l'
  | _ => true
  end.

Fixpoint pos_of (x : Z) (l : list Z) : option nat :=
  match l with
  | [] => None
  | y :: l' => if x =? y then Some O else option_map S (pos_of x l')
  end.

Definition lookup_vers (vs : list (pk * list Z)) (k : pk) : option (list Z) :=
  option_map snd (find (fun kv => pk_eqb (fst kv) k) vs).

Definition C08_prop (c : C08_case) : bool :=
  negb (c8_exc c) &&
  (* every key of the table is reported, with all and only its rows, in increasing order *)
  forallb (fun k => match lookup_vers (c8_vers c) k with
                    | None => false
                    | Some txs =>
                        strictly_inc txs &&
                        (length txs =? length (rows_of (c8_tbl c) k))%nat &&
                        forallb (fun tx => match find_row (c8_tbl c) k tx with Some _ => true | None => false end) txs
                    end) (keys_of (c8_tbl c)) &&
  (length (c8_rows c) =? length (c8_tbl c))%nat &&
  forallb (fun o =>
    match lookup_vers (c8_vers c) (or_key o) with
    | None => false
    | Some txs =>
        match pos_of (or_tx o) txs with
        | None => false
        | Some i =>
            or_same o &&
            (or_index o =? i)%nat &&
            oz_eqb (or_next o) (nth_error txs (S i)) &&
            oz_eqb (or_prev o) (match i with O => None | S j => nth_error txs j end)
        end
    end) (c8_rows c).

(* hypothesis of the validity-strategy theorem; loaded tables violating it are not counted. A table written by the
   code itself is always counted: there the chain is the write path's obligation (C03), and navigation over what
   the code wrote has to be consistent without further hypotheses. *)
Definition C08_pre (c : C08_case) : bool :=
  if c8_validity c && negb (c8_e2e c) then chain_okb (c8_tbl c) else true.
