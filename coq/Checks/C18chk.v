(* C18chk.v — predicates for the activity plugin, on the snapshots of a recorded history. *)
From Continuum Require Import Model.Base Model.VTable Model.Rel Model.Core Model.Activity
     Checks.Corechk Checks.CoreProps.

Definition ptr_eqb (a b : option (nat * Z * option Z)) : bool :=
  match a, b with
  | None, None => true
  | Some (c, i, t), Some (c', i', t') => (c =? c')%nat && (i =? i') && oz_eqb t t'
  | _, _ => false
  end.
Definition act_eqb (a b : act) : bool :=
  (ac_id a =? ac_id b) && oz_eqb (ac_tx a) (ac_tx b) && ptr_eqb (ac_obj a) (ac_obj b) && ptr_eqb (ac_tgt a) (ac_tgt b).
Definition find_act (l : list act) (i : Z) : option act := find (fun a => ac_id a =? i) l.

Definition cur_of (sn : snap) : option Z :=
  match sn_tx sn with [] => None | x :: xs => Some (fold_left Z.max xs x) end.

(* specification: the newest version of the entity at or before transaction T (by scanning) *)
Definition newest_le (vt : vtable) (K : pk) (T : Z) : option Z :=
  option_map vtx (fold_left (fun acc r =>
     if same_key K r && (vtx r <=? T)
     then match acc with None => Some r | Some a => if vtx a <? vtx r then Some r else acc end
     else acc) vt None).

Definition ptr_ok (g : cfg) (sn : snap) (T : Z) (p : option (nat * Z * option Z)) : bool :=
  match p with
  | None => true
  | Some (c, i, t) => oz_eqb t (newest_le (sn_vt sn) (k_tab (cls_of g c) :: [i]) T)
  end.

(* model side: Activity._calculate_tx_id *)
Definition ptr_model (g : cfg) (sn : snap) (T : Z) (p : option (nat * Z * option Z)) : bool :=
  match p with
  | None => true
  | Some (c, i, t) => oz_eqb t (calc_tx (sn_vt sn) (k_tab (cls_of g c) :: [i]) T)
  end.

(* the property speaks about activities added AFTER their object's changes were flushed: an entity
   that has an event in the very flush that first writes the activity is outside that premise *)
Definition premise_fails (g : cfg) (e : ev) (p : option (nat * Z * option Z)) : bool :=
  match p, e with
  | Some (c, i, _), Flush _ ents _ =>
      existsb (fun en => (e_cls en =? c)%nat && pk_eqb (key_of (cls_of g c) (e_vals en)) [i]) ents
  | _, _ => false
  end.

Fixpoint walk18 (g : cfg) (chk : cfg -> snap -> Z -> option (nat * Z * option Z) -> bool)
                (committed seen : list act) (evs : list ev) (snaps : list snap) : bool :=
  match evs, snaps with
  | [], [] => true
  | e :: evs', sn :: snaps' =>
      forallb (fun a =>
        match find_act committed (ac_id a) with
        | Some old => act_eqb old a                          (* committed activities never change *)
        | None =>
            match find_act seen (ac_id a) with
            | Some _ => true                                 (* first flushed earlier in this transaction *)
            | None =>                                        (* first flush: stamped with the current transaction *)
                match cur_of sn with
                | Some T => oz_eqb (ac_tx a) (Some T) &&
                            (premise_fails g e (ac_obj a) || chk g sn T (ac_obj a)) &&
                            (premise_fails g e (ac_tgt a) || chk g sn T (ac_tgt a))
                | None => false
                end
            end
        end) (sn_acts sn) &&
      match e with
      | Commit => walk18 g chk (sn_acts sn) (sn_acts sn) evs' snaps'
      | Rollback => walk18 g chk committed committed evs' snaps'
      | _ => walk18 g chk committed (sn_acts sn ++ seen) evs' snaps'
      end
  | _, _ => false
  end.

Definition C18_prop (c : core_case) : bool :=
  negb (cc_exc c) && walk18 (cc_cfg c) ptr_ok [] [] (cc_evs c) (cc_snaps c) && C02_prop c.

Definition C18_corr (c : core_case) : bool :=
  Core_corr c && walk18 (cc_cfg c) ptr_model [] [] (cc_evs c) (cc_snaps c).
