(* C12chk.v — predicates for the derived version schema. *)
From Continuum Require Import Model.Base Model.Schema.

Record C12_case := {
  c12_cols : list pcol; c12_validity : bool; c12_tracker : bool; c12_internal : bool;
  c12_txn : Z; c12_endn : Z; c12_opn : Z;
  c12_modnames : list (Z * Z);         (* parent column name -> name of its flag column           *)
  c12_obs : list vcol;                 (* columns of the real version table                       *)
  c12_name_ok : bool;                  (* table name = format % parent name                       *)
  c12_schema_ok : bool;                (* schema = parent's schema                                *)
  c12_maps_ok : bool;                  (* version_class / parent_class are inverse one-to-one maps *)
  c12_shape_ok : bool;                 (* inheritance shape: STI child shares the table, joined child has its own *)
  c12_roundtrip_ok : bool;             (* a NULL-filled row can be inserted and read back unchanged *)
  c12_exc : bool }.

Definition modname_of (l : list (Z * Z)) (n : Z) : Z :=
  match find (fun p => fst p =? n) l with Some p => snd p | None => -1000 - n end.

Definition cfg_of (c : C12_case) : mcfg :=
  mkm (c12_cols c) (c12_validity c) (c12_tracker c) (c12_internal c)
      (c12_txn c) (c12_endn c) (c12_opn c) (modname_of (c12_modnames c)).

Definition vcol_eqb (a b : vcol) : bool :=
  (vc_name a =? vc_name b) && (vc_type a =? vc_type b) && Bool.eqb (vc_pk a) (vc_pk b) &&
  Bool.eqb (vc_nullable a) (vc_nullable b) && Bool.eqb (vc_unique a) (vc_unique b) &&
  Bool.eqb (vc_autoinc a) (vc_autoinc b) && Bool.eqb (vc_default a) (vc_default b) &&
  Bool.eqb (vc_sdefault a) (vc_sdefault b) && Bool.eqb (vc_onupdate a) (vc_onupdate b) &&
  Bool.eqb (vc_fk a) (vc_fk b).

Definition cols_eqb (a b : list vcol) : bool :=
  (length a =? length b)%nat && forallb (fun x => existsb (vcol_eqb x) b) a && forallb (fun x => existsb (vcol_eqb x) a) b.

Definition C12_corr (c : C12_case) : bool :=
  negb (c12_exc c) && cols_eqb (build (cfg_of c)) (c12_obs c).

Definition col_named (obs : list vcol) (n : Z) : option vcol := find (fun v => vc_name v =? n) obs.
Definition count_named (obs : list vcol) (n : Z) : nat := length (filter (fun v => vc_name v =? n) obs).

(* the property text, clause by clause, on the observed columns *)
Definition C12_prop (c : C12_case) : bool :=
  let obs := c12_obs c in
  negb (c12_exc c) && c12_name_ok c && c12_schema_ok c && c12_maps_ok c && c12_shape_ok c && c12_roundtrip_ok c &&
  (* non-excluded parent columns: same name and type; no uniqueness, auto-increment, on-update, foreign key *)
  forallb (fun p =>
    if pc_excl p then match col_named obs (pc_name p) with None => true | Some _ => false end
    else match col_named obs (pc_name p) with
         | None => false
         | Some v => (vc_type v =? pc_type p) && Bool.eqb (vc_pk v) (pc_pk p) &&
                     negb (vc_unique v) && negb (vc_autoinc v) && negb (vc_onupdate v) && negb (vc_fk v) &&
                     (pc_pk p || vc_nullable v) && (count_named obs (pc_name p) =? 1)%nat
         end) (c12_cols c) &&
  (if c12_internal c then
     (* key = parent key + non-null transaction column *)
     match col_named obs (c12_txn c) with Some v => vc_pk v && negb (vc_nullable v) | None => false end &&
     forallb (fun v => negb (vc_pk v) || (vc_name v =? c12_txn c) ||
                       existsb (fun p => (pc_name p =? vc_name v) && pc_pk p && negb (pc_excl p)) (c12_cols c)) obs &&
     (* end column exactly under the validity strategy; operation type always *)
     Bool.eqb (match col_named obs (c12_endn c) with Some _ => true | None => false end) (c12_validity c) &&
     match col_named obs (c12_opn c) with Some _ => true | None => false end
   else
     match col_named obs (c12_txn c), col_named obs (c12_opn c) with None, None => true | _, _ => false end) &&
  (* one boolean flag column per non-key, non-excluded column iff the tracker is on *)
  forallb (fun p =>
    let present := match col_named obs (modname_of (c12_modnames c) (pc_name p)) with
                   | Some v => vc_type v =? T_BOOL | None => false end in
    Bool.eqb present (c12_tracker c && negb (pc_pk p) && negb (pc_excl p))) (c12_cols c).
