(* C15chk.v — predicates for changesets (a) and the modification-flag back-fill (c). *)
From Continuum Require Import Model.Base Model.VTable Model.Backfill Model.Changeset Model.Core Checks.Corechk Checks.CoreProps.

Definition cs_entry := (nat * val * val)%type.
Definition cs_entry_eqb (a b : cs_entry) : bool :=
  (fst (fst a) =? fst (fst b))%nat && val_eqb (snd (fst a)) (snd (fst b)) && val_eqb (snd a) (snd b).

Inductive C15_case :=
| C15_CS (validity : bool) (t : vtable) (obs : list (pk * Z * list cs_entry)) (exc : bool)
| C15_BF (t : vtable) (after : vtable) (exc : bool)
| C15_H (h : core_case).      (* (b) a history run on the real code with the tracker plugin: flags written by the object path *)

Definition C15_corr (c : C15_case) : bool :=
  match c with
  | C15_CS validity t obs exc =>
      negb exc && (length obs =? length t)%nat &&
      forallb (fun o => match find_row t (fst (fst o)) (snd (fst o)) with
                        | None => false
                        | Some r => list_eqb cs_entry_eqb
                                      (if validity then changeset_V t r else changeset_S t r) (snd o)
                        end) obs
  | C15_BF t after exc => negb exc && table_eqb (backfill_flags t) after
  | C15_H h => Core_corr h
  end.

(* specification side: predecessor by position in the sorted version list *)
Definition spec_cs (old new : list val) (cs : list cs_entry) : bool :=
  forallb (fun c =>
     let o := nth c old None in
     let n := nth c new None in
     let es := filter (fun e => (fst (fst e) =? c)%nat) cs in
     if val_eqb o n then match es with [] => true | _ => false end
     else match es with [e] => val_eqb (snd (fst e)) o && val_eqb (snd e) n | _ => false end)
    (seq 0 (length new)) &&
  forallb (fun e => (fst (fst e) <? length new)%nat) cs.

Definition spec_flags (t : vtable) (r : vrow) : list bool :=
  orb_list (vmod r)
    (match pred_in (versions t (vkey r)) (vtx r) with
     | None => map (fun _ => true) (vdat r)
     | Some p => differs (vdat r) (vdat p)
     end).

Definition C15_prop (c : C15_case) : bool :=
  match c with
  | C15_CS validity t obs exc =>
      negb exc && (length obs =? length t)%nat &&
      forallb (fun o => match find_row t (fst (fst o)) (snd (fst o)) with
                        | None => false
                        | Some r =>
                            spec_cs (match pred_in (versions t (vkey r)) (vtx r) with
                                     | Some p => cols_of p | None => [] end)
                                    (cols_of r) (snd o)
                        end) obs
  | C15_BF t after exc =>
      negb exc && (length after =? length t)%nat &&
      forallb (fun r => match find_row after (vkey r) (vtx r) with
                        | None => false
                        | Some r' =>
                            oz_eqb (vend r') (vend r) && (vop r' =? vop r) &&
                            list_eqb val_eqb (vdat r') (vdat r) &&
                            list_eqb Bool.eqb (vmod r') (spec_flags t r)
                        end) t
  | C15_H h => negb (cc_exc h) && C15b_prop h
  end.

Definition C15_pre (c : C15_case) : bool :=
  match c with
  | C15_CS validity t _ _ => if validity then chain_okb t else true
  | C15_BF t _ _ => chain_okb t
  | C15_H _ => true
  end.
