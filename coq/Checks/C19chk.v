(* C19chk.v — predicates for utils.vacuum. *)
From Continuum Require Import Model.Base Model.VTable Model.Vacuum.

Record C19_case := {
  c19_tbl : vtable;              (* version table before vacuum                         *)
  c19_deleted : list (pk * Z);   (* (key, tx) of the version objects in session.deleted *)
  c19_after : vtable;            (* version table after vacuum + commit                 *)
  c19_again : bool;              (* a SECOND vacuum + commit changed the table (C19_second_vacuum_deletes_nothing) *)
  c19_exc : bool }.

Definition id_in (ids : list (pk * Z)) (r : vrow) : bool :=
  existsb (fun i => pk_eqb (fst i) (vkey r) && (snd i =? vtx r)) ids.

Definition C19_corr (c : C19_case) : bool :=
  negb (c19_exc c) && negb (c19_again c) &&
  let d := vacuum_deleted (c19_tbl c) in
  (length d =? length (c19_deleted c))%nat &&
  forallb (id_in (c19_deleted c)) d &&
  table_eqb (vacuum (c19_tbl c)) (c19_after c).

(* specification: every deleted row equals (in every non-key column) the nearest earlier row of
   the same entity that was not deleted; and only rows are removed, none altered *)
Definition C19_prop (c : C19_case) : bool :=
  negb (c19_exc c) &&
  let t := c19_tbl c in
  let del := c19_deleted c in
  forallb (fun i => match find_row t (fst i) (snd i) with Some _ => true | None => false end) del &&
  forallb (fun d =>
    if id_in del d then
      (* nearest earlier surviving row of the same key *)
      let cands := filter (fun p => same_key (vkey d) p && (vtx p <? vtx d) && negb (id_in del p)) t in
      match max_below cands (vkey d) (vtx d) with
      | None => false
      | Some m => match find_row t (vkey d) m with
                  | Some p => same_data p d
                  | None => false
                  end
      end
    else true) t &&
  table_eqb (filter (fun r => negb (id_in del r)) t) (c19_after c).
