(* C06chk.v — predicates for rollback / fault injection / savepoint cases. *)
From Continuum Require Import Model.Base Model.VTable Model.Core Model.Savepoint
     Checks.Corechk Checks.CoreProps Proofs.CoreChainP.

Definition pairZ_eqb (a b : Z * list Z) : bool := (fst a =? fst b) && list_eqb Z.eqb (snd a) (snd b).

(* every table of two snapshots is equal *)
Definition snap_eqb (a b : snap) : bool :=
  set_eqb lrow_eqb (sn_live a) (sn_live b) && table_eqb (sn_vt a) (sn_vt b) &&
  set_eqb arow_eqb (sn_av a) (sn_av b) && set_eqb pairZ_eqb (sn_alive a) (sn_alive b) &&
  list_eqb Z.eqb (sn_tx a) (sn_tx b) && set_eqb chg_eqb (sn_chg a) (sn_chg b).

Inductive C06_case :=
| C06_F (main : core_case)                     (* the run with the injected failure, replayed   *)
        (before after_rb final ref_final : snap) (* ref_final: the run without that transaction *)
        (reported fired : bool)
| C06_S (g : cfg) (evs : list mev) (snaps : list snap) (exc later_error : bool).

Fixpoint mrun_trace (g : cfg) (m : mstate) (evs : list mev) : list mstate :=
  match evs with
  | [] => []
  | e :: evs' => let m' := mstep g m e in m' :: mrun_trace g m' evs'
  end.

Definition mev_core (e : mev) : ev := match e with MCore e' => e' | _ => ManualTx end.
Definition is_sp (e : mev) : bool := match e with MCore _ => false | _ => true end.

Definition mstate_matches (e : mev) (m : mstate) (sn : snap) : bool :=
  let d := s_db (m_core m) in
  set_eqb lrow_eqb (d_live d) (sn_live sn) && table_eqb (d_vt d) (sn_vt sn) &&
  set_eqb arow_eqb (d_av d) (sn_av sn) && list_eqb Z.eqb (d_tx d) (sn_tx sn) &&
  set_eqb chg_eqb (d_chg d) (sn_chg sn).

Definition C06_corr (c : C06_case) : bool :=
  match c with
  | C06_F main _ _ _ _ _ _ => Core_corr main
  | C06_S g evs snaps exc _ =>
      negb exc && all3 mstate_matches evs (mrun_trace g (mkms state0 []) evs) snaps && cfg_consistentb g && hier_consistentb g
  end.

(* savepoints: the snapshot after ROLLBACK TO equals the snapshot at SAVEPOINT (innermost first) *)
Fixpoint sp_walk (stack : list snap) (evs : list mev) (snaps : list snap) : bool :=
  match evs, snaps with
  | [], [] => true
  | e :: evs', sn :: snaps' =>
      match e with
      | SpBegin => sp_walk (sn :: stack) evs' snaps'
      | SpRollback => match stack with
                      | b :: rest => snap_eqb b sn && sp_walk rest evs' snaps'
                      | [] => false end
      | SpRelease => sp_walk (tl stack) evs' snaps'
      | MCore Commit | MCore Rollback => sp_walk [] evs' snaps'
      | MCore _ => sp_walk stack evs' snaps'
      end
  | _, _ => false
  end.

(* at every commit of a savepoint history: one transaction record per commit carried by all the rows it wrote
   (C02), and replaying the association versions yields the live links (C10) *)
Definition one_tx (prev sn : snap) : bool :=
  let fresh t := negb (memZ (sn_tx prev) t) in
  let ntx := filter fresh (sn_tx sn) in
  let newv := filter (fun r => fresh (vtx r)) (sn_vt sn) in
  let newa := filter (fun r => fresh (a_tx r)) (sn_av sn) in
  match ntx with
  | [] => match newv, newa with [], [] => true | _, _ => false end
  | [T] => forallb (fun r => vtx r =? T) newv && forallb (fun r => a_tx r =? T) newa
  | _ => false
  end.

Definition links_replay (sn : snap) : bool :=
  forallb (fun x => match newest_arow (sn_av sn) x with
                    | Some r => negb (a_op r =? OP_DEL) | None => false end) (sn_alive sn) &&
  forallb (fun r => match newest_arow (sn_av sn) (a_tab r, a_key r) with
                    | Some n => (a_op n =? OP_DEL) || existsb (pair_eqb (a_tab r, a_key r)) (sn_alive sn)
                    | None => false end) (sn_av sn).

Fixpoint commits_walk (prev : snap) (evs : list mev) (snaps : list snap) : bool :=
  match evs, snaps with
  | e :: evs', sn :: snaps' =>
      match e with
      | MCore Commit => one_tx prev sn && links_replay sn && commits_walk sn evs' snaps'
      | _ => commits_walk prev evs' snaps'
      end
  | _, _ => true
  end.

Fixpoint commits_ok (g : cfg) (evs : list mev) (snaps : list snap) : bool :=
  match evs, snaps with
  | e :: evs', sn :: snaps' =>
      (match e with MCore Commit => C17_commit g (new_seg snap0 [] []) sn | _ => true end) && commits_ok g evs' snaps'
  | _, _ => true
  end.

(* at every commit: every version row has its class recorded (the half of C17 that the open finding
   below does not disturb: its stale operations can only add names, never lose one) *)
Fixpoint commits_cover (g : cfg) (evs : list mev) (snaps : list snap) : bool :=
  match evs, snaps with
  | e :: evs', sn :: snaps' =>
      (match e with
       | MCore Commit =>
           negb (g_changes g) ||
           forallb (fun r => existsb (fun x => (vtx r =? fst x) && (tab_cls (vkey r) =? tabn g (snd x))%nat) (sn_chg sn)) (sn_vt sn)
       | _ => true end) && commits_cover g evs' snaps'
  | _, _ => true
  end.

(* the same with the symptoms of the open finding ignored: the unit of work keeps the transaction
   object and the version objects of the rolled-back flush, so later in the transaction (a) an
   error is raised, (b) rows are stamped with the id of the rolled-back transaction record, (c) the
   stale operations make the transaction-changes plugin record a name again *)
(* what is left of a rolled-back savepoint must not distort the versions written later in the transaction either:
   at every commit the newest version of every live versioned entity holds the live row (C01's clause), and at every
   snapshot the validity tables satisfy the chain (C03's clause) *)
Definition newest_is_live (g : cfg) (sn : snap) : bool :=
  forallb (fun l =>
     let cc := cls_of g (l_cls l) in
     negb (k_versioned cc) ||
     match newest_row (sn_vt sn) (k_tab cc :: l_key l) with
     | Some r => negb (vop r =? OP_DEL) && list_eqb val_eqb (vdat r) (dat_of cc (l_vals l))
     | None => false
     end) (sn_live sn).

Fixpoint commits_content (g : cfg) (evs : list mev) (snaps : list snap) : bool :=
  match evs, snaps with
  | e :: evs', sn :: snaps' =>
      (match e with MCore Commit => newest_is_live g sn | _ => true end) && commits_content g evs' snaps'
  | _, _ => true
  end.

Definition C06_prop_sp (c : C06_case) : bool :=
  match c with
  | C06_S g evs snaps exc later_error =>
      negb exc && sp_walk [] evs snaps && commits_cover g evs snaps
  | _ => false
  end.

Definition C06_prop (c : C06_case) : bool :=
  match c with
  | C06_F main before after_rb final ref_final reported fired =>
      negb (cc_exc main) && fired && reported &&
      (* no version, association-version, transaction or plugin row of the failed transaction; no
         per-connection state left *)
      snap_eqb before after_rb && (sn_uows after_rb =? 0)%nat &&
      (* the rest of the program is versioned exactly as if it had never been attempted *)
      snap_eqb final ref_final && C02_prop main
  | C06_S g evs snaps exc later_error =>
      negb exc && negb later_error && sp_walk [] evs snaps &&
      forallb no_dangling snaps &&
      (* what a rolled-back savepoint leaves behind must not distort the record of the transaction:
         at every commit the recorded entity names are the classes with a version of that transaction *)
      commits_ok g evs snaps && commits_walk snap0 evs snaps &&
      commits_content g evs snaps && forallb (fun sn => chain_okb (validity_rows g (sn_vt sn))) snaps
  end.
