(* C02chk.v — case wrapper of C02: histories replayed in the Layer-B model (C02_H) and histories judged on the
   observations alone (C02_O): the manager-level switch options['versioning'] toggled while a history runs is not a
   parameter of the Layer-B machine (its configuration is fixed per run), but the clauses of the property are about
   what is in the tables at every commit and need no model. *)
From Continuum Require Import Model.Base Model.VTable Model.Core Checks.Corechk Checks.CoreProps.

Inductive C02_case :=
| C02_H (h : core_case)
| C02_O (h : core_case).

Definition C02c_corr (c : C02_case) : bool :=
  match c with C02_H h => Core_corr h | C02_O h => negb (cc_exc h) end.

Definition C02c_prop (c : C02_case) : bool :=
  match c with C02_H h => C02_prop h | C02_O h => negb (cc_exc h) && C02_prop h end.
