(* C11chk.v — case wrapper of C11: histories replayed in the Layer-B model (C11_H) and histories judged on the
   observations alone (C11_O): a key that changes its class within one transaction (single-table inheritance: delete
   Cd 1, flush, add Item 1) is not expressible in Layer B; the clauses of C11 are about (table, key) entities and the
   rows of the transaction and apply unchanged. *)
From Continuum Require Import Model.Base Model.VTable Model.Core Checks.Corechk Checks.CoreProps.

Inductive C11_case :=
| C11_H (h : core_case)
| C11_O (h : core_case).

Definition C11c_corr (c : C11_case) : bool :=
  match c with C11_H h => Core_corr h | C11_O h => negb (cc_exc h) end.
Definition C11c_prop (c : C11_case) : bool :=
  match c with C11_H h => C11_prop h | C11_O h => negb (cc_exc h) && C11_prop h end.
Definition C11c_prop_switch (c : C11_case) : bool :=
  match c with C11_H h => C11_prop_switch h | C11_O h => negb (cc_exc h) && C11_prop_switch h end.
