(* C17chk.v — case wrapper of C17: histories replayed in the Layer-B model (C17_H) and histories judged on the
   observations alone (C17_O): a key that changes its class within one transaction (delete Item 1, flush, add Book 1)
   is not expressible in Layer B, but what the transaction-changes plugin has to record for it is: the names of the
   classes that have a version stamped with the transaction. *)
From Continuum Require Import Model.Base Model.VTable Model.Core Checks.Corechk Checks.CoreProps.

Inductive C17_case :=
| C17_H (h : core_case)
| C17_O (h : core_case).

Fixpoint commits_names (g : cfg) (evs : list ev) (snaps : list snap) : bool :=
  match evs, snaps with
  | e :: evs', sn :: snaps' =>
      (match e with Commit => C17_commit g (new_seg snap0 [] []) sn | _ => true end) && commits_names g evs' snaps'
  | _, _ => true
  end.

Definition C17c_corr (c : C17_case) : bool :=
  match c with C17_H h => Core_corr h | C17_O h => negb (cc_exc h) end.

Definition C17c_prop (c : C17_case) : bool :=
  match c with
  | C17_H h => C17_prop h
  | C17_O h => negb (cc_exc h) && commits_names (cc_cfg h) (cc_evs h) (cc_snaps h) && C17_changed_entities h
  end.
