(* C20chk.v — predicates for utils.count_versions.  Key values (strings of arbitrary characters,
   ints) are coded per case by an injective numbering; only key equality matters. *)
From Continuum Require Import Model.Base Model.VTable Model.Count.

Record C20_obs := { o20_key : pk; o20_count : option Z;    (* None: count_versions raised *)
                    o20_versions_count : Z }.              (* obj.versions.count()        *)
Record C20_case := {
  c20_tbl : vtable;
  c20_obs : list C20_obs;
  c20_transient : option Z }.                               (* count_versions(transient obj) *)

Definition C20_corr (c : C20_case) : bool :=
  forallb (fun o => oz_eqb (o20_count o) (Some (Z.of_nat (count_versions (c20_tbl c) (o20_key o)))))
          (c20_obs c) &&
  oz_eqb (c20_transient c) (Some 0).

Definition C20_prop (c : C20_case) : bool :=
  forallb (fun o => oz_eqb (o20_count o) (Some (o20_versions_count o)) &&
                    (o20_versions_count o =? Z.of_nat (length (versions (c20_tbl c) (o20_key o)))))
          (c20_obs c) &&
  oz_eqb (c20_transient c) (Some 0).
