(* C09chk.v — predicates for interleaved sessions. *)
From Continuum Require Import Model.Base Model.VTable Model.Core Model.Manager Model.Savepoint Model.ManagerSp
     Checks.Corechk Checks.CoreProps Checks.C06chk Proofs.CoreChainP.

Record C09_case := {
  c9_cfg : cfg;
  c9_steps : list (nat * nat * gev);                  (* session id, connection id, event            *)
  c9_maps : list (list nat * list (nat * nat));       (* after each step: connections holding a unit
                                                         of work; (session, connection) map entries *)
  c9_finals : list (nat * snap);                      (* connection id -> final content of its database *)
  c9_solo : list (nat * snap);                        (* ... when the session's program is run alone  *)
  c9_quiescent : bool;                                (* every session ended with commit/rollback/close *)
  c9_obsonly : bool;                                  (* judged on the observations only (solo runs, quiescence);
                                                         not used by the generated cases any more *)
  c9_spsteps : list (nat * nat * sev);                (* non-empty: the programs use savepoints; the schedule is replayed
                                                         in Layer M with savepoints (Model/ManagerSp.v) instead of c9_steps *)
  c9_exc : bool }.

Definition same_set_nat (a b : list nat) : bool :=
  forallb (fun x => existsb (Nat.eqb x) b) a && forallb (fun x => existsb (Nat.eqb x) a) b.
Definition pairn_eqb (a b : nat * nat) : bool := (fst a =? fst b)%nat && (snd a =? snd b)%nat.
Definition same_set_pair (a b : list (nat * nat)) : bool :=
  forallb (fun x => existsb (pairn_eqb x) b) a && forallb (fun x => existsb (pairn_eqb x) a) b.

Definition dbapi_id (c : nat) : nat := c.          (* every connection has its own DB-API connection *)
Definition never_closed (c : nat) : bool := false.

Fixpoint grun_trace (g : cfg) (G : gstate) (steps : list (nat * nat * gev)) : list gstate :=
  match steps with
  | [] => []
  | (sid, c, e) :: steps' =>
      let G' := gstep2 dbapi_id never_closed g G (mksess sid c) e in G' :: grun_trace g G' steps'
  end.

Fixpoint all2 {A B} (f : A -> B -> bool) (a : list A) (b : list B) : bool :=
  match a, b with
  | [], [] => true
  | x :: a', y :: b' => f x y && all2 f a' b'
  | _, _ => false
  end.

Definition db_matches (d : db) (sn : snap) : bool :=
  set_eqb lrow_eqb (d_live d) (sn_live sn) && table_eqb (d_vt d) (sn_vt sn) &&
  set_eqb arow_eqb (d_av d) (sn_av sn) && list_eqb Z.eqb (d_tx d) (sn_tx sn).

Definition maps_match (G : gstate) (obs : list nat * list (nat * nat)) : bool :=
  same_set_nat (map fst (g_uows G)) (fst obs) && same_set_pair (g_smap G) (snd obs).

Definition C09_corr_sp (c : C09_case) : bool :=
  let trace := gsrun_trace dbapi_id never_closed (c9_cfg c) gsp0
                 (map (fun x => (mksess (fst (fst x)) (snd (fst x)), snd x)) (c9_spsteps c)) in
  all2 (fun S obs => maps_match (gs_G S) obs) trace (c9_maps c) &&
  let Gend := gs_G (last trace gsp0) in
  forallb (fun cs => let '(d, _, err) := db_of Gend (fst cs) in db_matches d (snd cs) && negb err) (c9_finals c).

Definition C09_corr (c : C09_case) : bool :=
  negb (c9_exc c) && cfg_consistentb (c9_cfg c) && hier_consistentb (c9_cfg c) &&
  if c9_obsonly c then true else
  match c9_spsteps c with _ :: _ => C09_corr_sp c | [] =>
  let trace := grun_trace (c9_cfg c) gstate0 (c9_steps c) in
  all2 (fun G obs => same_set_nat (map fst (g_uows G)) (fst obs) && same_set_pair (g_smap G) (snd obs))
       trace (c9_maps c) &&
  let Gend := last trace gstate0 in
  forallb (fun cs => let '(d, _, err) := db_of Gend (fst cs) in db_matches d (snd cs) && negb err) (c9_finals c)
  end.

Definition C09_prop (c : C09_case) : bool :=
  negb (c9_exc c) &&
  (* each session's rows and transaction records are exactly those of its solo run *)
  (length (c9_finals c) =? length (c9_solo c))%nat &&
  forallb (fun cs => match find (fun x => (fst x =? fst cs)%nat) (c9_solo c) with
                     | Some so => snap_eqb (snd cs) (snd so) && no_dangling (snd cs)
                     | None => false end) (c9_finals c) &&
  (* no per-connection versioning state remains once every transaction has ended *)
  (negb (c9_quiescent c) ||
   match last (c9_maps c) ([], []) with ([], []) => true | _ => false end).
