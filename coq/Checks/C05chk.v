(* C05chk.v — predicates for revert. *)
From Continuum Require Import Model.Base Model.VTable Model.Rel Model.Revert Model.Core
     Checks.Corechk Checks.CoreProps Checks.C04chk.

Record C05_case := {
  c5_main : core_case;                 (* the whole run incl. the revert transaction, replayed in Layer B *)
  c5_art : vtable; c5_tag : vtable; c5_lab : vtable; c5_av : list lnk;   (* version tables at revert time *)
  c5_before : rlive;                   (* live tables before the revert *)
  c5_tab : nat; c5_key : Z; c5_tx : Z; (* target version: class (0 Article, 1 Tag, 2 Label), key, transaction id *)
  c5_tags : bool; c5_labels : bool; c5_article : bool;   (* named relationships *)
  c5_paths : list (list Z);            (* all named paths, one list of relationship codes each (Model/Revert.v)   *)
  c5_deep : bool;                      (* a dotted path below one of them is named as well (tags.article,
                                          labels.articles, article.tags): other entities may be reverted too *)
  c5_after : rlive;                    (* live tables after revert + commit *)
  c5_exc : bool }.

Definition lrow_eq (a b : Z * list val) : bool := (fst a =? fst b) && list_eqb val_eqb (snd a) (snd b).
Definition ltab_eqb (a b : ltab) : bool := set_eqb lrow_eq a b.
Definition lnk_eq (a b : Z * Z) : bool := (fst a =? fst b) && (snd a =? snd b).
Definition rlive_eqb (a b : rlive) : bool :=
  ltab_eqb (rl_art a) (rl_art b) && ltab_eqb (rl_tag a) (rl_tag b) && ltab_eqb (rl_lab a) (rl_lab b) &&
  set_eqb lnk_eq (rl_lnk a) (rl_lnk b).

Definition target (c : C05_case) : option vrow :=
  find_row (match c5_tab c with 0%nat => c5_art c | 1%nat => c5_tag c | _ => c5_lab c end) [c5_key c] (c5_tx c).

Definition C05_corr (c : C05_case) : bool :=
  negb (c5_exc c) && Core_corr (c5_main c) &&
  if c5_deep c || (c5_tab c =? 2)%nat then true else     (* Model/Revert.v covers one level of Article / Tag targets;
                                                             deeper paths and Label targets are judged by C05_prop only *)
  match target c with
  | None => false
  | Some v =>
      rlive_eqb (if (c5_tab c =? 0)%nat
                 then revert_article (c5_tag c) (c5_lab c) (c5_av c) (c5_before c) v (c5_tags c) (c5_labels c)
                 else revert_tag (c5_art c) (c5_before c) v (c5_article c))
                (c5_after c)
  end.

(* ---- the property text on the observed tables (as-of sets by position, see C04chk) ---- *)
Definition keys_of_refs (l : list vref) : list Z := map fst l.
Definition same_keys (a b : list Z) : bool :=
  forallb (fun x => existsb (Z.eqb x) b) a && forallb (fun x => existsb (Z.eqb x) a) b.

(* ---- dotted paths: the entities reached below the first level ----
   `reach` lists the versions the call visits.  When no entity other than the root is reached twice and no reached
   tag is one that a reached article's `tags` restoration removes (then the outcome does not depend on the order in
   which SQLAlchemy hands out related objects), every reached entity must hold the values of the version it was
   reached by, and a reached article whose path continues with `tags` must have exactly the tags that version
   shows.  Otherwise only the first-level clauses above are judged. *)
Definition rtabs_of (c : C05_case) : rtabs := mkrt (c5_art c) (c5_tag c) (c5_lab c) (c5_av c).
Definition same_ent (a b : rnode) : bool := (rn_cls a =? rn_cls b)%nat && (rn_key a =? rn_key b).
Definition tags_of (L : rlive) (k : Z) : list Z :=
  map fst (filter (fun p => match snd p with [_; fk] => sql_eq fk (Some k) | _ => false end) (rl_tag L)).
Definition version_tags (c : C05_case) (n : rnode) : list Z :=
  match find_row (c5_art c) [rn_key n] (rn_tx n) with
  | Some v => map key0 (rel_o2m 1 (c5_tag c) v)
  | None => []
  end.
Definition restores_tags (n : rnode) : bool := (rn_cls n =? 0)%nat && in_heads (rn_heads n) R_TAGS.

(* (Until repair of F-C05-moved-child-deleted a second clause excluded calls in which a reached tag is one that another
   reached article's `tags` restoration removes - a tag that moved between two reverted articles - as "order
   dependent".  It was the defect itself: the tag must come back whatever the order.) *)
Definition determined (c : C05_case) (R : list rnode) : bool :=
  forallb (fun n => (length (filter (same_ent n) R) =? 1)%nat) R.

Definition node_ok (c : C05_case) (n : rnode) : bool :=
  let after := c5_after c in
  match rn_cls n with
  | 0%nat => match find_row (c5_art c) [rn_key n] (rn_tx n), lget (rl_art after) (rn_key n) with
             | Some v, Some [a; b; _] => list_eqb val_eqb [a; b] (vdat v)
             | _, _ => false end &&
             (* the reverted tag itself (the root of the call) is not judged as a child of a reached article: the root is
                restored from ITS version, whatever set the article's version shows *)
             (negb (restores_tags n) ||
              let notroot := filter (fun t => negb ((c5_tab c =? 1)%nat && (t =? c5_key c))) in
              same_keys (notroot (tags_of after (rn_key n))) (notroot (version_tags c n)))
  | 1%nat => match find_row (c5_tag c) [rn_key n] (rn_tx n), lget (rl_tag after) (rn_key n) with
             | Some v, Some vals => list_eqb val_eqb vals (vdat v)
             | _, _ => false end
  | _ => match find_row (c5_lab c) [rn_key n] (rn_tx n), lget (rl_lab after) (rn_key n) with
         | Some v, Some vals => list_eqb val_eqb vals (vdat v)
         | _, _ => false end
  end.

Definition nested_nodes (c : C05_case) (v : vrow) : list rnode :=
  reach 6 (rtabs_of c) (c5_tab c, c5_key c) (c5_tab c) v (c5_paths c).

Definition nested_ok (c : C05_case) (v : vrow) : bool :=
  let R := nested_nodes c v in
  negb (determined c R) || forallb (node_ok c) (tl R).

Definition C05_prop (c : C05_case) : bool :=
  negb (c5_exc c) && C01_prop_switch (c5_main c) &&        (* the revert is versioned like any other change *)
  match target c with
  | None => false
  | Some v =>
      let k := c5_key c in
      let before := c5_before c in
      let after := c5_after c in
      if (c5_tab c =? 2)%nat then
        (* a Label as target: its columns, and everything reached below it by the named paths *)
        if vop v =? OP_DEL then
          match lget (rl_lab after) k with None => true | Some _ => false end
        else
          match lget (rl_lab after) k with
          | Some vals => list_eqb val_eqb vals (vdat v)
          | None => false
          end && nested_ok c v
      else
      if (c5_tab c =? 0)%nat then
        if vop v =? OP_DEL then
          match lget (rl_art after) k with None => true | Some _ => false end
        else
          (* columns restored, excluded column untouched *)
          match lget (rl_art after) k with
          | Some [a; b; x] =>
              list_eqb val_eqb [a; b] (vdat v) &&
              val_eqb x (match lget (rl_art before) k with Some [_; _; x0] => x0 | _ => None end)
          | _ => false
          end &&
          (* named one-to-many: the children the version shows, with the values they had then *)
          (if c5_tags c then
             let want := spec_o2m (c5_tag c) k (c5_tx c) in
             same_keys (map fst (filter (fun p => match snd p with [_; fk] => sql_eq fk (Some k) | _ => false end)
                                        (rl_tag after))) (keys_of_refs want) &&
             forallb (fun r => match find_row (c5_tag c) [fst r] (snd r), lget (rl_tag after) (fst r) with
                               | Some cv, Some vals => list_eqb val_eqb vals (vdat cv)
                               | _, _ => false end) want
           else c5_deep c || ltab_eqb (rl_tag after) (rl_tag before)) &&
          (* named many-to-many: links reset to the set the version shows *)
          (if c5_labels c then
             same_keys (map snd (filter (fun p => fst p =? k) (rl_lnk after)))
                       (keys_of_refs (spec_m2m (c5_av c) (c5_lab c) k (c5_tx c))) &&
             (c5_deep c ||
              set_eqb lnk_eq (filter (fun p => negb (fst p =? k)) (rl_lnk after))
                             (filter (fun p => negb (fst p =? k)) (rl_lnk before)))
           else c5_deep c || set_eqb lnk_eq (rl_lnk after) (rl_lnk before)) &&
          nested_ok c v
      else
        if vop v =? OP_DEL then
          match lget (rl_tag after) k with None => true | Some _ => false end
        else
          match lget (rl_tag after) k with
          | Some vals => list_eqb val_eqb vals (vdat v)
          | None => false
          end &&
          (c5_deep c || set_eqb lnk_eq (rl_lnk after) (rl_lnk before)) &&
          (if c5_article c then
             match spec_m2o (c5_art c) (fk_of 1 v) (c5_tx c) with
             | Some (pk0, ptx) =>
                 match find_row (c5_art c) [pk0] ptx, lget (rl_art after) pk0 with
                 | Some pv, Some [a; b; _] => list_eqb val_eqb [a; b] (vdat pv)
                 | _, _ => false end
             | None => ltab_eqb (rl_art after) (rl_art before)
             end
           else ltab_eqb (rl_art after) (rl_art before)) &&
          nested_ok c v
  end.

(* cases without anything to revert (the history produced no version) are not counted *)
(* ... nor are cases whose live tables violate the schema's foreign keys before the revert (SQLite does not
   enforce them: `tag.article = a; session.delete(a)` in one transaction leaves a tag pointing at a missing
   article, a state a database enforcing the declared constraints rejects) *)
Definition has_key (t : ltab) (k : Z) : bool := match lget t k with Some _ => true | None => false end.
Definition ref_ok (L : rlive) : bool :=
  forallb (fun p => match snd p with
                    | [_; Some fk] => has_key (rl_art L) fk
                    | _ => true end) (rl_tag L) &&
  forallb (fun p => has_key (rl_art L) (fst p) && has_key (rl_lab L) (snd p)) (rl_lnk L).
Definition C05_pre (c : C05_case) : bool := negb (c5_tab c =? 9)%nat && ref_ok (c5_before c).
