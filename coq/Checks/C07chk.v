(* C07chk.v — cases of the transparency check: (H) a history run with and without versioning,
   (R) work done after remove_versioning(). *)
From Continuum Require Import Model.Base Model.VTable Model.Core Checks.Corechk Checks.CoreProps.

Inductive C07_case :=
| C07_H (c : core_case)
| C07_T (c : core_case)      (* twin run only: a history the Layer-B model does not express (an entity changing its
                                class inside a hierarchy within one transaction) *)
| C07_R (before after : snap) (listeners : nat) (exc : bool).

Definition C07_corr (c : C07_case) : bool :=
  match c with
  | C07_H h => Core_corr h
  | C07_T h => negb (cc_exc h)
  | C07_R b a _ exc => negb exc   (* the model with versioning off writes nothing: versioning_off_writes_nothing *)
  end.

Definition C07_case_prop (c : C07_case) : bool :=
  match c with
  | C07_H h => C07_prop h
  | C07_T h => C07_prop h && forallb no_dangling (cc_snaps h)
  | C07_R b a listeners exc =>
      negb exc && (listeners =? 0)%nat &&
      table_eqb (sn_vt b) (sn_vt a) && set_eqb arow_eqb (sn_av b) (sn_av a) &&
      list_eqb Z.eqb (sn_tx b) (sn_tx a) && set_eqb chg_eqb (sn_chg b) (sn_chg a)
  end.
