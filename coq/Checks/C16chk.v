(* C16chk.v — predicates for the end-transaction back-fill tool. *)
From Continuum Require Import Model.Base Model.VTable Model.Backfill.

Record C16_case := {
  c16_tbl : vtable;      (* table handed to update_end_tx_column                 *)
  c16_after1 : vtable;   (* table read back after one run                         *)
  c16_after2 : vtable;   (* ... after a second run                                *)
  c16_exc : bool }.

Definition C16_corr (c : C16_case) : bool :=
  negb (c16_exc c) &&
  table_eqb (backfill_end (c16_tbl c)) (c16_after1 c) &&
  table_eqb (backfill_end (backfill_end (c16_tbl c))) (c16_after2 c).

(* specification: by position in the sorted version list of the same key *)
Definition C16_prop (c : C16_case) : bool :=
  negb (c16_exc c) &&
  (length (c16_after1 c) =? length (c16_tbl c))%nat &&
  forallb (fun r =>
    match find_row (c16_after1 c) (vkey r) (vtx r) with
    | None => false
    | Some r' =>
        (vop r' =? vop r) && list_eqb val_eqb (vdat r') (vdat r) && list_eqb Bool.eqb (vmod r') (vmod r) &&
        oz_eqb (vend r')
               (match succ_in (versions (c16_tbl c) (vkey r)) (vtx r) with
                | Some n => Some (vtx n)
                | None => vend r          (* newest row of its key: left as it was *)
                end)
    end) (c16_tbl c) &&
  (if newest_openb (c16_tbl c) then chain_okb (c16_after1 c) else true) &&
  table_eqb (c16_after1 c) (c16_after2 c).

Definition C16_pre (c : C16_case) : bool := all_posb (c16_tbl c).
