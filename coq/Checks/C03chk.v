(* C03chk.v — case wrapper of C03: histories replayed in the Layer-B model (C03_H) and histories judged on the
   observations alone (C03_O): a row that disappears without a DELETE version (versioning switched off for the
   transaction that deletes it, options['versioning']) and whose key is inserted again later.  The switch is not a
   parameter of the Layer-B machine; the chain predicate is about what is in the version tables after every flush,
   commit and rollback and needs no model. *)
From Continuum Require Import Model.Base Model.VTable Model.Core Checks.Corechk Checks.CoreProps.

Inductive C03_case :=
| C03_H (h : core_case)
| C03_O (h : core_case).

Definition C03c_corr (c : C03_case) : bool :=
  match c with C03_H h => Core_corr h | C03_O h => negb (cc_exc h) end.

Definition C03c_prop (c : C03_case) : bool :=
  match c with C03_H h => C03_prop h | C03_O h => negb (cc_exc h) && C03_prop h end.
