(* CoreProps.v — the property predicates of the Layer-B properties, evaluated on what the real
   code was observed to do (recorded trace + database snapshots).  None of them refers to the
   model's step function: they restate the property texts over observations. *)
From Continuum Require Import Model.Base Model.VTable Model.Backfill Model.Core Checks.Corechk.

(* an entity is identified by (version table id, key): for a flat class the table id is the class
   index; the classes of a hierarchy that share a table share the key space of that table *)
Definition ent := (nat * pk)%type.
Definition tabn (g : cfg) (c : nat) : nat := Z.to_nat (k_tab (cls_of g c)).
Definition ent_eqb (a b : ent) : bool := (fst a =? fst b)%nat && pk_eqb (snd a) (snd b).
Definition mem_ent (l : list ent) (x : ent) : bool := existsb (ent_eqb x) l.
Definition memZ (l : list Z) (x : Z) : bool := existsb (Z.eqb x) l.

Record seg := mkseg {
  sg_before   : snap;                 (* snapshot at the start of the database transaction       *)
  sg_allowed  : list ent;             (* entities really changed by some flush of the transaction *)
  sg_kinds    : list (ent * Z);       (* their operations, in order                               *)
  sg_modified : bool;                 (* some versioned object was new/deleted/modified (spec)    *)
  sg_manual   : bool;                 (* the application created the transaction record itself    *)
  sg_assoc    : list (Z * list Z);    (* association pairs touched                                *)
  sg_dirtydel : list ent;             (* deleted while holding unflushed attribute changes        *)
  sg_seen     : list lrow;            (* live rows seen so far, most recent first                 *)
  sg_seen0    : list lrow;            (* ... as of the start of the transaction                   *)
  sg_flags    : list (ent * list bool);  (* per entity: OR of the per-flush change flags (tracker) *)
  sg_blind    : list ent;             (* same-value assignment to an unloaded attribute (finding) *)
  sg_kinds_b  : list (ent * Z);       (* sg_kinds incl. the blind-set updates                      *)
  sg_flags_b  : list (ent * list bool);
  sg_switched : list ent }.           (* went through a row switch at some point (finding)        *)

Definition snap0 : snap := mksnap [] [] [] [] [] [] 0 [].
Definition new_seg (sn : snap) (seen : list lrow) (switched : list ent) : seg :=
  mkseg sn [] [] false false [] [] seen seen [] [] [] [] switched.

(* the property's notion of "a versioned attribute or relationship changed": exclusion as configured *)
Definition spec_rel_versioned (cc : clscfg) (r : relcfg) : bool :=
  negb (r_excl r) && existsb (col_versioned cc) (r_local r).
Definition spec_obj_modified (g : cfg) (o : obj_st) : bool :=
  let cc := cls_of g (o_cls o) in
  k_versioned cc &&
  (o_new o || o_del o ||
   any2 (fun v chg => v && chg) (ver_flags cc) (o_colchg o) ||
   any2 (fun r chg => spec_rel_versioned cc r && chg) (k_rels cc) (o_relchg o)).

Definition find_l (live : list lrow) (c : nat) (k : pk) : option lrow := find (same_l c k) live.
Definition find_lt (g : cfg) (live : list lrow) (t : nat) (k : pk) : option lrow :=
  find (fun l => (tabn g (l_cls l) =? t)%nat && pk_eqb (l_key l) k) live.

Definition ver_vals (cc : clscfg) (vals : list val) : list val := proj (ver_flags cc) vals.

Definition really_changed (g : cfg) (prev : snap) (e : ent_ev) : bool :=
  let cc := cls_of g (e_cls e) in
  if (e_kind e =? OP_UPD) && negb (e_isnew e) then
    match find_l (sn_live prev) (e_cls e) (key_of cc (e_vals e)) with
    | Some old => negb (list_eqb val_eqb (ver_vals cc (e_vals e)) (ver_vals cc (l_vals old)))
    | None => true
    end
  else true.

Definition is_blind (g : cfg) (prev : snap) (e : ent_ev) : bool :=
  negb (really_changed g prev e) &&
  any2 (fun v b => v && b) (ver_flags (cls_of g (e_cls e))) (e_blind e).

Fixpoint put_flags (x : ent) (fl : list bool) (l : list (ent * list bool)) : list (ent * list bool) :=
  match l with
  | [] => [(x, fl)]
  | (y, f) :: l' => if ent_eqb x y then (y, orb_list f fl) :: l' else (y, f) :: put_flags x fl l'
  end.

Definition seg_flush (g : cfg) (sg : seg) (prev : snap) (objs : list obj_st) (ents : list ent_ev)
                     (assoc : list assoc_ev) (sn : snap) : seg :=
  let vents := filter (fun e => k_versioned (cls_of g (e_cls e))) ents in
  let changed := filter (really_changed g prev) vents in
  let eid e := (tabn g (e_cls e), key_of (cls_of g (e_cls e)) (e_vals e)) in
  mkseg (sg_before sg)
        (sg_allowed sg ++ map eid changed)
        (sg_kinds sg ++ map (fun e => (eid e, e_kind e)) changed)
        (sg_modified sg || existsb (spec_obj_modified g) objs)
        (sg_manual sg)
        (sg_assoc sg ++ map (fun a => (as_tab a, as_key a)) assoc)
        (sg_dirtydel sg ++ map eid (filter (fun e => (e_kind e =? OP_DEL) && existsb (fun b => b) (e_colchg e)) vents))
        (sn_live sn ++ sg_seen sg)
        (sg_seen0 sg)
        (fold_left (fun acc e =>
           put_flags (eid e)
             (map (fun chg => chg || e_indel e || e_isnew e)
                  (proj (dat_flags (cls_of g (e_cls e))) (e_colchg e))) acc) changed (sg_flags sg))
        (sg_blind sg ++ map eid (filter (is_blind g prev) vents))
        (sg_kinds_b sg ++ map (fun e => (eid e, e_kind e))
                              (filter (fun e => really_changed g prev e || is_blind g prev e) vents))
        (fold_left (fun acc e =>
           put_flags (eid e)
             (map (fun chg => chg || e_indel e || e_isnew e)
                  (proj (dat_flags (cls_of g (e_cls e))) (e_colchg e))) acc)
           (filter (fun e => really_changed g prev e || is_blind g prev e) vents) (sg_flags_b sg))
        (sg_switched sg ++ map eid (filter (fun e => (e_kind e =? OP_UPD) && e_isnew e) vents)).

(* walk the recorded run; chk is evaluated at every commit, rb at every rollback *)
Fixpoint walk (g : cfg) (chk rb : seg -> snap -> bool) (sg : seg) (prev : snap)
              (evs : list ev) (snaps : list snap) : bool :=
  match evs, snaps with
  | [], [] => true
  | e :: evs', sn :: snaps' =>
      match e with
      | Flush objs ents assoc => walk g chk rb (seg_flush g sg prev objs ents assoc sn) sn evs' snaps'
      | Commit => chk sg sn && walk g chk rb (new_seg sn (sn_live sn ++ sg_seen sg) (sg_switched sg)) sn evs' snaps'
      | Rollback => rb sg sn && walk g chk rb (new_seg sn (sg_seen0 sg) (sg_switched sg)) sn evs' snaps'
      | ManualTx =>
          walk g chk rb (mkseg (sg_before sg) (sg_allowed sg) (sg_kinds sg) (sg_modified sg) true
                               (sg_assoc sg) (sg_dirtydel sg) (sg_seen sg) (sg_seen0 sg) (sg_flags sg)
                               (sg_blind sg) (sg_kinds_b sg) (sg_flags_b sg) (sg_switched sg))
               sn evs' snaps'
      | RawAssoc a =>
          walk g chk rb (mkseg (sg_before sg) (sg_allowed sg) (sg_kinds sg) (sg_modified sg) (sg_manual sg)
                               (sg_assoc sg ++ [(as_tab a, as_key a)]) (sg_dirtydel sg) (sg_seen sg) (sg_seen0 sg)
                               (sg_flags sg) (sg_blind sg) (sg_kinds_b sg) (sg_flags_b sg) (sg_switched sg))
               sn evs' snaps'
      end
  | _, _ => false
  end.

Definition walk_case (chk rb : cfg -> seg -> snap -> bool) (c : core_case) : bool :=
  negb (cc_exc c) &&
  walk (cc_cfg c) (chk (cc_cfg c)) (rb (cc_cfg c)) (new_seg snap0 [] []) snap0 (cc_evs c) (cc_snaps c).

Definition no_rb (g : cfg) (sg : seg) (sn : snap) : bool := true.

(* ------------------------------------------------------------------ helpers on snapshots *)
Definition newest_row (vt : vtable) (k : pk) : option vrow :=
  fold_left (fun acc r =>
     if same_key k r
     then match acc with None => Some r | Some a => if vtx a <? vtx r then Some r else acc end
     else acc) vt None.

Definition tab_cls (k : pk) : nat := Z.to_nat (hd 0 k).
Definition new_rows (sg : seg) (sn : snap) : vtable :=
  filter (fun r => negb (memZ (sn_tx (sg_before sg)) (vtx r))) (sn_vt sn).
Definition new_arows (sg : seg) (sn : snap) : list arow :=
  filter (fun r => negb (memZ (sn_tx (sg_before sg)) (a_tx r))) (sn_av sn).
Definition new_txs (sg : seg) (sn : snap) : list Z :=
  filter (fun t => negb (memZ (sn_tx (sg_before sg)) t)) (sn_tx sn).

(* rows written or re-written since the transaction began, whatever id they carry: rows of the snapshot that the
   snapshot at the beginning of the transaction does not hold with the same identity, operation and data (the end of a
   validity interval does not count: closing the predecessor changes it in a row of an EARLIER transaction) *)
Definition same_content (a b : vrow) : bool :=
  pk_eqb (vkey a) (vkey b) && (vtx a =? vtx b) && (vop a =? vop b) &&
  list_eqb val_eqb (vdat a) (vdat b) && list_eqb Bool.eqb (vmod a) (vmod b).
Definition written_rows (sg : seg) (sn : snap) : vtable :=
  filter (fun r => negb (existsb (same_content r) (sn_vt (sg_before sg)))) (sn_vt sn).
Definition written_arows (sg : seg) (sn : snap) : list arow :=
  filter (fun r => negb (existsb (arow_eqb r) (sn_av (sg_before sg)))) (sn_av sn).

(* ------------------------------------------------------------------ C01 *)
(* r_blind / r_switch switch on the tolerance for the two recorded open findings *)
Definition C01_commit (r_blind r_switch : bool) (g : cfg) (sg : seg) (sn : snap) : bool :=
  (* live entities: newest version is not a DELETE and equals the live row *)
  forallb (fun l =>
     let cc := cls_of g (l_cls l) in
     negb (k_versioned cc) || (r_switch && mem_ent (sg_switched sg) (tabn g (l_cls l), l_key l)) ||
     match newest_row (sn_vt sn) (k_tab cc :: l_key l) with
     | Some r => negb (vop r =? OP_DEL) && list_eqb val_eqb (vdat r) (dat_of cc (l_vals l))
     | None => false
     end) (sn_live sn) &&
  (* removed entities: newest version is a DELETE with the last values (or NULLs) *)
  forallb (fun r =>
     let c := tab_cls (vkey r) in
     let k := tl (vkey r) in
     match find_lt g (sn_live sn) c k with
     | Some _ => true
     | None =>
         match newest_row (sn_vt sn) (vkey r) with
         | None => false
         | Some nr =>
             (vop nr =? OP_DEL) &&
             (if g_null_delete g then forallb (fun v => val_eqb v None) (vdat nr)
              else mem_ent (sg_dirtydel sg) (c, k) ||
                   negb (memZ (new_txs sg sn) (vtx nr)) ||
                   match find_lt g (sg_seen sg) c k with
                   | Some l => list_eqb val_eqb (vdat nr) (dat_of (cls_of g (l_cls l)) (l_vals l))
                   | None => true      (* inserted and deleted without ever being flushed live *)
                   end)
         end
     end) (sn_vt sn) &&
  (* rows written by this transaction: only for entities that really changed ... *)
  forallb (fun r => mem_ent (sg_allowed sg) (tab_cls (vkey r), tl (vkey r)) ||
                    (r_blind && mem_ent (sg_blind sg) (tab_cls (vkey r), tl (vkey r)))) (new_rows sg sn) &&
  (* ... and for every entity whose committed state differs from the previous commit *)
  let needs (l : lrow) (other : list lrow) :=
      let cc := cls_of g (l_cls l) in
      k_versioned cc &&
      match find_l other (l_cls l) (l_key l) with
      | None => true
      | Some o => negb (list_eqb val_eqb (ver_vals cc (l_vals l)) (ver_vals cc (l_vals o)))
      end in
  let has_new (l : lrow) :=
      existsb (fun r => pk_eqb (vkey r) (k_tab (cls_of g (l_cls l)) :: l_key l)) (new_rows sg sn) in
  forallb (fun l => negb (needs l (sn_live (sg_before sg))) || has_new l) (sn_live sn) &&
  forallb (fun l => negb (needs l (sn_live sn)) || has_new l) (sn_live (sg_before sg)).

(* An assignment to a never-loaded attribute (r_blind) makes SQLAlchemy flush an UPDATE statement; it
   counts as a flushed operation of the entity, so the strict predicate already tolerates it. *)
Definition C01_prop : core_case -> bool := walk_case (C01_commit true false) no_rb.
(* without the tolerance for assignments to attributes whose old value was not loaded: versioned column attributes
   carry active_history, an assignment loads the old value first, so a same-value assignment is never a change *)
Definition C01_prop_strict : core_case -> bool := walk_case (C01_commit false false) no_rb.
Definition C01_prop_switch : core_case -> bool := walk_case (C01_commit true true) no_rb.

(* ------------------------------------------------------------------ C02 *)
Definition no_dangling (sn : snap) : bool :=
  forallb (fun r => memZ (sn_tx sn) (vtx r)) (sn_vt sn) &&
  forallb (fun r => memZ (sn_tx sn) (a_tx r)) (sn_av sn).

Definition C02_commit (g : cfg) (sg : seg) (sn : snap) : bool :=
  let ntx := new_txs sg sn in
  (* (a,b) all new rows carry one id, and that id is a record created by this transaction *)
  (match ntx with
   | [] => match new_rows sg sn, new_arows sg sn with [], [] => true | _, _ => false end
   | [T] => forallb (fun r => vtx r =? T) (new_rows sg sn) && forallb (fun r => a_tx r =? T) (new_arows sg sn)
   | _ => false
   end) &&
  (* (a') no row written in this transaction carries the id of a record created by an EARLIER one *)
  forallb (fun r => memZ ntx (vtx r)) (written_rows sg sn) &&
  forallb (fun r => memZ ntx (a_tx r)) (written_arows sg sn) &&
  (* (c) larger than every id that existed before *)
  forallb (fun T => forallb (fun o => o <? T) (sn_tx (sg_before sg))) ntx &&
  (* (d) nothing versioned changed - neither as seen before the flush nor by the flush itself (cascades) -
     and no manual creation: no record *)
  (sg_modified sg || sg_manual sg || match sg_allowed sg with [] => false | _ => true end ||
   match ntx with [] => true | _ => false end) &&
  (* (d') ... judged by what really changed, not by what the attribute histories said: a record needs an entity that
     was added, deleted or really changed, an association pair that was touched, a row of the application's tables
     that differs from the start of the transaction (a relationship to a non-versioned class is stored there), a new
     activity, or a manual creation *)
  (sg_manual sg || match sg_allowed sg with [] => false | _ => true end ||
   match sg_assoc sg with [] => false | _ => true end || match sg_dirtydel sg with [] => false | _ => true end ||
   negb (set_eqb lrow_eqb (sn_live sn) (sn_live (sg_before sg))) ||
   negb (length (sn_acts sn) =? length (sn_acts (sg_before sg)))%nat ||      (* an activity was written (ActivityPlugin) *)
   match ntx with [] => true | _ => false end) &&
  (* (e) no dangling reference *)
  no_dangling sn.

Definition C02_rollback (g : cfg) (sg : seg) (sn : snap) : bool :=
  no_dangling sn && list_eqb Z.eqb (sn_tx sn) (sn_tx (sg_before sg)).

Definition C02_prop : core_case -> bool := walk_case C02_commit C02_rollback.

(* ------------------------------------------------------------------ C03 *)
Definition validity_rows (g : cfg) (vt : vtable) : vtable :=
  filter (fun r => k_validity (cls_of g (tab_cls (vkey r)))) vt.

(* joined-table hierarchies: a version row in a child table is closed by the next version of the key in the
   BASE table of the hierarchy (whatever class that version has), and is open while there is none *)
Definition hier_chain_ok (g : cfg) (vt : vtable) : bool :=
  forallb (fun cc =>
     forallb (fun x => negb (existsb (Z.eqb (hd 0 (vkey x))) (k_also cc)) ||
                       oz_eqb (vend x) (min_above vt (k_tab cc :: tl (vkey x)) (vtx x))) vt) (g_classes g).

Definition C03_prop (c : core_case) : bool :=
  negb (cc_exc c) &&
  forallb (fun sn => chain_okb (validity_rows (cc_cfg c) (sn_vt sn)) && hier_chain_ok (cc_cfg c) (sn_vt sn)) (cc_snaps c).

(* ------------------------------------------------------------------ C11 *)
Fixpoint coalesce (acc : option Z) (ks : list Z) : option Z :=
  match ks with
  | [] => acc
  | k :: ks' =>
      coalesce (Some (if k =? OP_INS then match acc with None => OP_INS | Some _ => OP_UPD end else k)) ks'
  end.

Definition kinds_of (r_blind : bool) (sg : seg) (x : ent) : list Z :=
  map snd (filter (fun p => ent_eqb (fst p) x) (if r_blind then sg_kinds_b sg else sg_kinds sg)).

Definition C11_commit (r_blind r_switch : bool) (g : cfg) (sg : seg) (sn : snap) : bool :=
  let allowed := if r_blind then sg_allowed sg ++ sg_blind sg else sg_allowed sg in
  (* the row of this transaction holds the entity's state as of its last flushed change *)
  forallb (fun l =>
     let cc := cls_of g (l_cls l) in
     negb (k_versioned cc) || (r_switch && mem_ent (sg_switched sg) (tabn g (l_cls l), l_key l)) ||
     forallb (fun r => negb (pk_eqb (vkey r) (k_tab cc :: l_key l)) ||
                       list_eqb val_eqb (vdat r) (dat_of cc (l_vals l))) (new_rows sg sn)) (sn_live sn) &&
  (* exactly one row per entity that had a flushed change, none otherwise *)
  forallb (fun x => (length (filter (fun r => pk_eqb (vkey r) (Z.of_nat (fst x) :: snd x))
                                    (new_rows sg sn)) =? 1)%nat) allowed &&
  forallb (fun r =>
     let x := (tab_cls (vkey r), tl (vkey r)) in
     mem_ent allowed x &&
     (* operation type = coalesced flushed operations *)
     oz_eqb (Some (vop r)) (coalesce None (kinds_of r_blind sg x)) &&
     (* flags accumulate over the flushes *)
     (negb (g_tracker g) ||
      match find (fun p => ent_eqb (fst p) x) (if r_blind then sg_flags_b sg else sg_flags sg) with
      | Some (_, fl) => list_eqb Bool.eqb (vmod r) fl
      | None => false
      end)) (new_rows sg sn).

Definition C11_prop (c : core_case) : bool :=
  walk_case (C11_commit true false) no_rb c && C03_prop c.
Definition C11_prop_switch (c : core_case) : bool :=
  walk_case (C11_commit true true) no_rb c && C03_prop c.

(* ------------------------------------------------------------------ C15 (b) *)
Definition pred_row (vt : vtable) (r : vrow) : option vrow :=
  fold_left (fun acc x =>
     if same_key (vkey r) x && (vtx x <? vtx r)
     then match acc with None => Some x | Some a => if vtx a <? vtx x then Some x else acc end
     else acc) vt None.

Fixpoint implb_list (a b : list bool) : bool :=      (* pointwise a -> b *)
  match a, b with
  | x :: a', y :: b' => (negb x || y) && implb_list a' b'
  | [], [] => true
  | _, _ => false
  end.

Definition C15b_commit (g : cfg) (sg : seg) (sn : snap) : bool :=
  negb (g_tracker g) ||
  forallb (fun r =>
     let must :=
       if (vop r =? OP_INS) || (vop r =? OP_DEL) then map (fun _ => true) (vdat r)
       else match pred_row (sn_vt sn) r with
            | None => map (fun _ => true) (vdat r)
            | Some p => differs (vdat r) (vdat p)
            end in
     implb_list must (vmod r)) (new_rows sg sn).

Definition C15b_prop : core_case -> bool := walk_case C15b_commit no_rb.

(* ------------------------------------------------------------------ C17 (b) *)
Definition C17_commit (g : cfg) (sg : seg) (sn : snap) : bool :=
  negb (g_changes g) ||
  (* recorded names of a transaction = classes with a version row stamped with it; one entry each *)
  (forallb (fun x => existsb (fun r => (vtx r =? fst x) && (tab_cls (vkey r) =? tabn g (snd x))%nat) (sn_vt sn)) (sn_chg sn) &&
   forallb (fun r => existsb (fun x => (vtx r =? fst x) && (tab_cls (vkey r) =? tabn g (snd x))%nat) (sn_chg sn)) (sn_vt sn) &&
   forallb (fun x => (length (filter (chg_eqb x) (sn_chg sn)) =? 1)%nat) (sn_chg sn)).

(* (a) the real Transaction.changed_entities, read for every record at the end of the run: exactly the version
   rows stamped with the record's id, each under its own class (flat classes: table id = class index) *)
Definition triple_eqb (a b : Z * nat * pk) : bool :=
  (fst (fst a) =? fst (fst b)) && (snd (fst a) =? snd (fst b))%nat && pk_eqb (snd a) (snd b).
Definition C17_changed_entities (c : core_case) : bool :=
  match cc_ce c with
  | None => true
  | Some ce =>
      let rows := map (fun r => (vtx r, tab_cls (vkey r), tl (vkey r))) (sn_vt (last (cc_snaps c) snap0)) in
      forallb (fun x => existsb (triple_eqb x) rows) ce && forallb (fun x => existsb (triple_eqb x) ce) rows &&
      (length ce =? length rows)%nat
  end.

Definition C17_prop (c : core_case) : bool := walk_case C17_commit no_rb c && C17_changed_entities c.

(* ------------------------------------------------------------------ C13 (behavioural clauses) *)
Definition C13_commit (r_blind : bool) (g : cfg) (sg : seg) (sn : snap) : bool :=
  (* no version for an entity whose versioned columns did not really change in this transaction *)
  forallb (fun r => mem_ent (sg_allowed sg) (tab_cls (vkey r), tl (vkey r)) ||
                    (r_blind && mem_ent (sg_blind sg) (tab_cls (vkey r), tl (vkey r)))) (new_rows sg sn) &&
  (* no transaction record unless something versioned (exclusion as configured) changed *)
  (sg_modified sg || sg_manual sg || match sg_allowed sg with [] => false | _ => true end ||
   match new_txs sg sn with [] => true | _ => false end) &&
  (* an excluded many-to-many relationship has no counterpart in the version schema: no association-version row of a
     table that is not versioned by configuration (the harness reports such rows under table ids >= 100) *)
  forallb (fun a => a_tab a <? 100) (sn_av sn) &&
  (* stored data has exactly one value per non-excluded non-key column *)
  forallb (fun r => existsb (fun cc => (Z.to_nat (k_tab cc) =? tab_cls (vkey r))%nat &&
                                       (length (vdat r) =? length (filter (fun b => b) (dat_flags cc)))%nat)
                            (g_classes g))
          (sn_vt sn).

Definition C13_prop : core_case -> bool := walk_case (C13_commit false) no_rb.

(* ------------------------------------------------------------------ C10 *)
Definition pair_eqb (a b : Z * list Z) : bool := (fst a =? fst b) && list_eqb Z.eqb (snd a) (snd b).
Definition newest_arow (av : list arow) (x : Z * list Z) : option arow :=
  fold_left (fun acc r =>
     if pair_eqb (a_tab r, a_key r) x
     then match acc with None => Some r | Some a => if a_tx a <? a_tx r then Some r else acc end
     else acc) av None.

Definition C10_commit (g : cfg) (sg : seg) (sn : snap) : bool :=
  (* replaying all rows yields exactly the live links *)
  forallb (fun x => match newest_arow (sn_av sn) x with
                    | Some r => negb (a_op r =? OP_DEL) | None => false end) (sn_alive sn) &&
  forallb (fun r => match newest_arow (sn_av sn) (a_tab r, a_key r) with
                    | Some n => (a_op n =? OP_DEL) || existsb (pair_eqb (a_tab r, a_key r)) (sn_alive sn)
                    | None => false end) (sn_av sn) &&
  (* rows of earlier transactions are untouched, so replaying up to any earlier id is unchanged *)
  set_eqb arow_eqb (filter (fun r => memZ (sn_tx (sg_before sg)) (a_tx r)) (sn_av sn)) (sn_av (sg_before sg)) &&
  (* the rows of this transaction: one id, only for touched pairs, operation type INSERT or DELETE *)
  forallb (fun r => existsb (pair_eqb (a_tab r, a_key r)) (sg_assoc sg) &&
                    ((a_op r =? OP_INS) || (a_op r =? OP_DEL))) (new_arows sg sn) &&
  forallb (fun r => Nat.eqb (length (filter (fun r' => pair_eqb (a_tab r', a_key r') (a_tab r, a_key r) && (a_tx r' =? a_tx r))
                                    (sn_av sn))) 1) (sn_av sn).

Definition C10_prop (c : core_case) : bool :=
  walk_case C10_commit C02_rollback c && (cc_outdiff c =? 0)%nat.

(* ------------------------------------------------------------------ C07 *)
(* identical outcomes and identical application tables with and without versioning; the live tables
   of every snapshot are additionally tied to the trace-defined tables by Core_corr *)
Definition C07_prop (c : core_case) : bool :=
  negb (cc_exc c) && (cc_outdiff c =? 0)%nat && negb (cc_livediff c).
