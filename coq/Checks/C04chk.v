(* C04chk.v — predicates for the relationships of version objects. *)
From Continuum Require Import Model.Base Model.VTable Model.Rel.

Definition vref := (Z * Z)%type.   (* (key, tx) of a related version row *)
Definition vref_eqb (a b : vref) : bool := (fst a =? fst b) && (snd a =? snd b).
Definition refs (l : vtable) : list vref := map (fun r => (hd 0 (vkey r), vtx r)) l.

Definition set_eq_ref (a b : list vref) : bool :=
  (length a =? length b)%nat && forallb (fun x => existsb (vref_eqb x) b) a && forallb (fun x => existsb (vref_eqb x) a) b.

Record art_obs := { ao_key : Z; ao_tx : Z; ao_tags : list vref; ao_labels : list vref; ao_notes : list Z }.
Record tag_obs := { to_key : Z; to_tx : Z; to_article : option vref }.
Record lab_obs := { lo_key : Z; lo_tx : Z; lo_articles : list vref }.

Record C04_case := {
  c4_art : vtable;            (* article_version: vdat = [a; b]            *)
  c4_tag : vtable;            (* tag_version:     vdat = [a; article_id]   *)
  c4_lab : vtable;            (* label_version:   vdat = [a]               *)
  c4_av  : list lnk;          (* article_label_version                     *)
  c4_notes : list (Z * val);  (* live note rows (id, article_id) - Note is not versioned *)
  c4_aobs : list art_obs; c4_tobs : list tag_obs; c4_lobs : list lab_obs;
  (* history cases only: transaction id -> the application's own tables at the commit that ended it:
     live article keys, (tag key, tag.article_id), (article, label) links *)
  c4_live : list (Z * (list Z * list (Z * val) * list (Z * Z)));
  c4_exc : bool }.

Definition swap_lnk (a : lnk) : lnk := mklnk (k_r a) (k_l a) (k_tx a) (k_op a).
Definition oref (o : option vrow) : option vref := option_map (fun r => (hd 0 (vkey r), vtx r)) o.
Definition oref_eqb (a b : option vref) : bool :=
  match a, b with Some x, Some y => vref_eqb x y | None, None => true | _, _ => false end.

Definition C04_corr (c : C04_case) : bool :=
  negb (c4_exc c) &&
  (length (c4_aobs c) =? length (c4_art c))%nat && (length (c4_tobs c) =? length (c4_tag c))%nat &&
  (length (c4_lobs c) =? length (c4_lab c))%nat &&
  forallb (fun o => match find_row (c4_art c) [ao_key o] (ao_tx o) with
                    | None => false
                    | Some r =>
                        set_eq_ref (refs (rel_o2m 1 (c4_tag c) r)) (ao_tags o) &&
                        set_eq_ref (refs (rel_m2m (c4_av c) (c4_lab c) r)) (ao_labels o) &&
                        list_eqb Z.eqb (map fst (filter (fun n => sql_eq (snd n) (Some (ao_key o))) (c4_notes c))) (ao_notes o)
                    end) (c4_aobs c) &&
  forallb (fun o => match find_row (c4_tag c) [to_key o] (to_tx o) with
                    | None => false
                    | Some r => oref_eqb (oref (rel_m2o 1 (c4_art c) r)) (to_article o)
                    end) (c4_tobs c) &&
  forallb (fun o => match find_row (c4_lab c) [lo_key o] (lo_tx o) with
                    | None => false
                    | Some r => set_eq_ref (refs (rel_m2m (map swap_lnk (c4_av c)) (c4_art c) r)) (lo_articles o)
                    end) (c4_lobs c).

(* ---- specification side: by position in the sorted version lists ---- *)
Definition asof_pos (t : vtable) (k : pk) (x : Z) : option vrow :=
  last (map Some (filter (fun r => vtx r <=? x) (versions t k))) None.

Definition lnk_rows (av : list lnk) (l r : Z) : vtable :=
  map (fun a => mkv [l; r] (k_tx a) None (k_op a) [] [])
      (filter (fun a => (k_l a =? l) && (k_r a =? r)) av).
Definition linked_pos (av : list lnk) (l r x : Z) : bool :=
  match asof_pos (lnk_rows av l r) [l; r] x with
  | Some a => negb (vop a =? OP_DEL) | None => false end.

Definition is_asof_pos (t : vtable) (c : vrow) (x : Z) : bool :=
  match asof_pos t (vkey c) x with Some r => vrow_eqb r c | None => false end.

Definition spec_o2m (tc : vtable) (key x : Z) : list vref :=
  refs (filter (fun c => is_asof_pos tc c x && negb (vop c =? OP_DEL) && sql_eq (fk_of 1 c) (Some key)) tc).
Definition spec_m2m (av : list lnk) (tr : vtable) (l x : Z) : list vref :=
  refs (filter (fun c => is_asof_pos tr c x && negb (vop c =? OP_DEL) && linked_pos av l (hd 0 (vkey c)) x) tr).
Definition spec_m2o (tp : vtable) (fk : val) (x : Z) : option vref :=
  match fk with
  | None => None
  | Some k => match asof_pos tp [k] x with
              | Some p => if vop p =? OP_DEL then None else Some (k, vtx p)
              | None => None end
  end.

(* ---- end to end (history cases): the relationship of a version shows what was related in the
   application's own tables at the end of that version's transaction ---- *)
Definition same_keysZ (a b : list Z) : bool :=
  forallb (fun x => existsb (Z.eqb x) b) a && forallb (fun x => existsb (Z.eqb x) a) b.
Definition live_at (c : C04_case) (T : Z) := find (fun x => fst x =? T) (c4_live c).

Definition e2e_art (c : C04_case) (o : art_obs) : bool :=
  match live_at c (ao_tx o), find_row (c4_art c) [ao_key o] (ao_tx o) with
  | Some (_, (arts, tags, lnks)), Some r =>
      (vop r =? OP_DEL) ||
      (same_keysZ (map fst (ao_tags o)) (map fst (filter (fun t => sql_eq (snd t) (Some (ao_key o))) tags)) &&
       same_keysZ (map fst (ao_labels o)) (map snd (filter (fun p => fst p =? ao_key o) lnks)))
  | _, _ => true
  end.

Definition e2e_tag (c : C04_case) (o : tag_obs) : bool :=
  match live_at c (to_tx o), find_row (c4_tag c) [to_key o] (to_tx o) with
  | Some (_, (arts, tags, _)), Some r =>
      (vop r =? OP_DEL) ||
      match find (fun t => fst t =? to_key o) tags with
      | Some (_, Some fk) =>
          if existsb (Z.eqb fk) arts
          then match to_article o with Some (k, _) => k =? fk | None => false end
          else match to_article o with None => true | Some _ => false end
      | Some (_, None) => match to_article o with None => true | Some _ => false end
      | None => true
      end
  | _, _ => true
  end.

Definition e2e_lab (c : C04_case) (o : lab_obs) : bool :=
  match live_at c (lo_tx o), find_row (c4_lab c) [lo_key o] (lo_tx o) with
  | Some (_, (_, _, lnks)), Some r =>
      (vop r =? OP_DEL) ||
      same_keysZ (map fst (lo_articles o)) (map fst (filter (fun p => snd p =? lo_key o) lnks))
  | _, _ => true
  end.

Definition C04_e2e (c : C04_case) : bool :=
  forallb (e2e_art c) (c4_aobs c) && forallb (e2e_tag c) (c4_tobs c) && forallb (e2e_lab c) (c4_lobs c).

Definition C04_prop (c : C04_case) : bool :=
  negb (c4_exc c) && C04_e2e c &&
  (length (c4_aobs c) =? length (c4_art c))%nat && (length (c4_tobs c) =? length (c4_tag c))%nat &&
  (length (c4_lobs c) =? length (c4_lab c))%nat &&
  forallb (fun o =>
     set_eq_ref (spec_o2m (c4_tag c) (ao_key o) (ao_tx o)) (ao_tags o) &&
     set_eq_ref (spec_m2m (c4_av c) (c4_lab c) (ao_key o) (ao_tx o)) (ao_labels o) &&
     list_eqb Z.eqb (map fst (filter (fun n => sql_eq (snd n) (Some (ao_key o))) (c4_notes c))) (ao_notes o))
    (c4_aobs c) &&
  forallb (fun o => match find_row (c4_tag c) [to_key o] (to_tx o) with
                    | None => false
                    | Some r => oref_eqb (spec_m2o (c4_art c) (fk_of 1 r) (to_tx o)) (to_article o)
                    end) (c4_tobs c) &&
  forallb (fun o => set_eq_ref (spec_m2m (map swap_lnk (c4_av c)) (c4_art c) (lo_key o) (lo_tx o)) (lo_articles o))
    (c4_lobs c).
