(* C14chk.v — predicates for the generated trigger programs. *)
From Continuum Require Import Model.Base Model.VTable Model.Trigger.

Inductive C14_case :=
| C14_P (g : tcfg) (parsed : option tprog)                 (* text of CreateTriggerFunctionSQL, parsed   *)
        (evs : list (option Z * tevent))                   (* row events with the active transaction id  *)
| C14_S (g : tcfg) (sync_excluded : option (list Z)).      (* excluded ARRAY emitted by sync_trigger      *)

(* structural tie: the program the code generates is the program the model generates *)
Definition C14_corr (c : C14_case) : bool :=
  match c with
  | C14_P g (Some p) _ => tprog_eqb (gen g) p
  | C14_P _ None _ => false
  | C14_S g (Some ex) =>
      let want := map tc_name (filter tc_excl (tg_cols g)) in
      forallb (fun n => existsb (Z.eqb n) ex) want && forallb (fun n => existsb (Z.eqb n) want) ex
  | C14_S _ None => false
  end.

(* ---- property side ---- *)
Definition aligned1b (col : colref) (v : vexpr) : bool :=
  match col, v with
  | CCol c, VRow _ c' => c =? c'
  | CMod _, VTrue => true
  | CMod c, VDistinct c' => c =? c'
  | _, _ => false
  end.
Fixpoint alignedb (cols : list colref) (vals : list vexpr) : bool :=
  match cols, vals with
  | [], [] => true
  | c :: cols', v :: vals' => aligned1b c v && alignedb cols' vals'
  | _, _ => false
  end.

Definition completeb (g : tcfg) (u : upsert) : bool :=
  forallb (fun c => Bool.eqb (existsb (fun x => match x with CCol n => n =? tc_name c | _ => false end) (up_cols u))
                             (negb (tc_excl c))) (tg_cols g) &&
  forallb (fun c => Bool.eqb (existsb (fun x => match x with CMod n => n =? tc_name c | _ => false end) (up_cols u))
                             (tg_tracker g && negb (tc_excl c) && negb (tc_pk c))) (tg_cols g).

(* the object-based path, for a row event that is the first one on its row in the transaction *)
Definition same_pk (g : tcfg) (r : trow) (p : prow) : bool :=
  forallb (fun c => sql_eq (tget r (tc_name c)) (pget p (tc_name c))) (tpk g).

Definition spec_step (g : tcfg) (T : Z) (e : tevent) (t : ttable) : ttable :=
  let '(kind, cur, old, new) :=
    match e with
    | TIns n => (OP_INS, n, [], n) | TUpd o n => (OP_UPD, n, o, n) | TDel o => (OP_DEL, o, o, []) end in
  let unchanged :=
    match e with
    | TUpd o n => forallb (fun c => tc_excl c || val_eqb (pget o (tc_name c)) (pget n (tc_name c))) (tg_cols g)
    | _ => false end in
  if unchanged then t else
  let newflags :=
    if tg_tracker g
    then map (fun c => (tc_name c,
               if kind =? OP_UPD then distinct (pget old (tc_name c)) (pget new (tc_name c)) else true)) (tnonpk g)
    else [] in
  let at_T r := (tr_tx r =? T) && same_pk g r cur in
  if existsb at_T t then
    (* a later event on the same row within the transaction: the object path rewrites the row of
       this transaction: last state, coalesced operation type, flags OR-ed; nothing else changes *)
    map (fun r => if at_T r
                  then mktr T (tr_end r) (if kind =? OP_DEL then OP_DEL else OP_UPD)
                            (map (fun c => (tc_name c, pget cur (tc_name c))) (tcols g))
                            (map (fun cf => (fst cf, snd cf || mget r (fst cf))) newflags)
                  else r) t
  else
  let closed :=
    if tg_validity g
    then (* close the newest open row of the entity *)
      let open := filter (fun r => match tr_end r with None => same_pk g r cur | Some _ => false end) t in
      match map tr_tx open with
      | [] => t
      | x :: xs => let m := fold_left Z.min xs x in
                   map (fun r => if (tr_tx r =? m) && same_pk g r cur
                                 then mktr (tr_tx r) (Some T) (tr_op r) (tr_dat r) (tr_mod r) else r) t
      end
    else t in
  closed ++ [mktr T None kind
               (map (fun c => (tc_name c, pget cur (tc_name c))) (tcols g))
               (if tg_tracker g
                then map (fun c => (tc_name c,
                           if kind =? OP_UPD then distinct (pget old (tc_name c)) (pget new (tc_name c)) else true))
                         (tnonpk g)
                else [])].

Definition spec_run (g : tcfg) (evs : list (option Z * tevent)) : ttable :=
  fold_left (fun t te => match fst te with None => t | Some T => spec_step g T (snd te) t end) evs [].
Definition prog_run (p : tprog) (evs : list (option Z * tevent)) : ttable :=
  fold_left (fun t te => texec p (fst te) (snd te) t) evs [].

Definition assoc_eqb {A} (eqb : A -> A -> bool) (a b : list (Z * A)) : bool :=
  list_eqb (fun x y => (fst x =? fst y) && eqb (snd x) (snd y)) a b.
Definition trow_eqb (a b : trow) : bool :=
  (tr_tx a =? tr_tx b) && oz_eqb (tr_end a) (tr_end b) && (tr_op a =? tr_op b) &&
  assoc_eqb val_eqb (tr_dat a) (tr_dat b) && assoc_eqb Bool.eqb (tr_mod a) (tr_mod b).

Definition C14_prop (c : C14_case) : bool :=
  match c with
  | C14_P g (Some p) evs =>
      alignedb (up_cols (tp_ins p)) (up_vals (tp_ins p)) && alignedb (up_cols (tp_upd p)) (up_vals (tp_upd p)) &&
      alignedb (up_cols (tp_del p)) (up_vals (tp_del p)) &&
      completeb g (tp_ins p) && completeb g (tp_upd p) && completeb g (tp_del p) &&
      list_eqb trow_eqb (prog_run p evs) (spec_run g evs)
  | C14_P _ None _ => false
  | C14_S g (Some ex) =>
      let want := map tc_name (filter tc_excl (tg_cols g)) in
      forallb (fun n => existsb (Z.eqb n) ex) want && forallb (fun n => existsb (Z.eqb n) want) ex
  | C14_S _ None => false
  end.
