(* C14chk.v — predicates for the generated trigger programs. *)
From Continuum Require Import Model.Base Model.VTable Model.Trigger Model.TriggerSpec Proofs.TriggerFullP.

Inductive C14_case :=
| C14_P (g : tcfg) (parsed : option tprog)                 (* text of CreateTriggerFunctionSQL, parsed   *)
        (evs : list (option Z * tevent))                   (* row events with the active transaction id  *)
        (executed : option ttable)                         (* the version table after SQLite executed the
                                                              generated statements for these events       *)
| C14_S (g : tcfg) (sync_excluded : option (list Z)).      (* excluded ARRAY emitted by sync_trigger      *)

(* structural tie: the program the code generates is the program the model generates *)
(* rows compared by content: column order inside a row is not significant *)
Definition trow_same (g : tcfg) (a b : trow) : bool :=
  (tr_tx a =? tr_tx b) && oz_eqb (tr_end a) (tr_end b) && (tr_op a =? tr_op b) &&
  forallb (fun c => val_eqb (tget a (tc_name c)) (tget b (tc_name c)) &&
                    Bool.eqb (mget a (tc_name c)) (mget b (tc_name c))) (tg_cols g).
Definition ttable_same (g : tcfg) (a b : ttable) : bool :=
  (length a =? length b)%nat &&
  forallb (fun x => existsb (trow_same g x) b) a && forallb (fun x => existsb (trow_same g x) a) b.

Definition prog_run0 (p : tprog) (evs : list (option Z * tevent)) : ttable :=
  fold_left (fun t te => texec p (fst te) (snd te) t) evs [].

(* structural tie: the program the code generates is the program the model generates; semantic tie:
   texec of the parsed program = what SQLite left after executing the generated statements *)
Definition C14_corr (c : C14_case) : bool :=
  match c with
  | C14_P g (Some p) evs (Some ex) => tprog_eqb (gen g) p && ttable_same g (prog_run0 p evs) ex
  | C14_P _ _ _ _ => false
  | C14_S g (Some ex) =>
      let want := map tc_name (filter tc_excl (tg_cols g)) in
      forallb (fun n => existsb (Z.eqb n) ex) want && forallb (fun n => existsb (Z.eqb n) want) ex
  | C14_S _ None => false
  end.

(* ---- property side ---- *)
Definition aligned1b (col : colref) (v : vexpr) : bool :=
  match col, v with
  | CCol c, VRow _ c' => c =? c'
  | CMod _, VTrue => true
  | CMod c, VDistinct c' => c =? c'
  | _, _ => false
  end.
Fixpoint alignedb (cols : list colref) (vals : list vexpr) : bool :=
  match cols, vals with
  | [], [] => true
  | c :: cols', v :: vals' => aligned1b c v && alignedb cols' vals'
  | _, _ => false
  end.

Definition completeb (g : tcfg) (u : upsert) : bool :=
  forallb (fun c => Bool.eqb (existsb (fun x => match x with CCol n => n =? tc_name c | _ => false end) (up_cols u))
                             (negb (tc_excl c))) (tg_cols g) &&
  forallb (fun c => Bool.eqb (existsb (fun x => match x with CMod n => n =? tc_name c | _ => false end) (up_cols u))
                             (tg_tracker g && negb (tc_excl c) && negb (tc_pk c))) (tg_cols g).

Definition assoc_eqb {A} (eqb : A -> A -> bool) (a b : list (Z * A)) : bool :=
  list_eqb (fun x y => (fst x =? fst y) && eqb (snd x) (snd y)) a b.
Definition trow_eqb (a b : trow) : bool :=
  (tr_tx a =? tr_tx b) && oz_eqb (tr_end a) (tr_end b) && (tr_op a =? tr_op b) &&
  assoc_eqb val_eqb (tr_dat a) (tr_dat b) && assoc_eqb Bool.eqb (tr_mod a) (tr_mod b).

Definition C14_prop (c : C14_case) : bool :=
  match c with
  | C14_P g (Some p) evs _ =>
      alignedb (up_cols (tp_ins p)) (up_vals (tp_ins p)) && alignedb (up_cols (tp_upd p)) (up_vals (tp_upd p)) &&
      alignedb (up_cols (tp_del p)) (up_vals (tp_del p)) &&
      completeb g (tp_ins p) && completeb g (tp_upd p) && completeb g (tp_del p) &&
      list_eqb trow_eqb (prog_run p evs) (spec_run g evs)
  | C14_P _ None _ _ => false
  | C14_S g (Some ex) =>
      let want := map tc_name (filter tc_excl (tg_cols g)) in
      forallb (fun n => existsb (Z.eqb n) ex) want && forallb (fun n => existsb (Z.eqb n) want) ex
  | C14_S _ None => false
  end.

(* the hypotheses of C14_trigger_program_equals_object_path, evaluated on every generated case *)
Fixpoint nodupZ (l : list Z) : bool :=
  match l with [] => true | x :: l' => negb (existsb (Z.eqb x) l') && nodupZ l' end.
Definition C14_pre (c : C14_case) : bool :=
  match c with
  | C14_P g _ evs _ => nodupZ (map tc_name (tg_cols g)) && evs_okb g [] evs
  | C14_S _ _ => true
  end.
