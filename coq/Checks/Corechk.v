(* Corechk.v — correspondence between the Layer-B machine and the recorded run of the real code.
   Core_corr compares, after every event of the recorded trace, the model's database with the
   snapshot of the real database, and monitors the environment assumptions (wf_trace). *)
From Continuum Require Import Model.Base Model.VTable Model.Backfill Model.Core Proofs.CoreChainP Proofs.HierP Proofs.HierChainP.

(* one activity row: id, transaction_id, (object class, object id, object_tx_id), same for target *)
Record act := mkact { ac_id : Z; ac_tx : option Z;
                      ac_obj : option (nat * Z * option Z); ac_tgt : option (nat * Z * option Z) }.

Record snap := mksnap {
  sn_live : list lrow; sn_vt : vtable; sn_av : list arow; sn_alive : list (Z * list Z);
  sn_tx : list Z; sn_chg : list (Z * nat); sn_uows : nat; sn_acts : list act }.

Record core_case := mkcase {
  cc_cfg : cfg; cc_evs : list ev; cc_snaps : list snap; cc_exc : bool;
  cc_outdiff : nat;     (* operations whose outcome (ok / error / skipped) differs from the unversioned twin run *)
  cc_livediff : bool;   (* final application tables differ from the unversioned twin run                     *)
  cc_ce : option (list (Z * nat * pk)) }.
                        (* Transaction.changed_entities of every transaction record, read at the end of the run:
                           (transaction id, class, key) of every version object returned (None: not read)  *)

Definition lrow_eqb (a b : lrow) : bool :=
  (l_cls a =? l_cls b)%nat && pk_eqb (l_key a) (l_key b) && list_eqb val_eqb (l_vals a) (l_vals b).
Definition arow_eqb (a b : arow) : bool :=
  (a_tab a =? a_tab b) && list_eqb Z.eqb (a_key a) (a_key b) && (a_tx a =? a_tx b) && (a_op a =? a_op b).
Definition chg_eqb (a b : Z * nat) : bool := (fst a =? fst b) && (snd a =? snd b)%nat.

Definition set_eqb {A} (eqb : A -> A -> bool) (l1 l2 : list A) : bool :=
  (length l1 =? length l2)%nat &&
  forallb (fun x => existsb (eqb x) l2) l1 && forallb (fun x => existsb (eqb x) l1) l2.

Definition is_flush (e : ev) : bool := match e with Flush _ _ _ => true | _ => false end.
Definition ends_tx (e : ev) : bool := match e with Commit | Rollback => true | _ => false end.

Definition state_matches (e : ev) (s : state) (sn : snap) : bool :=
  let d := s_db s in
  set_eqb lrow_eqb (d_live d) (sn_live sn) &&
  table_eqb (d_vt d) (sn_vt sn) &&
  set_eqb arow_eqb (d_av d) (sn_av sn) &&
  list_eqb Z.eqb (d_tx d) (sn_tx sn) &&
  set_eqb chg_eqb (d_chg d) (sn_chg sn) &&
  (if ends_tx e then (sn_uows sn =? 0)%nat else true) &&
  negb (s_err s).

Fixpoint all3 {A B C} (f : A -> B -> C -> bool) (a : list A) (b : list B) (c : list C) : bool :=
  match a, b, c with
  | [], [], [] => true
  | x :: a', y :: b', z :: c' => f x y z && all3 f a' b' c'
  | _, _, _ => false
  end.

(* ---- environment assumptions monitored on every recorded trace ---- *)
Definition lens_ok (cc : clscfg) (e : ent_ev) : bool :=
  let n := length (k_cols cc) in
  (length (e_vals e) =? n)%nat && (length (e_colchg e) =? n)%nat &&
  (length (e_relchg e) =? length (k_rels cc))%nat &&
  forallb (fun v => match v with Some _ => true | None => false end) (proj (pk_flags cc) (e_vals e)) &&
  ((e_kind e =? OP_INS) || (e_kind e =? OP_UPD) || (e_kind e =? OP_DEL)).

Definition find_live (live : list lrow) (c : nat) (k : pk) : option lrow := find (same_l c k) live.

(* per entity event, relative to the live tables before the event *)
Definition ent_wf (g : cfg) (live : list lrow) (e : ent_ev) : bool :=
  let cc := cls_of g (e_cls e) in
  (e_cls e <? length (g_classes g))%nat && lens_ok cc e &&
  match find_live live (e_cls e) (key_of cc (e_vals e)) with
  | None => (e_kind e =? OP_INS)
  | Some old =>
      if e_kind e =? OP_INS then false
      else if e_kind e =? OP_DEL then true
      else
        (* plain update (not a row switch): a column's history has changes iff its stored value
           changes, and every changed column is a key of committed_state *)
        e_isnew e ||
        (list_eqb Bool.eqb (e_colchg e) (orb_list (differs (e_vals e) (l_vals old)) (e_blind e)) &&
         (length (e_blind e) =? length (k_cols cc))%nat &&
         forallb (fun i => negb (nth i (e_colchg e) false) || existsb (Nat.eqb i) (e_cstate e))
                 (seq 0 (length (k_cols cc))))
  end.

Fixpoint ents_wf (g : cfg) (live : list lrow) (es : list ent_ev) : bool :=
  match es with
  | [] => true
  | e :: es' => ent_wf g live e && ents_wf g (apply_live g live e) es'
  end.

Fixpoint wf_trace (g : cfg) (s : state) (evs : list ev) : bool :=
  match evs with
  | [] => true
  | e :: evs' =>
      (match e with
       | Flush objs ents _ => ents_wf g (d_live (s_db s)) ents
       | _ => true
       end) && wf_trace g (step g s e) evs'
  end.

(* the hypothesis of the hierarchy theorem (Props/C03.v C03_reachable_hierarchy_chain) about the environment,
   evaluated at every flush of a configuration with joined-table hierarchies: on the model state after the flush
   proper every version of a subclass entity has its base-table row and keys are non-empty (Proofs/HierChainP.v
   trace_pairedb) *)
Definition hier_hyps_ok (g : cfg) (evs : list ev) : bool :=
  no_hierb g || (one_baseb g && trace_pairedb g state0 evs).

Definition Core_corr (c : core_case) : bool :=
  negb (cc_exc c) &&
  all3 state_matches (cc_evs c) (run_trace (cc_cfg c) state0 (cc_evs c)) (cc_snaps c) &&
  wf_trace (cc_cfg c) state0 (cc_evs c) &&
  cfg_consistentb (cc_cfg c) && hier_consistentb (cc_cfg c) && hier_hyps_ok (cc_cfg c) (cc_evs c).
