(* ManagerSpGen.v - the translator REFUSED the current source: __init__: after_commit is not bound to self.after_commit *)
Definition translator_refused : unit := the_source_left_the_supported_subset.
