(* ManagerGen.v - the translator REFUSED the current source: clear_connection: condition uow.has_changes *)
Definition translator_refused : unit := the_source_left_the_supported_subset.
