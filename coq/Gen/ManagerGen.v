(* ManagerGen.v - the translator REFUSED the current source: unit_of_work: statement `try:` *)
Definition translator_refused : unit := the_source_left_the_supported_subset.
