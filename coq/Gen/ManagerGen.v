(* ManagerGen.v - the translator REFUSED the current source: forget_savepoints touches session_connection_map *)
Definition translator_refused : unit := the_source_left_the_supported_subset.
