"""C09 — interleaved sessions never mix or leak unit-of-work state."""
import itertools
import json

import corebase as B
import env as E
import hist
from framework import gbool, glist, gnat, gpair

PROP = 'C09'
CHECK_MODS = ['Model.Core', 'Model.Manager', 'Model.ManagerSp', 'Checks.Corechk', 'Checks.CoreProps', 'Checks.C06chk', 'Checks.C09chk']
CASE_TYPE = 'C09_case'
CORR, PROPCHK = 'C09_corr', 'C09_prop'
THEOREMS = ['C09_locality', 'C09_interleaving_equals_solo_run', 'C09_interleaving_with_execution_options',
            'C09_execution_options_adopt_nothing', 'C09_each_session_is_a_core_run', 'C09_unit_of_work_is_the_code', 'C09_clear_is_the_code',
            'C09_clear_connection_is_the_code', 'C09_track_cloned_connections_is_the_code', 'C09_maps_stay_dictionaries', 'C09_quiescent_after_rollback',
            'C09_quiescent_after_commit', 'C09_example', 'C09_savepoint_locality', 'C09_interleaving_with_savepoints_equals_solo_run',
            'C09_each_session_is_a_savepoint_run', 'C09_savepoint_example', 'C09_session_unit_of_work_is_the_code',
            'C09_track_savepoint_is_the_code', 'C09_rollback_savepoint_is_the_code', 'C09_no_savepoint_survives_the_transaction']
RULE = ('k = 2 or 3 session programs (add / set / delete / flush / commit / rollback / close / set-execution-options-on-the-connection / '
        'begin-, roll-back-, release-savepoint steps over the blog shape; schedules with savepoints are replayed in Layer M with savepoints, Model/ManagerSp.v) are '
        'interleaved step by step; each session has its own SQLite database, engine and connection but all share the one '
        'VersioningManager, the mappers and the version classes, so every interleaving is executable and "same as the solo '
        'run" is an exact equality. After every recorded event the manager\'s two maps are read; at the end each session\'s '
        'database is compared with the database obtained by running its program alone. Quick: random interleavings; '
        'thorough: additionally all interleavings of two 4-step programs. Non-trivial: >= 2 sessions have an open '
        'versioned transaction at the same time at some point.')
ASSUMPTIONS = B.COMMON_ASSUMPTIONS + [
    'steps are atomic session calls in one thread; pre-emptive thread interleavings inside a listener are outside the step notion',
    'connection-bound sessions; sequential reuse of one pooled DB-API connection is covered by the quiescence theorem and the '
    'single-session histories of the other checks (every commit/rollback leaves both maps empty)']


def budget(tier):
    return 96 if tier == 'quick' else 400


def gen_session_prog(rng, sid):
    prog = []
    keys = [1, 2]
    for _ in range(rng.randint(4, 9)):
        r = rng.random()
        if r < 0.35:
            # class 3 (Note) is not versioned: a flush of nothing but notes creates a unit of work without operations
            prog.append(['add', rng.choice([0, 1, 3, 3]), rng.choice(keys), {'a': rng.choice([0, 1, 2, None])}])
        elif r < 0.55:
            prog.append(['set', rng.choice([0, 1]), rng.choice(keys), {'a': rng.choice([0, 1, 2, None])}])
        elif r < 0.62:
            prog.append(['del', rng.choice([0, 1]), rng.choice(keys)])
        elif r < 0.80:
            prog.append(['flush'])
        elif r < 0.84:
            prog.append(['execopt'])
        elif r < 0.92:
            prog.append(['commit'])
        elif r < 0.97:
            prog.append(['rollback'])
        else:
            prog.append(['close'])
    prog.append(rng.choice([['commit'], ['commit'], ['rollback'], ['close']]))
    return prog


def gen_sp_prog(rng, i):
    """a session program with savepoints: up to two levels, begun before or after the first versioned flush (the unit
    of work then exists / comes into being inside the savepoint), rolled back or released, sometimes left open at the
    commit"""
    pr, depth, key = [], 0, 2
    if i % 2 == 0 or rng.random() < 0.3:
        pr += [['add', rng.choice([0, 1]), 1, {'a': 1}], ['flush']]
    pr += [['sp_begin']]
    depth += 1
    for _ in range(rng.randint(2, 6)):
        r = rng.random()
        if r < 0.2 and depth < 2:
            pr.append(['sp_begin'])
            depth += 1
        elif r < 0.55:
            pr.append(['add', rng.choice([0, 1, 3]), key, {'a': key}])
            key += 1
            if rng.random() < 0.7:
                pr.append(['flush'])
        elif r < 0.8 and depth:
            pr.append([rng.choice(['sp_rollback', 'sp_rollback', 'sp_release'])])
            depth -= 1
        else:
            pr.append(['flush'])
    if rng.random() < 0.75:
        while depth:
            pr.append([rng.choice(['sp_rollback', 'sp_release'])])
            depth -= 1
    pr.append(['add', 1, key, {'a': 3}])
    if rng.random() < 0.5:
        pr.append(['flush'])
    pr += [[rng.choice(['commit', 'commit', 'rollback'])], ['set', 1, key, {'a': 4}], [rng.choice(['commit', 'rollback', 'close'])]]
    return pr


def gen_cases(rng, n, tier):
    out = []
    cfgs = [dict(shape='blog', strategy=s, changes=c, twin=False) for s in ('validity', 'subquery') for c in (False, True)]
    # a plugin that supplies a transaction attribute for some sessions only
    cfgs += [dict(shape='blog', strategy='validity', changes=False, twin=False, origin=True)]
    for i in range(n):
        k = 2 if i % 3 else 3
        progs = [gen_session_prog(rng, j) for j in range(k)]
        order = []
        for j, p in enumerate(progs):
            order += [j] * len(p)
        rng.shuffle(order)
        out.append(dict(cfg=cfgs[i % len(cfgs)], progs=progs, order=order))
    # savepoints in interleaved sessions (replayed in Layer M with savepoints, Model/ManagerSp.v)
    for i in range(max(12, n // 6)):
        progs = [gen_sp_prog(rng, i) for j in range(2 if i % 3 else 3)]
        order = []
        for j, p_ in enumerate(progs):
            order += [j] * len(p_)
        rng.shuffle(order)
        out.append(dict(cfg=cfgs[i % len(cfgs)], progs=progs, order=order))
    if tier == 'thorough':
        base = [['add', 0, 1, {'a': 1}], ['flush'], ['set', 0, 1, {'a': 2}], ['commit']]
        other = [['add', 0, 1, {'a': 5}], ['flush'], ['rollback'], ['add', 1, 1, {'a': 0}], ['commit']]
        for order in set(itertools.permutations([0] * len(base) + [1] * len(other))):
            out.append(dict(cfg=cfgs[0], progs=[base, other], order=list(order)))
    return out


def corpus():
    cfg = dict(shape='blog', strategy='validity', twin=False)
    return [dict(cfg=cfg,
                 progs=[[['add', 0, 1, {'a': 1}], ['commit']],
                        [['sp_begin'], ['add', 0, 2, {'a': 2}], ['flush'], ['sp_rollback'], ['add', 1, 2, {'a': 3}], ['flush'], ['commit']]],
                 order=[1, 0, 0, 1, 1, 1, 1, 1, 1]),
            dict(cfg=cfg, progs=[[['add', 3, 1, {'a': 1}], ['flush'], ['close'], ['add', 0, 1, {'a': 1}], ['commit'], ['set', 0, 1, {'a': 2}], ['commit']],
                                 [['add', 0, 1, {'a': 7}], ['flush'], ['commit']]], order=[0, 0, 1, 0, 1, 0, 0, 1, 0, 0]),
            dict(cfg=cfg, progs=[[['add', 0, 1, {'a': 1}], ['flush'], ['set', 0, 1, {'a': 2}], ['flush'], ['commit']],
                                 [['execopt'], ['add', 0, 1, {'a': 7}], ['flush'], ['commit']]], order=[0, 0, 1, 1, 1, 1, 0, 0, 0]),
            dict(cfg=cfg, progs=[[['add', 0, 1, {'a': 1}], ['flush'], ['add', 0, 2, {'a': 1}], ['commit']],
                                 [['add', 0, 1, {'a': 7}], ['flush'], ['commit']]], order=[0, 1, 0, 1, 0, 1, 0])]


def _pysqlite_no_autobegin(dbapi_connection, connection_record):
    dbapi_connection.isolation_level = None


def _pysqlite_begin(conn):
    conn.exec_driver_sql('BEGIN')


class MultiRun(object):
    """k sessions on k separate in-memory databases sharing one manager."""

    def __init__(self, env, cfg, k, origins=None):
        import sqlalchemy as sa
        self.sa, self.env, self.cfg = sa, env, cfg
        self.engines, self.conns, self.sessions, self.recs = [], [], [], []
        self.steps, self.maps = [], []
        for j in range(k):
            eng = sa.create_engine('sqlite://')
            # the documented recipe for pysqlite: the driver begins a transaction only at the first DML statement, so
            # a SAVEPOINT that is the first statement of a transaction would be RELEASEd as a COMMIT of its own
            sa.event.listen(eng, 'connect', _pysqlite_no_autobegin)
            sa.event.listen(eng, 'begin', _pysqlite_begin)
            conn = eng.connect()
            env.Base.metadata.create_all(conn)
            conn.commit()
            s = sa.orm.Session(bind=conn, autoflush=cfg.get('autoflush', False))
            if origins and origins[j]:
                s.info['origin'] = origins[j]
            self.engines.append(eng)
            self.conns.append(conn)
            self.sessions.append(s)
        # recorders need env.engine for their before_execute hook: give each its own engine view
        for j, s in enumerate(self.sessions):
            sub = _EnvView(env, self.engines[j])
            rec = hist.Recorder(sub, cfg, s)
            rec.on_event = self._on_event
            rec.sidx = j
            self.recs.append(rec)

    def conn_index(self, conn):
        for j, c in enumerate(self.conns):
            if c is conn:
                return j
        return 90 + (id(conn) % 7)

    def read_maps(self):
        m = self.env.manager
        uows = sorted(self.conn_index(c) for c in m.units_of_work.keys())
        smap = sorted((self.sessions.index(s) if s in self.sessions else 99, self.conn_index(c))
                      for s, c in m.session_connection_map.items())
        return [uows, [list(x) for x in smap]]

    def _on_event(self, rec, ev):
        self.steps.append((rec.sidx, ev))
        self.maps.append(self.read_maps())

    def mark(self, j, name):
        rec = self.recs[j]
        rec.trace.append(dict(ev=name))
        rec.snaps.append(rec.snapshot())
        self._on_event(rec, rec.trace[-1])

    def mark_sp(self, j, name):
        self.steps.append((j, dict(ev=name)))
        self.maps.append(self.read_maps())

    def mark_opt(self, j):
        self.steps.append((j, dict(ev='execopt')))
        self.maps.append(self.read_maps())

    def close(self):
        for rec in self.recs:
            rec.remove()
        for s in self.sessions:
            try:
                s.close()
            except Exception:
                pass
        for c in self.conns:
            try:
                c.close()
            except Exception:
                pass
        for e in self.engines:
            e.dispose()


class _EnvView(object):
    def __init__(self, env, engine):
        self.__dict__['_env'] = env
        self.__dict__['engine'] = engine

    def __getattr__(self, k):
        return getattr(self._env, k)

    def __setattr__(self, k, v):
        setattr(self._env, k, v)


def origins_for(cfg, k):
    # every second session says where it comes from; the others supply no transaction attribute
    return [('10.0.0.%d' % (j + 1) if j % 2 == 0 else None) for j in range(k)] if cfg.get('origin') else [None] * k


def run_schedule(env, cfg, progs, order, origins=None):
    """execute the interleaving; returns steps, maps, final snapshots"""
    mr = MultiRun(env, cfg, len(progs), origins)
    refs = [dict() for _ in progs]
    sps = [[] for _ in progs]
    pos = [0] * len(progs)
    classes = env.classes
    outcomes = []
    try:
        for j in order:
            if pos[j] >= len(progs[j]):
                continue
            op = progs[j][pos[j]]
            pos[j] += 1
            s = mr.sessions[j]
            rf = refs[j]
            kind = op[0]

            def lookup(c, key):
                o = rf.get((c, key))
                if o is None:
                    o = s.get(classes[c], key)
                    if o is not None:
                        rf[(c, key)] = o
                return o
            try:
                if kind == 'add':
                    o = classes[op[1]](id=op[2], **op[3])
                    s.add(o)
                    rf[(op[1], op[2])] = o
                elif kind == 'set':
                    o = lookup(op[1], op[2])
                    if o is not None:
                        for k2, v in op[3].items():
                            setattr(o, k2, v)
                elif kind == 'del':
                    o = lookup(op[1], op[2])
                    if o is not None:
                        s.delete(o)
                        rf.pop((op[1], op[2]), None)
                elif kind == 'flush':
                    s.flush()
                elif kind == 'sp_begin':
                    sps[j].append(s.begin_nested())
                    mr.mark_sp(j, 'spbegin')
                elif kind in ('sp_rollback', 'sp_release'):
                    if sps[j]:
                        h_ = sps[j].pop()
                        (h_.rollback if kind == 'sp_rollback' else h_.commit)()
                        if kind == 'sp_rollback':
                            rf.clear()
                        mr.mark_sp(j, 'sprollback' if kind == 'sp_rollback' else 'sprelease')
                elif kind == 'execopt':
                    # execution options set on the session's connection (set_connection_execution_options event)
                    mr.conns[j].execution_options(verif_marker=len(outcomes))
                    mr.mark_opt(j)
                elif kind == 'commit':
                    s.commit()
                    sps[j][:] = []
                    mr.mark(j, 'commit')
                elif kind == 'rollback':
                    mr.recs[j].cur = None
                    s.rollback()
                    rf.clear()
                    sps[j][:] = []
                    mr.mark(j, 'rollback')
                elif kind == 'close':
                    active = s.in_transaction()
                    mr.recs[j].cur = None
                    s.close()
                    rf.clear()
                    if active:
                        mr.mark(j, 'rollback')
                outcomes.append('ok')
            except Exception as e:
                outcomes.append('error:' + type(e).__name__)
                mr.recs[j].cur = None
                s.rollback()
                rf.clear()
                mr.mark(j, 'rollback')
        finals = []
        for j, s in enumerate(mr.sessions):
            try:
                s.rollback()
            except Exception:
                pass
            finals.append(mr.recs[j].snapshot())
            s.rollback()
        txattrs = []
        if env.versioned:
            txt = env.manager.transaction_cls.__table__
            for c_ in mr.conns:
                txattrs.append([list(r) for r in c_.execute(mr.sa.select(txt.c.id, txt.c.remote_addr).order_by(txt.c.id))])
                c_.rollback()
        maps_end = mr.read_maps()
        return dict(steps=mr.steps, maps=mr.maps, finals=finals, outcomes=outcomes, maps_end=maps_end, txattrs=txattrs)
    finally:
        mr.close()


def _worker(chunk):
    cfg, items = chunk
    out = []
    with E.Env(options=hist.options_for(cfg), plugins=hist.plugins_for(cfg), build=hist.SHAPES[cfg['shape']](cfg)) as env:
        for idx, case in items:
            try:
                origins = origins_for(cfg, len(case['progs']))
                full = run_schedule(env, cfg, case['progs'], case['order'], origins)
                solo = []
                problem = None
                for j, p in enumerate(case['progs']):
                    r = run_schedule(env, cfg, [p], [0] * len(p), [origins[j]])
                    solo.append(r['finals'][0])
                    if r['txattrs'] and full['txattrs'] and r['txattrs'][0] != full['txattrs'][j] and problem is None:
                        problem = ('the transaction records of session %d carry other attributes than in its solo run: %r / %r'
                                   % (j, full['txattrs'][j], r['txattrs'][0]))
                for j in range(len(case['progs'])):
                    # ... and exactly the attribute its own session supplies (none for a session that supplies none)
                    wrong = [r_ for r_ in (full['txattrs'][j] if full['txattrs'] else []) if r_[1] != origins[j]]
                    if wrong and problem is None:
                        problem = ('transaction record %r of session %d carries remote_addr=%r, its session supplies %r'
                                   % (wrong[0][0], j, wrong[0][1], origins[j]))
                out.append((idx, dict(full=full, solo=solo, ccfg=hist.reflect_cfg(env, cfg), exc=problem)))
            except Exception as e:
                import traceback
                out.append((idx, dict(exc='%s: %s %s' % (type(e).__name__, e, traceback.format_exc()[-700:]))))
    return out


def run_impl(cases):
    groups = {}
    for i, c in enumerate(cases):
        groups.setdefault(hist.cfg_key(c['cfg']), []).append((i, c))
    chunks = []
    for k, items in groups.items():
        step = max(1, (len(items) + 3) // 4)
        for s in range(0, len(items), step):
            chunks.append((json.loads(k), items[s:s + step]))
    res = [None] * len(cases)
    for part in E.pmap(_worker, chunks):
        for idx, o in part:
            res[idx] = o
    return res


def quiescent(case):
    return all(p and p[-1][0] in ('commit', 'rollback', 'close') for p in case['progs'])


def encode(case, obs):
    if obs.get('exc'):
        return ('{| c9_cfg := mkcfg true false false false false []; c9_steps := []; c9_maps := []; c9_finals := []; '
                'c9_solo := []; c9_quiescent := false; c9_obsonly := false; c9_spsteps := []; c9_exc := true |}')
    full = obs['full']
    ccfg = obs['ccfg']
    if case.get('obs_only'):
        full = dict(full, steps=[], maps=[full['maps_end']])
    SP = {'spbegin': 'SBegin', 'sprollback': 'SRollback', 'sprelease': 'SRelease'}
    uses_sp = any(se[1]['ev'] in SP for se in full['steps'])
    if uses_sp:
        if any(se[1]['ev'] == 'execopt' for se in full['steps']):
            raise ValueError('savepoints and execution options in one schedule are not modelled together')
        spsteps = glist(full['steps'], lambda se: '(%s, %s, %s)' % (
            gnat(se[0]), gnat(se[0]), SP.get(se[1]['ev']) or '(SE %s)' % hist.g_event(se[1])))
        full = dict(full, steps=[])
    else:
        spsteps = '[]'
    steps = glist(full['steps'], lambda se: '(%s, %s, %s)' % (
        gnat(se[0]), gnat(se[0]), 'GOpt' if se[1]['ev'] == 'execopt' else '(GE %s)' % hist.g_event(se[1])))
    maps = glist(full['maps'] + [full['maps_end']],
                 lambda m: gpair(glist(m[0], gnat), glist(m[1], lambda p: gpair(gnat(p[0]), gnat(p[1])))))
    # one extra map observation (after the final clean-up) has no step: drop it from the per-step list, keep it for quiescence
    maps_steps = glist(full['maps'], lambda m: gpair(glist(m[0], gnat), glist(m[1], lambda p: gpair(gnat(p[0]), gnat(p[1])))))
    finals = glist(list(enumerate(full['finals'])), lambda js: gpair(gnat(js[0]), hist.g_snap(js[1], ccfg)))
    solo = glist(list(enumerate(obs['solo'])), lambda js: gpair(gnat(js[0]), hist.g_snap(js[1], ccfg)))
    return ('{| c9_cfg := %s; c9_steps := %s; c9_maps := %s; c9_finals := %s; c9_solo := %s; c9_quiescent := %s; '
            'c9_obsonly := %s; c9_spsteps := %s; c9_exc := false |}') % (
                hist.g_cfg(case['cfg'], ccfg), steps, maps_steps, finals, solo,
                gbool(quiescent(case)), gbool(bool(case.get('obs_only'))), spsteps)


def nontrivial(case, obs):
    if obs.get('exc'):
        return False
    return any(len(m[0]) >= 2 for m in obs['full']['maps'])


def features(case, obs):
    f = ['k=%d' % len(case['progs']), 'strategy=' + case['cfg']['strategy']]
    if any(op[0].startswith('sp_') for p in case['progs'] for op in p):
        f.append('savepoints-replayed')
    if obs.get('exc'):
        f.append('exception')
    else:
        f.append('max_concurrent_uows=%d' % max([len(m[0]) for m in obs['full']['maps']] + [0]))
    return f


def shrink(case):
    out = []
    for j, p in enumerate(case['progs']):
        for i in range(len(p)):
            c = json.loads(json.dumps(case))
            del c['progs'][j][i]
            # remove one occurrence of j from the order
            idxs = [t for t, x in enumerate(c['order']) if x == j]
            if idxs:
                del c['order'][idxs[-1]]
            out.append(c)
    return out


def describe(case, obs):
    d = dict(cfg=case['cfg'], programs=case['progs'], order=case['order'])
    if obs.get('exc'):
        d['harness_exception'] = obs['exc']
    else:
        d['maps_after_each_event'] = obs['full']['maps']
        d['maps_at_end'] = obs['full']['maps_end']
        d['outcomes'] = obs['full']['outcomes']
        d['final_tx_per_session'] = [f['tx'] for f in obs['full']['finals']]
        d['solo_tx_per_session'] = [f['tx'] for f in obs['solo']]
    return d
