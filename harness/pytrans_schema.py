"""pytrans_schema.py - fail-closed translator of the schema derivation code to Gallina (C12).

Regenerates coq/Gen/SchemaGen.v on every build from the CURRENT source of
  sqlalchemy_continuum/table_builder.py            ColumnReflector.reflect_column / transaction_column /
                                                   end_transaction_column / operation_type_column /
                                                   reflected_parent_columns / __iter__
  sqlalchemy_continuum/plugins/property_mod_tracker.py
                                                   PropertyModTrackerPlugin.create_mod_column /
                                                   after_build_version_table_columns
Proofs/SchemaGenP.v proves the generated functions equal to Model/Schema.v (reflect_column, tx_column, end_column,
op_column, mod_column, build).

What is assumed about SQLAlchemy (environment, checked by the C12 correspondence on real tables):
  * column._copy() keeps name, type, primary_key, nullable, unique, autoincrement, default, server_default, onupdate
    and drops the table-level foreign-key constraint;
  * sa.Column(name, type, **kw): primary_key defaults to False, nullable to `not primary_key`, no default / server
    default / onupdate / unique unless given, autoincrement ('auto') only matters for integer primary keys and is
    modelled as False unless given as True; `index=` and `key=` are not part of the model.
The assignment of column_copy.key (the mapper's attribute key) is skipped: keys are not modelled.
"""
import ast
import os

from pytrans import Unsupported, find_method, _src

FIELD = {'unique': 'unique', 'onupdate': 'onupdate', 'default': 'default', 'server_default': 'sdefault',
         'autoincrement': 'autoinc', 'nullable': 'nullable'}
OPTION = {'transaction_column_name': 'm_txn m', 'end_transaction_column_name': 'm_endn m',
          'operation_type_column_name': 'm_opn m'}
TYPES = {'SmallInteger': 'T_SMALLINT', 'BigInteger': 'T_BIGINT', 'Boolean': 'T_BOOL'}


def body_of(f):
    return [s for s in f.body if not (isinstance(s, ast.Expr) and isinstance(s.value, ast.Constant))]


def const_bool(node, who):
    if isinstance(node, ast.Constant) and node.value in (False, None):
        return 'false'
    if isinstance(node, ast.Constant) and node.value is True:
        return 'true'
    raise Unsupported('%s: value %s' % (who, _src(node)))


def option_call(node):
    # self.option('<name>')
    if isinstance(node, ast.Call) and _src(node.func) == 'self.option' and len(node.args) == 1 \
            and isinstance(node.args[0], ast.Constant) and node.args[0].value in OPTION:
        return OPTION[node.args[0].value]
    return None


def reflect_column(tree):
    f = find_method(tree, 'ColumnReflector', 'reflect_column')
    who = 'reflect_column'
    body = body_of(f)
    if [a.arg for a in f.args.args] != ['self', 'column']:
        raise Unsupported(who + ': signature')
    if not (body and _src(body[0]) == 'column_copy = column._copy()'):
        raise Unsupported(who + ': first statement must be column_copy = column._copy()')
    lines = ['let v := mkvc (pc_name c) (pc_type c) (pc_pk c) (pc_nullable c) (pc_unique c) (pc_autoinc c)',
             '                 (pc_default c) (pc_sdefault c) (pc_onupdate c) false in']

    def cond(node):
        if isinstance(node, ast.Attribute) and _src(node.value) == 'column_copy' and node.attr == 'autoincrement':
            return 'vc_autoinc v'
        if isinstance(node, ast.UnaryOp) and isinstance(node.op, ast.Not) and _src(node.operand) == 'column_copy.primary_key':
            return 'negb (vc_pk v)'
        if isinstance(node, ast.Compare) and len(node.ops) == 1 and isinstance(node.ops[0], ast.Eq) \
                and _src(node.left) == 'column_copy.name' and option_call(node.comparators[0]):
            return '(vc_name v =? %s)' % option_call(node.comparators[0])
        raise Unsupported('%s: condition %s' % (who, _src(node)))

    def assign(s):
        if isinstance(s, ast.Assign) and len(s.targets) == 1 and isinstance(s.targets[0], ast.Attribute) \
                and _src(s.targets[0].value) == 'column_copy' and s.targets[0].attr in FIELD:
            return 'set_%s v %s' % (FIELD[s.targets[0].attr], const_bool(s.value, who))
        raise Unsupported('%s: statement `%s`' % (who, _src(s).split('\n')[0]))
    returned = False
    for s in body[1:]:
        if returned:
            raise Unsupported(who + ': statements after return')
        if isinstance(s, ast.Return):
            if _src(s.value) != 'column_copy':
                raise Unsupported(who + ': return value')
            returned = True
        elif isinstance(s, ast.If) and not s.orelse and len(s.body) == 1 and _src(s.test) == 'self.model is not None':
            # for key, value in sa.inspect(self.model).columns.items(): if value is column: column_copy.key = key
            inner = s.body[0]
            ok = isinstance(inner, ast.For) and len(inner.body) == 1 and isinstance(inner.body[0], ast.If) \
                and len(inner.body[0].body) == 1 and _src(inner.body[0].body[0]).startswith('column_copy.key = ')
            if not ok:
                raise Unsupported(who + ': block under `if self.model is not None`')
        elif isinstance(s, ast.If) and not s.orelse and len(s.body) == 1:
            lines.append('let v := if %s then %s else v in' % (cond(s.test), assign(s.body[0])))
        else:
            lines.append('let v := %s in' % assign(s))
    if not returned:
        raise Unsupported(who + ': no return')
    return 'Definition gen_reflect_column (m : mcfg) (c : pcol) : vcol :=\n  ' + '\n  '.join(lines) + '\n  v.\n'


def column_ctor(call, who, name_expr=None):
    """sa.Column(<name>, sa.<Type>, **kw) -> mkvc ..."""
    if not (isinstance(call, ast.Call) and _src(call.func) == 'sa.Column' and len(call.args) == 2):
        raise Unsupported('%s: expected sa.Column(name, type, ...)' % who)
    name = name_expr or option_call(call.args[0])
    if name is None:
        raise Unsupported('%s: column name %s' % (who, _src(call.args[0])))
    t = call.args[1]
    if not (isinstance(t, ast.Attribute) and _src(t.value) == 'sa' and t.attr in TYPES):
        raise Unsupported('%s: type %s' % (who, _src(t)))
    kw = {k.arg: k.value for k in call.keywords}
    allowed = {'primary_key', 'nullable', 'index', 'autoincrement', 'key', 'default', 'server_default'}
    if set(kw) - allowed:
        raise Unsupported('%s: keyword %s' % (who, sorted(set(kw) - allowed)))
    pk = const_bool(kw['primary_key'], who) if 'primary_key' in kw else 'false'
    nullable = const_bool(kw['nullable'], who) if 'nullable' in kw else ('false' if pk == 'true' else 'true')
    autoinc = const_bool(kw['autoincrement'], who) if 'autoincrement' in kw else 'false'
    default = 'true' if 'default' in kw else 'false'
    sdefault = 'true' if 'server_default' in kw else 'false'
    return 'mkvc (%s) %s %s %s false %s %s %s false false' % (name, TYPES[t.attr], pk, nullable, autoinc, default, sdefault)


def internal_column(tree, prop, gname):
    f = find_method(tree, 'ColumnReflector', prop)
    body = body_of(f)
    if not (len(body) == 1 and isinstance(body[0], ast.Return)):
        raise Unsupported(prop + ': body')
    return 'Definition %s (m : mcfg) : vcol := %s.\n' % (gname, column_ctor(body[0].value, prop))


def reflector_iter(tree):
    # reflected_parent_columns
    f = find_method(tree, 'ColumnReflector', 'reflected_parent_columns')
    body = body_of(f)
    ok = (len(body) == 1 and isinstance(body[0], ast.For) and _src(body[0].iter) == 'self.parent_table.c'
          and _src(body[0].target) == 'column' and len(body[0].body) == 3
          and isinstance(body[0].body[0], ast.If)
          and _src(body[0].body[0].test).replace('\n', ' ').replace('  ', ' ') in (
              'self.model and self.manager.is_excluded_column(self.model, column)',)
          and [_src(x) for x in body[0].body[0].body] == ['continue']
          and _src(body[0].body[1]) == 'reflected_column = self.reflect_column(column)'
          and _src(body[0].body[2]) == 'yield reflected_column')
    if not ok:
        raise Unsupported('reflected_parent_columns: %s' % _src(f)[:300])
    # __iter__
    f = find_method(tree, 'ColumnReflector', '__iter__')
    body = body_of(f)
    ok = (len(body) == 2 and isinstance(body[0], ast.For) and _src(body[0].iter) == 'self.reflected_parent_columns'
          and [_src(x) for x in body[0].body] == ['yield ' + _src(body[0].target)]
          and isinstance(body[1], ast.If) and not body[1].orelse
          and _src(body[1].test) == 'not self.model or not sa.inspect(self.model).single')
    if not ok:
        raise Unsupported('__iter__: %s' % _src(f)[:300])
    items = []
    for s in body[1].body:
        src = _src(s)
        if src == 'yield self.transaction_column':
            items.append('[gen_transaction_column m]')
        elif src == 'yield self.operation_type_column':
            items.append('[gen_operation_type_column m]')
        elif isinstance(s, ast.If) and not s.orelse and _src(s.test) == "self.option('strategy') == 'validity'" \
                and [_src(x) for x in s.body] == ['yield self.end_transaction_column']:
            items.append('(if m_validity m then [gen_end_transaction_column m] else [])')
        else:
            raise Unsupported('__iter__: statement `%s`' % src.split('\n')[0])
    return ('(* ColumnReflector.__iter__: the reflected parent columns, then - unless the model is a single-table child - the\n'
            '   internal columns *)\n'
            'Definition gen_reflector_columns (m : mcfg) : list vcol :=\n'
            '  map (gen_reflect_column m) (filter (fun c => negb (pc_excl c)) (m_cols m)) ++\n'
            '  (if m_internal m then %s else []).\n') % ' ++ '.join(items)


def tracker(tree):
    f = find_method(tree, 'PropertyModTrackerPlugin', 'create_mod_column')
    body = body_of(f)
    if not (len(body) == 1 and isinstance(body[0], ast.Return)):
        raise Unsupported('create_mod_column: body')
    call = body[0].value
    if not (isinstance(call, ast.Call) and len(call.args) == 2 and _src(call.args[0]) == 'column.name + self.column_suffix'):
        raise Unsupported('create_mod_column: name')
    out = 'Definition gen_mod_column (m : mcfg) (c : pcol) : vcol := %s.\n' % column_ctor(
        call, 'create_mod_column', name_expr='m_modname m (pc_name c)')
    f = find_method(tree, 'PropertyModTrackerPlugin', 'after_build_version_table_columns')
    body = body_of(f)
    ok = (len(body) == 1 and isinstance(body[0], ast.If) and not body[0].orelse and _src(body[0].test) == 'table_builder.model'
          and len(body[0].body) == 1 and isinstance(body[0].body[0], ast.For)
          and _src(body[0].body[0].iter) == 'table_builder.parent_table.c' and _src(body[0].body[0].target) == 'column'
          and len(body[0].body[0].body) == 1 and isinstance(body[0].body[0].body[0], ast.If)
          and not body[0].body[0].body[0].orelse
          and _src(body[0].body[0].body[0].test).replace('\n', ' ').replace('  ', ' ') ==
          'not table_builder.manager.is_excluded_column(table_builder.model, column) and (not column.primary_key)'
          and [_src(x) for x in body[0].body[0].body[0].body] == ['columns.append(self.create_mod_column(column))'])
    if not ok:
        raise Unsupported('after_build_version_table_columns: %s' % _src(f)[:400])
    out += ('\n(* appended by PropertyModTrackerPlugin.after_build_version_table_columns (models only) *)\n'
            'Definition gen_mod_columns (m : mcfg) : list vcol :=\n'
            '  map (gen_mod_column m) (filter (fun c => negb (pc_excl c) && negb (pc_pk c)) (m_cols m)).\n')
    return out


HEADER = """(* SchemaGen.v - GENERATED by harness/pytrans_schema.py from the current source of
   sqlalchemy_continuum/table_builder.py and plugins/property_mod_tracker.py.  Do not edit: rewritten on
   every build.  Proofs/SchemaGenP.v proves these definitions equal to Model/Schema.v. *)
From Continuum Require Import Model.Base Model.Schema.

Definition set_nullable (v : vcol) (b : bool) : vcol :=
  mkvc (vc_name v) (vc_type v) (vc_pk v) b (vc_unique v) (vc_autoinc v) (vc_default v) (vc_sdefault v) (vc_onupdate v) (vc_fk v).
Definition set_unique (v : vcol) (b : bool) : vcol :=
  mkvc (vc_name v) (vc_type v) (vc_pk v) (vc_nullable v) b (vc_autoinc v) (vc_default v) (vc_sdefault v) (vc_onupdate v) (vc_fk v).
Definition set_autoinc (v : vcol) (b : bool) : vcol :=
  mkvc (vc_name v) (vc_type v) (vc_pk v) (vc_nullable v) (vc_unique v) b (vc_default v) (vc_sdefault v) (vc_onupdate v) (vc_fk v).
Definition set_default (v : vcol) (b : bool) : vcol :=
  mkvc (vc_name v) (vc_type v) (vc_pk v) (vc_nullable v) (vc_unique v) (vc_autoinc v) b (vc_sdefault v) (vc_onupdate v) (vc_fk v).
Definition set_sdefault (v : vcol) (b : bool) : vcol :=
  mkvc (vc_name v) (vc_type v) (vc_pk v) (vc_nullable v) (vc_unique v) (vc_autoinc v) (vc_default v) b (vc_onupdate v) (vc_fk v).
Definition set_onupdate (v : vcol) (b : bool) : vcol :=
  mkvc (vc_name v) (vc_type v) (vc_pk v) (vc_nullable v) (vc_unique v) (vc_autoinc v) (vc_default v) (vc_sdefault v) b (vc_fk v).

"""


def generate(repo, dst):
    try:
        tb = ast.parse(open(os.path.join(repo, 'sqlalchemy_continuum', 'table_builder.py')).read())
        pl = ast.parse(open(os.path.join(repo, 'sqlalchemy_continuum', 'plugins', 'property_mod_tracker.py')).read())
        parts = [reflect_column(tb),
                 internal_column(tb, 'transaction_column', 'gen_transaction_column'),
                 internal_column(tb, 'end_transaction_column', 'gen_end_transaction_column'),
                 internal_column(tb, 'operation_type_column', 'gen_operation_type_column'),
                 reflector_iter(tb), tracker(pl),
                 '\n(* TableBuilder.__call__: the reflector\'s columns, then what the plugins append *)\n'
                 'Definition gen_build (m : mcfg) : list vcol :=\n'
                 '  gen_reflector_columns m ++ (if m_tracker m then gen_mod_columns m else []).\n']
        text, err = HEADER + '\n'.join(parts), None
    except Unsupported as e:
        err = str(e)
        text = ('(* SchemaGen.v - the translator REFUSED the current source: %s *)\n'
                'Definition translator_refused : unit := the_source_left_the_supported_subset.\n') % err.replace('*)', '* )')
    os.makedirs(os.path.dirname(dst), exist_ok=True)
    old = open(dst).read() if os.path.exists(dst) else None
    if old != text:
        with open(dst, 'w') as f:
            f.write(text)
    return err
