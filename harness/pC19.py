"""C19 — vacuum never discards a version that recorded a real change."""
import json

import env as E
import tables as T
from framework import gbool, glist, gpair, gZ

PROP = 'C19'
CHECK_MODS = ['Model.VTable', 'Model.Vacuum', 'Checks.C19chk']
CASE_TYPE = 'C19_case'
CORR, PROPCHK = 'C19_corr', 'C19_prop'
THEOREMS = ['C19_only_redundant_rows_deleted', 'C19_first_kept', 'C19_changed_kept', 'C19_as_of_preserved', 'C19_vacuum_is_survivors', 'C19_second_vacuum_deletes_nothing', 'C19_code_pass_is_model', 'C19_code_pass_sorted', 'C19_code_pass_example', 'C19_example', 'C19_as_of_example']
RULE = ('random version tables (both strategies, flat/composite keys, default/custom column names) with sticky values so '
        'that equal neighbours and A,B,A / A,B,A,A patterns are frequent, first versions that are UPDATEs; vacuum(session, '
        'Article) is called (and, on a joined-table hierarchy TextItem <- Article whose rows are loaded into both version tables, '
        'vacuum(session, TextItem) with the BASE class, versions of subclass entities often differing only in the child '
        'table\'s column), session.deleted recorded, the session committed and the table read back; vacuum is then run a second time and must leave the table as it is. Non-trivial: some '
        'entity with >= 3 versions containing a value sequence that returns to an earlier value, or composite keys whose '
        'first column coincides. Distinct: hash of the canonical input.')
ASSUMPTIONS = ['naturally_equivalent (SQLAlchemy-Utils) compares every mapped non-primary-key column of the version class']


JOINED = [dict(strategy=st, keyshape='int', names='default', shape='joined') for st in ('subquery', 'validity')]


def build_joined(env, Base, opts):
    """Joined-table inheritance: TextItem(id, a) <- Article(b). Keys 1, 3 are Articles, keys 2, 4 plain TextItems."""
    import sqlalchemy as sa

    class TextItem(Base):
        __tablename__ = 'text_item'
        __versioned__ = opts
        id = sa.Column(sa.Integer, primary_key=True, autoincrement=False)
        a = sa.Column(sa.Integer)
        type = sa.Column(sa.Unicode(20))
        __mapper_args__ = {'polymorphic_on': type, 'polymorphic_identity': 'base'}

    class Article(TextItem):
        __tablename__ = 'article'
        __mapper_args__ = {'polymorphic_identity': 'article'}
        id = sa.Column(sa.Integer, sa.ForeignKey(TextItem.id), primary_key=True)
        b = sa.Column(sa.Integer)
    env.Article, env.Child = TextItem, Article        # vacuum is called with the BASE class


def _is_child(key):
    return key[0] % 2 == 1


def load_joined(env, cfg, rows):
    conn = env.connection
    bt, ct = env.version_class(env.Article).__table__, env.version_class(env.Child).__table__
    for t in (ct, bt, env.Child.__table__, env.Article.__table__):
        conn.execute(t.delete())
    base, child = [], []
    for r in rows:
        d = dict(id=r['key'][0], transaction_id=r['tx'], operation_type=r['op'])
        if cfg['strategy'] == 'validity':
            d['end_transaction_id'] = r['end']
        base.append(dict(d, a=r['dat'][0], type='article' if _is_child(r['key']) else 'base'))
        if _is_child(r['key']):
            child.append(dict(d, b=r['dat'][1]))
    if base:
        conn.execute(bt.insert(), base)
    if child:
        conn.execute(ct.insert(), child)
    conn.commit()


def read_joined(env, cfg):
    import sqlalchemy as sa
    conn = env.connection
    bt, ct = env.version_class(env.Article).__table__, env.version_class(env.Child).__table__
    b = {(r['id'], r['transaction_id']): r for r in conn.execute(sa.select(bt)).mappings()}
    c = {(r['id'], r['transaction_id']): r for r in conn.execute(sa.select(ct)).mappings()}
    out = []
    for k in sorted(set(b) | set(c)):
        rb, rc = b.get(k), c.get(k)
        src = rb if rb is not None else rc
        # a row present in only one of the two tables shows as the value -99 in the column of the missing part
        out.append(dict(key=[k[0]], tx=k[1], end=src['end_transaction_id'] if cfg['strategy'] == 'validity' else None,
                        op=src['operation_type'],
                        dat=[rb['a'] if rb is not None else -99,
                             (rc['b'] if rc is not None else -99) if _is_child([k[0]]) else (None if rc is None else -99)]))
    return out


def budget(tier):
    return 320 if tier == 'quick' else 4000


def gen_cases(rng, n, tier):
    out = []
    for i in range(n):
        cfg = T.CFGS[i % len(T.CFGS)]
        if i % 9 == 4:
            # the tracker plugin is active and a user column is mapped under an attribute named like a flag (`last_mod`)
            cfg = dict(cfg, names='default', tracker=True, modattr=True)
        rows = T.gen_table(rng, cfg, maxlen=6)
        # make op/end uniform often so that equal data really compares equal
        if rng.random() < 0.7:
            for r in rows:
                r['op'] = 1
        if cfg['strategy'] == 'validity' and rng.random() < 0.6:
            for r in rows:
                r['end'] = None
        if rng.random() < 0.6:
            vals = [rng.choice([None, 1]), rng.choice([1, 2])]
            if rng.random() < 0.3:
                vals = [-1, -2]        # different values that CPython hashes alike
            for r in rows:
                r['dat'] = [rng.choice(vals), 0]
        out.append(dict(cfg=cfg, rows=rows, yield_per=rng.choice([None, None, 1, 2, 3]), pending=rng.choice([0, 0, 1, 2, 3])))
    # joined-table inheritance, vacuum called with the base class: versions of a subclass entity often differ only in
    # the column of the child table
    for i in range(max(8, n // 6)):
        cfg = JOINED[i % 2]
        rows = T.gen_table(rng, cfg, maxlen=6)
        if rng.random() < 0.8:
            for r in rows:
                r['op'] = 1
        if cfg['strategy'] == 'validity' and rng.random() < 0.7:
            for r in rows:
                r['end'] = None
        av, bv = [rng.choice([None, 1]), rng.choice([1, 1, 2])], [rng.choice([None, 1]), rng.choice([1, 2]), 3]
        for r in rows:
            r['dat'] = [rng.choice(av), rng.choice(bv) if _is_child(r['key']) else None]
        out.append(dict(cfg=cfg, rows=rows, yield_per=rng.choice([None, 1, 2])))
    return out


def corpus():
    c = dict(strategy='subquery', keyshape='int', names='default')
    aba = [dict(key=[1], tx=t, end=None, op=1, dat=[v, 0]) for t, v in ((1, 5), (2, 6), (3, 5), (4, 5))]
    cc = dict(strategy='subquery', keyshape='composite', names='default')
    comp = [dict(key=[1, 1], tx=1, end=None, op=1, dat=[5, 0]), dict(key=[1, 2], tx=2, end=None, op=1, dat=[5, 0]),
            dict(key=[1, 1], tx=3, end=None, op=1, dat=[6, 0]), dict(key=[1, 2], tx=4, end=None, op=1, dat=[6, 0])]
    # joined hierarchy: an Article (key 1) whose versions differ only in the child table's column, and back
    jn = [dict(key=[1], tx=t, end=None, op=1, dat=[5, v]) for t, v in ((1, 1), (2, 2), (3, 1), (4, 1))] + \
         [dict(key=[2], tx=t, end=None, op=1, dat=[v, None]) for t, v in ((1, 1), (3, 1), (5, 2))]
    return [dict(cfg=c, rows=aba), dict(cfg=cc, rows=comp), dict(cfg=JOINED[0], rows=jn), dict(cfg=c, rows=aba, yield_per=2),
            dict(cfg=c, rows=aba, yield_per=1), dict(cfg=c, rows=aba, pending=1), dict(cfg=c, rows=aba, pending=2),
            dict(cfg=c, rows=aba, pending=3)]


def _observe(env, cfg, rows, case=None):
    case = case or {}
    from sqlalchemy_continuum import vacuum
    joined = cfg.get('shape') == 'joined'
    # some of the version rows are not in the table yet: the application adds them through the session and calls
    # vacuum before flushing (back-filled rows) - an autoflush session makes them visible to vacuum's scan
    npend = 0 if joined else (case.get('pending') or 0)
    stored, late = (rows, []) if not npend else ([r for i, r in enumerate(rows) if i % 3 != npend % 3],
                                                  [r for i, r in enumerate(rows) if i % 3 == npend % 3])
    load_joined(env, cfg, rows) if joined else T.load_rows(env, cfg, stored)
    txc, endc = T.colnames(cfg)
    kc = T.keycols(cfg)
    # an ordinary autoflush session; the window size of the scan is part of the input
    s = env.session(autoflush=True)
    try:
        if late:
            V = env.version_class(env.Article)
            have = {tuple(r['key']) for r in stored}
            for r in late:
                if tuple(r['key']) not in have:
                    # its live parent row was not created by the loader
                    env.connection.execute(env.Article.__table__.insert(), [dict(zip(kc, r['key']))])
                    have.add(tuple(r['key']))
                d = dict(zip(kc, r['key']))
                d[txc] = r['tx']
                if cfg['strategy'] == 'validity':
                    d[endc] = r['end']
                d['operation_type'] = r['op']
                d['a'], d[T.bcol(cfg)] = r['dat']
                s.add(V(**d))
        yp = case.get('yield_per')
        vacuum(s, env.Article, **({'yield_per': yp} if yp else {}))
        V = env.version_class(env.Article)
        pending = sorted([[getattr(o, c) for c in kc], getattr(o, txc)] for o in s.deleted if isinstance(o, V))
        s.commit()
        after = read_joined(env, cfg) if joined else T.read_rows(env, cfg)
        # what vacuum deleted: with an autoflush session some deletions are flushed before vacuum returns and are no
        # longer in session.deleted; the rows that are gone after the commit are the deleted ones (those still pending
        # when vacuum returned are a subset)
        left = {(tuple(r['key']), r['tx']) for r in after}
        deleted = sorted([r['key'], r['tx']] for r in rows if (tuple(r['key']), r['tx']) not in left)
        if any(p_ not in deleted for p_ in pending):
            return dict(deleted=deleted, after=after, exc='session.deleted names a row that is still there: %s' % pending)
        # a second run over what the first one left (the model proves it deletes nothing)
        vacuum(s, env.Article, **({'yield_per': yp} if yp else {}))
        s.commit()
        after2 = read_joined(env, cfg) if joined else T.read_rows(env, cfg)
        again = sorted((tuple(r['key']), r['tx']) for r in after2) != sorted((tuple(r['key']), r['tx']) for r in after)
        return dict(deleted=deleted, after=after, exc=None, again=again)
    except Exception as e:
        s.rollback()
        return dict(deleted=[], after=[], exc='%s: %s' % (type(e).__name__, str(e)[:200]))
    finally:
        s.close()


def _worker(chunk):
    cfg, items = chunk
    out = []
    plugins = []
    if cfg.get('tracker'):
        from sqlalchemy_continuum.plugins import PropertyModTrackerPlugin
        plugins = [PropertyModTrackerPlugin()]
    with E.Env(options=T.cfg_options(cfg), plugins=plugins,
               build=build_joined if cfg.get('shape') == 'joined' else T.build_article(cfg)) as env:
        for idx, rows, yp in items:
            out.append((idx, _observe(env, cfg, rows, dict(yield_per=yp[0], pending=yp[1]))))
    return out


def run_impl(cases):
    groups = {}
    for i, c in enumerate(cases):
        groups.setdefault(json.dumps(c['cfg'], sort_keys=True), []).append((i, c['rows'], [c.get('yield_per'), c.get('pending')]))
    chunks = []
    for k, items in groups.items():
        step = max(1, (len(items) + 1) // 2)
        for s in range(0, len(items), step):
            chunks.append((json.loads(k), items[s:s + step]))
    res = [None] * len(cases)
    for part in E.pmap(_worker, chunks):
        for idx, o in part:
            res[idx] = o
    return res


def encode(case, obs):
    return '{| c19_tbl := %s; c19_deleted := %s; c19_after := %s; c19_again := %s; c19_exc := %s |}' % (
        T.gtable(case['rows']), glist(obs['deleted'], lambda d: gpair(glist(d[0]), gZ(d[1]))),
        T.gtable(obs['after']), gbool(bool(obs.get('again'))), gbool(obs['exc'] is not None))


def nontrivial(case, obs):
    by = {}
    for r in sorted(case['rows'], key=lambda r: r['tx']):
        by.setdefault(tuple(r['key']), []).append(tuple(r['dat']))
    for seq in by.values():
        for i in range(len(seq) - 2):
            if seq[i] != seq[i + 1] and seq[i] in seq[i + 2:]:
                return True
    ks = list(by)
    return any(a[0] == b[0] and a != b for i, a in enumerate(ks) for b in ks[i + 1:] if len(a) > 1)


def features(case, obs):
    return ['strategy=' + case['cfg']['strategy'], 'key=' + case['cfg']['keyshape'], 'shape=' + case['cfg'].get('shape', 'flat'),
            'deleted=%d' % min(len(obs['deleted']), 6)]


def shrink(case):
    out = []
    for rows in T.shrink_rows(case['rows']):
        out.append(dict(cfg=case['cfg'], rows=rows, yield_per=case.get('yield_per'), pending=case.get('pending')))
    return out


def describe(case, obs):
    return dict(cfg=case['cfg'], yield_per=case.get('yield_per'), rows_added_through_the_session_and_unflushed=case.get('pending'),
                version_table_rows=case['rows'], observed=obs)
