"""C06 — rolled-back work leaves no versioning trace, on disk or in memory."""
import json

import corebase as B
import env as E
import hist
from framework import gbool, glist

PROP = 'C06'
CHECK_MODS = ['Model.Core', 'Model.Savepoint', 'Checks.Corechk', 'Checks.CoreProps', 'Checks.C06chk']
CASE_TYPE = 'C06_case'
CORR, PROPCHK = 'C06_corr', 'C06_prop'
THEOREMS = ['C06_rollback_restores', 'C06_as_if_never_attempted', 'C06_savepoint_restores',
            'C06_savepoint_as_if_never_attempted', 'C06_no_state_left_in_memory', 'C06_clear_connection_is_the_code',
            'C06_clear_is_the_code', 'C06_clear_inside_savepoint_does_nothing',
            'C06_savepoint_state_is_complete_in_the_code', 'C06_rollback_savepoint_is_the_code', 'C06_every_session_is_the_savepoint_machine', 'C06_model_unit_of_work_is_in_the_snapshot', 'C06_example']
RULE = ('(F) fault injection through the public before_cursor_execute event: for generated histories one transaction is '
        'chosen and a failure is raised at a statement boundary of it (quick: first, last and up to 4 random boundaries; '
        'thorough: every boundary); the application rolls back and continues; compared: every table right after the '
        'rollback = before the transaction, manager maps empty, error reported, and the final tables = those of the run '
        'from which the failed transaction is deleted. (S) histories with savepoints (begin_nested / rollback / commit of '
        'the savepoint, rollback of the underlying connection from outside followed by session.close(), session.close() '
        'with an open savepoint) around non-versioned and versioned inner work. Non-trivial: the failed transaction had >= 2 '
        'flushes or the failure hit after >= 1 versioning statement; savepoint with an inner flush.')
ASSUMPTIONS = B.COMMON_ASSUMPTIONS + [
    'PARTIAL: process death (torn files) is the database journal\'s business; the model\'s database is atomic by assumption',
    'the injected failure is an exception raised from before_cursor_execute, i.e. the statement is never sent']


def budget(tier):
    return 60 if tier == 'quick' else 400


def split_txs(prog):
    """indices (first, last) of each commit-delimited transaction"""
    out, start = [], 0
    for i, op in enumerate(prog):
        if op[0] in ('commit', 'rollback'):
            out.append((start, i))
            start = i + 1
    return out


def gen_cases(rng, n, tier):
    out = []
    cfgs = [dict(c, twin=False) for c in B.all_cfgs('blog') if not c['null_delete']]
    for i in range(n):
        cfg = cfgs[(i * 7) % len(cfgs)]
        if i % 4 == 3:
            out.append(dict(kind='S', cfg=cfg, prog=gen_sp_program(rng)))
            continue
        prog = [op for op in hist.gen_program(rng, cfg, n_ops=rng.randint(10, 18)) if op[0] not in ('rollback', 'manualtx')]
        txs = [t for t in split_txs(prog) if t[1] > t[0]]
        if not txs:
            continue
        first, last = rng.choice(txs)
        out.append(dict(kind='F', cfg=cfg, prog=prog, first=first, last=last, n=None, pick=rng.random(), tier=tier))
    return out


def gen_sp_program2(rng):
    """several entities and classes: a versioned flush of another class before the savepoint (so the transaction
    record exists outside it), inner work on one entity, later work on the same or on another entity"""
    prog = [['add', 0, 1, {'a': 1}], ['add', 0, 2, {'a': 1}], ['add', 1, 1, {'a': 0}], ['add', 2, 1, {'a': 0}],
            ['add', 2, 2, {'a': 0}], ['add', 3, 1, {'a': 0}], ['commit']]
    orm_links, raw_links = set(), set()       # label 1 through the ORM, label 2 through Core statements
    for rnd in range(rng.randint(1, 3)):
        pre = rng.random()
        if pre < 0.45:
            prog.append(['set', 1, 1, {'a': rng.choice([0, 1, 2])}])
            prog.append(['flush'])
        elif pre < 0.60:
            # the unit of work owns a transaction record but holds no operation: a relationship-only flush ...
            a = rng.choice([1, 2])
            if a in orm_links:
                prog.append(['unlink', a, 1])
                orm_links.discard(a)
            else:
                prog.append(['link', a, 1])
                orm_links.add(a)
            prog.append(['flush'])
        elif pre < 0.70:
            prog.append(['manualtx'])           # ... or a record created by the application itself
        prog.append(['sp_begin'])
        kin = rng.choice([1, 2])
        a = rng.choice([1, 2])
        raw_before = set(raw_links)
        if a in raw_links:
            raw = ['rawunlink', a, 2]
        else:
            raw = ['rawlink', a, 2]
        choices = [['set', 0, kin, {'b': rng.choice([0, 1, 2])}], ['set', 3, 1, {'a': rng.choice([0, 1, 2])}],
                   ['add', 0, 3 + rnd, {'a': 1}]]
        if pre < 0.70:
            # a Core statement on the association table: intercepted (the transaction has a unit of work already; a
            # Core statement issued before the first flush of a transaction has nothing to attach to), not followed
            # by a flush inside the savepoint
            choices += [raw, raw]
        inner = rng.choice(choices)
        if rng.random() < 0.2:
            # a flush that FAILS inside the savepoint after a versioned INSERT went through; the application rolls the
            # savepoint back and continues
            prog.append(['sp_fail', 7 + rnd, 1])
            prog.append(['set', 0, rng.choice([1, 2]), {'a': 30 + rnd}])
            if rng.random() < 0.5:
                prog.append(['flush'])
            prog.append(['commit'])
            continue
        if inner is raw:
            (raw_links.discard if raw[0] == 'rawunlink' else raw_links.add)(a)
        prog.append(inner)
        if rng.random() < 0.8:
            prog.append(['flush'])
        end = rng.choice(['sp_rollback', 'sp_rollback', 'sp_release'])
        prog.append([end])
        if end == 'sp_rollback':
            raw_links = raw_before
        if inner is raw:
            # a Core statement on the association table becomes a version row at the next flush that has something
            # to flush: make sure one follows (a trailing statement without any flush is never versioned - Core
            # statements are outside C10's relationship operations)
            prog.append(['set', 0, rng.choice([1, 2]), {'a': 20 + 3 * rnd + len(prog) % 3}])
            prog.append(['flush'])
        elif rng.random() < 0.8:
            prog.append(['set', 0, rng.choice([1, 2]), {'a': rng.choice([0, 1, 2])}])
            if rng.random() < 0.5:
                prog.append(['flush'])
        prog.append(['commit'])
    return prog


def gen_sp_program3(rng):
    """retry patterns: an entity that already has a version object in this transaction (or only an older version) is
    changed and flushed inside a savepoint, the savepoint is rolled back, and the entity is changed again - to the SAME
    value (a retry) or to another one - before the commit"""
    prog = [['add', 0, 1, {'a': 1}], ['add', 0, 2, {'a': 1}], ['add', 1, 1, {'a': 0}], ['add', 3, 1, {'a': 0}], ['commit']]
    val = 10
    for rnd in range(rng.randint(1, 3)):
        e = rng.choice([1, 2])
        val += 3
        if rng.random() < 0.5:
            prog += [['set', 0, e, {'a': val}], ['flush']]              # E is versioned in this transaction already
        else:
            prog += [['set', 1, 1, {'a': val}], ['flush']]              # the transaction has a record, E only older versions
        prog += [['sp_begin'], ['set', 0, e, {'a': val + 1}], ['flush']]
        if rng.random() < 0.3:
            prog += [['set', 0, e, {'b': val}], ['flush']]
        if rng.random() < 0.25:
            # a second savepoint level: a flush fails in the inner one (the classic insert-or-skip loop), the outer
            # one stays open, more versioned work follows and the outer one is released or rolled back
            prog += [['sp_begin'], ['sp_fail', 7 + rnd, 1] + (['explicit'] if rng.random() < 0.5 else []), ['set', 0, e, {'a': val + 2}], ['flush'],
                     [rng.choice(['sp_release', 'sp_release', 'sp_rollback'])], ['set', 0, 3 - e, {'a': val + 2}], ['commit']]
            continue
        if rng.random() < 0.25:
            # the savepoint is RELEASED, then the whole transaction is rolled back and the session goes on
            prog += [['sp_release'], ['rollback'], ['set', 0, e, {'a': val + 2}], ['commit']]
            continue
        prog.append(['sp_rollback'])
        prog.append(['set', 0, e, {'a': val + 1 if rng.random() < 0.6 else val + 2}])
        if rng.random() < 0.5:
            prog.append(['flush'])
        prog.append(['commit'])
    return prog


def with_bystander(rng, prog):
    """another session of the process (its own database, no writes) opens a savepoint before one of the program's
    savepoints begins and rolls it back / releases it before that one ends: the manager's savepoint registry is shared"""
    out, opened = [], False
    for op in prog:
        if op[0] == 'sp_begin' and not opened and rng.random() < 0.7:
            out.append(['by', 'begin'])
            opened = True
            out.append(op)
            if rng.random() < 0.3:
                out += [['by', 'begin']]
            continue
        if op[0] in ('sp_rollback', 'sp_release', 'sp_fail') and opened:
            out.append(['by', rng.choice(['rollback', 'rollback', 'release'])])
            opened = False
        out.append(op)
    return out


def gen_sp_program(rng):
    if rng.random() < 0.35:
        return with_bystander(rng, gen_sp_program0(rng))
    return gen_sp_program0(rng)


def gen_sp_program0(rng):
    if rng.random() < 0.3:
        return gen_sp_program3(rng)
    if rng.random() < 0.5:
        return gen_sp_program2(rng)
    prog = [['add', 0, 1, {'a': 1}], ['add', 3, 1, {'a': 0}], ['commit']]
    for rnd in range(rng.randint(1, 3)):
        if rng.random() < 0.5:
            prog.append(['set', 0, 1, {'a': rng.choice([0, 1, 2])}])
        prog.append(['sp_begin'])
        inner_versioned = rng.random() < 0.4
        if inner_versioned:
            prog.append(rng.choice([['set', 0, 1, {'b': rng.choice([0, 1, 2])}], ['add', 0, 2 + rnd, {'a': 1}]]))
        else:
            prog.append(['set', 3, 1, {'a': rng.choice([0, 1, 2])}])
        if rng.random() < 0.7:
            prog.append(['flush'])
        end = rng.choice(['sp_rollback', 'sp_rollback', 'sp_release', 'conn_rollback', 'close'])
        if end == 'conn_rollback':
            # the connection's transaction is rolled back from outside while the savepoint is open, then the
            # session is closed; the next transaction must start from a clean slate
            prog.append(['conn_rollback'])
            prog.append(['close'])
            prog.append(['set', 0, 1, {'a': rng.choice([0, 1, 2])}])
            prog.append(['commit'])
            continue
        if end == 'close':
            prog.append(['close'])
            prog.append(['set', 0, 1, {'b': rng.choice([0, 1, 2])}])
            prog.append(['commit'])
            continue
        prog.append([end])
        if rng.random() < 0.6:
            prog.append(['set', 0, 1, {'a': rng.choice([0, 1, 2])}])
            prog.append(['flush'])
        prog.append(['commit'])
    return prog


def corpus():
    cfg = dict(shape='blog', strategy='validity', twin=False)
    return [dict(kind='S', cfg=cfg, prog=[['add', 0, 1, {'a': 1}], ['commit'], ['sp_begin'], ['set', 0, 1, {'a': 2}], ['flush'],
                                          ['conn_rollback'], ['close'], ['set', 0, 1, {'a': 3}], ['commit']]),
            dict(kind='S', cfg=cfg, prog=[['add', 0, 1, {'a': 1}], ['commit'], ['set', 0, 1, {'a': 2}], ['flush'],
                                          ['conn_rollback'], ['close'], ['set', 0, 1, {'a': 3}], ['commit']]),
            dict(kind='S', cfg=cfg, prog=[['add', 0, 1, {'a': 1}], ['commit'], ['sp_begin'], ['set', 0, 1, {'a': 2}], ['flush'],
                                          ['sp_rollback'], ['set', 0, 1, {'a': 3}], ['commit']]),
            dict(kind='S', cfg=cfg, prog=[['add', 0, 1, {'a': 1}], ['add', 3, 1, {'a': 0}], ['commit'], ['sp_begin'],
                                          ['set', 3, 1, {'a': 2}], ['flush'], ['sp_rollback'], ['set', 0, 1, {'a': 3}], ['commit']]),
            # the transaction record comes into being inside the outer savepoint; an inner savepoint with versioned work is
            # RELEASED, then the outer one is rolled back; more versioned work follows
            dict(kind='S', cfg=cfg, prog=[['add', 3, 1, {'a': 0}], ['commit'], ['sp_begin'], ['add', 0, 1, {'a': 1}], ['flush'], ['sp_begin'],
                                          ['add', 0, 2, {'a': 2}], ['flush'], ['sp_release'], ['sp_rollback'], ['add', 0, 3, {'a': 3}],
                                          ['flush'], ['commit'], ['set', 0, 3, {'a': 4}], ['commit']]),
            dict(kind='S', cfg=dict(cfg, strategy='subquery'),
                 prog=[['add', 0, 1, {'a': 1}], ['commit'], ['set', 3, 1, {'a': 1}], ['sp_begin'], ['set', 0, 1, {'a': 2}], ['flush'],
                       ['sp_begin'], ['set', 0, 1, {'a': 3}], ['flush'], ['sp_release'], ['sp_rollback'], ['set', 0, 1, {'a': 4}], ['commit']]),
            # the transaction record is created inside the savepoint WITHOUT any recorded operation (manually, the documented
            # way to set tx.meta early); the savepoint is rolled back; versioned work follows
            dict(kind='S', cfg=cfg, prog=[['add', 0, 1, {'a': 1}], ['commit'], ['sp_begin'], ['manualtx'], ['sp_rollback'],
                                          ['add', 0, 2, {'a': 2}], ['commit'], ['set', 0, 2, {'a': 3}], ['commit']]),
            dict(kind='S', cfg=dict(cfg, strategy='subquery', changes=True),
                 prog=[['add', 0, 1, {'a': 1}], ['commit'], ['add', 3, 1, {'a': 0}], ['flush'], ['sp_begin'], ['manualtx'], ['sp_rollback'],
                       ['set', 0, 1, {'a': 2}], ['commit']]),
            # another session of the process opened a savepoint first and rolls it back before this session's one ends
            dict(kind='S', cfg=cfg, prog=[['add', 0, 1, {'a': 1}], ['commit'], ['by', 'begin'], ['sp_begin'], ['add', 0, 2, {'a': 2}],
                                          ['flush'], ['by', 'rollback'], ['sp_rollback'], ['add', 0, 3, {'a': 3}], ['commit']]),
            dict(kind='S', cfg=dict(cfg, strategy='subquery'),
                 prog=[['add', 0, 1, {'a': 1}], ['commit'], ['set', 0, 1, {'a': 2}], ['flush'], ['by', 'begin'], ['sp_begin'],
                       ['set', 0, 1, {'a': 3}], ['flush'], ['by', 'rollback'], ['sp_rollback'], ['set', 0, 1, {'a': 4}], ['commit']]),
            # retry after a savepoint rollback: the same value again, for an entity versioned earlier in the transaction ...
            dict(kind='S', cfg=cfg, prog=[['add', 0, 1, {'a': 1}], ['commit'], ['set', 0, 1, {'a': 2}], ['flush'], ['sp_begin'],
                                          ['set', 0, 1, {'a': 3}], ['flush'], ['sp_rollback'], ['set', 0, 1, {'a': 3}], ['commit']]),
            dict(kind='S', cfg=dict(cfg, strategy='subquery'),
                 prog=[['add', 0, 1, {'a': 1}], ['commit'], ['set', 0, 1, {'a': 2}], ['flush'], ['sp_begin'],
                       ['set', 0, 1, {'a': 3}], ['flush'], ['sp_rollback'], ['set', 0, 1, {'a': 3}], ['commit']]),
            # ... and for an entity that has only an older version: its predecessor has to be closed again
            dict(kind='S', cfg=cfg, prog=[['add', 0, 1, {'a': 1}], ['add', 1, 1, {'a': 0}], ['commit'], ['set', 1, 1, {'a': 2}], ['flush'],
                                          ['sp_begin'], ['set', 0, 1, {'a': 3}], ['flush'], ['sp_rollback'], ['set', 0, 1, {'a': 4}],
                                          ['commit']]),
            # the unit of work owns a record but no operation when the savepoint begins (relationship-only flush / a
            # hand-made record); the savepoint is rolled back; the transaction goes on: still ONE record
            dict(kind='S', cfg=cfg, prog=[['add', 0, 1, {'a': 1}], ['add', 2, 1, {'a': 0}], ['commit'], ['link', 1, 1], ['flush'],
                                          ['sp_begin'], ['set', 0, 1, {'a': 2}], ['flush'], ['sp_rollback'], ['set', 0, 1, {'a': 3}],
                                          ['flush'], ['commit']]),
            dict(kind='S', cfg=cfg, prog=[['add', 0, 1, {'a': 1}], ['commit'], ['manualtx'], ['sp_begin'], ['set', 0, 1, {'a': 2}],
                                          ['flush'], ['sp_rollback'], ['set', 0, 1, {'a': 3}], ['commit']]),
            # a Core statement on the association table inside a savepoint that is rolled back: no association version
            dict(kind='S', cfg=cfg, prog=[['add', 0, 1, {'a': 1}], ['add', 2, 2, {'a': 0}], ['commit'], ['set', 0, 1, {'a': 2}], ['flush'],
                                          ['sp_begin'], ['rawlink', 1, 2], ['sp_rollback'], ['set', 0, 1, {'a': 3}], ['flush'],
                                          ['commit']]),
            # two savepoint levels, a flush failing in the inner one
            dict(kind='S', cfg=cfg, prog=[['add', 0, 1, {'a': 1}], ['add', 0, 2, {'a': 1}], ['add', 3, 1, {'a': 0}], ['commit'],
                                          ['sp_begin'], ['set', 0, 1, {'a': 2}], ['flush'], ['sp_begin'], ['sp_fail', 7, 1],
                                          ['set', 0, 2, {'a': 3}], ['flush'], ['sp_release'], ['commit']]),
            dict(kind='S', cfg=cfg, prog=[['add', 0, 1, {'a': 1}], ['add', 0, 2, {'a': 1}], ['add', 3, 1, {'a': 0}], ['commit'],
                                          ['sp_begin'], ['set', 0, 1, {'a': 2}], ['flush'], ['sp_begin'], ['sp_fail', 7, 1, 'explicit'],
                                          ['set', 0, 2, {'a': 3}], ['flush'], ['sp_release'], ['commit']]),
            # a released savepoint, then the outer transaction rolled back, then the session goes on
            dict(kind='S', cfg=cfg, prog=[['add', 0, 1, {'a': 1}], ['add', 0, 2, {'a': 1}], ['commit'], ['set', 0, 1, {'a': 2}], ['flush'],
                                          ['sp_begin'], ['set', 0, 2, {'a': 2}], ['flush'], ['sp_release'], ['rollback'],
                                          ['set', 0, 1, {'a': 3}], ['commit'], ['set', 0, 2, {'a': 3}], ['commit']]),
            # a flush failing inside a savepoint after a versioned INSERT went through (F-C06-failed-flush-in-savepoint)
            dict(kind='S', cfg=cfg, prog=[['add', 0, 1, {'a': 1}], ['add', 3, 1, {'a': 0}], ['commit'], ['set', 0, 1, {'a': 2}],
                                          ['flush'], ['sp_begin'], ['sp_fail', 7, 1], ['set', 0, 1, {'a': 3}], ['commit']]),
            dict(kind='S', cfg=cfg, prog=[['add', 0, 1, {'a': 1}], ['add', 3, 1, {'a': 0}], ['commit'], ['sp_begin'],
                                          ['sp_fail', 7, 1], ['set', 0, 1, {'a': 3}], ['commit']])]


def _reset(env):
    conn = env.connection
    env.Base.metadata.drop_all(conn)
    env.Base.metadata.create_all(conn)
    conn.commit()


def _worker(chunk):
    cfg, items = chunk
    out = []
    with E.Env(options=hist.options_for(cfg), plugins=hist.plugins_for(cfg), build=hist.SHAPES[cfg['shape']](cfg),
               autoflush=cfg.get('autoflush', False)) as env:
        for idx, case in items:
            try:
                if case['kind'] == 'S':
                    _reset(env)
                    r = hist.run_program(env, cfg, case['prog'])
                    out.append((idx, dict(kind='S', run=r)))
                    continue
                prog, first, last = case['prog'], case['first'], case['last']
                # dry run: number of statement boundaries inside the chosen transaction
                _reset(env)
                dry = hist.run_program(env, cfg, prog, fault=dict(first=first, last=last, n=None))
                nst = dry['fault']['statements']
                if nst == 0:
                    out.append((idx, dict(kind='F', skipped=True)))
                    continue
                if case.get('tier') == 'thorough':
                    ns = list(range(nst))
                else:
                    ns = sorted(set([0, nst - 1] + [int(case['pick'] * 997 * (j + 1)) % nst for j in range(4)]))
                # reference: the program without the failed transaction
                _reset(env)
                ref = hist.run_program(env, cfg, prog[:first] + prog[last + 1:])
                runs = []
                for n in ns:
                    _reset(env)
                    r = hist.run_program(env, cfg, prog, fault=dict(first=first, last=last, n=n))
                    runs.append(dict(n=n, run=r))
                out.append((idx, dict(kind='F', skipped=False, statements=nst, ref=ref, runs=runs)))
            except Exception as e:
                import traceback
                out.append((idx, dict(kind=case['kind'], harness_exc='%s: %s %s' % (type(e).__name__, e, traceback.format_exc()[-600:]))))
    return out


def run_impl(cases):
    groups = {}
    for i, c in enumerate(cases):
        groups.setdefault(hist.cfg_key(c['cfg']), []).append((i, c))
    chunks = [(json.loads(k), items) for k, items in groups.items()]
    res = [None] * len(cases)
    for part in E.pmap(_worker, chunks):
        for idx, o in part:
            res[idx] = o
    return res


EMPTY = '(mkcase (mkcfg true false false false false []) [] [] true 0 false None)'


def encode(case, obs):
    """one Gallina term per case: for F cases with several boundaries the first failing boundary would be
    enough, but all are checked: they are folded into a conjunction by encoding each boundary as its own case
    in `expand` below; here obs is already a single-boundary observation."""
    if obs.get('harness_exc'):
        return '(C06_F %s snap0 snap0 snap0 snap0 false false)' % EMPTY
    if case['kind'] == 'S':
        r = obs['run']
        if r['exc']:
            return '(C06_S (mkcfg true false false false false []) [] [] true false)'
        later_error = any(o.startswith('error') for o in r['outcomes'])
        return '(C06_S %s %s %s false %s)' % (
            hist.g_cfg(case['cfg'], r['ccfg']), glist(r['trace'], hist.g_mevent),
            glist(r['snaps'], lambda s: hist.g_snap(s, r['ccfg'])), gbool(later_error))
    if obs.get('skipped'):
        return '(C06_F %s snap0 snap0 snap0 snap0 true true)' % hist.encode_case(case, dict(
            exc=None, ccfg=[], trace=[], snaps=[], outcomes=[]))
    # several boundaries: conjunction = report the first bad one; encode the worst (first failing by a cheap python pre-check
    # is NOT done: every boundary is encoded as a separate case by expand_cases)
    r = obs['run']
    ref = obs['ref']
    f = r['fault']
    ccfg = r['ccfg']

    def gs(sn):
        return hist.g_snap(sn, ccfg) if sn else 'snap0'
    main = hist.encode_case(case, r)
    return '(C06_F %s %s %s %s %s %s %s)' % (
        main, gs(f['before']), gs(f['after_rb']), gs(r['snaps'][-1] if r['snaps'] else None),
        gs(ref['snaps'][-1] if ref['snaps'] else None), gbool(f['reported']), gbool(f.get('fired', False)))


# the framework calls run_impl(cases) -> obs and encode(case, obs) pairwise; F cases carry several boundaries,
# so run_impl's result is expanded into one (case, obs) pair per boundary by wrapping both functions.
_orig_run_impl = run_impl


def run_impl(cases):          # noqa: F811
    obs = _orig_run_impl(cases)
    out = []
    for c, o in zip(cases, obs):
        if c['kind'] == 'F' and not o.get('skipped') and not o.get('harness_exc'):
            # keep the boundary that looks worst first (the framework needs exactly one obs per case):
            # evaluate all boundaries cheaply here and pass the first suspicious one, else the last one.
            pick = None
            for br in o['runs']:
                f = br['run']['fault']
                ok = f['reported'] and f.get('fired') and f['before'] is not None and f['after_rb'] is not None and \
                    _tables(f['before']) == _tables(f['after_rb']) and f['after_rb']['uows'] + f['after_rb']['smap'] == 0 and \
                    _tables(_last(br['run'])) == _tables(_last(o['ref']))
                if not ok:
                    pick = br
                    break
            if pick is None:
                pick = o['runs'][-1]
            out.append(dict(kind='F', skipped=False, statements=o['statements'], boundaries=[b['n'] for b in o['runs']],
                            n=pick['n'], run=pick['run'], ref=o['ref']))
        else:
            out.append(o)
    return out


EMPTY_SNAP = dict(live=[], vt=[], av=[], alive=[], tx=[], chg=[], uows=0, smap=0, acts=[])


def _last(run):
    return run['snaps'][-1] if run['snaps'] else EMPTY_SNAP


def _tables(sn):
    return json.dumps({k: sn[k] for k in ('live', 'vt', 'av', 'alive', 'tx', 'chg')}, sort_keys=True, default=str)


RELAX = [('F-C06-savepoint-inner-flush', 'C06_prop_sp')]
RELAX_ALL = 'C06_prop_sp'


def relax_guard(case, obs, fid):
    return _sp_pattern(case, obs) == fid


def classify_corr(case, obs):
    # the savepoint model mirrors the code as it is (open finding included): a disagreement is never explained by it
    return None


def _sp_pattern(case, obs):
    if case['kind'] != 'S' or obs.get('harness_exc'):
        return None
    # open finding: a savepoint is rolled back over a versioned flush
    prog = case['prog']
    inside, versioned_inside, flushed = False, False, False
    for op in prog:
        if op[0] == 'sp_begin':
            inside, versioned_inside, flushed = True, False, False
        elif inside and op[0] in ('set', 'add', 'del') and op[1] != 3:
            versioned_inside = True
        elif inside and op[0] in ('flush',):
            flushed = True
        elif inside and op[0] == 'sp_rollback':
            if versioned_inside:
                return 'F-C06-savepoint-inner-flush'
            inside = False
        elif op[0] in ('sp_release', 'commit'):
            inside = False
    return None


def nontrivial(case, obs):
    if obs.get('harness_exc') or obs.get('skipped'):
        return False
    if case['kind'] == 'S':
        return any(op[0] == 'flush' for op in case['prog'])
    return obs.get('statements', 0) >= 4


def features(case, obs):
    f = ['kind=' + case['kind']]
    if case['kind'] == 'F' and not obs.get('skipped') and not obs.get('harness_exc'):
        f.append('boundaries=%d' % len(obs.get('boundaries', [])))
        f.append('statements=%d' % min(obs.get('statements', 0), 30))
    if obs.get('harness_exc'):
        f.append('harness_exc')
    return f


def shrink(case):
    return []


def describe(case, obs):
    d = dict(kind=case['kind'], cfg=case['cfg'], program=case['prog'])
    if case['kind'] == 'F':
        d.update(failed_transaction_ops=[case['first'], case['last']], statement=obs.get('n'),
                 boundaries_tried=obs.get('boundaries'), statements_in_transaction=obs.get('statements'))
        if obs.get('run'):
            d['outcomes'] = obs['run']['outcomes']
            d['fault'] = {k: (v if k not in ('before', 'after_rb') else ('<snapshot>' if v else None)) for k, v in obs['run']['fault'].items()}
    else:
        d['outcomes'] = obs.get('run', {}).get('outcomes')
    d['harness_exc'] = obs.get('harness_exc')
    return d
