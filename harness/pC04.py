"""C04 — relationships of a version show the related entities as of that moment."""
import json

import env as E
import hist
from framework import gZ, gopt, glist, gbool, gpair

PROP = 'C04'
CHECK_MODS = ['Model.VTable', 'Model.Rel', 'Checks.C04chk']
CASE_TYPE = 'C04_case'
CORR, PROPCHK = 'C04_corr', 'C04_prop'
THEOREMS = ['C04_as_of', 'C04_one_to_many', 'C04_many_to_one', 'C04_many_to_many', 'C04_example']
RULE = ('random contents of article_version / tag_version / label_version / article_label_version and the live note table '
        '(blog shape: one-to-many Article.tags, many-to-one Tag.article, many-to-many Article.labels <-> Label.articles, '
        'one-to-many to the non-versioned Note) are loaded with Core INSERTs - entities deleted and re-created, children '
        'moved between parents, links removed and re-added, foreign keys NULL or pointing at absent parents - and every '
        'reflected relationship is read on every version object through the ORM, under both strategies. Non-trivial: >= 2 '
        'children whose histories interleave with >= 2 owner versions, or a pair with >= 2 association rows. '
        'HISTORY cases (a quarter): a generated program (general, many-to-many heavy, or children moved between parents) is run '
        'on the real code; the version tables are those the package wrote; every relationship of every version is read and '
        'compared (a) with the model on those tables and (b) end to end with the application\'s own tables as they were at '
        'the commit that ended the version\'s transaction (tags pointing at the article, links of the article, parent of the tag).')
ASSUMPTIONS = ['single-column keys and foreign keys; custom primaryjoin shapes are not modelled',
               'the end-to-end reading relies on C01 (as-of version = state at that commit)']


def budget(tier):
    return 300 if tier == 'quick' else 3000


def gen_vt(rng, keys, fkvals=None, maxlen=4):
    rows = []
    for k in keys:
        n = rng.randint(0, maxlen)
        txs = sorted(rng.sample(range(1, 11), n))
        for j, tx in enumerate(txs):
            op = 0 if j == 0 else rng.choice([1, 1, 1, 2, 0])
            dat = [rng.choice([None, 0, 1])]
            if fkvals is not None:
                dat.append(rng.choice(fkvals))
            rows.append(dict(key=k, tx=tx, op=op, dat=dat))
    rng.shuffle(rows)
    return rows


def gen_cases(rng, n, tier):
    out = []
    for i in range(n):
        strategy = 'subquery' if i % 2 else 'validity'
        art = gen_vt(rng, [1, 2])
        for r in art:
            r['dat'].append(rng.choice([None, 0, 1]))
        tag = gen_vt(rng, [1, 2, 3], fkvals=[None, 1, 1, 2, 2, 3])
        lab = gen_vt(rng, [1, 2])
        av = []
        for a in (1, 2, 3):
            for l in (1, 2):
                if rng.random() < 0.6:
                    for tx in sorted(rng.sample(range(1, 11), rng.randint(1, 3))):
                        av.append(dict(l=a, r=l, tx=tx, op=rng.choice([0, 0, 2])))
        notes = [dict(id=j, article_id=rng.choice([None, 1, 2, 3])) for j in range(1, rng.randint(1, 4))]
        out.append(dict(strategy=strategy, art=art, tag=tag, lab=lab, av=av, notes=notes,
                        end_unfilled=(strategy == 'validity' and rng.random() < 0.3)))
    # histories: the version tables are what the package itself wrote
    for i in range(max(20, n // 4)):
        cfg = dict(shape='blog', strategy='subquery' if i % 2 else 'validity')
        prog = hist.gen_program(rng, cfg, n_ops=rng.randint(10, 24),
                                weights=None)
        prog = [op for op in prog if op[0] not in ('rollback', 'manualtx')]
        if i % 3 == 1:
            import pC10
            prog = []
            cnt = 0
            for op in pC10.gen_link_program(rng):      # many-to-many heavy
                prog.append(op)
                # a link change alone writes no version of the article or label: change a column in the same
                # transaction so that a version exists whose relationship must show the new link set
                if op[0] in ('link', 'unlink', 'link_rev', 'unlink_rev', 'setlinks') and rng.random() < 0.7:
                    cnt += 1
                    if rng.random() < 0.7:
                        prog.append(['set', 0, op[1], {'a': 10 + cnt}])
                    elif op[0] != 'setlinks':
                        prog.append(['set', 2, op[2], {'a': 10 + cnt}])
        elif i % 3 == 2:
            prog = gen_tag_program(rng)                # children moved between parents, parents deleted / re-created
        out.append(dict(kind='H', strategy=cfg['strategy'], prog=prog))
    return out


def corpus():
    # a child deleted and re-created under the same key within one flush, not given its parent: the row is switched
    # and keeps its foreign key, so the re-created child still belongs to its parent
    prog = [['add', 0, 2, {'a': 1}], ['add', 1, 2, {'a': 0}], ['tagto', 2, 2], ['commit'],
            ['del', 1, 2], ['add', 1, 2, {'a': 1}], ['commit'], ['set', 0, 2, {'a': 2}], ['commit']]
    # a child added below its parent, flushed, and deleted again in the same transaction (another one stays)
    prog2 = [['add', 0, 1, {'a': 1}], ['commit'], ['set', 0, 1, {'a': 2}], ['add', 1, 1, {'a': 0}], ['tagto', 1, 1],
             ['add', 1, 2, {'a': 0}], ['tagto', 2, 1], ['flush'], ['del', 1, 1], ['commit'], ['set', 0, 1, {'a': 3}], ['commit']]
    # transactions whose only change is a link / unlink between existing entities, each followed by a new version of the
    # article: its labels have to show the link set of its transaction
    prog3 = [['add', 0, 1, {'a': 1}], ['add', 2, 1, {'a': 1}], ['add', 2, 2, {'a': 1}], ['link', 1, 1], ['commit'],
             ['link', 1, 2], ['commit'], ['set', 0, 1, {'a': 2}], ['commit'], ['unlink', 1, 1], ['commit'],
             ['set', 0, 1, {'a': 3}], ['set', 2, 1, {'a': 2}], ['commit']]
    return [dict(kind='H', strategy=st, prog=p_) for st in ('subquery', 'validity') for p_ in (prog, prog2, prog3)]


def gen_tag_program(rng):
    prog = [['add', 0, 1, {'a': 1}], ['add', 0, 2, {'a': 1}], ['add', 1, 1, {'a': 0}], ['add', 1, 2, {'a': 0}], ['commit']]
    arts, tags = {1, 2}, {1, 2}
    for _ in range(rng.randint(5, 14)):
        r = rng.random()
        if r < 0.40 and tags:
            t = rng.choice(sorted(tags))
            a = rng.choice(sorted(arts) + [None]) if arts else None
            prog.append(['tagto', t, a])
        elif r < 0.50 and tags and arts:
            prog.append(['tagappend', rng.choice(sorted(arts)), rng.choice(sorted(tags))])
        elif r < 0.58 and tags:
            prog.append(['set', 1, rng.choice(sorted(tags)), {'a': rng.choice([0, 1, 2])}])
        elif r < 0.66 and arts:
            prog.append(['set', 0, rng.choice(sorted(arts)), {'a': rng.choice([0, 1, 2])}])
        elif r < 0.74 and len(tags) > 1:
            t = rng.choice(sorted(tags))
            prog.append(['del', 1, t])
            tags.discard(t)
            if rng.random() < 0.5:
                # re-created under the same key in the same flush and not given a parent: SQLAlchemy switches the row
                # (an UPDATE of the given attributes only), the live row keeps its foreign key
                prog.append(['add', 1, t, {'a': 2}])
                tags.add(t)
        elif r < 0.78:
            t = rng.choice([1, 2, 3])
            if t not in tags:
                prog.append(['add', 1, t, {'a': 1}])
                tags.add(t)
                if arts and rng.random() < 0.4:
                    # a child created below a parent, flushed, and deleted again within the same transaction
                    prog += [['tagto', t, rng.choice(sorted(arts))], ['flush'], ['del', 1, t]]
                    tags.discard(t)
        elif r < 0.84:
            a = rng.choice([1, 2])
            if a not in arts:
                prog.append(['add', 0, a, {'a': 2}])
                arts.add(a)
        elif r < 0.90:
            prog.append(['flush'])
        else:
            prog.append(['commit'])
    prog.append(['commit'])
    return prog


def _fill_end(rows):
    by = {}
    for r in rows:
        by.setdefault(r['key'], []).append(r)
    for rs in by.values():
        rs.sort(key=lambda r: r['tx'])
        for a, b in zip(rs, rs[1:]):
            a['end'] = b['tx']
        rs[-1]['end'] = None


def _observe(env, case):
    import sqlalchemy as sa
    conn = env.connection
    A, T, L, N = env.Article, env.Tag, env.Label, env.Note
    AV, TV, LV = env.version_class(A), env.version_class(T), env.version_class(L)
    avt = env.Base.metadata.tables['article_label_version']
    for tbl in (AV.__table__, TV.__table__, LV.__table__, avt, N.__table__):
        conn.execute(tbl.delete())
    validity = case['strategy'] == 'validity'
    for rows in (case['art'], case['tag'], case['lab']):
        for r in rows:
            r['end'] = None
        if validity and not case.get('end_unfilled'):
            # end_unfilled: rows written before the validity strategy was switched on (or imported) and not yet treated
            # by update_end_tx_column: the relationships read the rows, not the derived end column
            _fill_end(rows)

    def ins(tbl, rows, cols):
        payload = []
        for r in rows:
            d = {'id': r['key'], 'transaction_id': r['tx'], 'operation_type': r['op']}
            if validity:
                d['end_transaction_id'] = r['end']
            for c, v in zip(cols, r['dat']):
                d[c] = v
            payload.append(d)
        if payload:
            conn.execute(tbl.insert(), payload)
    ins(AV.__table__, case['art'], ['a', 'b'])
    ins(TV.__table__, case['tag'], ['a', 'article_id'])
    ins(LV.__table__, case['lab'], ['a'])
    if case['av']:
        seen, payload = set(), []
        for a in case['av']:
            if (a['l'], a['r'], a['tx']) in seen:
                continue
            seen.add((a['l'], a['r'], a['tx']))
            d = {'article_id': a['l'], 'label_id': a['r'], 'transaction_id': a['tx'], 'operation_type': a['op']}
            payload.append(d)
        conn.execute(avt.insert(), payload)
    if case['notes']:
        conn.execute(N.__table__.insert(), [dict(id=n['id'], article_id=n['article_id']) for n in case['notes']])
    conn.commit()
    return _read_relationships(env)


def _read_relationships(env):
    A, T, L, N = env.Article, env.Tag, env.Label, env.Note
    AV, TV, LV = env.version_class(A), env.version_class(T), env.version_class(L)
    s = env.session()
    try:
        def ref(v):
            return [v.id, v.transaction_id]
        aobs = []
        problem = None
        for v in s.query(AV).all():
            tags = sorted(ref(x) for x in v.tags)
            aobs.append(dict(key=v.id, tx=v.transaction_id, tags=tags,
                             labels=sorted(ref(x) for x in v.labels), notes=sorted(x.id for x in v.notes)))
            if hasattr(AV, 'first_tag'):
                # the scalar relationship over the same foreign key: one of the tags the collection shows (the
                # collection itself is compared with the model), nothing when the collection is empty
                import warnings
                with warnings.catch_warnings():
                    warnings.simplefilter('ignore')
                    ft = v.first_tag
                if (ft is None) != (not tags) or (ft is not None and ref(ft) not in tags):
                    problem = problem or ('article version (%s, %s): first_tag is %r, tags are %r' % (
                        v.id, v.transaction_id, None if ft is None else ref(ft), tags))
        tobs = []
        for v in s.query(TV).all():
            p = v.article
            tobs.append(dict(key=v.id, tx=v.transaction_id, article=None if p is None else ref(p)))
        lobs = []
        for v in s.query(LV).all():
            lobs.append(dict(key=v.id, tx=v.transaction_id, articles=sorted(ref(x) for x in v.articles)))
        return dict(aobs=aobs, tobs=tobs, lobs=lobs, exc=problem)
    except Exception as e:
        return dict(aobs=[], tobs=[], lobs=[], exc='%s: %s' % (type(e).__name__, str(e)[:300]))
    finally:
        s.close()


def _observe_history(env, cfg, case):
    """run a history on the real code, then read every relationship of every version it produced; the version tables
    of the case are what the history left behind, and the application's own tables at every commit are kept"""
    conn = env.connection
    env.Base.metadata.drop_all(conn)
    env.Base.metadata.create_all(conn)
    conn.commit()
    r = hist.run_program(env, cfg, case['prog'])
    if r['exc'] or not r['snaps']:
        return dict(aobs=[], tobs=[], lobs=[], exc=r['exc'] or 'no snapshot', tables=None)
    fin = r['snaps'][-1]

    def rows(tab):
        return [dict(key=x['key'][0], tx=x['tx'], op=x['op'], dat=[hist.coerce_val(v) for v in x['dat']])
                for x in fin['vt'] if x['tab'] == tab]
    tables = dict(art=rows(0), tag=rows(1), lab=rows(2),
                  av=[dict(l=a['key'][0], r=a['key'][1], tx=a['tx'], op=a['op']) for a in fin['av']],
                  notes=[dict(id=l['vals'][0], article_id=l['vals'][2]) for l in fin['live'] if l['cls'] == 3])
    live, prev = [], set()
    for ev, sn in zip(r['trace'], r['snaps']):
        if ev['ev'] == 'commit':
            arts = [l['vals'][0] for l in sn['live'] if l['cls'] == 0]
            tags = [[l['vals'][0], l['vals'][2]] for l in sn['live'] if l['cls'] == 1]
            labs = [l['vals'][0] for l in sn['live'] if l['cls'] == 2]
            links = [a['key'] for a in sn['alive']]
            # SQLite does not enforce the declared foreign keys: a state with a tag or link pointing at a missing row
            # (e.g. label.articles.append(a); delete(label) in one transaction) is outside the schema and not judged
            sound = all(t[1] is None or t[1] in arts for t in tags) and all(p[0] in arts and p[1] in labs for p in links)
            for T in sorted(set(sn['tx']) - prev):
                if sound:
                    live.append(dict(tx=T, arts=arts, tags=tags, links=links))
        if ev['ev'] in ('commit', 'rollback'):
            prev = set(sn['tx'])
    obs = _read_relationships(env)
    obs.update(tables=tables, live=live, trace=r['trace'], outcomes=r['outcomes'])
    return obs


def _worker(chunk):
    strategy, items = chunk
    cfg = dict(shape='blog', strategy=strategy, one2one=True)
    out = []
    with E.Env(options=hist.options_for(cfg), plugins=[], build=hist.SHAPES['blog'](cfg)) as env:
        for idx, case in items:
            try:
                if case.get('kind') == 'H':
                    out.append((idx, _observe_history(env, cfg, case)))
                else:
                    out.append((idx, _observe(env, case)))
            except Exception as e:
                import traceback
                out.append((idx, dict(aobs=[], tobs=[], lobs=[], tables=None,
                                      exc='%s: %s %s' % (type(e).__name__, e, traceback.format_exc()[-500:]))))
    return out


def run_impl(cases):
    groups = {}
    for i, c in enumerate(cases):
        groups.setdefault(c['strategy'], []).append((i, c))
    chunks = []
    for k, items in groups.items():
        step = max(1, (len(items) + 7) // 8)
        for s in range(0, len(items), step):
            chunks.append((k, items[s:s + step]))
    res = [None] * len(cases)
    for part in E.pmap(_worker, chunks):
        for idx, o in part:
            res[idx] = o
    return res


def gvt(rows):
    return glist(rows, lambda r: '(mkv [%s] %s None %s %s [])' % (gZ(r['key']), gZ(r['tx']), gZ(r['op']), glist(r['dat'], gopt)))


def gref(x):
    return gpair(gZ(x[0]), gZ(x[1]))


def encode(case, obs):
    live = []
    if case.get('kind') == 'H':
        case = obs.get('tables') or dict(art=[], tag=[], lab=[], av=[], notes=[])
        live = obs.get('live') or []
    seen, av = set(), []
    for a in case['av']:
        if (a['l'], a['r'], a['tx']) not in seen:
            seen.add((a['l'], a['r'], a['tx']))
            av.append(a)
    return ('{| c4_art := %s; c4_tag := %s; c4_lab := %s; c4_av := %s; c4_notes := %s; c4_aobs := %s; c4_tobs := %s; '
            'c4_lobs := %s; c4_live := %s; c4_exc := %s |}') % (
        gvt(case['art']), gvt(case['tag']), gvt(case['lab']),
        glist(av, lambda a: '(mklnk %s %s %s %s)' % (gZ(a['l']), gZ(a['r']), gZ(a['tx']), gZ(a['op']))),
        glist(case['notes'], lambda n: gpair(gZ(n['id']), gopt(n['article_id']))),
        glist(obs['aobs'], lambda o: '{| ao_key := %s; ao_tx := %s; ao_tags := %s; ao_labels := %s; ao_notes := %s |}' % (
            gZ(o['key']), gZ(o['tx']), glist(o['tags'], gref), glist(o['labels'], gref), glist(o['notes']))),
        glist(obs['tobs'], lambda o: '{| to_key := %s; to_tx := %s; to_article := %s |}' % (
            gZ(o['key']), gZ(o['tx']), 'None' if o['article'] is None else '(Some %s)' % gref(o['article']))),
        glist(obs['lobs'], lambda o: '{| lo_key := %s; lo_tx := %s; lo_articles := %s |}' % (
            gZ(o['key']), gZ(o['tx']), glist(o['articles'], gref))),
        glist(live, lambda x: '(%s, (%s, %s, %s))' % (
            gZ(x['tx']), glist(x['arts']), glist(x['tags'], lambda t: gpair(gZ(t[0]), gopt(t[1]))),
            glist(x['links'], lambda p: gpair(gZ(p[0]), gZ(p[1]))))),
        gbool(obs['exc'] is not None))


def nontrivial(case, obs):
    if case.get('kind') == 'H':
        t = obs.get('tables')
        return bool(t) and len(t['tag']) + len(t['av']) >= 2 and len(t['art']) >= 2
    tagkeys = {}
    for r in case['tag']:
        tagkeys.setdefault(r['key'], []).append(r['tx'])
    artv = {}
    for r in case['art']:
        artv.setdefault(r['key'], []).append(r['tx'])
    pairs = {}
    for a in case['av']:
        pairs[(a['l'], a['r'])] = pairs.get((a['l'], a['r']), 0) + 1
    return (sum(1 for v in tagkeys.values() if len(v) >= 2) >= 2 and any(len(v) >= 2 for v in artv.values())) or \
        any(v >= 2 for v in pairs.values())


def features(case, obs):
    if case.get('kind') == 'H':
        t = obs.get('tables') or {}
        return ['kind=history', 'strategy=' + case['strategy'], 'art=%d' % len(t.get('art', [])),
                'tag=%d' % len(t.get('tag', [])), 'av=%d' % min(len(t.get('av', [])), 9)]
    return ['strategy=' + case['strategy'], 'art=%d' % len(case['art']), 'tag=%d' % len(case['tag']), 'av=%d' % min(len(case['av']), 9)]


def shrink(case):
    out = []
    if case.get('kind') == 'H':
        for i in range(len(case['prog'])):
            c = json.loads(json.dumps(case))
            del c['prog'][i]
            out.append(c)
        return out
    for field in ('art', 'tag', 'lab', 'av', 'notes'):
        for i in range(len(case[field])):
            c = json.loads(json.dumps(case))
            del c[field][i]
            out.append(c)
    return out


def describe(case, obs):
    return dict(case=case, observed=obs)


def classify(case, obs):
    # history cases: a row switch leaves versions whose stored foreign key differs from the live row (open finding)
    if case.get('kind') == 'H':
        import corebase
        return corebase.classify_corr(case, obs)
    return None


classify_corr = classify
