"""C04 — relationships of a version show the related entities as of that moment."""
import json

import env as E
import hist
from framework import gZ, gopt, glist, gbool, gpair

PROP = 'C04'
CHECK_MODS = ['Model.VTable', 'Model.Rel', 'Checks.C04chk']
CASE_TYPE = 'C04_case'
CORR, PROPCHK = 'C04_corr', 'C04_prop'
THEOREMS = ['C04_as_of', 'C04_one_to_many', 'C04_many_to_one', 'C04_many_to_many', 'C04_example']
RULE = ('random contents of article_version / tag_version / label_version / article_label_version and the live note table '
        '(blog shape: one-to-many Article.tags, many-to-one Tag.article, many-to-many Article.labels <-> Label.articles, '
        'one-to-many to the non-versioned Note) are loaded with Core INSERTs - entities deleted and re-created, children '
        'moved between parents, links removed and re-added, foreign keys NULL or pointing at absent parents - and every '
        'reflected relationship is read on every version object through the ORM, under both strategies. Non-trivial: >= 2 '
        'children whose histories interleave with >= 2 owner versions, or a pair with >= 2 association rows.')
ASSUMPTIONS = ['single-column keys and foreign keys; custom primaryjoin shapes are not modelled',
               'the end-to-end reading relies on C01 (as-of version = state at that commit)']


def budget(tier):
    return 300 if tier == 'quick' else 3000


def gen_vt(rng, keys, fkvals=None, maxlen=4):
    rows = []
    for k in keys:
        n = rng.randint(0, maxlen)
        txs = sorted(rng.sample(range(1, 11), n))
        for j, tx in enumerate(txs):
            op = 0 if j == 0 else rng.choice([1, 1, 1, 2, 0])
            dat = [rng.choice([None, 0, 1])]
            if fkvals is not None:
                dat.append(rng.choice(fkvals))
            rows.append(dict(key=k, tx=tx, op=op, dat=dat))
    rng.shuffle(rows)
    return rows


def gen_cases(rng, n, tier):
    out = []
    for i in range(n):
        strategy = 'subquery' if i % 2 else 'validity'
        art = gen_vt(rng, [1, 2])
        for r in art:
            r['dat'].append(rng.choice([None, 0, 1]))
        tag = gen_vt(rng, [1, 2, 3], fkvals=[None, 1, 1, 2, 2, 3])
        lab = gen_vt(rng, [1, 2])
        av = []
        for a in (1, 2, 3):
            for l in (1, 2):
                if rng.random() < 0.6:
                    for tx in sorted(rng.sample(range(1, 11), rng.randint(1, 3))):
                        av.append(dict(l=a, r=l, tx=tx, op=rng.choice([0, 0, 2])))
        notes = [dict(id=j, article_id=rng.choice([None, 1, 2, 3])) for j in range(1, rng.randint(1, 4))]
        out.append(dict(strategy=strategy, art=art, tag=tag, lab=lab, av=av, notes=notes))
    return out


def _fill_end(rows):
    by = {}
    for r in rows:
        by.setdefault(r['key'], []).append(r)
    for rs in by.values():
        rs.sort(key=lambda r: r['tx'])
        for a, b in zip(rs, rs[1:]):
            a['end'] = b['tx']
        rs[-1]['end'] = None


def _observe(env, case):
    import sqlalchemy as sa
    conn = env.connection
    A, T, L, N = env.Article, env.Tag, env.Label, env.Note
    AV, TV, LV = env.version_class(A), env.version_class(T), env.version_class(L)
    avt = env.Base.metadata.tables['article_label_version']
    for tbl in (AV.__table__, TV.__table__, LV.__table__, avt, N.__table__):
        conn.execute(tbl.delete())
    validity = case['strategy'] == 'validity'
    for rows in (case['art'], case['tag'], case['lab']):
        for r in rows:
            r['end'] = None
        if validity:
            _fill_end(rows)

    def ins(tbl, rows, cols):
        payload = []
        for r in rows:
            d = {'id': r['key'], 'transaction_id': r['tx'], 'operation_type': r['op']}
            if validity:
                d['end_transaction_id'] = r['end']
            for c, v in zip(cols, r['dat']):
                d[c] = v
            payload.append(d)
        if payload:
            conn.execute(tbl.insert(), payload)
    ins(AV.__table__, case['art'], ['a', 'b'])
    ins(TV.__table__, case['tag'], ['a', 'article_id'])
    ins(LV.__table__, case['lab'], ['a'])
    if case['av']:
        seen, payload = set(), []
        for a in case['av']:
            if (a['l'], a['r'], a['tx']) in seen:
                continue
            seen.add((a['l'], a['r'], a['tx']))
            d = {'article_id': a['l'], 'label_id': a['r'], 'transaction_id': a['tx'], 'operation_type': a['op']}
            payload.append(d)
        conn.execute(avt.insert(), payload)
    if case['notes']:
        conn.execute(N.__table__.insert(), [dict(id=n['id'], article_id=n['article_id']) for n in case['notes']])
    conn.commit()
    s = env.session()
    try:
        def ref(v):
            return [v.id, v.transaction_id]
        aobs = []
        for v in s.query(AV).all():
            aobs.append(dict(key=v.id, tx=v.transaction_id, tags=sorted(ref(x) for x in v.tags),
                             labels=sorted(ref(x) for x in v.labels), notes=sorted(x.id for x in v.notes)))
        tobs = []
        for v in s.query(TV).all():
            p = v.article
            tobs.append(dict(key=v.id, tx=v.transaction_id, article=None if p is None else ref(p)))
        lobs = []
        for v in s.query(LV).all():
            lobs.append(dict(key=v.id, tx=v.transaction_id, articles=sorted(ref(x) for x in v.articles)))
        return dict(aobs=aobs, tobs=tobs, lobs=lobs, exc=None)
    except Exception as e:
        return dict(aobs=[], tobs=[], lobs=[], exc='%s: %s' % (type(e).__name__, str(e)[:300]))
    finally:
        s.close()


def _worker(chunk):
    strategy, items = chunk
    cfg = dict(shape='blog', strategy=strategy)
    out = []
    with E.Env(options=hist.options_for(cfg), plugins=[], build=hist.SHAPES['blog'](cfg)) as env:
        for idx, case in items:
            out.append((idx, _observe(env, case)))
    return out


def run_impl(cases):
    groups = {}
    for i, c in enumerate(cases):
        groups.setdefault(c['strategy'], []).append((i, c))
    chunks = []
    for k, items in groups.items():
        step = max(1, (len(items) + 7) // 8)
        for s in range(0, len(items), step):
            chunks.append((k, items[s:s + step]))
    res = [None] * len(cases)
    for part in E.pmap(_worker, chunks):
        for idx, o in part:
            res[idx] = o
    return res


def gvt(rows):
    return glist(rows, lambda r: '(mkv [%s] %s None %s %s [])' % (gZ(r['key']), gZ(r['tx']), gZ(r['op']), glist(r['dat'], gopt)))


def gref(x):
    return gpair(gZ(x[0]), gZ(x[1]))


def encode(case, obs):
    seen, av = set(), []
    for a in case['av']:
        if (a['l'], a['r'], a['tx']) not in seen:
            seen.add((a['l'], a['r'], a['tx']))
            av.append(a)
    return ('{| c4_art := %s; c4_tag := %s; c4_lab := %s; c4_av := %s; c4_notes := %s; c4_aobs := %s; c4_tobs := %s; '
            'c4_lobs := %s; c4_exc := %s |}') % (
        gvt(case['art']), gvt(case['tag']), gvt(case['lab']),
        glist(av, lambda a: '(mklnk %s %s %s %s)' % (gZ(a['l']), gZ(a['r']), gZ(a['tx']), gZ(a['op']))),
        glist(case['notes'], lambda n: gpair(gZ(n['id']), gopt(n['article_id']))),
        glist(obs['aobs'], lambda o: '{| ao_key := %s; ao_tx := %s; ao_tags := %s; ao_labels := %s; ao_notes := %s |}' % (
            gZ(o['key']), gZ(o['tx']), glist(o['tags'], gref), glist(o['labels'], gref), glist(o['notes']))),
        glist(obs['tobs'], lambda o: '{| to_key := %s; to_tx := %s; to_article := %s |}' % (
            gZ(o['key']), gZ(o['tx']), 'None' if o['article'] is None else '(Some %s)' % gref(o['article']))),
        glist(obs['lobs'], lambda o: '{| lo_key := %s; lo_tx := %s; lo_articles := %s |}' % (
            gZ(o['key']), gZ(o['tx']), glist(o['articles'], gref))),
        gbool(obs['exc'] is not None))


def nontrivial(case, obs):
    tagkeys = {}
    for r in case['tag']:
        tagkeys.setdefault(r['key'], []).append(r['tx'])
    artv = {}
    for r in case['art']:
        artv.setdefault(r['key'], []).append(r['tx'])
    pairs = {}
    for a in case['av']:
        pairs[(a['l'], a['r'])] = pairs.get((a['l'], a['r']), 0) + 1
    return (sum(1 for v in tagkeys.values() if len(v) >= 2) >= 2 and any(len(v) >= 2 for v in artv.values())) or \
        any(v >= 2 for v in pairs.values())


def features(case, obs):
    return ['strategy=' + case['strategy'], 'art=%d' % len(case['art']), 'tag=%d' % len(case['tag']), 'av=%d' % min(len(case['av']), 9)]


def shrink(case):
    out = []
    for field in ('art', 'tag', 'lab', 'av', 'notes'):
        for i in range(len(case[field])):
            c = json.loads(json.dumps(case))
            del c[field][i]
            out.append(c)
    return out


def describe(case, obs):
    return dict(case=case, observed=obs)
