import argparse
import importlib
import os
import sys

sys.path.insert(0, os.path.dirname(os.path.abspath(__file__)))
import framework  # noqa: E402


def main():
    ap = argparse.ArgumentParser()
    ap.add_argument('prop')
    ap.add_argument('--tier', default=os.environ.get('VERIF_TIER', 'quick'))
    ap.add_argument('--replay', default=None)
    a = ap.parse_args()
    seed = int(os.environ.get('VERIF_SEED', '0') or 0)
    tier = a.tier if a.tier in ('quick', 'thorough') else 'quick'
    mod = importlib.import_module('p' + a.prop)
    sys.exit(framework.run_property(mod, tier, seed, replay=a.replay))


if __name__ == '__main__':
    main()
