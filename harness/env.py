"""Set-up / tear-down of the real sqlalchemy-continuum (imported from VERIF_REPO) on SQLite.

Everything here runs inside worker processes; the package keeps a module-level
VersioningManager, so one environment is alive per process at a time.
"""
import os
import sys
import warnings

REPO = os.environ.get('VERIF_REPO', '/repo')
if REPO not in sys.path:
    sys.path.insert(0, REPO)

import sqlalchemy as sa  # noqa: E402
from sqlalchemy.orm import declarative_base, close_all_sessions  # noqa: E402

warnings.simplefilter('ignore', sa.exc.SAWarning)


def continuum():
    import sqlalchemy_continuum
    assert os.path.realpath(sqlalchemy_continuum.__file__).startswith(os.path.realpath(REPO)), \
        'sqlalchemy_continuum imported from %s, expected %s' % (sqlalchemy_continuum.__file__, REPO)
    return sqlalchemy_continuum


class Env(object):
    """with Env(options, plugins, build) as env: ... ; build(env, Base, opts) defines the models."""

    def __init__(self, options=None, plugins=None, build=None, url='sqlite://', versioned=True,
                 autoflush=False, bind_engine=False, attach=None, metadata_schema=None):
        self.attach = attach or []
        self.metadata_schema = metadata_schema
        self.options = dict(options or {})
        self.plugins = plugins or []
        self.build = build
        self.url = url
        self.versioned = versioned
        self.autoflush = autoflush
        self.bind_engine = bind_engine

    def __enter__(self):
        try:
            return self._enter()
        except BaseException:
            self.__exit__(None, None, None)
            raise

    def _enter(self):
        sc = continuum()
        from sqlalchemy_continuum.transaction import TransactionFactory
        self.sc = sc
        self.Base = (declarative_base(metadata=sa.MetaData(schema=self.metadata_schema)) if self.metadata_schema
                     else declarative_base())
        self.manager = sc.versioning_manager
        if self.versioned:
            opts = dict(self.options)
            opts.setdefault('base_classes', (self.Base,))
            # manager-level defaults are reset explicitly: the manager object is module-global
            base = {
                'versioning': True, 'base_classes': None, 'table_name': '%s_version',
                'exclude': [], 'include': [], 'native_versioning': False,
                'create_models': True, 'create_tables': True,
                'transaction_column_name': 'transaction_id',
                'end_transaction_column_name': 'end_transaction_id',
                'operation_type_column_name': 'operation_type',
                'strategy': 'validity', 'use_module_name': False,
            }
            self.manager.options.clear()
            self.manager.options.update(base)
            sc.make_versioned(options=opts, user_cls=None)
            self.manager.plugins = list(self.plugins)
            self.manager.transaction_cls = TransactionFactory()
            self.manager.user_cls = None
            self.opts = opts
        else:
            self.opts = None
        self.engine = sa.create_engine(self.url)
        self.build(self, self.Base, dict(self.opts) if self.opts else None)
        sa.orm.configure_mappers()
        self.connection = self.engine.connect()
        for schema in self.attach:
            self.connection.execute(sa.text("ATTACH DATABASE ':memory:' AS %s" % schema))
        self.Base.metadata.create_all(self.connection)
        self.connection.commit()
        return self

    def session(self, **kw):
        kw.setdefault('autoflush', self.autoflush)
        return sa.orm.Session(bind=self.engine if self.bind_engine else self.connection, **kw)

    def version_class(self, cls):
        return self.sc.version_class(cls)

    def __exit__(self, *exc):
        try:
            close_all_sessions()
        except Exception:
            pass
        if self.versioned and hasattr(self, 'sc'):
            try:
                self.sc.remove_versioning()
            except Exception:
                pass
            self.manager.reset()
        try:
            self.connection.close()
        except Exception:
            pass
        try:
            self.engine.dispose()
        except Exception:
            pass
        sa.orm.clear_mappers()
        return False


# ------------------------------------------------------------------ parallel map
def pmap(fn, chunks, workers=None):
    """Run fn(chunk) for every chunk in separate processes (one env per process at a time)."""
    import concurrent.futures as cf
    import multiprocessing as mp
    workers = workers or min(16, max(1, len(chunks)))
    if len(chunks) <= 1 or os.environ.get('VERIF_SERIAL'):
        return [fn(c) for c in chunks]
    ctx = mp.get_context('fork')
    with cf.ProcessPoolExecutor(max_workers=workers, mp_context=ctx) as ex:
        res = list(ex.map(_Safe(fn), chunks))
    for r in res:
        if isinstance(r, _WorkerError):
            raise RuntimeError('harness worker failed:\n' + r.text)
    return res


class _WorkerError(object):
    def __init__(self, text):
        self.text = text


class _Safe(object):
    def __init__(self, fn):
        self.fn = fn

    def __call__(self, chunk):
        try:
            return self.fn(chunk)
        except BaseException:
            import traceback
            return _WorkerError(traceback.format_exc()[-3000:])
