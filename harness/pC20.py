"""C20 — count_versions equals the number of versions for any key value."""
import json

import env as E
import tables as T
from framework import gbool, glist, gpair, gZ, gopt

PROP = 'C20'
CHECK_MODS = ['Model.VTable', 'Model.Count', 'Checks.C20chk']
CASE_TYPE = 'C20_case'
CORR, PROPCHK = 'C20_corr', 'C20_prop'
THEOREMS = ['C20_count_is_number_of_versions', 'C20_no_rows_no_count', 'C20_example']
RULE = ('key values drawn from an adversarial alphabet (single and double quotes, backslash, percent, colon, newline, '
        'semicolon, non-ASCII, empty string, long strings, SQL fragments) for string keys, plus integer, composite '
        '(int,str) keys, composite integer keys whose PRIMARY KEY constraint / mapper primary_key order differs from the declaration order (with mirror-image keys), and a custom table-name format; version rows are loaded with Core INSERTs, the parent objects are '
        'loaded through the ORM and count_versions(obj) is compared with obj.versions.count() and the model count; a '
        'transient object is counted too. Non-trivial: a string key containing a quote, backslash, newline, percent, colon '
        'or non-ASCII character, with >= 2 entities; or a swapped-order composite key present together with its mirror image under different version counts. Distinct: hash of the canonical input.')
ASSUMPTIONS = ['key values are numbered injectively per case before they reach the model (only key equality matters)',
               'SQLite compares TEXT keys bytewise (BINARY collation)']

ALPHA = ["'", '"', '\\', '%', ':', '\n', ';', ' ', 'a', 'b', 'é', '雪', '-', '(', ')', '?', '1', '\t', '%s', ':x']
SPECIAL = ["", "'", '"', "'\"", "\\", "a\\'b", "%", "%s", ":id", "x' OR '1'='1", "a\nb", "é雪", "'; DROP TABLE article_version; --",
           "a" * 300, "\\\\", "'\\", '"\\\'']
CFGS = [dict(strategy='subquery', keyshape='str', names='default'),
        dict(strategy='validity', keyshape='str', names='custom'),
        dict(strategy='subquery', keyshape='str', names='default', table_name='%s_history'),
        # the table-name format is an option of the MODEL only (the manager keeps '%s_version')
        dict(strategy='subquery', keyshape='int', names='default', class_table_name='%s_log'),
        dict(strategy='subquery', keyshape='int', names='default'),
        dict(strategy='subquery', keyshape='intstr', names='default'),
        # composite integer keys whose PRIMARY KEY constraint lists the columns in another order than the class
        # declares them (identity order != declaration order); mirror-image keys (1,2) / (2,1) are frequent
        # composite keys of mixed types whose LAST column has a bind processor (Date, Boolean)
        dict(strategy='subquery', keyshape='intdate', names='default'),
        dict(strategy='validity', keyshape='strbool', names='default'),
        dict(strategy='subquery', keyshape='intbytes', names='default'),
        dict(strategy='subquery', keyshape='pkc', names='default'),
        dict(strategy='validity', keyshape='pkm', names='default')]


def budget(tier):
    return 250 if tier == 'quick' else 3000


def rand_str(rng):
    if rng.random() < 0.35:
        return rng.choice(SPECIAL)
    return ''.join(rng.choice(ALPHA) for _ in range(rng.randint(0, 6)))


def gen_key(rng, cfg):
    if cfg['keyshape'] == 'str':
        return [rand_str(rng)]
    if cfg['keyshape'] == 'int':
        return [rng.choice([0, 1, 2, -1, 10 ** 12, 7])]
    if cfg['keyshape'] in ('pkc', 'pkm'):
        return [rng.randint(1, 3), rng.randint(1, 3)]
    if cfg['keyshape'] == 'intdate':
        return [rng.randint(0, 3), rng.randint(1, 3)]            # the second part is the day of 2020-01-<d>
    if cfg['keyshape'] == 'strbool':
        return [rng.choice(['a', 'b', "it's"]), rng.choice([0, 1])]  # the second part is a Boolean
    if cfg['keyshape'] == 'intbytes':
        return [rng.randint(0, 2), rng.randint(0, 3)]            # the second part stands for a binary digest
    return [rng.randint(1, 2), rand_str(rng)]


def gen_cases(rng, n, tier):
    out = []
    for i in range(n):
        cfg = CFGS[i % len(CFGS)]
        keys = []
        for _ in range(rng.randint(1, 4)):
            k = gen_key(rng, cfg)
            if k not in keys:
                keys.append(k)
            if cfg['keyshape'] in ('pkc', 'pkm') and k[::-1] not in keys and rng.random() < 0.7:
                keys.append(k[::-1])
        rows = []
        for ki, k in enumerate(keys):
            if rng.random() < 0.15:
                continue     # a persistent object without versions
            for tx in sorted(rng.sample(range(1, 10), rng.randint(1, 4))):
                rows.append(dict(k=ki, tx=tx))
        out.append(dict(cfg=cfg, keys=keys, rows=rows, pending_flush=(i % 3 == 1)))
    return out


def corpus():
    c = CFGS[0]
    return [dict(cfg=c, keys=[["it's \"x\""], ["a\\b"], ["a\nb"]], rows=[dict(k=0, tx=1), dict(k=0, tx=2), dict(k=1, tx=1), dict(k=2, tx=3)])]


def build(cfg):
    import sqlalchemy as sa

    def b(env, Base, opts):
        if cfg.get('class_table_name'):
            opts = dict(opts, table_name=cfg['class_table_name'])
        attrs = {'__tablename__': 'article', '__versioned__': opts}
        if cfg['keyshape'] == 'str':
            attrs['id'] = sa.Column(sa.Unicode(400), primary_key=True)
        elif cfg['keyshape'] == 'int':
            attrs['id'] = sa.Column(sa.BigInteger, primary_key=True, autoincrement=False)
        elif cfg['keyshape'] == 'intdate':
            attrs['id1'] = sa.Column(sa.Integer, primary_key=True, autoincrement=False)
            attrs['id2'] = sa.Column(sa.Date, primary_key=True)
        elif cfg['keyshape'] == 'strbool':
            attrs['id1'] = sa.Column(sa.Unicode(20), primary_key=True)
            attrs['id2'] = sa.Column(sa.Boolean, primary_key=True)
        elif cfg['keyshape'] == 'intbytes':
            attrs['id1'] = sa.Column(sa.Integer, primary_key=True, autoincrement=False)
            attrs['id2'] = sa.Column(sa.LargeBinary(16), primary_key=True)
        elif cfg['keyshape'] == 'pkc':
            attrs['id1'] = sa.Column(sa.Integer, autoincrement=False)
            attrs['id2'] = sa.Column(sa.Integer, autoincrement=False)
            attrs['__table_args__'] = (sa.PrimaryKeyConstraint('id2', 'id1'),)
        elif cfg['keyshape'] == 'pkm':
            attrs['id1'] = sa.Column(sa.Integer, primary_key=True, autoincrement=False)
            attrs['id2'] = sa.Column(sa.Integer, primary_key=True, autoincrement=False)
            attrs['__mapper_args__'] = {'primary_key': [attrs['id2'], attrs['id1']]}
        else:
            attrs['id1'] = sa.Column(sa.Integer, primary_key=True, autoincrement=False)
            attrs['id2'] = sa.Column(sa.Unicode(400), primary_key=True)
        attrs['a'] = sa.Column(sa.Integer)
        env.Article = type('Article', (Base,), attrs)
    return b


def kcols(cfg):
    return ['id1', 'id2'] if cfg['keyshape'] in ('intstr', 'pkc', 'pkm', 'intdate', 'strbool', 'intbytes') else ['id']


def dbkey(cfg, k):
    """the key as the database types want it"""
    if cfg['keyshape'] == 'intdate':
        import datetime
        return [k[0], datetime.date(2020, 1, k[1])]
    if cfg['keyshape'] == 'strbool':
        return [k[0], bool(k[1])]
    if cfg['keyshape'] == 'intbytes':
        return [k[0], [b'', b'\x00', b"b'\\x00'", b'\xff\xfe\x00a'][k[1]]]
    return k


def _observe(env, cfg, case):
    from sqlalchemy_continuum import count_versions
    Article = env.Article
    V = env.version_class(Article)
    vt = V.__table__
    txc, endc = T.colnames(cfg)
    kc = kcols(cfg)
    conn = env.connection
    conn.execute(vt.delete())
    conn.execute(Article.__table__.delete())
    payload = []
    for r in case['rows']:
        d = dict(zip(kc, dbkey(cfg, case['keys'][r['k']])))
        d[txc] = r['tx']
        d['operation_type'] = 0
        payload.append(d)
    if payload:
        conn.execute(vt.insert(), payload)
    conn.execute(Article.__table__.insert(), [dict(zip(kc, dbkey(cfg, k))) for k in case['keys']])
    # transaction ids handed out in this case lie above those of the loaded rows
    txt = env.manager.transaction_cls.__table__
    conn.execute(txt.delete())
    conn.execute(txt.insert().values(id=50))
    conn.commit()
    s = env.session()
    obs = []
    try:
        for ki, k in enumerate(case['keys']):
            # by column values, not by identity: the order of a composite identity is the mapper's, not ours
            obj = s.query(Article).filter_by(**dict(zip(kc, dbkey(cfg, k)))).one()
            extra = 0
            if case.get('pending_flush') and ki == 0:
                # the newest version of this object was written by a flush the session has not committed yet: it
                # counts, and counting must leave the session's transaction alone
                obj.a = 5
                s.flush()
                extra = 1
            vc = obj.versions.count()
            try:
                cnt = count_versions(obj)
                err = None
                if extra and obj.versions.count() != vc:
                    err = 'rows vanished while counting: versions.count() %d -> %d' % (vc, obj.versions.count())
            except Exception as e:
                s.rollback()
                cnt, err = None, '%s: %s' % (type(e).__name__, str(e)[:120])
            obs.append(dict(k=ki, count=(cnt - extra if cnt is not None and err is None else None), versions_count=vc - extra,
                            err=err))
        try:
            tr = count_versions(Article())
        except Exception as e:
            tr = None
        return dict(obs=obs, transient=tr)
    finally:
        s.close()


def _worker(chunk):
    cfg, items = chunk
    out = []
    with E.Env(options=T.cfg_options(cfg), build=build(cfg)) as env:
        for idx, case in items:
            out.append((idx, _observe(env, cfg, case)))
    return out


def run_impl(cases):
    groups = {}
    for i, c in enumerate(cases):
        groups.setdefault(json.dumps(c['cfg'], sort_keys=True), []).append((i, c))
    chunks = []
    for k, items in groups.items():
        step = max(1, (len(items) + 2) // 3)
        for s in range(0, len(items), step):
            chunks.append((json.loads(k), items[s:s + step]))
    res = [None] * len(cases)
    for part in E.pmap(_worker, chunks):
        for idx, o in part:
            res[idx] = o
    return res


def encode(case, obs):
    rows = glist(case['rows'], lambda r: '(mkv [%s] %s None 0 [] [])' % (gZ(r['k']), gZ(r['tx'])))
    o = glist(obs['obs'], lambda x: '{| o20_key := [%s]; o20_count := %s; o20_versions_count := %s |}' % (
        gZ(x['k']), gopt(x['count']), gZ(x['versions_count'])))
    return '{| c20_tbl := %s; c20_obs := %s; c20_transient := %s |}' % (rows, o, gopt(obs['transient']))


def nontrivial(case, obs):
    if len(case['keys']) < 2:
        return False
    if case['cfg']['keyshape'] in ('pkc', 'pkm'):
        # a key and its mirror image with different numbers of versions
        cnt = {}
        for r in case['rows']:
            cnt[r['k']] = cnt.get(r['k'], 0) + 1
        ks = case['keys']
        return any(k[0] != k[1] and k[::-1] in ks and cnt.get(i, 0) != cnt.get(ks.index(k[::-1]), 0) for i, k in enumerate(ks))
    for k in case['keys']:
        for part in k:
            if isinstance(part, str) and any(ch in part for ch in "'\"\\\n%:") or (isinstance(part, str) and any(ord(ch) > 127 for ch in part)):
                return True
    return False


def features(case, obs):
    f = ['key=' + case['cfg']['keyshape']]
    for k in case['keys']:
        for part in k:
            if isinstance(part, str):
                for ch, nm in (("'", 'squote'), ('"', 'dquote'), ('\\', 'backslash'), ('\n', 'newline'), ('%', 'percent'), (':', 'colon')):
                    if ch in part:
                        f.append('has_' + nm)
    if any(o['err'] for o in obs['obs']):
        f.append('count_versions_raised')
    return sorted(set(f))


def shrink(case):
    out = []
    for i in range(len(case['keys'])):
        if len(case['keys']) > 1:
            keys = case['keys'][:i] + case['keys'][i + 1:]
            rows = [dict(k=r['k'] - (1 if r['k'] > i else 0), tx=r['tx']) for r in case['rows'] if r['k'] != i]
            out.append(dict(cfg=case['cfg'], keys=keys, rows=rows, pending_flush=case.get('pending_flush')))
    for i in range(len(case['rows'])):
        out.append(dict(cfg=case['cfg'], keys=case['keys'], rows=case['rows'][:i] + case['rows'][i + 1:],
                        pending_flush=case.get('pending_flush')))
    for i, k in enumerate(case['keys']):
        for j, part in enumerate(k):
            if isinstance(part, str) and len(part) > 1:
                for cut in (part[:len(part) // 2], part[len(part) // 2:], part[1:], part[:-1]):
                    nk = [list(x) for x in case['keys']]
                    nk[i][j] = cut
                    if nk[i] not in [x for t, x in enumerate(nk) if t != i]:
                        out.append(dict(cfg=case['cfg'], keys=nk, rows=case['rows']))
    return out


def describe(case, obs):
    return dict(cfg=case['cfg'], keys=case['keys'], version_rows=case['rows'], observed=obs)
