"""C15 — changesets (a) and modification-flag back-fill (c); the object-path flags (b) live in pC15b."""
import json

import corebase as B
import env as E
import hist
import tables as T
from framework import gbool, glist, gpair, gZ, gopt, gnat

PROP = 'C15'
CHECK_MODS = ['Model.VTable', 'Model.Backfill', 'Model.Changeset', 'Model.Core', 'Checks.Corechk', 'Checks.CoreProps', 'Checks.C15chk']
CASE_TYPE = 'C15_case'
CORR, PROPCHK, PRE = 'C15_corr', 'C15_prop', 'C15_pre'
THEOREMS = ['C15a_changeset_subquery', 'C15a_changeset_validity', 'C15a_changeset_entries',
            'C15c_backfill_flags', 'C15c_backfill_frame', 'C15_example']
RULE = ('(cs) random version tables (both strategies, flat/composite keys, tracker plugin on/off, values from '
        '{NULL,0,1,2} with sticky neighbours) loaded with Core INSERTs; version.changeset read for every row. '
        '(bf) chained tables with flags initially false or random handed to schema.update_property_mod_flags, table read '
        'back. (H) histories with the tracker plugin on the real code (several flushes per transaction, inserts and deletes in '
        'later flushes): the flags of every version row written are compared with the model and with the column-wise '
        'difference to the predecessor (all on INSERT / DELETE). Non-trivial: some entity with >= 2 versions where a column moves to or from NULL, and >= 2 entities. '
        'Distinct: hash of the canonical input.')
ASSUMPTIONS = ['Python `!=` on ints/None is modelled by val_eqb', 'the flag back-fill is claimed for tables carrying the validity chain']


def budget(tier):
    return 360 if tier == 'quick' else 4000


def gen_cases(rng, n, tier):
    out = []
    # (b) histories on the real code with the tracker plugin: several flushes per transaction, inserts and deletes in
    # later flushes, delete + re-insert, columns moving to and from NULL
    cfgs = [c for c in B.all_cfgs('blog') + B.all_cfgs('comp')[::2] + B.all_cfgs('inh')[::2] if c['tracker'] and not c['null_delete']]
    for c in B.gen_cases_default(rng, max(40, n // 6), tier, cfgs=[dict(c, twin=False, check_changesets=True) for c in cfgs]):
        out.append(dict(kind='H', cfg=c['cfg'], prog=c['prog']))
    for i in range(n):
        if i % 3 == 2:
            cfg = dict(strategy='validity', keyshape=rng.choice(['int', 'composite']),
                       names=rng.choice(['default', 'custom']), tracker=True)
            rows = T.gen_table(rng, cfg, chain=True)
            mode = rng.choice(['clean', 'clean', 'random'])
            for r in rows:
                r['mod'] = [False, False] if mode == 'clean' else [rng.random() < 0.3, rng.random() < 0.3]
            out.append(dict(kind='bf', cfg=cfg, rows=rows))
        else:
            cfg = dict(T.CFGS[(i // 3) % len(T.CFGS)])
            cfg['tracker'] = (i % 2 == 0)
            rows = T.gen_table(rng, cfg)
            if cfg['tracker']:
                for r in rows:
                    r['mod'] = [rng.random() < 0.5, rng.random() < 0.5]
            out.append(dict(kind='cs', cfg=cfg, rows=rows))
    return out


def corpus():
    cfg = dict(strategy='validity', keyshape='int', names='default', tracker=True)
    rows = [dict(key=[1], tx=1, end=3, op=0, dat=[7, None], mod=[False, False]),
            dict(key=[2], tx=2, end=None, op=0, dat=[8, None], mod=[False, False]),
            dict(key=[1], tx=3, end=None, op=1, dat=[None, None], mod=[False, False])]
    h = dict(shape='blog', strategy='validity', changes=False, tracker=True, null_delete=False, autoflush=False, twin=False)
    # an insert and a delete in LATER flushes of a transaction that already versioned something
    return [dict(kind='bf', cfg=cfg, rows=rows), dict(kind='cs', cfg=cfg, rows=rows),
            dict(kind='H', cfg=h, prog=[['add', 0, 1, {'a': 1, 'b': 1}], ['add', 0, 2, {'a': 1}], ['commit'],
                                        ['set', 0, 1, {'a': 2}], ['flush'], ['add', 0, 3, {'a': 5}], ['flush'], ['del', 0, 2], ['flush'],
                                        ['set', 0, 1, {'b': None}], ['commit'],
                                        ['set', 0, 3, {'a': 6}], ['flush'], ['del', 0, 3], ['flush'], ['add', 0, 3, {'b': 1}], ['commit']])]


def _observe(env, case):
    cfg, rows = case['cfg'], case['rows']
    mods = True if cfg.get('tracker') else None
    T.load_rows(env, cfg, rows, mods=mods)
    txc, endc = T.colnames(cfg)
    kc = T.keycols(cfg)
    colidx = {c: i for i, c in enumerate(kc + ['a', 'b'])}
    if case['kind'] == 'cs':
        s = env.session()
        try:
            V = env.version_class(env.Article)
            obs = []
            for v in s.query(V).all():
                cs = v.changeset
                ent = sorted([colidx.get(k, 99), o, n] for k, (o, n) in cs.items())
                obs.append(dict(key=[getattr(v, c) for c in kc], tx=getattr(v, txc), cs=ent))
            obs.sort(key=lambda o: (o['key'], o['tx']))
            return dict(cs=obs, exc=None)
        except Exception as e:
            return dict(cs=[], exc='%s: %s' % (type(e).__name__, str(e)[:200]))
        finally:
            s.close()
    else:
        from sqlalchemy_continuum.schema import update_property_mod_flags
        vt = env.version_class(env.Article).__table__
        try:
            update_property_mod_flags(vt, ['a', 'b'], end_tx_column_name=endc, tx_column_name=txc, conn=env.connection)
            env.connection.commit()
            return dict(after=T.read_rows(env, cfg, with_mods=True), exc=None)
        except Exception as e:
            env.connection.rollback()
            return dict(after=[], exc='%s: %s' % (type(e).__name__, str(e)[:200]))


def _worker(chunk):
    cfg, items = chunk
    from sqlalchemy_continuum.plugins import PropertyModTrackerPlugin
    plugins = [PropertyModTrackerPlugin()] if cfg.get('tracker') else []
    out = []
    with E.Env(options=T.cfg_options(cfg), plugins=plugins, build=T.build_article(cfg)) as env:
        for idx, case in items:
            out.append((idx, _observe(env, case)))
    return out


def run_impl(cases):
    res = [None] * len(cases)
    hidx = [i for i, c in enumerate(cases) if c['kind'] == 'H']
    if hidx:
        for i, o in zip(hidx, hist.run_impl([cases[i] for i in hidx])):
            res[i] = o
    groups = {}
    for i, c in enumerate(cases):
        if c['kind'] == 'H':
            continue
        groups.setdefault(json.dumps(c['cfg'], sort_keys=True), []).append((i, c))
    chunks = [(json.loads(k), items) for k, items in groups.items()]
    for part in E.pmap(_worker, chunks):
        for idx, o in part:
            res[idx] = o
    return res


def encode(case, obs):
    if case['kind'] == 'H':
        return '(C15_H %s)' % hist.encode_case(case, obs)
    if case['kind'] == 'cs':
        o = glist(obs['cs'], lambda x: '(%s, %s, %s)' % (
            glist(x['key']), gZ(x['tx']),
            glist(x['cs'], lambda e: '(%s, %s, %s)' % (gnat(e[0]), gopt(e[1]), gopt(e[2])))))
        return '(C15_CS %s %s %s %s)' % (gbool(case['cfg']['strategy'] == 'validity'), T.gtable(case['rows']), o,
                                         gbool(obs['exc'] is not None))
    return '(C15_BF %s %s %s)' % (T.gtable(case['rows']), T.gtable(obs['after']), gbool(obs['exc'] is not None))


def nontrivial(case, obs):
    if case['kind'] == 'H':
        # a transaction with >= 2 flushes in which a later flush inserts or deletes
        flushes, later = 0, False
        for ev in obs.get('trace', []) or []:
            if ev['ev'] in ('commit', 'rollback'):
                flushes = 0
            elif ev['ev'] == 'flush' and ev['ents']:
                flushes += 1
                if flushes >= 2 and any(e['kind'] in (0, 2) for e in ev['ents']):
                    later = True
        return later
    by = {}
    for r in sorted(case['rows'], key=lambda r: r['tx']):
        by.setdefault(tuple(r['key']), []).append(r['dat'])
    if len(by) < 2:
        return False
    for seq in by.values():
        for x, y in zip(seq, seq[1:]):
            for u, v in zip(x, y):
                if (u is None) != (v is None):
                    return True
    return False


def features(case, obs):
    return ['kind=' + case['kind'], 'strategy=' + case['cfg']['strategy'], 'tracker=%s' % case['cfg'].get('tracker')]


def shrink(case):
    if case['kind'] == 'H':
        return [dict(kind='H', cfg=c['cfg'], prog=c['prog']) for c in B.shrink(dict(cfg=case['cfg'], prog=case['prog']))]
    out = []
    for rows in T.shrink_rows(case['rows']):
        if case['cfg']['strategy'] == 'validity':
            T.fill_chain(rows)
        out.append(dict(kind=case['kind'], cfg=case['cfg'], rows=rows))
    return out


def describe(case, obs):
    if case['kind'] == 'H':
        return B.describe_short(case, obs)
    return dict(kind=case['kind'], cfg=case['cfg'], version_table_rows=case['rows'], observed=obs)
