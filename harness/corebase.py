"""Shared pieces of the Layer-B property modules (C01, C02, C03, C11, C13, C15b, C17, C10)."""
import json

import hist

CHECK_MODS = ['Model.Core', 'Checks.Corechk', 'Checks.CoreProps']
CASE_TYPE = 'core_case'
CORR = 'Core_corr'
run_impl = hist.run_impl
encode = hist.encode_case

COMMON_ASSUMPTIONS = [
    'the SQLAlchemy session is environment: its behaviour enters the model as the recorded listener-level event trace; '
    'the environment assumptions (wf_trace: one event per entity per flush, history flags agree with stored values, '
    'inserts hit absent keys ...) are monitored on every recorded trace',
    'SQLite allocates transaction ids as max(rowid)+1; the model allocates 1 + max(existing ids)',
]


def all_cfgs(shape='blog', extra=None):
    out = []
    for s in ('validity', 'subquery'):
        for c in (True, False):
            for t in (True, False):
                for nd in (False, True):
                    for af in (False, True):
                        d = dict(shape=shape, strategy=s, changes=c, tracker=t, null_delete=nd, autoflush=af)
                        d.update(extra or {})
                        out.append(d)
    return out


def gen_cases_default(rng, n, tier, cfgs=None, manualtx=False):
    cfgs = cfgs or (all_cfgs('blog') + all_cfgs('comp')[::4] + all_cfgs('blog', dict(excl_notes=True))[::4]
                    + all_cfgs('blog', dict(class_names=True))[::4] + all_cfgs('comp', dict(class_names=True))[::8]
                    + all_cfgs('blog', dict(defaults=True))[::4] + all_cfgs('own')[::4]
                    + all_cfgs('blog', dict(excl_fk=True))[::4]
                    + [c for c in all_cfgs('inh') if not c['null_delete']][::2])
    out = []
    for i in range(n):
        cfg = dict(cfgs[i % len(cfgs)])
        if manualtx and i % 5 == 0:
            cfg['manualtx'] = True
        out.append(dict(cfg=cfg, prog=hist.gen_program(rng, cfg)))
    return out


def nontrivial_default(case, obs):
    prog = case['prog']
    commits = sum(1 for op in prog if op[0] == 'commit')
    flushes = sum(1 for op in prog if op[0] == 'flush')
    if commits < 2:
        return False
    adds = [(op[1], json.dumps(op[2])) for op in prog if op[0] == 'add']
    reuse = len(adds) != len(set(adds))
    nullset = any(op[0] == 'set' and any(v is None for v in op[3].values()) for op in prog)
    return reuse or nullset or flushes >= 2


def features_default(case, obs):
    f = ['shape=' + case['cfg']['shape'], 'strategy=' + case['cfg']['strategy']]
    for k in ('changes', 'tracker', 'null_delete', 'autoflush', 'excl_notes', 'excl_fk', 'manualtx'):
        if case['cfg'].get(k):
            f.append(k)
    for op in case['prog']:
        f.append('op:' + op[0])
    for o in obs.get('outcomes', []):
        if o != 'ok':
            f.append('outcome:' + o)
    for ev in obs.get('trace', []):
        f.append('ev:' + ev['ev'])
        if ev['ev'] == 'flush':
            for e in ev['ents']:
                if e['kind'] == 1 and e['isnew']:
                    f.append('row_switch')
    return f


def features_counted(case, obs):
    # the framework counts each feature once per case
    return sorted(set(features_default(case, obs)))


def shrink(case):
    prog = case['prog']
    out = []
    # drop one op; drop a prefix transaction; drop pairs
    for i in range(len(prog)):
        if prog[i][0] == 'commit' and i == len(prog) - 1:
            continue
        out.append(dict(cfg=case['cfg'], prog=prog[:i] + prog[i + 1:]))
    for i in range(len(prog) - 1):
        out.append(dict(cfg=case['cfg'], prog=prog[:i] + prog[i + 2:]))
    # simpler configuration
    for k in ('changes', 'tracker', 'null_delete', 'autoflush'):
        if case['cfg'].get(k):
            c = dict(case['cfg'])
            c[k] = False
            out.append(dict(cfg=c, prog=prog))
    seen, uniq = set(), []
    for c in out:
        h = json.dumps(c, sort_keys=True)
        if h not in seen and c['prog']:
            seen.add(h)
            uniq.append(c)
    return uniq


def describe(case, obs):
    return dict(cfg=case['cfg'], program=case['prog'], outcomes=obs.get('outcomes'),
                recorded_trace=obs.get('trace'), snapshots=obs.get('snaps'), harness_exception=obs.get('exc'))


def describe_short(case, obs):
    snaps = obs.get('snaps') or []
    return dict(cfg=case['cfg'], program=case['prog'], outcomes=obs.get('outcomes'),
                events=[e['ev'] for e in obs.get('trace', [])],
                final_snapshot=snaps[-1] if snaps else None)


def classify_corr(case, obs):
    """Correspondence breaks caused by a row switch: after delete + add of one key in one flush the new
    object is stale (it holds None where the row kept the old values), which violates the monitored
    environment assumption `history flags agree with stored values` in later flushes too."""
    for ev in obs.get('trace', []) or []:
        if ev.get('ev') == 'flush':
            for e in ev['ents']:
                if e['kind'] == 1 and e['isnew']:
                    return 'F-C01-row-switch'
    return None
