"""C10 — many-to-many link history is recorded per transaction and reconstructible."""
import corebase as B
from corebase import CHECK_MODS, CASE_TYPE, CORR, run_impl, encode, shrink  # noqa: F401

PROP = 'C10'
PROPCHK = 'C10_prop'
THEOREMS = ['C10_replay_yields_live_links', 'C10_one_row_per_link_per_transaction',
            'C10_earlier_transactions_untouched', 'C10_example']
RULE = ('link histories over Article <-> Label (blog shape): single and bulk links, from either side, several pairs per '
        'transaction, link and unlink of the same pair in one transaction with a flush in between (both orders), pairs '
        'removed and re-added later, parents or targets deleted while linked; after every commit the association version '
        'table is replayed (newest row per pair) and compared with the live association table, rows of earlier transactions '
        'must be unchanged, rows of this transaction only for touched pairs. Non-trivial: a pair touched in >= 2 '
        'transactions or twice in one.')
ASSUMPTIONS = B.COMMON_ASSUMPTIONS + ['self-referential many-to-many is not in the generated shapes']


def budget(tier):
    return 320 if tier == 'quick' else 4000


def gen_link_program(rng):
    # in half of the programs one article and one label have the primary key 0 (a falsy key is a key like any other)
    ka = [0, 2] if rng.random() < 0.5 else [1, 2]
    kl = [1, 0] if rng.random() < 0.5 else [1, 2]
    prog = [['add', 0, ka[0], {'a': 1}], ['add', 0, ka[1], {'a': 1}], ['add', 2, kl[0], {'a': 1}], ['add', 2, kl[1], {'a': 1}], ['commit']]
    linked = set()
    alive_a, alive_l = set(ka), set(kl)
    for _ in range(rng.randint(4, 14)):
        r = rng.random()
        a, l = rng.choice(ka), rng.choice(kl)
        if r < 0.45 and a in alive_a and l in alive_l:
            if (a, l) in linked:
                prog.append([rng.choice(['unlink', 'unlink_rev']), a, l])
                linked.discard((a, l))
            else:
                prog.append([rng.choice(['link', 'link_rev']), a, l])
                linked.add((a, l))
        elif r < 0.55 and a in alive_a:
            ls = [x for x in alive_l]
            prog.append(['setlinks', a, ls[:rng.randint(0, len(ls))]])
            linked = {p for p in linked if p[0] != a} | {(a, x) for x in prog[-1][2]}
        elif r < 0.70:
            prog.append(['flush'])
        elif r < 0.88:
            prog.append(['commit'])
        elif r < 0.93 and a in alive_a:
            prog.append(['del', 0, a])
            alive_a.discard(a)
            linked = {p for p in linked if p[0] != a}
        elif r < 0.97 and l in alive_l:
            prog.append(['del', 2, l])
            alive_l.discard(l)
            linked = {p for p in linked if p[1] != l}
        else:
            prog.append(['set', 0, a, {'a': rng.choice([0, 1, 2])}])
    prog.append(['commit'])
    return prog


def gen_cases(rng, n, tier):
    cfgs = [c for c in B.all_cfgs('blog') if not c['null_delete'] and not c['tracker']]
    out = []
    for i in range(n):
        cfg = cfgs[i % len(cfgs)]
        out.append(dict(cfg=cfg, prog=gen_link_program(rng)))
    return out


def corpus():
    base = [['add', 0, 1, {'a': 1}], ['add', 2, 1, {'a': 1}], ['commit']]
    return [dict(cfg=dict(shape='blog', strategy='validity'), prog=base + [['link', 1, 1], ['flush'], ['unlink', 1, 1], ['commit']]),
            dict(cfg=dict(shape='blog', strategy='subquery'), prog=base + [['link', 1, 1], ['commit'], ['unlink', 1, 1], ['flush'], ['link', 1, 1], ['commit']]),
            dict(cfg=dict(shape='blog', strategy='subquery'), prog=base + [['link', 1, 1], ['flush'], ['del', 2, 1], ['commit']]),
            # a link that existed before: unlink, link, unlink over three flushes of one transaction
            dict(cfg=dict(shape='blog', strategy='validity'),
                 prog=base + [['link', 1, 1], ['commit'], ['unlink', 1, 1], ['flush'], ['link', 1, 1], ['flush'], ['unlink', 1, 1],
                              ['commit'], ['set', 0, 1, {'a': 2}], ['commit']]),
            # a linked article replaced by a new object with the same key, linked again, in ONE flush (row switch): the
            # flush deletes and inserts the same association row
            dict(cfg=dict(shape='blog', strategy='validity'),
                 prog=base + [['link', 1, 1], ['commit'], ['del', 0, 1], ['add', 0, 1, {'a': 5}], ['link', 1, 1], ['commit'],
                              ['set', 0, 1, {'a': 2}], ['commit']]),
            dict(cfg=dict(shape='blog', strategy='subquery'),
                 prog=base + [['add', 2, 2, {'a': 1}], ['link', 1, 1], ['link', 1, 2], ['commit'], ['del', 0, 1],
                              ['add', 0, 1, {'a': 5}], ['link', 1, 1], ['commit'], ['unlink', 1, 1], ['commit']]),
            # a Core INSERT that gives one column inline and the other as an execution parameter
            dict(cfg=dict(shape='blog', strategy='validity'),
                 prog=base + [['add', 2, 2, {'a': 1}], ['set', 0, 1, {'a': 2}], ['flush'], ['rawlink_mixed', 1, 1], ['rawlink_mixed', 1, 2],
                              ['set', 0, 1, {'a': 3}], ['commit'], ['unlink', 1, 1], ['commit']]),
            # association statements while the unit of work exists but has no transaction record yet (a flush of
            # nothing but a non-versioned object came first); the record is created by a later flush
            dict(cfg=dict(shape='blog', strategy='validity'),
                 prog=base + [['add', 3, 1, {'a': 0}], ['flush'], ['rawlink', 1, 1], ['set', 0, 1, {'a': 2}], ['commit'],
                              ['set', 3, 1, {'a': 1}], ['flush'], ['rawunlink', 1, 1], ['set', 0, 1, {'a': 3}], ['commit']])]


def nontrivial(case, obs):
    seen, per_tx = {}, {}
    for op in case['prog']:
        if op[0] in ('link', 'unlink', 'link_rev', 'unlink_rev'):
            p = (op[1], op[2])
            per_tx[p] = per_tx.get(p, 0) + 1
            if per_tx[p] >= 2:
                return True
        if op[0] == 'commit':
            for p in per_tx:
                seen[p] = seen.get(p, 0) + 1
                if seen[p] >= 2:
                    return True
            per_tx = {}
    return False


features = B.features_counted
describe = B.describe_short

classify_corr = B.classify_corr


def classify(case, obs):
    import pC07
    return pC07.classify(dict(case, kind='H'), obs)

