"""Histories for the Layer-B (unit-of-work core) properties.

  * model shapes built on the real package,
  * a seeded generator of user-level programs (add / set / delete / link / flush / commit / rollback ...),
  * a runner that executes a program on the real code while RECORDING, through public SQLAlchemy
    events only, exactly what the package's listeners are given (the Layer-B input alphabet) and
    the content of every table after every flush / commit / rollback,
  * Gallina encoders for configuration, trace and snapshots.
"""
import json

import env as E
from framework import gZ, gnat, gbool, gopt, glist

VALS = [None, 0, 1, 2]


# ------------------------------------------------------------------ shapes
def shape_blog(cfg):
    """Article(id,a,b,x[excluded]) 1-n Tag, n-m Label, 1-n Note (not versioned)."""
    import sqlalchemy as sa

    def build(env, Base, opts):
        def vopts(extra=None):
            if opts is None:
                return {}
            o = dict(opts)
            if cfg.get('mgr_excl'):
                # the exclusion is configured for the manager only (make_versioned(options={'exclude': ...})): no
                # class has an 'exclude' key of its own, manager.option() falls back to the manager's value
                o.pop('exclude', None)
                o.pop('include', None)
            o.update(extra or {})
            return {'__versioned__': o}

        # excl_labels: the many-to-many relationship is excluded on both of its sides: no association version table
        excl = ['x'] + (['notes'] if cfg.get('excl_notes') else []) + (['labels'] if cfg.get('excl_labels') else [])
        art_bases = (Base,)
        if cfg.get('mixin_excl3'):
            # the exclusion is declared two levels up (Top), the class in between (Mid) has a __versioned__ of its own
            Top = type('Top', (object,), {'__versioned__': {'exclude': list(excl)}})
            Mid = type('Mid', (Top,), {'__versioned__': {}})
            art_bases = (Mid, Base)
        if cfg.get('mgr_excl') or cfg.get('mixin_excl3'):
            art_extra = {}
        elif cfg.get('include_x'):
            art_extra = {'exclude': excl, 'include': ['x']}
        else:
            art_extra = {'exclude': excl}

        Article = type('Article', art_bases, dict(
            __tablename__='article',
            id=sa.Column(sa.Integer, primary_key=True, autoincrement=False),
            a=sa.Column(sa.Integer),
            b=(sa.Column(sa.Integer, default=7) if cfg.get('defaults') else sa.Column(sa.Integer)),
            # alias_x: the excluded column is mapped under an attribute name that differs from its column name
            x=(sa.Column('x_col', sa.Integer) if cfg.get('alias_x') else sa.Column(sa.Integer)),
            **vopts(art_extra)))
        Tag = type('Tag', (Base,), dict(
            __tablename__='tag',
            id=sa.Column(sa.Integer, primary_key=True, autoincrement=False),
            a=(sa.Column(sa.Integer, server_default='3') if cfg.get('defaults') else sa.Column(sa.Integer)),
            article_id=sa.Column(sa.Integer, sa.ForeignKey('article.id')),
            article=sa.orm.relationship(Article, backref='tags'),
            **vopts(dict({'end_transaction_column_name': 'valid_to', 'transaction_column_name': 'txid'}
                         if cfg.get('class_names') else {},
                         # excl_fk: the foreign-key column is excluded, the relationship built on it is not
                         **({'exclude': ['article_id']} if cfg.get('excl_fk') else {})))))
        if cfg.get('one2one'):
            # a scalar (one-to-one style) relationship read from the side WITHOUT the foreign key, over the same
            # foreign key as Article.tags; read-only for the application, reflected onto the version class
            Article.first_tag = sa.orm.relationship(Tag, uselist=False, viewonly=True)
        Label = type('Label', (Base,), dict(
            __tablename__='label',
            id=sa.Column(sa.Integer, primary_key=True, autoincrement=False),
            a=sa.Column(sa.Integer),
            **vopts({'exclude': ['articles']} if cfg.get('excl_labels') else None)))
        article_label = sa.Table(
            'article_label', Base.metadata,
            sa.Column('article_id', sa.Integer, sa.ForeignKey('article.id'), primary_key=True),
            sa.Column('label_id', sa.Integer, sa.ForeignKey('label.id'), primary_key=True))
        Article.labels = sa.orm.relationship(Label, secondary=article_label, backref='articles')
        Note = type('Note', (Base,), dict(
            __tablename__='note',
            id=sa.Column(sa.Integer, primary_key=True, autoincrement=False),
            a=sa.Column(sa.Integer),
            article_id=sa.Column(sa.Integer, sa.ForeignKey('article.id')),
            article=sa.orm.relationship(Article, backref='notes')))
        env.classes = [Article, Tag, Label, Note]
        env.assoc = [article_label]
        env.Article, env.Tag, env.Label, env.Note = Article, Tag, Label, Note
    return build


def shape_comp(cfg):
    """One versioned class with a composite key and one with a string-like (int-coded) key; no relationships."""
    import sqlalchemy as sa

    def build(env, Base, opts):
        v = {'__versioned__': dict(opts)} if opts is not None else {}
        if cfg.get('pkc'):
            # the PRIMARY KEY constraint lists the key columns in another order than they are declared
            Pair = type('Pair', (Base,), dict(
                __tablename__='pair',
                id1=sa.Column(sa.Integer, autoincrement=False),
                id2=sa.Column(sa.Integer, autoincrement=False),
                a=sa.Column(sa.Integer), b=sa.Column(sa.Integer),
                __table_args__=(sa.PrimaryKeyConstraint('id2', 'id1'),), **v))
        else:
            Pair = type('Pair', (Base,), dict(
                __tablename__='pair',
                id1=sa.Column(sa.Integer, primary_key=True, autoincrement=False),
                id2=sa.Column(sa.Integer, primary_key=True, autoincrement=False),
                a=sa.Column(sa.Integer), b=sa.Column(sa.Integer), **v))
        v2 = {'__versioned__': dict(opts)} if opts is not None else {}
        if opts is not None and cfg.get('class_names'):
            v2['__versioned__'].update({'end_transaction_column_name': 'valid_to', 'transaction_column_name': 'txid'})
        Doc = type('Doc', (Base,), dict(
            __tablename__='doc',
            id=sa.Column(sa.Unicode(20), primary_key=True),
            a=sa.Column(sa.Integer), title=sa.Column('title_col', sa.Integer), **v2))
        env.classes = [Pair, Doc]
        env.assoc = []
    return build


def shape_own(cfg):
    """Owner (NOT versioned) 1-n Pet (versioned): the versioned child's foreign key is nullified by a
    cascade from a non-versioned parent (children are loaded during the flush, after before_flush)."""
    import sqlalchemy as sa

    def build(env, Base, opts):
        v = {'__versioned__': dict(opts)} if opts is not None else {}
        Owner = type('Owner', (Base,), dict(
            __tablename__='owner',
            id=sa.Column(sa.Integer, primary_key=True, autoincrement=False),
            a=sa.Column(sa.Integer)))
        Pet = type('Pet', (Base,), dict(
            __tablename__='pet',
            id=sa.Column(sa.Integer, primary_key=True, autoincrement=False),
            a=sa.Column(sa.Integer),
            owner_id=sa.Column(sa.Integer, sa.ForeignKey('owner.id')),
            owner=sa.orm.relationship(Owner, backref='pets'), **v))
        env.classes = [Owner, Pet]
        env.assoc = []
    return build


def shape_inh(cfg):
    """Item (base) / Book (joined-table child) / Cd (single-table child): one entity is written to one version
    table per mapped table; Item, Cd and the item part of Book share the table item_version."""
    import sqlalchemy as sa

    def build(env, Base, opts):
        v = {'__versioned__': dict(opts)} if opts is not None else {}
        xcol = {}
        if cfg.get('base_excl'):
            # the base class excludes its column x; with own_v every subclass declares a __versioned__ of its own
            # (the style of tests/inheritance TestDeepJoinedTableInheritance), which does not repeat the exclusion
            xcol = {'x': sa.Column(sa.Integer)}
            if opts is not None:
                v = {'__versioned__': dict(opts, exclude=['x'])}
        own = {'__versioned__': dict(opts)} if (opts is not None and cfg.get('own_v')) else {}
        Item = type('Item', (Base,), dict(
            __tablename__='item',
            id=sa.Column(sa.Integer, primary_key=True, autoincrement=False),
            a=sa.Column(sa.Integer),
            kind=sa.Column(sa.String(10)),
            __mapper_args__={'polymorphic_on': 'kind', 'polymorphic_identity': 'item'}, **dict(v, **xcol)))
        Book = type('Book', (Item,), dict(
            __tablename__='book',
            id=sa.Column(sa.Integer, sa.ForeignKey('item.id'), primary_key=True, autoincrement=False),
            pages=sa.Column(sa.Integer),
            __mapper_args__={'polymorphic_identity': 'book'}, **dict(own)))
        Cd = type('Cd', (Item,), dict(
            tracks=sa.Column(sa.Integer),
            __mapper_args__={'polymorphic_identity': 'cd'}, **dict(own)))
        env.classes = [Item, Book, Cd]
        env.assoc = []
    return build


def shape_dup(cfg):
    """Two versioned classes with the SAME __name__ ('Doc') living in different modules, and a third class 'Memo';
    flat, integer keys, columns a, b (the situation the option use_module_name exists for)."""
    import sqlalchemy as sa

    def build(env, Base, opts):
        def mk(module, table, name):
            attrs = dict(__tablename__=table, __module__=module,
                         id=sa.Column(sa.Integer, primary_key=True, autoincrement=False),
                         a=sa.Column(sa.Integer), b=sa.Column(sa.Integer))
            if opts is not None:
                attrs['__versioned__'] = dict(opts)
            return type(name, (Base,), attrs)
        import warnings
        with warnings.catch_warnings():
            warnings.simplefilter('ignore')
            env.classes = [mk('shop.models', 'shop_doc', 'Doc'), mk('blog.models', 'blog_doc', 'Doc'),
                           mk('blog.models', 'memo', 'Memo')]
        env.assoc = []
    return build


SHAPES = {'blog': shape_blog, 'comp': shape_comp, 'own': shape_own, 'inh': shape_inh, 'dup': shape_dup}


def model_classes(env):
    """The classes of the model: one per mapped class and mapped table.  Class i < len(env.classes) is python class i
    writing its local table; the parts a joined-table child keeps in its parents' tables follow.  'tab' identifies
    the (version) table: the index of the first python class whose local table it is."""
    import sqlalchemy as sa
    prim, extra = [], []
    local = [sa.inspect(c).local_table for c in env.classes]
    for ci, cls in enumerate(env.classes):
        m = sa.inspect(cls)
        colkeys = []
        for k, c in m.columns.items():
            if isinstance(c, sa.Column) and k not in colkeys:
                colkeys.append(k)
        tables = [m.local_table] + [t for t in m.tables if t is not m.local_table]
        for t in tables:
            here = [any(col.table is t for col in m.get_property(k).columns) for k in colkeys]
            part = dict(py=ci, cls=cls, table=t, colkeys=colkeys, here=here, tab=local.index(t) if t in local else None,
                        pkcols=[any(col.primary_key for col in m.get_property(k).columns) for k in colkeys])
            (prim if t is m.local_table else extra).append(part)
    return prim + extra


def part_column(part, k):
    """the column of attribute k in the part's table (None if it lives in another table of the hierarchy)"""
    import sqlalchemy as sa
    for col in sa.inspect(part['cls']).get_property(k).columns:
        if col.table is part['table']:
            return col
    return None


def plugins_for(cfg):
    from sqlalchemy_continuum.plugins import (NullDeletePlugin, PropertyModTrackerPlugin,
                                              TransactionChangesPlugin)
    ps = []
    if cfg.get('changes'):
        ps.append(TransactionChangesPlugin())
    if cfg.get('null_delete'):
        ps.append(NullDeletePlugin())
    if cfg.get('tracker'):
        ps.append(PropertyModTrackerPlugin())
    if cfg.get('activity'):
        from sqlalchemy_continuum.plugins import ActivityPlugin
        ps.append(ActivityPlugin())
    if cfg.get('txargs'):
        # a plugin that supplies an attribute of the transaction record (what FlaskPlugin does with remote_addr)
        from sqlalchemy_continuum.plugins.base import Plugin

        class ArgsPlugin(Plugin):
            def transaction_args(self, uow, session):
                return {'remote_addr': TXARG}
        ps.append(ArgsPlugin())
    if cfg.get('origin'):
        # ... only for sessions that say where they come from (request sessions vs background sessions)
        from sqlalchemy_continuum.plugins.base import Plugin

        class OriginPlugin(Plugin):
            def transaction_args(self, uow, session):
                return {'remote_addr': session.info['origin']} if session.info.get('origin') else {}
        ps.append(OriginPlugin())
    return ps


TXARG = '10.1.2.3'


def options_for(cfg):
    o = {'strategy': cfg.get('strategy', 'validity')}
    if cfg.get('shape') == 'dup':
        o['use_module_name'] = True
    if cfg.get('mgr_excl'):
        o['exclude'] = ['x'] + (['notes'] if cfg.get('excl_notes') else [])
    return o


def effective_excluded(env, cls, key):
    """Exclusion as the property states it: excluded by the options that apply to the class (its own __versioned__,
    else the manager's), or inherited from a parent class whose own options exclude it (such a column has no
    counterpart in any version table of the hierarchy)."""
    if key in effective_option(env, cls, 'include'):
        return False
    if key in effective_option(env, cls, 'exclude'):
        return True
    for parent in cls.__mro__[1:]:
        vo = parent.__dict__.get('__versioned__')
        if vo is not None and key in vo.get('exclude', ()) and key not in vo.get('include', ()):
            return True
    return False


def effective_option(env, cls, name):
    """The documented resolution of a versioning option: the class's __versioned__ wins, the value given to
    make_versioned() is the fallback (computed from what the harness configured, not through the package)."""
    vo = getattr(cls, '__versioned__', {})
    if name in vo:
        return list(vo[name])
    return list((env.opts or {}).get(name, []))


# ------------------------------------------------------------------ reflection of the configuration
def reflect_cfg(env, cfg):
    """Class configuration as the model needs it, read off the real mappers (fail-closed)."""
    import sqlalchemy as sa
    out = []
    for part in model_classes(env):
        ci, cls = part['py'], part['cls']
        m = sa.inspect(cls)
        colkeys = part['colkeys']
        versioned = hasattr(cls, '__versioned__')
        vo = getattr(cls, '__versioned__', {})
        def is_excl(key):
            return effective_excluded(env, cls, key)
        cols = [dict(key=k, pk=part['pkcols'][i], excl=is_excl(k), here=part['here'][i]) for i, k in enumerate(colkeys)]
        rels = []
        for rk, r in m.relationships.items():
            if rk in ('versions', 'version_parent', 'transaction'):
                continue
            local = []
            for c in r.local_columns:
                for i, k in enumerate(colkeys):
                    if any(col is c for col in m.get_property(k).columns):
                        local.append(i)
            rels.append(dict(key=rk, dir=r.direction.name, local=sorted(local), excl=is_excl(rk)))
        strategy = vo.get('strategy', env.manager.options['strategy']) if versioned else 'subquery'
        validity = (strategy == 'validity')
        # joined-table hierarchies: the predecessor is looked up in the base table of the hierarchy only
        # (update_version_validity); the part of a class in a child table never closes anything itself, and closing
        # the predecessor closes its rows in the child tables of the hierarchy too
        base_table = m.base_mapper.local_table
        also = []
        if validity and versioned:
            if part['table'] is not base_table:
                validity = False
            else:
                for p2 in model_classes(env):
                    if sa.inspect(p2['cls']).base_mapper is m.base_mapper and p2['table'] is not base_table \
                            and p2['tab'] is not None and p2['tab'] not in also:
                        also.append(p2['tab'])
        out.append(dict(name=cls.__name__, py=ci, versioned=versioned, validity=validity,
                        tab=part['tab'], cols=cols, rels=rels, also=sorted(also)))
    if cfg.get('activity'):
        # pending Activity objects make the session count as modified (ActivityPlugin.is_session_modified):
        # they are recorded as objects of a pseudo class that has no columns and never gets events
        out.append(dict(name='Activity', versioned=True, validity=False, tab=len(out), cols=[], rels=[]))
    return out


def g_cfg(cfg, ccfg):
    def gcol(c):
        return '(mkcol %s %s %s)' % (gbool(c['pk']), gbool(c['excl']), gbool(c.get('here', True)))

    def grel(r):
        return '(mkrel %s %s %s)' % ({'MANYTOONE': 'M2O', 'ONETOMANY': 'O2M', 'MANYTOMANY': 'M2M'}[r['dir']],
                                     glist(r['local'], gnat), gbool(r['excl']))

    def gcls(k):
        if k.get('also'):
            return '(mkcls7 %s %s %s %s %s %s)' % (gbool(k['versioned']), gbool(k['validity']), gZ(k['tab']),
                                                   glist(k['cols'], gcol), glist(k['rels'], grel), glist(k['also'], gZ))
        return '(mkcls %s %s %s %s %s)' % (gbool(k['versioned']), gbool(k['validity']), gZ(k['tab']),
                                           glist(k['cols'], gcol), glist(k['rels'], grel))
    return '(mkcfg %s %s %s %s %s %s)' % (
        gbool(cfg.get('versioning', True)), gbool(False), gbool(cfg.get('null_delete', False)),
        gbool(cfg.get('tracker', False)), gbool(cfg.get('changes', False)), glist(ccfg, gcls))


# ------------------------------------------------------------------ program generator
def gen_program(rng, cfg, n_ops=None, weights=None):
    """A list of user-level ops. Mostly valid; the tracker `exists` is only a guide."""
    shape = cfg['shape']
    ops = []
    n = n_ops or rng.randint(6, 22)
    exists = {}       # (cls, key) -> True
    pending_tx_ops = 0
    if shape == 'blog':
        classes = [0, 1, 2, 3]
        keypool = {0: [1, 2], 1: [1, 2, 3], 2: [1, 2], 3: [1, 2]}
        if rng.random() < 0.3:
            # a falsy primary key is a key like any other
            keypool = {0: [0, 2], 1: [0, 2, 3], 2: [1, 0], 3: [1, 2]}
    elif shape == 'own':
        classes = [0, 1]
        keypool = {0: [1, 2], 1: [1, 2, 3]}
    elif shape == 'dup':
        classes = [0, 1, 1, 2]
        keypool = {0: [1, 2], 1: [1, 2], 2: [1, 2]}
    elif shape == 'inh':
        # one key space (item.id) for the whole hierarchy, but a key is never reused by ANOTHER class: closing the
        # predecessor closes every table of the predecessor's class, which the per-table model does not follow
        # one key space (item.id) for the whole hierarchy; a key may come back as ANOTHER class in a later
        # transaction, never within the transaction that deleted it (the model does not express a class change
        # inside one transaction; that case is covered by twin-run corpus cases of C07)
        classes = [0, 1, 1, 2]
        keypool = {0: [1, 2, 3], 1: [1, 2, 3, 4], 2: [1, 2, 5]}
    else:
        classes = [0, 1]
        keypool = {0: [[1, 1], [1, 2], [2, 1]], 1: ['a', 'b']}
    links = set()
    gone_in_tx = {}
    committed = {}
    if cfg.get('manualtx') and rng.random() < 0.5:
        ops.append(['manualtx'])
    for _ in range(n):
        r = rng.random()
        c = rng.choice(classes if rng.random() < 0.8 else [0, 0, 1])
        key = rng.choice(keypool[c])
        if shape == 'inh':
            held = [c2 for (c2, k2) in exists if k2 == json.dumps(key)]
            if held:
                c = held[0]                      # the key is taken: operate on the class that holds it
            elif json.dumps(key) in gone_in_tx and gone_in_tx[json.dumps(key)] != c:
                c = gone_in_tx[json.dumps(key)]  # deleted in this transaction: only the same class may come back
        ek = (c, json.dumps(key))
        if r < 0.22:
            if ek not in exists or rng.random() < 0.07:
                ops.append(['add', c, key, gen_vals(rng, cfg, c)])
                exists[ek] = True
            else:
                ops.append(['set', c, key, gen_set(rng, cfg, c)])
        elif r < 0.50:
            if ek in exists or rng.random() < 0.05:
                ops.append(['set', c, key, gen_set(rng, cfg, c)])
            else:
                ops.append(['add', c, key, gen_vals(rng, cfg, c)])
                exists[ek] = True
        elif r < 0.60:
            if ek in exists or rng.random() < 0.05:
                ops.append(['del', c, key])
                exists.pop(ek, None)
                gone_in_tx[json.dumps(key)] = c
        elif r < 0.72 and shape == 'inh':
            if rng.random() < 0.5:
                ops.append(['forget'])
            elif ek in exists:
                # load through the base class (child columns unloaded), then delete
                ops.append(['delbase', c, key])
                exists.pop(ek, None)
                gone_in_tx[json.dumps(key)] = c
        elif r < 0.72 and shape == 'own':
            if rng.random() < 0.6:
                p_, o_ = rng.choice(keypool[1]), rng.choice(keypool[0] + [None])
                if (1, json.dumps(p_)) in exists and (o_ is None or (0, json.dumps(o_)) in exists):
                    ops.append(['petto', p_, o_])
            else:
                ops.append(['forget'])
        elif r < 0.72 and shape == 'blog':
            kind = rng.choice(['link', 'unlink', 'tagto', 'tagto', 'note', 'tagappend'])
            if kind in ('link', 'unlink'):
                a, l = rng.choice(keypool[0]), rng.choice(keypool[2])
                if (0, json.dumps(a)) in exists and (2, json.dumps(l)) in exists:
                    if (a, l) in links:
                        ops.append(['unlink', a, l])
                        links.discard((a, l))
                    else:
                        ops.append(['link', a, l])
                        links.add((a, l))
            elif kind == 'tagto':
                t = rng.choice(keypool[1])
                a = rng.choice(keypool[0] + [None])
                if (1, json.dumps(t)) in exists and (a is None or (0, json.dumps(a)) in exists):
                    ops.append(['tagto', t, a])
            elif kind == 'tagappend':
                t, a = rng.choice(keypool[1]), rng.choice(keypool[0])
                if (1, json.dumps(t)) in exists and (0, json.dumps(a)) in exists:
                    ops.append(['tagappend', a, t])
            else:
                nk, a = rng.choice(keypool[3]), rng.choice(keypool[0])
                if (3, json.dumps(nk)) in exists and (0, json.dumps(a)) in exists:
                    ops.append(['noteto', nk, a])
        elif r < 0.84:
            ops.append(['flush'])
        elif r < 0.94:
            ops.append(['commit'])
            gone_in_tx = {}
            committed = dict(exists)
        elif r < 0.97:
            ops.append(['rollback'])
            # the guide is reset; later ops may hit absent keys (malformed stream). In a hierarchy the guide goes back
            # to the committed state instead: with one key space for all classes a reset guide would make the
            # program re-use the key of a committed entity for another class
            exists = dict(committed) if shape == 'inh' else {}
            links = set()
            gone_in_tx = {}
        else:
            ops.append(['query', c])
    ops.append(['commit'])
    return ops


def gen_vals(rng, cfg, c):
    if cfg['shape'] == 'blog':
        names = {0: ['a', 'b', 'x'], 1: ['a'], 2: ['a'], 3: ['a']}[c]
    elif cfg['shape'] == 'own':
        names = ['a']
    elif cfg['shape'] == 'inh':
        names = {0: ['a'], 1: ['a', 'pages'], 2: ['a', 'tracks']}[c] + (['x', 'x'] if cfg.get('base_excl') else [])
    elif cfg['shape'] == 'dup':
        names = ['a', 'b']
    else:
        names = {0: ['a', 'b'], 1: ['a', 'title']}[c]
    d = {}
    for nme in names:
        if rng.random() < 0.75:
            d[nme] = rng.choice(VALS)
    return d


def gen_set(rng, cfg, c):
    d = gen_vals(rng, cfg, c)
    if not d:
        d = {'a': rng.choice(VALS)}
    # keep it small: one or two attributes
    ks = list(d)
    rng.shuffle(ks)
    return {k: d[k] for k in ks[:rng.randint(1, 2)]}


# ------------------------------------------------------------------ runner / recorder
class Recorder(object):
    def __init__(self, env, cfg, session):
        import sqlalchemy as sa
        self.sa = sa
        self.env, self.cfg, self.session = env, cfg, session
        self.classes = env.classes
        self.cidx = {cls: i for i, cls in enumerate(env.classes)}
        self.colkeys, self.relkeys = [], []
        self.parts = model_classes(env)
        self.parts_of = {}
        for mi, part in enumerate(self.parts):
            self.parts_of.setdefault(part['py'], []).append(mi)
        for ci, cls in enumerate(env.classes):
            m = sa.inspect(cls)
            self.colkeys.append(self.parts[ci]['colkeys'])
            self.relkeys.append([k for k in m.relationships.keys()
                                 if k not in ('versions', 'version_parent', 'transaction')])
        self.nonver_keys = []
        for ci, cls in enumerate(env.classes):
            vo = getattr(cls, '__versioned__', None)
            if vo is None or not env.versioned:
                self.nonver_keys.append([k for k in self.colkeys[ci]
                                         if not any(c.primary_key for c in sa.inspect(cls).get_property(k).columns)])
            else:
                self.nonver_keys.append([k for k in self.colkeys[ci] if effective_excluded(env, cls, k)])
        self.assoc_idx = {t: i for i, t in enumerate(env.assoc)}
        # an association table is versioned - by CONFIGURATION, not by looking whether the package built a version
        # table for it - when some relationship that uses it belongs to a versioned class, points at a versioned
        # class, is not view-only and is not excluded for its class; statements on other association tables are no
        # events for the model (an excluded relationship has no counterpart in the version schema)
        self.assoc_versioned = set()
        for ci, cls in enumerate(env.classes):
            if not (env.versioned and hasattr(cls, '__versioned__')):
                continue
            for rk, r in sa.inspect(cls).relationships.items():
                if r.secondary is not None and r.secondary in self.assoc_idx and not r.viewonly \
                        and hasattr(r.mapper.class_, '__versioned__') and not effective_excluded(env, cls, rk):
                    self.assoc_versioned.add(self.assoc_idx[r.secondary])
        if not env.versioned:
            self.assoc_versioned = set(range(len(env.assoc)))
        # table handles are resolved once: they must survive remove_versioning()
        self.vtabs = {}
        if env.versioned:
            for mi, part in enumerate(self.parts):
                cls = part['cls']
                if hasattr(cls, '__versioned__'):
                    vname = env.manager.option(cls, 'table_name') % part['table'].name
                    vtb = [t for t in sa.inspect(env.version_class(cls)).tables if t.name == vname]
                    self.vtabs[mi] = (vtb[0] if vtb else env.version_class(cls).__table__,
                                      env.manager.option(cls, 'transaction_column_name'),
                                      env.manager.option(cls, 'end_transaction_column_name'))
        self.avtabs = {}
        for ai, tbl in enumerate(env.assoc):
            vname = (env.manager.options['table_name'] % tbl.name) if env.versioned else None
            if vname and vname in tbl.metadata.tables:
                self.avtabs[ai] = (tbl.metadata.tables[vname], env.manager.options['transaction_column_name'])
        self.tx_table = env.manager.transaction_cls.__table__ if env.versioned else None
        self.trace = []          # list of event dicts
        self.snaps = []
        self.cur = None
        self.raw_pending = []
        self._listeners = []
        self.attached = []
        self.install()

    # -- event plumbing
    def listen(self, target, name, fn, **kw):
        self.sa.event.listen(target, name, fn, **kw)
        self._listeners.append((target, name, fn))

    def install(self):
        s = self.session
        self.listen(s, 'before_flush', self.before_flush, insert=True)
        self.listen(s, 'after_flush', self.after_flush)
        self.listen(s, 'after_flush_postexec', self.after_flush_postexec)
        for cls in self.classes:
            for name, kind in (('after_insert', 0), ('after_update', 1), ('after_delete', 2)):
                self.listen(cls, name, self._mapper_listener(kind))
        self.listen(self.env.engine, 'before_execute', self.before_execute)

    def attach(self, other_session):
        """record the flushes of a second application session that works on the same connection"""
        self.attached.append(other_session)
        self.listen(other_session, 'before_flush', self.before_flush, insert=True)
        self.listen(other_session, 'after_flush', self.after_flush)
        self.listen(other_session, 'after_flush_postexec', self.after_flush_postexec)

    def remove(self):
        for target, name, fn in self._listeners:
            try:
                self.sa.event.remove(target, name, fn)
            except Exception:
                pass
        self._listeners = []

    def _flags(self, obj):
        ci = self.cidx[type(obj)]
        st = self.sa.inspect(obj)
        colchg = [bool(st.attrs[k].history.has_changes()) for k in self.colkeys[ci]]
        relchg = [bool(st.attrs[k].history.has_changes()) for k in self.relkeys[ci]]
        return ci, colchg, relchg

    def _blind(self, obj):
        ci = self.cidx[type(obj)]
        st = self.sa.inspect(obj)
        out = []
        for k in self.colkeys[ci]:
            h = st.attrs[k].history
            out.append(bool(h.added) and not h.deleted)
        return out

    def before_flush(self, session, ctx, instances):
        objs = []
        for o in list(session):
            if type(o) not in self.cidx:
                continue
            ci, colchg, relchg = self._flags(o)
            for mi in self.parts_of[ci]:
                objs.append(dict(cls=mi, colchg=colchg, relchg=relchg,
                                 new=o in session.new, deleted=o in session.deleted))
        act_cls = getattr(self.env.manager, 'activity_cls', None) if self.cfg.get('activity') else None
        if act_cls is not None:
            for o in list(session):
                if isinstance(o, act_cls):
                    objs.append(dict(cls=len(self.parts), colchg=[], relchg=[], new=o in session.new,
                                     deleted=o in session.deleted))
        self.cur = dict(ev='flush', objs=objs, ents=[], assoc=[], _pending=[])

    def _mapper_listener(self, kind):
        def fn(mapper, connection, target):
            if self.cur is None or type(target) not in self.cidx:
                return
            if not any(self.sa.orm.object_session(target) is x for x in [self.session] + self.attached):
                return
            ci, colchg, relchg = self._flags(target)
            st = self.sa.inspect(target)
            cstate = []
            for k in st.committed_state.keys():
                if k in self.colkeys[ci]:
                    cstate.append(self.colkeys[ci].index(k))
                elif k in self.relkeys[ci]:
                    cstate.append(len(self.colkeys[ci]) + self.relkeys[ci].index(k))
            self.cur['_pending'].append((target, dict(cls=ci, kind=kind, colchg=colchg, relchg=relchg,
                                                       cstate=sorted(cstate), blind=self._blind(target))))
        return fn

    def before_execute(self, conn, clauseelement, multiparams, params, execution_options):
        if isinstance(clauseelement, str):
            return
        if self.cur is None:
            tbl = getattr(clauseelement, 'table', None)
            if tbl is not None and tbl in self.assoc_idx and self.assoc_idx[tbl] in self.assoc_versioned and (
                    getattr(clauseelement, 'is_insert', False) or getattr(clauseelement, 'is_delete', False)):
                op = 0 if clauseelement.is_insert else 2
                mp = multiparams if multiparams else [params]
                if len(mp) == 1 and isinstance(mp[0], (list, tuple)):
                    mp = mp[0]
                try:
                    inline = dict(clauseelement.compile().params or {})
                except Exception:
                    inline = {}
                for p in mp:
                    vals = dict(inline)
                    vals.update(p or {})
                    if all(c.name in vals for c in tbl.c):
                        self.raw_pending.append(dict(ev='rawassoc', tab=self.assoc_idx[tbl],
                                                     key=[vals[c.name] for c in tbl.c], op=op))
            return
        tbl = getattr(clauseelement, 'table', None)
        if tbl is None or tbl not in self.assoc_idx or self.assoc_idx[tbl] not in self.assoc_versioned:
            return
        if clauseelement.is_insert:
            op = 0
        elif clauseelement.is_delete:
            op = 2
        else:
            return
        mp = multiparams if multiparams else [params]
        if len(mp) == 1 and isinstance(mp[0], (list, tuple)):
            mp = mp[0]
        for p in mp:
            self.cur['assoc'].append(dict(tab=self.assoc_idx[tbl], key=[p[c.name] for c in tbl.c], op=op))

    def after_flush(self, session, ctx):
        if self.cur is None:
            return
        self.env._suspend_fault = True      # statements issued by the recorder itself are not fault points
        try:
            self._after_flush(session, ctx)
        finally:
            self.env._suspend_fault = False

    def _after_flush(self, session, ctx):
        for target, ev in self.cur['_pending']:
            ci = ev['cls']
            vals = []
            st = self.sa.inspect(target)
            stored = {}
            if st.pending and st.unloaded:
                # an object flushed in this flush: the attributes it was never given are not on the object yet (they read
                # as None until the flush is over); their values are those of its row - NULL after an INSERT, the OLD
                # row's values after a row switch (delete + add of one key in one flush is an UPDATE of the given columns)
                m = st.mapper
                keys = [k for k in self.colkeys[ci] if k in st.unloaded]
                if keys:
                    crit = [c == v for c, v in zip(m.primary_key, m.primary_key_from_instance(target))]
                    row = session.connection().execute(
                        self.sa.select(*[m.get_property(k).columns[0] for k in keys]).select_from(m.selectable)
                        .where(self.sa.and_(*crit))).first()
                    if row is not None:
                        stored = dict(zip(keys, row))
            # columns the package never reads (excluded columns, columns of non-versioned classes): the event reports the
            # value the row holds after the flush.  (After a row switch SQLAlchemy leaves such attributes stale on the
            # object - None where the row kept the old value - until the object is expired.)
            nonver = self.nonver_keys[ci]
            if nonver and ev['kind'] != 2 and not st.deleted:
                m = st.mapper
                try:
                    crit = [c == v for c, v in zip(m.primary_key, m.primary_key_from_instance(target))]
                    row = session.connection().execute(
                        self.sa.select(*[m.get_property(k).columns[0] for k in nonver]).select_from(m.selectable)
                        .where(self.sa.and_(*crit))).first()
                    if row is not None:
                        stored.update(zip(nonver, row))
                except Exception:
                    pass
            for k in self.colkeys[ci]:
                if k in stored:
                    vals.append(stored[k])
                    continue
                try:
                    vals.append(getattr(target, k))
                except Exception:
                    vals.append(None)
            ev['vals'] = vals
            ev['indel'] = target in session.deleted
            ev['isnew'] = target in session.new
            for mi in self.parts_of[ci]:
                self.cur['ents'].append(dict(ev, cls=mi))
        self.cur.pop('_pending')

    def after_flush_postexec(self, session, ctx):
        if self.cur is None:
            return
        self.trace.append(self.cur)
        self.cur = None
        self.snaps.append(self.snapshot())
        if getattr(self, 'on_event', None):
            self.on_event(self, self.trace[-1])

    # -- snapshots
    def snapshot(self):
        self.env._suspend_fault = True
        try:
            return self._snapshot()
        finally:
            self.env._suspend_fault = False

    def _snapshot(self):
        sa = self.sa
        conn = self.session.connection()
        env = self.env
        live, vt = [], []
        for mi, part in enumerate(self.parts):
            ci, cls = part['py'], part['cls']
            m = sa.inspect(cls)
            # the entity's row over all tables of its mapper; rows of other classes of a hierarchy are filtered
            # out by the discriminator
            cols = [m.get_property(k).columns[0] for k in self.colkeys[ci]]
            q = sa.select(*cols).select_from(m.selectable)
            if m.polymorphic_on is not None:
                q = q.where(m.polymorphic_on == m.polymorphic_identity)
            for row in conn.execute(q):
                live.append(dict(cls=mi, vals=list(row)))
            if mi in self.vtabs:
                vtb, txc, endc = self.vtabs[mi]
                byname = {c.name: c for c in vtb.c}
                vq = sa.select(vtb)
                if m.polymorphic_on is not None and m.polymorphic_on.name in byname and \
                        part_column(part, m.get_property_by_column(m.polymorphic_on).key) is not None:
                    vq = vq.where(byname[m.polymorphic_on.name] == m.polymorphic_identity)
                for row in conn.execute(vq).mappings():
                    key, dat, mod = [], [], []
                    for k in self.colkeys[ci]:
                        col = part_column(part, k)
                        if col is None or col.name not in byname:
                            continue
                        if col.primary_key:
                            key.append(row[byname[col.name]])
                        else:
                            dat.append(row[byname[col.name]])
                            if (col.name + '_mod') in byname:
                                mod.append(bool(row[byname[col.name + '_mod']]))
                    vt.append(dict(tab=part['tab'], key=key, tx=row[byname[txc]],
                                   end=row[byname[endc]] if endc in byname else None,
                                   op=row[byname['operation_type']], dat=dat, mod=mod))
        av = []
        for ai, tbl in enumerate(env.assoc):
            if ai in self.avtabs:
                vtb, atxc = self.avtabs[ai]
                for row in conn.execute(sa.select(vtb)).mappings():
                    # rows of an association version table that must not exist (the relationship is excluded by
                    # configuration) are reported under table id 100 + i
                    av.append(dict(tab=ai if ai in self.assoc_versioned else 100 + ai,
                                   key=[row[c.name] for c in tbl.c], tx=row[atxc], op=row['operation_type']))
        alive = []
        for ai, tbl in enumerate(env.assoc):
            for row in conn.execute(sa.select(tbl)).mappings():
                alive.append(dict(tab=ai, key=[row[c.name] for c in tbl.c]))
        txs, chg = [], []
        if env.versioned:
            txs = sorted(r[0] for r in conn.execute(sa.select(self.tx_table.c.id)))
            if 'transaction_changes' in env.Base.metadata.tables:
                ct = env.Base.metadata.tables['transaction_changes']
                names = [c.__name__ for c in self.classes]
                for row in conn.execute(sa.select(ct)).mappings():
                    if names.count(row['entity_name']) > 1:
                        # several classes share the name (the plugin records __name__): the one row stands for every
                        # class of that name which has a version stamped with the transaction
                        for ci_, nm_ in enumerate(names):
                            if nm_ == row['entity_name']:
                                for mi in self.parts_of[ci_]:
                                    if any(v['tab'] == self.parts[mi]['tab'] and v['tx'] == row['transaction_id'] for v in vt):
                                        chg.append([row['transaction_id'], mi])
                    elif row['entity_name'] in names:
                        # one recorded name stands for every part (table) of the class
                        for mi in self.parts_of[names.index(row['entity_name'])]:
                            chg.append([row['transaction_id'], mi])
                    else:
                        chg.append([row['transaction_id'], 99])
        chg.sort()
        live.sort(key=lambda r: (r['cls'], json.dumps(r['vals'], default=str)))
        vt.sort(key=lambda r: (r['tab'], json.dumps(r['key'], default=str), r['tx']))
        av.sort(key=lambda r: (r['tab'], r['key'], r['tx']))
        alive.sort(key=lambda r: (r['tab'], r['key']))
        acts = []
        if env.versioned and self.cfg.get('activity') and 'activity' in env.Base.metadata.tables:
            at = env.Base.metadata.tables['activity']
            names = [c.__name__ for c in self.classes]
            for row in conn.execute(sa.select(at)).mappings():
                acts.append(dict(id=row['id'], tx=row['transaction_id'],
                                 ocls=names.index(row['object_type']) if row['object_type'] in names else None,
                                 oid=row['object_id'], otx=row['object_tx_id'],
                                 tcls=names.index(row['target_type']) if row['target_type'] in names else None,
                                 tid=row['target_id'], ttx=row['target_tx_id']))
            acts.sort(key=lambda a: a['id'])
        return dict(live=live, vt=vt, av=av, alive=alive, tx=txs, chg=chg, acts=acts,
                    uows=(len(env.manager.units_of_work) + len(getattr(env.manager, 'savepoints', {}))) if env.versioned else 0,
                    smap=len(env.manager.session_connection_map) if env.versioned else 0)


def coerce_key(env, c, key):
    return tuple(key) if isinstance(key, list) else key


def final_live(env, session):
    import sqlalchemy as sa
    conn = session.connection()
    out = []
    for ci, cls in enumerate(env.classes):
        for row in conn.execute(sa.select(cls.__table__)):
            out.append([ci] + [coerce_val(v) for v in row])
    for ai, tbl in enumerate(env.assoc):
        for row in conn.execute(sa.select(tbl)):
            out.append([100 + ai] + [coerce_val(v) for v in row])
    out.sort(key=lambda r: json.dumps(r, default=str))
    return out


class InjectedFault(Exception):
    pass


def run_program(env, cfg, prog, record=True, plain=False, fault=None, emulate_active_history=False):
    """Execute prog on the real code. Returns dict(trace, snaps, outcomes).
    fault = dict(first=i, last=j, n=k): while the ops i..j run, the k-th database statement raises;
    the application then rolls back and skips the rest of ops i..j."""
    import sqlalchemy as sa
    s = env.session()
    rec = Recorder(env, cfg, s) if record else None
    env._suspend_fault = False
    fstate = dict(armed=False, count=0, fired=False, statements=0)

    def _fault_listener(conn, cursor, statement, parameters, context, executemany):
        if not fstate['armed'] or getattr(env, '_suspend_fault', False):
            return
        fstate['statements'] += 1
        if fault is not None and fault.get('n') is not None and not fstate['fired']:
            if fstate['count'] == fault['n']:
                fstate['fired'] = True
                raise InjectedFault('injected failure at statement %d: %s' % (fault['n'], statement[:60]))
            fstate['count'] += 1
    if fault is not None:
        sa.event.listen(env.engine, 'before_cursor_execute', _fault_listener)
    sp_handles = []
    refs = {}
    outcomes = []
    kept_activities = []
    kept_tx = {}
    bystander = dict(engine=None, session=None, sps=[])
    added_tx = set()
    conn_rolled_back = False
    classes = env.classes

    gone = {}

    def lookup(c, key):
        rk = (c, json.dumps(key))
        o = refs.get(rk)
        if o is not None:
            return o
        o = s.get(classes[c], coerce_key(env, c, key))
        if o is not None and type(o) is not classes[c]:
            # a query through the base class of a hierarchy found an entity of ANOTHER class under this key: the
            # program names (class, key); that entity is not the one it means (operating on it would change the
            # class of a key within one flush - a row switch across classes, which the Layer-B model does not
            # express; class changes are exercised by the twin-run corpus cases of C07)
            return None
        if o is not None:
            refs[rk] = o
        return o

    def pkdict(c, key):
        cols = [col.key for col in sa.inspect(classes[c]).primary_key]
        m = sa.inspect(classes[c])
        keys = [m.get_property_by_column(col).key for col in sa.inspect(classes[c]).primary_key]
        return dict(zip(keys, key if isinstance(key, list) else [key]))

    def mark(ev):
        if rec:
            rec.trace.append(dict(ev=ev))
            rec.snaps.append(rec.snapshot())

    skip_until = -1
    fault_info = dict(reported=False, before=None, after_rb=None, statements=0)
    try:
        for opi, op in enumerate(prog):
            kind = op[0]
            if opi <= skip_until:
                outcomes.append('skipped-after-fault')
                continue
            if fault is not None:
                if opi == fault['first']:
                    fstate['armed'] = True
                    if rec:
                        fault_info['before'] = rec.snapshot()
                if opi > fault['last']:
                    fstate['armed'] = False
            try:
                if kind == 'add':
                    _, c, key, vals = op
                    if (c, json.dumps(key)) in added_tx:
                        # a second object with the same primary key added in one transaction: if both are still pending,
                        # which of the two SQLAlchemy keeps depends on set iteration order (not deterministic across
                        # processes) - not a meaningful program. Decided on the program text, not on flush timing.
                        outcomes.append('skip')
                        continue
                    added_tx.add((c, json.dumps(key)))
                    o = classes[c](**pkdict(c, key), **vals)
                    s.add(o)
                    refs[(c, json.dumps(key))] = o
                elif kind == 'set':
                    _, c, key, vals = op
                    o = lookup(c, key)
                    if o is None:
                        outcomes.append('skip')
                        continue
                    if emulate_active_history and s.autoflush and any(k in sa.inspect(o).unloaded for k in vals):
                        # what active_history does in the versioned run: assigning an unloaded attribute loads the old
                        # value first, and that load autoflushes (used only to ATTRIBUTE a twin difference to the
                        # known finding F-C07-active-history-autoflush)
                        s.flush()
                    for k, v in vals.items():
                        setattr(o, k, v)
                elif kind == 'del':
                    _, c, key = op
                    o = lookup(c, key)
                    if o is None:
                        outcomes.append('skip')
                        continue
                    s.delete(o)
                    refs.pop((c, json.dumps(key)), None)
                    gone[(c, json.dumps(key))] = o          # the application may keep the reference (activities)
                    added_tx.discard((c, json.dumps(key)))
                elif kind == 'delbase':
                    # ['delbase', cls, key]: the object is loaded through the base class of its hierarchy (the columns
                    # of the child table are not loaded), then deleted
                    _, c, key = op
                    held = refs.pop((c, json.dumps(key)), None)
                    if held is not None and held in s and held not in s.new and not s.is_modified(held):
                        s.expunge(held)         # a clean, fully loaded object: drop it so that the base-class load is partial
                    base = sa.inspect(classes[c]).base_mapper.class_
                    o = s.get(base, coerce_key(env, c, key))
                    if o is None or type(o) is not classes[c]:
                        # absent, or an entity of ANOTHER class of the hierarchy under this key (see lookup)
                        outcomes.append('skip')
                        continue
                    s.delete(o)
                elif kind in ('link', 'unlink', 'link_rev', 'unlink_rev'):
                    a, l = lookup(0, op[1]), lookup(2, op[2])
                    if a is None or l is None:
                        outcomes.append('skip')
                        continue
                    if kind == 'link':
                        if l not in a.labels:
                            a.labels.append(l)
                    elif kind == 'unlink':
                        if l in a.labels:
                            a.labels.remove(l)
                    elif kind == 'link_rev':
                        if a not in l.articles:
                            l.articles.append(a)
                    else:
                        if a in l.articles:
                            l.articles.remove(a)
                elif kind == 'setlinks':
                    a = lookup(0, op[1])
                    ls = [lookup(2, x) for x in op[2]]
                    if a is None or any(x is None for x in ls):
                        outcomes.append('skip')
                        continue
                    a.labels = ls
                elif kind == 'tagto':
                    t = lookup(1, op[1])
                    a = lookup(0, op[2]) if op[2] is not None else None
                    if t is None or (op[2] is not None and a is None):
                        outcomes.append('skip')
                        continue
                    t.article = a
                elif kind == 'petto':
                    p_ = lookup(1, op[1])
                    o_ = lookup(0, op[2]) if op[2] is not None else None
                    if p_ is None or (op[2] is not None and o_ is None):
                        outcomes.append('skip')
                        continue
                    p_.owner = o_
                elif kind == 'forget':
                    # drop the application's references and the identity map (objects will be reloaded)
                    s.expunge_all()
                    refs.clear()
                elif kind == 'tagappend':
                    a, t = lookup(0, op[1]), lookup(1, op[2])
                    if a is None or t is None:
                        outcomes.append('skip')
                        continue
                    if t not in a.tags:
                        a.tags.append(t)
                elif kind == 'noteto':
                    nt, a = lookup(3, op[1]), lookup(0, op[2])
                    if nt is None or a is None:
                        outcomes.append('skip')
                        continue
                    a.notes.append(nt)
                elif kind == 'bulkdel':
                    # ['bulkdel', cls, key]: the row is removed behind the session's back (bulk DELETE without
                    # synchronisation); the object stays in the session, expired after the next commit
                    s.query(classes[op[1]]).filter_by(**pkdict(op[1], op[2])).delete(synchronize_session=False)
                elif kind == 'rawpartial':
                    # ['rawpartial', article]: a Core DELETE on the association table that names only ONE of its
                    # columns (all links of an article): the package cannot identify the rows and leaves the statement
                    # alone (twin-only histories: what matters is that the application's statement runs)
                    tbl = env.assoc[0]
                    s.execute(tbl.delete().where(tbl.c.article_id == sa.bindparam('article_id')), {'article_id': op[1]})
                elif kind in ('rawlink', 'rawunlink', 'rawlink_inline', 'rawlink_mixed'):
                    tbl = env.assoc[0]
                    if kind == 'rawlink_mixed':
                        # one column inline, the other as an execution parameter
                        s.execute(tbl.insert().values(article_id=op[1]), [{'label_id': op[2]}])
                    elif kind == 'rawlink_inline':
                        s.execute(tbl.insert().values(article_id=op[1], label_id=op[2]))
                    elif kind == 'rawlink':
                        s.execute(tbl.insert(), {'article_id': op[1], 'label_id': op[2]})
                    else:
                        s.execute(tbl.delete().where(sa.and_(tbl.c.article_id == sa.bindparam('article_id'),
                                                             tbl.c.label_id == sa.bindparam('label_id'))),
                                  {'article_id': op[1], 'label_id': op[2]})
                    if rec and rec.raw_pending:
                        for ev in rec.raw_pending:
                            rec.trace.append(ev)
                            rec.snaps.append(rec.snapshot())
                        rec.raw_pending = []
                elif kind == 'revert':
                    # ['revert', cls, key, tx, [relation names]]
                    V = env.version_class(classes[op[1]])
                    txc = env.manager.option(classes[op[1]], 'transaction_column_name')
                    vobj = s.query(V).filter(V.id == op[2], getattr(V, txc) == op[3]).one()
                    vobj.revert(relations=list(op[4]))
                    refs.clear()
                elif kind == 'activity':
                    # ['activity', verb, [cls, key], [cls, key] | None]; the application keeps the reference
                    Act = env.manager.activity_cls
                    o = lookup(op[2][0], op[2][1]) or gone.get((op[2][0], json.dumps(op[2][1])))
                    t = (lookup(op[3][0], op[3][1]) or gone.get((op[3][0], json.dumps(op[3][1])))) if op[3] else None
                    if o is None or (op[3] and t is None):
                        outcomes.append('skip')
                        continue
                    a = Act(verb=op[1], object=o)
                    if t is not None:
                        a.target = t
                    s.add(a)
                    kept_activities.append(a)
                elif kind == 'actset':
                    # ['actset', i, verb]: edit an attribute of an activity the application still holds
                    if not kept_activities:
                        outcomes.append('skip')
                        continue
                    kept_activities[op[1] % len(kept_activities)].verb = op[2]
                elif kind == 'conn_rollback':
                    # the transaction of the underlying connection is rolled back from outside the session
                    if rec:
                        rec.cur = None
                    env.connection.rollback()
                    conn_rolled_back = True
                elif kind == 'close':
                    active = s.in_transaction() or conn_rolled_back
                    if rec:
                        rec.cur = None
                    s.close()
                    refs.clear()
                    added_tx.clear()
                    sp_handles[:] = []
                    conn_rolled_back = False
                    if active:
                        mark('rollback')
                elif kind == 'sp_begin':
                    sp_handles.append(s.begin_nested())
                    mark('spbegin')
                elif kind == 'sp_rollback':
                    if not sp_handles:
                        outcomes.append('skip')
                        continue
                    sp_handles.pop().rollback()
                    refs.clear()
                    mark('sprollback')
                elif kind == 'sp_fail':
                    # ['sp_fail', newkey, notekey]: inside the innermost open savepoint a new Article and a Note that
                    # refers to it under an EXISTING note key are added and flushed: the Article is inserted (and its
                    # operation recorded), then the Note's INSERT fails. The application rolls the savepoint back (what
                    # `with session.begin_nested():` does for it when the exception leaves the block) and goes on with the transaction.
                    if not sp_handles:
                        outcomes.append('skip')
                        continue
                    a_ = classes[0](id=op[1], a=1)
                    n_ = classes[3](id=op[2], a=0)
                    n_.article = a_
                    sp_ = sp_handles.pop()
                    try:
                        if len(op) > 3 and op[3] == 'explicit':
                            # try / except with an explicit rollback of the savepoint (the insert-or-skip loop)
                            try:
                                s.add_all([a_, n_])
                                s.flush()
                            except sa.exc.IntegrityError:
                                sp_.rollback()
                                raise
                            sp_.commit()
                        else:
                            with sp_:                 # the savepoint as context manager, as in the documentation
                                s.add_all([a_, n_])
                                s.flush()
                        outcomes.append('flushed')
                        mark('sprelease')
                    except sa.exc.IntegrityError:
                        outcomes.append('flush-failed')
                        if rec:
                            rec.cur = None
                        refs.clear()
                        mark('sprollback')
                    continue
                elif kind == 'sp_release':
                    if not sp_handles:
                        outcomes.append('skip')
                        continue
                    sp_handles.pop().commit()
                    mark('sprelease')
                elif kind == 'flush':
                    s.flush()
                elif kind == 'flushonly':
                    # ['flushonly', cls, key]: session.flush([obj]) - a flush restricted to one object; everything else
                    # that is pending (other entities, activities) stays pending, but before_flush sees the whole session
                    o = lookup(op[1], op[2])
                    if o is None:
                        outcomes.append('skip')
                        continue
                    s.flush([o])
                elif kind == 'query':
                    s.query(classes[op[1]]).all()
                elif kind == 'helper':
                    # ['helper', notekey]: a second application session on the SAME connection, inside the running
                    # database transaction, adds a (non-versioned) Note and is committed - it only joined the
                    # transaction, nothing is committed in the database - and closed
                    h_ = sa.orm.Session(bind=s.connection(), autoflush=False)
                    if rec:
                        rec.attach(h_)
                    try:
                        h_.add(classes[3](id=op[1], a=1))
                        h_.commit()
                    finally:
                        h_.close()
                elif kind == 'by':
                    # ['by', 'begin' | 'rollback' | 'release']: ANOTHER session of the process, on a database of its own,
                    # opens / rolls back / releases a savepoint; it writes nothing.  The manager is shared.
                    if bystander['session'] is None:
                        bystander['engine'] = sa.create_engine('sqlite://')
                        bystander['session'] = sa.orm.Session(bind=bystander['engine'].connect(), autoflush=False)
                    if op[1] == 'begin':
                        bystander['sps'].append(bystander['session'].begin_nested())
                    elif bystander['sps']:
                        h_ = bystander['sps'].pop()
                        (h_.rollback if op[1] == 'rollback' else h_.commit)()
                elif kind == 'vswitch':
                    # the manager-level switch options['versioning'] (documented as the way to turn versioning off for a
                    # while); the configuration of the Layer-B model is fixed per run, so histories using it are judged on
                    # the observations only
                    if env.versioned and not plain:
                        env.manager.options['versioning'] = bool(op[1])
                elif kind == 'readnames':
                    # the application looks at the record of the running transaction (entity_names / changed_entities)
                    # between two flushes and keeps the object
                    if env.versioned and not plain:
                        uow_ = env.manager.units_of_work.get(s.connection())
                        tx_ = getattr(uow_, 'current_transaction', None) if uow_ is not None else None
                        if tx_ is not None and tx_.id is not None:
                            try:
                                list(tx_.entity_names)
                            except Exception:
                                pass
                            kept_tx[tx_.id] = tx_
                elif kind == 'commit':
                    s.commit()
                    added_tx.clear()
                    mark('commit')
                elif kind == 'rollback':
                    if rec:
                        rec.cur = None
                    s.rollback()
                    refs.clear()
                    added_tx.clear()
                    mark('rollback')
                elif kind == 'manualtx':
                    if env.versioned:
                        uow = env.manager.unit_of_work(s)
                        uow.create_transaction(s)
                        mark('manualtx')
                outcomes.append('ok')
            except Exception as e:       # the application sees an error: it rolls back
                outcomes.append('error:' + type(e).__name__)
                if rec:
                    rec.cur = None
                s.rollback()
                refs.clear()
                added_tx.clear()
                sp_handles[:] = []
                mark('rollback')
                if isinstance(e, InjectedFault) or 'InjectedFault' in repr(e) or (fault is not None and fstate['fired'] and not fault_info['reported']):
                    fault_info['reported'] = True
                    fstate['armed'] = False
                    if rec:
                        fault_info['after_rb'] = rec.snaps[-1]
                    skip_until = fault['last']
            if kind in ('commit', 'rollback'):
                sp_handles[:] = []
            if fault is not None and opi >= fault['last']:
                fstate['armed'] = False
        fstate['armed'] = False
        fl = None
        try:
            s.rollback()
            fl = final_live(env, s)
            s.rollback()
        except Exception as e:
            fl = 'error: %s' % type(e).__name__
        fault_info['statements'] = fstate['statements']
        fault_info['fired'] = fstate['fired']
        act_problem = None
        if rec and env.versioned and cfg.get('activity') and getattr(env.manager, 'activity_cls', None) is not None:
            # the generic relationships object_version / target_version of every activity have to resolve to the version
            # the pointer columns name (class, key, transaction id), and to nothing when the pointer is NULL
            s3 = env.session()
            try:
                Act = env.manager.activity_cls
                names = {c.__name__: c for c in classes if hasattr(c, '__versioned__')}
                for a in s3.query(Act).order_by(Act.id).all():
                    for side in ('object', 'target'):
                        tname, oid, otx = getattr(a, side + '_type'), getattr(a, side + '_id'), getattr(a, side + '_tx_id')
                        if tname is None:
                            continue      # no object / target at all (reading <side>_version then raises TypeError
                                          # in the package: None + 'Version' - outside the property, not judged)
                        v = getattr(a, side + '_version')
                        if otx is None or tname not in names:
                            if v is not None and otx is None:
                                act_problem = 'activity %s: %s_version resolves although %s_tx_id is NULL' % (a.id, side, side)
                            continue
                        V = env.version_class(names[tname])
                        txc = env.manager.option(names[tname], 'transaction_column_name')
                        if v is None or type(v) is not V or v.id != oid or getattr(v, txc) != otx:
                            act_problem = 'activity %s: %s_version is %r, the pointer says %s %s at transaction %s' % (
                                a.id, side, v, tname, oid, otx)
            except Exception as e:
                act_problem = 'reading object_version / target_version: %s: %s' % (type(e).__name__, str(e)[:200])
            finally:
                s3.close()
        if act_problem is None and rec and env.versioned and cfg.get('shape') == 'inh':
            # single-table inheritance: a version row of class C holds no value in a column of the shared table that C
            # does not map (the row of a key that changed class must not keep the columns of the class it had)
            for mi, part in enumerate(rec.parts):
                if mi not in rec.vtabs:
                    continue
                vtb, txc, endc = rec.vtabs[mi]
                m = sa.inspect(part['cls'])
                if m.polymorphic_on is None or m.polymorphic_on.name not in vtb.c:
                    continue
                own = {part_column(part, k).name for k in rec.colkeys[part['py']] if part_column(part, k) is not None}
                foreign = [c for c in vtb.c if c.name not in own and c.name not in (txc, endc, 'operation_type')
                           and not c.name.endswith('_mod')]
                if not foreign:
                    continue
                q = sa.select(vtb).where(vtb.c[m.polymorphic_on.name] == m.polymorphic_identity)
                for row in env.connection.execute(q).mappings():
                    bad = [c.name for c in foreign if row[c.name] is not None]
                    if bad:
                        act_problem = 'version row of %s (transaction %s) holds a value in column %s, which the class does not have' % (
                            part['cls'].__name__, row[txc], bad[0])
        if act_problem is None and rec and env.versioned:
            # an excluded column has no counterpart in the version table: neither the column nor a modification flag
            for mi, part in enumerate(rec.parts):
                if mi not in rec.vtabs:
                    continue
                vtb = rec.vtabs[mi][0]
                for k in rec.colkeys[part['py']]:
                    col = part_column(part, k)
                    if col is None or not effective_excluded(env, part['cls'], k):
                        continue
                    for nm_ in (col.name, col.name + '_mod', k, k + '_mod'):
                        if nm_ in vtb.c:
                            act_problem = 'excluded column %s.%s has a counterpart %s in the version table' % (
                                part['cls'].__name__, k, nm_)
        if act_problem is None and rec and env.versioned and cfg.get('check_changesets'):
            # version.changeset = the column-wise difference to the preceding version, over ALL mapped columns of the
            # class (for a joined-table subclass: those of the parent tables too)
            s3 = env.session()
            try:
                for cls in classes:
                    if not hasattr(cls, '__versioned__') or not env.manager.option(cls, 'versioning'):
                        continue
                    V = env.version_class(cls)
                    # the mapped columns of the VERSION class (a single-table base class maps the whole shared table, the
                    # columns of its subclasses included) without the internal and the flag columns
                    internal = [env.manager.option(cls, o_) for o_ in ('transaction_column_name', 'end_transaction_column_name',
                                                                     'operation_type_column_name')]
                    keys = [k for k in sa.inspect(V).columns.keys() if k not in internal and not k.endswith('_mod')]
                    for v in s3.query(V).all():
                        if type(v) is not V:
                            continue
                        prev = v.previous
                        exp = {}
                        for k in keys:
                            old = getattr(prev, k) if prev is not None else None
                            if old != getattr(v, k):
                                exp[k] = [old, getattr(v, k)]
                        got = {k: list(x) for k, x in v.changeset.items()}
                        if got != exp and act_problem is None:
                            act_problem = 'changeset of %s %r is %r, the difference to the preceding version is %r' % (
                                V.__name__, sa.inspect(v).identity, got, exp)
            finally:
                s3.close()
        if act_problem is None and rec and env.versioned and cfg.get('txargs'):
            # every transaction record carries the attribute the plugin supplied
            txt = env.manager.transaction_cls.__table__
            for row in env.connection.execute(sa.select(txt.c.id, txt.c.remote_addr).order_by(txt.c.id)):
                if row[1] != TXARG:
                    act_problem = 'transaction record %s lacks the plugin-supplied attribute (remote_addr = %r)' % (row[0], row[1])
        ce = None
        if rec and env.versioned and cfg.get('read_changed_entities'):
            # the real Transaction.changed_entities of every record, through a fresh session on the same connection
            ce = []
            s2 = env.session()
            try:
                Tx = env.manager.transaction_cls
                vmap = {env.version_class(c): i for i, c in enumerate(classes) if hasattr(c, '__versioned__')}
                for tx in s2.query(Tx).order_by(Tx.id).all():
                    if tx.id in kept_tx and sa.orm.object_session(kept_tx[tx.id]) is not None:
                        tx = kept_tx[tx.id]          # the record object the application looked at earlier and still holds
                    for vcls, objs in tx.changed_entities.items():
                        if vcls in vmap:
                            m = sa.inspect(classes[vmap[vcls]])
                            keys = [m.get_property_by_column(col).key for col in m.primary_key]
                            for o in objs:
                                ce.append([tx.id, vmap[vcls], [getattr(o, k) for k in keys]])
            finally:
                s2.close()
        return dict(trace=rec.trace if rec else [], snaps=rec.snaps if rec else [], outcomes=outcomes, changed_entities=ce,
                    ccfg=reflect_cfg(env, cfg) if not plain else [], exc=act_problem, final_live=fl, fault=fault_info)
    except Exception as e:               # harness-level failure
        import traceback
        return dict(trace=[], snaps=[], outcomes=outcomes, ccfg=[], final_live=None, exc='%s: %s\n%s' % (
            type(e).__name__, str(e)[:200], traceback.format_exc()[-800:]))
    finally:
        if fault is not None:
            try:
                sa.event.remove(env.engine, 'before_cursor_execute', _fault_listener)
            except Exception:
                pass
        if rec:
            rec.remove()
        try:
            s.close()
        except Exception:
            pass
        if bystander['session'] is not None:
            try:
                bystander['session'].close()
                bystander['session'].bind.close()
                bystander['engine'].dispose()
            except Exception:
                pass


def cfg_key(cfg):
    return json.dumps(cfg, sort_keys=True)


def _worker(chunk):
    cfg, items = chunk
    out = {}
    with E.Env(options=options_for(cfg), plugins=plugins_for(cfg), build=SHAPES[cfg['shape']](cfg),
               autoflush=cfg.get('autoflush', False)) as env:
        for idx, prog in items:
            # clean database between programs
            conn = env.connection
            env.Base.metadata.drop_all(conn)
            env.Base.metadata.create_all(conn)
            conn.commit()
            out[idx] = run_program(env, cfg, prog)
    if cfg.get('twin', True):
        # the same programs on an identical model set WITHOUT versioning (C07 / C10)
        with E.Env(build=SHAPES[cfg['shape']](cfg), versioned=False,
                   autoflush=cfg.get('autoflush', False)) as env:
            for idx, prog in items:
                conn = env.connection
                env.Base.metadata.drop_all(conn)
                env.Base.metadata.create_all(conn)
                conn.commit()
                r = run_program(env, cfg, prog, record=False, plain=True)
                out[idx]['plain_outcomes'] = r['outcomes']
                out[idx]['plain_live'] = r['final_live']
                out[idx]['plain_exc'] = r['exc']
                if cfg.get('autoflush') and twin_diffs(out[idx]) != (0, False):
                    # attribution experiment: the unversioned twin again, flushing where active_history would autoflush
                    conn = env.connection
                    env.Base.metadata.drop_all(conn)
                    env.Base.metadata.create_all(conn)
                    conn.commit()
                    r = run_program(env, cfg, prog, record=False, plain=True, emulate_active_history=True)
                    out[idx]['plain_ah_outcomes'] = r['outcomes']
                    out[idx]['plain_ah_live'] = r['final_live']
    return [(idx, o) for idx, o in out.items()]


def run_impl(cases):
    groups = {}
    for i, c in enumerate(cases):
        groups.setdefault(cfg_key(c['cfg']), []).append((i, c['prog']))
    chunks = []
    for k, items in groups.items():
        step = max(1, (len(items) + 1) // 2) if len(groups) >= 8 else max(1, (len(items) + 3) // 4)
        for s in range(0, len(items), step):
            chunks.append((json.loads(k), items[s:s + step]))
    res = [None] * len(cases)
    for part in E.pmap(_worker, chunks):
        for idx, o in part:
            res[idx] = o
    return res


# ------------------------------------------------------------------ Gallina encoding
def coerce_val(v):
    if v is None or isinstance(v, int):
        return v
    if isinstance(v, str):      # string keys: injective code (base-256 of utf-8) — only equality matters
        n = 0
        for b in v.encode('utf-8'):
            n = n * 256 + b + 1
        return n
    return 999999


def g_ent(e):
    return '(mkev %s %s %s %s %s %s %s %s %s)' % (
        gnat(e['cls']), gZ(e['kind']), glist([coerce_val(v) for v in e['vals']], gopt),
        glist(e['colchg'], gbool), glist(e['relchg'], gbool), glist(e['cstate'], gnat),
        gbool(e['indel']), gbool(e['isnew']), glist(e['blind'], gbool))


def g_obj(o):
    return '(mkobj %s %s %s %s %s)' % (gnat(o['cls']), glist(o['colchg'], gbool), glist(o['relchg'], gbool),
                                       gbool(o['new']), gbool(o['deleted']))


def g_assoc(a):
    return '(mkas %s %s %s)' % (gZ(a['tab']), glist(a['key']), gZ(a['op']))


def g_event(ev):
    if ev['ev'] == 'flush':
        return '(Flush %s %s %s)' % (glist(ev['objs'], g_obj), glist(ev['ents'], g_ent), glist(ev['assoc'], g_assoc))
    if ev['ev'] == 'rawassoc':
        return '(RawAssoc %s)' % g_assoc(ev)
    if ev['ev'] in ('spbegin', 'sprollback', 'sprelease'):
        raise ValueError('savepoint events need g_mevent')
    return {'commit': 'Commit', 'rollback': 'Rollback', 'manualtx': 'ManualTx'}[ev['ev']]


def g_mevent(ev):
    if ev['ev'] == 'spbegin':
        return 'SpBegin'
    if ev['ev'] == 'sprollback':
        return 'SpRollback'
    if ev['ev'] == 'sprelease':
        return 'SpRelease'
    return '(MCore %s)' % g_event(ev)


def g_snap(sn, ccfg):
    def glive(r):
        cols = ccfg[r['cls']]['cols']
        vals = [coerce_val(v) for v in r['vals']]
        key = [v for v, c in zip(vals, cols) if c['pk']]
        return '(mkl %s %s %s)' % (gnat(r['cls']), glist(key), glist(vals, gopt))

    def gv(r):
        return '(mkv %s %s %s %s %s %s)' % (
            glist([r['tab']] + [coerce_val(v) for v in r['key']]), gZ(r['tx']), gopt(r['end']), gZ(r['op']),
            glist([coerce_val(v) for v in r['dat']], gopt), glist(r['mod'], gbool))

    def ga(r):
        return '(mka %s %s %s %s)' % (gZ(r['tab']), glist(r['key']), gZ(r['tx']), gZ(r['op']))
    def gact(a):
        def ref(c, i, t):
            if c is None or i is None:
                return 'None'
            return '(Some (%s, %s, %s))' % (gnat(c), gZ(i), gopt(t))
        return '(mkact %s %s %s %s)' % (gZ(a['id']), gopt(a['tx']), ref(a['ocls'], a['oid'], a['otx']),
                                        ref(a['tcls'], a['tid'], a['ttx']))
    return '(mksnap %s %s %s %s %s %s %s %s)' % (
        glist(sn['live'], glive), glist(sn['vt'], gv), glist(sn['av'], ga),
        glist(sn['alive'], lambda r: '(%s, %s)' % (gZ(r['tab']), glist(r['key']))),
        glist(sn['tx']), glist(sn['chg'], lambda c: '(%s, %s)' % (gZ(c[0]), gnat(c[1]))),
        gnat(sn['uows'] + sn['smap']), glist(sn.get('acts', []), gact))


def twin_diffs(obs):
    """(ops whose outcome differs between the versioned and the plain run, final live tables differ?)"""
    if 'plain_outcomes' not in obs:
        return 0, False
    a, b = obs['outcomes'], obs['plain_outcomes']

    def norm(o):
        return 'error' if o.startswith('error') else o
    n = sum(1 for x, y in zip(a, b) if norm(x) != norm(y)) + abs(len(a) - len(b))
    return n, obs.get('final_live') != obs.get('plain_live')


def encode_case(case, obs):
    if obs['exc'] is not None or obs.get('plain_exc') is not None:
        return '(mkcase (mkcfg true false false false false []) [] [] true 0 false None)'
    n, livediff = twin_diffs(obs)
    ce = obs.get('changed_entities')
    gce = 'None' if ce is None else '(Some %s)' % glist(
        ce, lambda x: '(%s, %s, %s)' % (gZ(x[0]), gnat(x[1]), glist([coerce_val(v) for v in x[2]])))
    return '(mkcase %s %s %s false %s %s %s)' % (
        g_cfg(case['cfg'], obs['ccfg']), glist(obs['trace'], g_event),
        glist(obs['snaps'], lambda s: g_snap(s, obs['ccfg'])), gnat(n), gbool(livediff), gce)
