"""C01 — every committed change is captured faithfully, and only real changes are."""
import corebase as B
from corebase import CHECK_MODS, CASE_TYPE, CORR, run_impl, encode, shrink  # noqa: F401

PROP = 'C01'
PROPCHK = 'C01_prop_strict'
RELAX = [('F-C01-row-switch', 'C01_prop_switch')]
RELAX_ALL = 'C01_prop_switch'
THEOREMS = ['C01_newest_version_equals_live_row', 'C01_flush_step', 'C01_rows_only_for_tracked_changes', 'C01_example']
RULE = ('seeded user programs (add / set incl. same-value and NULL / delete / re-add of a deleted key / link / unlink / '
        're-point / flush / commit / rollback / query-autoflush) over the blog shape (flat keys, relationships, excluded '
        'column) and the composite- and string-key shape with an aliased column and class-level option overrides, both '
        'strategies, every plugin subset, autoflush on/off; after every commit the live tables and all version tables are '
        'compared: newest version of every live entity = its live row and not a DELETE, newest version of every removed '
        'entity is a DELETE with its last values (NULLs under NullDelete), rows written by the transaction = exactly the '
        'entities that really changed. Non-trivial: >= 2 commits and (key reuse or NULL set or >= 2 flushes).')
ASSUMPTIONS = B.COMMON_ASSUMPTIONS + [
    'joined / single-table inheritance shapes and expunge are not generated yet (flat classes only)']


def budget(tier):
    return 400 if tier == 'quick' else 5000


def gen_cases(rng, n, tier):
    return B.gen_cases_default(rng, n, tier)


def corpus():
    inh = dict(shape='inh', strategy='validity', changes=False, tracker=False, null_delete=False, autoflush=False)
    return [
        # single-table inheritance: a base-class object is updated first, then a subclass object in a column that
        # only the subclass has (two flushes, and one flush)
        dict(cfg=inh, prog=[['add', 0, 1, {'a': 1}], ['add', 2, 2, {'a': 1, 'tracks': 1}], ['commit'], ['set', 0, 1, {'a': 2}],
                            ['flush'], ['set', 2, 2, {'tracks': 5}], ['commit'], ['set', 0, 1, {'a': 3}],
                            ['set', 2, 2, {'tracks': None}], ['commit']]),
        # an inherited attribute of an expired subclass instance assigned the value it has (also NULL to NULL): no version
        dict(cfg=inh, prog=[['add', 1, 1, {'a': 1, 'pages': 1}], ['add', 2, 2, {'a': None, 'tracks': 1}], ['commit'],
                            ['set', 1, 1, {'a': 1}], ['commit'], ['set', 2, 2, {'a': None}], ['commit'],
                            ['set', 1, 1, {'a': 1}], ['set', 1, 1, {'pages': 2}], ['commit']]),
        dict(cfg=dict(inh, strategy='subquery'),
             prog=[['add', 0, 1, {'a': 1}], ['add', 2, 2, {'a': 1, 'tracks': 1}], ['commit'], ['set', 0, 1, {'a': 2}],
                   ['flush'], ['set', 2, 2, {'tracks': 5}], ['commit']]),
        dict(cfg=dict(shape='own', strategy='validity'),
             prog=[['add', 0, 1, {'a': 1}], ['add', 1, 1, {'a': 1}], ['petto', 1, 1], ['commit'], ['forget'], ['del', 0, 1], ['commit']]),
        dict(cfg=dict(shape='blog', strategy='validity', defaults=True, null_delete=True),
             prog=[['add', 0, 1, {'a': 1, 'b': 2}], ['add', 1, 1, {'a': 1}], ['commit'], ['set', 0, 1, {'b': None}],
                   ['set', 1, 1, {'a': None}], ['commit'], ['del', 0, 1], ['commit']]),
        dict(cfg=dict(shape='blog', strategy='validity'),
             prog=[['add', 0, 1, {'a': 1, 'x': 1}], ['add', 1, 1, {'a': 0}], ['commit'], ['set', 0, 1, {'x': 2}],
                   ['tagappend', 1, 1], ['commit']]),
        dict(cfg=dict(shape='blog', strategy='subquery', null_delete=True),
             prog=[['add', 0, 1, {'a': 1}], ['commit'], ['del', 0, 1], ['commit'], ['add', 0, 1, {'a': None}], ['commit'],
                   ['set', 0, 1, {'a': None}], ['commit']]),
    ]


classify_corr = B.classify_corr
nontrivial = B.nontrivial_default
features = B.features_counted
describe = B.describe_short
