"""C08 — versions / previous / next / index describe one consistent ordering."""
import json

import env as E
import tables as T
from framework import gZ, gnat, gopt, glist, gbool, gpair

PROP = 'C08'
CHECK_MODS = ['Model.VTable', 'Checks.C08chk']
CASE_TYPE = 'C08_case'
CORR, PROPCHK, PRE = 'C08_corr', 'C08_prop', 'C08_pre'
THEOREMS = ['C08_versions_members', 'C08_versions_sorted', 'C08_subquery_strategy',
            'C08_validity_strategy', 'C08_hyps_satisfiable']
RULE = ('random version tables (1-4 entities, flat or composite keys, transaction ids drawn from 1..14 and '
        'interleaved, default/custom column names, both strategies; validity tables carry a consistent chain) '
        'are loaded into the real version table with Core INSERTs; parent.versions, and index/next/previous of '
        'every version object are read through the ORM; every fourth case is end to end: a random write program '
        '(2-3 keys, several keys per transaction, deletes and re-creations) is run through the real ORM and the '
        'accessors are read on the table it left, with no chain hypothesis. Non-trivial: >= 2 entities whose transaction ids '
        'interleave and some entity with >= 3 versions. Distinct: by hash of the canonical input.')
ASSUMPTIONS = ['the version table primary key (parent key, transaction id) is enforced by the database (pk_unique)',
               'validity-strategy navigation is claimed for tables satisfying the validity chain (C03 provides it)']


def budget(tier):
    return 320 if tier == 'quick' else 4000


def gen_prog(rng, cfg):
    """A write program for the real ORM: transactions of add / set / del over 2-3 keys (several keys per transaction,
    interleaved afterwards, deleted and re-created keys); a last transaction re-creates every key left deleted, so
    that every key of the table has a live parent whose `versions` can be read."""
    keys = []
    while len(keys) < rng.choice([2, 3, 3]):
        k = T.gen_key(rng, cfg)
        if k not in keys:
            keys.append(k)
    live, prog = set(), []
    for _ in range(rng.randint(3, 7)):
        tx = []
        for i in rng.sample(range(len(keys)), rng.choice([1, 1, 2, 2, len(keys)])):
            dat = [rng.choice([None, 0, 1, 2, 3]), rng.choice([None, 0, 1, 2, 3])]
            if i not in live:
                tx.append(['add', keys[i], dat]); live.add(i)
            elif rng.random() < 0.2:
                tx.append(['del', keys[i]]); live.discard(i)
            else:
                tx.append(['set', keys[i], dat])
                if rng.random() < 0.3:
                    # the same entity written by two flushes of one transaction
                    tx += [['flush'], ['set', keys[i], [rng.choice([4, 5]), dat[1]]]]
        prog.append(tx)
    last = [['add', keys[i], [0, 0]] for i in range(len(keys)) if i not in live]
    if last:
        prog.append(last)
    return prog


def gen_cases(rng, n, tier):
    out = []
    for i in range(n):
        cfg = T.CFGS[i % len(T.CFGS)]
        if i % 4 == 3:
            # end to end: the table is WRITTEN by the code (no chain hypothesis: the write path has to provide it)
            out.append(dict(cfg=cfg, prog=gen_prog(rng, cfg)))
        else:
            out.append(dict(cfg=cfg, rows=T.gen_table(rng, cfg)))
    return out


def corpus():
    c = T.CFGS[0]
    v = dict(strategy='validity', keyshape='int', names='default')
    rows = [dict(key=[1], tx=1, end=None, op=0, dat=[1, 1]), dict(key=[2], tx=2, end=None, op=0, dat=[1, 1]),
            dict(key=[1], tx=3, end=None, op=1, dat=[2, 1]), dict(key=[2], tx=4, end=None, op=1, dat=[1, 2]),
            dict(key=[1], tx=5, end=None, op=1, dat=[0, 1])]
    rows_v = json.loads(json.dumps(rows))
    T.fill_chain(rows_v)
    # two keys versioned in one transaction, the first again later, then the second (a predecessor search that is
    # not restricted to the key re-closes the first key's row)
    prog = [[['add', [1], [1, 1]], ['add', [2], [1, 1]]], [['set', [1], [2, 1]]], [['set', [2], [1, 2]]],
            [['set', [1], [3, 1]]]]
    return [dict(cfg=c, rows=rows), dict(cfg=v, rows=rows_v), dict(cfg=v, prog=prog), dict(cfg=c, prog=prog)]


def _write(env, cfg, prog, keep=None):
    """Run a write program through the real ORM on emptied tables; returns the version table it left.
    keep = (session, list): the program runs in that session, which stays open; after every transaction the
    application looks at the accessors of every version and keeps the version objects (they are read again at the end)."""
    import sqlalchemy as sa
    Article = env.Article
    kc = T.keycols(cfg)
    conn = env.connection
    conn.execute(env.version_class(Article).__table__.delete())
    conn.execute(Article.__table__.delete())
    conn.commit()
    s = keep[0] if keep else env.session()
    V = env.version_class(Article)
    try:
        for tx in prog:
            for op in tx:
                if op[0] == 'flush':
                    s.flush()
                    continue
                ident = tuple(op[1]) if len(op[1]) > 1 else op[1][0]
                if op[0] == 'add':
                    o = Article(**dict(zip(kc, op[1])))
                    o.a, o.b = op[2]
                    s.add(o)
                elif op[0] == 'set':
                    o = s.get(Article, ident)
                    o.a, o.b = op[2]
                else:
                    s.delete(s.get(Article, ident))
            s.commit()
            if keep:
                for v in s.query(V).all():
                    v.next, v.previous, v.index
                    if not any(v is o for o in keep[1]):
                        keep[1].append(v)
    finally:
        if not keep:
            s.close()
    return T.read_rows(env, cfg)


def _observe(env, cfg, rows, prog=None):
    import sqlalchemy as sa
    keep = None
    if prog is not None:
        # half of the end-to-end cases read the accessors in the SAME session that wrote, after every transaction, and
        # hold on to the version objects: the final answers come from objects first looked at in an earlier state
        keep = (env.session(), []) if len(prog) % 2 else None
        try:
            rows = _write(env, cfg, prog, keep)
        except Exception as e:
            if keep:
                keep[0].close()
            return dict(vers=[], rows=[], exc='write: %s: %s' % (type(e).__name__, str(e)[:200]), tbl=[])
    else:
        T.load_rows(env, cfg, rows)
    tbl = rows
    txc, endc = T.colnames(cfg)
    kc = T.keycols(cfg)
    Article = env.Article
    V = env.version_class(Article)
    s = keep[0] if keep else env.session()
    try:
        vers = []
        for parent in s.query(Article).all():
            key = [getattr(parent, c) for c in kc]
            vers.append([key, [getattr(v, txc) for v in parent.versions.all()]])
        vers.sort()
        orows = []
        for v in s.query(V).all():
            nx, pv = v.next, v.previous
            key = [getattr(v, c) for c in kc]
            orows.append(dict(key=key, tx=getattr(v, txc), index=v.index,
                              next=None if nx is None else getattr(nx, txc),
                              prev=None if pv is None else getattr(pv, txc),
                              # a neighbour has to be a version of the same entity, not just carry the right id
                              same=all(o is None or [getattr(o, c) for c in kc] == key for o in (nx, pv))))
        orows.sort(key=lambda o: (o['key'], o['tx']))
        return dict(vers=vers, rows=orows, exc=None, tbl=tbl)
    except Exception as e:   # the accessors must not raise
        return dict(vers=[], rows=[], exc='%s: %s' % (type(e).__name__, str(e)[:200]), tbl=tbl)
    finally:
        s.close()


def _worker(chunk):
    cfg, items = chunk
    out = []
    with E.Env(options=T.cfg_options(cfg), build=T.build_article(cfg)) as env:
        for idx, rows, prog in items:
            out.append((idx, _observe(env, cfg, rows, prog)))
    return out


def run_impl(cases):
    groups = {}
    for i, c in enumerate(cases):
        groups.setdefault(json.dumps(c['cfg'], sort_keys=True), []).append((i, c.get('rows'), c.get('prog')))
    chunks = []
    for k, items in groups.items():
        cfg = json.loads(k)
        step = max(1, (len(items) + 1) // 2)
        for s in range(0, len(items), step):
            chunks.append((cfg, items[s:s + step]))
    res = [None] * len(cases)
    for part in E.pmap(_worker, chunks):
        for idx, o in part:
            res[idx] = o
    return res


def encode(case, obs):
    vers = glist(obs['vers'], lambda kv: gpair(glist(kv[0]), glist(kv[1])))
    rows = glist(obs['rows'], lambda o: '{| or_key := %s; or_tx := %s; or_index := %s; or_next := %s; or_prev := %s; or_same := %s |}' % (
        glist(o['key']), gZ(o['tx']), gnat(o['index']), gopt(o['next']), gopt(o['prev']), gbool(o['same'])))
    return '{| c8_validity := %s; c8_e2e := %s; c8_tbl := %s; c8_vers := %s; c8_rows := %s; c8_exc := %s |}' % (
        gbool(case['cfg']['strategy'] == 'validity'), gbool('prog' in case), T.gtable(obs['tbl']), vers, rows,
        gbool(obs['exc'] is not None))


def nontrivial(case, obs):
    by = {}
    for r in obs['tbl']:
        by.setdefault(tuple(r['key']), []).append(r['tx'])
    if len(by) < 2 or max(len(v) for v in by.values()) < 3:
        return False
    ks = list(by)
    for i in range(len(ks)):
        for j in range(i + 1, len(ks)):
            a, b = by[ks[i]], by[ks[j]]
            if min(a) < max(b) and min(b) < max(a):
                return True
    return False


def features(case, obs):
    f = ['strategy=' + case['cfg']['strategy'], 'key=' + case['cfg']['keyshape'], 'names=' + case['cfg']['names'],
         'rows=%d' % min(len(obs['tbl']), 12), 'written_by_code' if 'prog' in case else 'loaded']
    if obs['exc']:
        f.append('exception')
    return f


def shrink(case):
    out = []
    if 'prog' in case:
        p = case['prog']
        for i in range(len(p)):
            if len(p) > 1:
                out.append(dict(cfg=case['cfg'], prog=p[:i] + p[i + 1:]))
        return [c for c in out if _prog_ok(c['prog'])]
    for rows in T.shrink_rows(case['rows']):
        if case['cfg']['strategy'] == 'validity':
            T.fill_chain(rows)
        out.append(dict(cfg=case['cfg'], rows=rows))
    return out


def _prog_ok(prog):
    live = set()
    for tx in prog:
        for op in tx:
            if op[0] == 'flush':
                continue
            k = tuple(op[1])
            if (op[0] == 'add') == (k in live):
                return False
            live.add(k) if op[0] == 'add' else (live.discard(k) if op[0] == 'del' else None)
    return True


def describe(case, obs):
    return dict(cfg=case['cfg'], write_program=case.get('prog'), version_table_rows=obs['tbl'], observed=obs)
