"""C14 — generated native triggers version rows like the object-based path (partial: no PostgreSQL here)."""
import json

import env as E
import pgparse
from framework import gZ, gbool, glist, gopt, gpair

PROP = 'C14'
CHECK_MODS = ['Model.Trigger', 'Checks.C14chk']
CASE_TYPE = 'C14_case'
CORR, PROPCHK = 'C14_corr', 'C14_prop'
PRE = 'C14_pre'
THEOREMS = ['C14_columns_and_values_aligned', 'C14_every_versioned_column_written', 'C14_excluded_array_exact',
            'C14_nothing_without_transaction', 'C14_nothing_for_noop_update', 'C14_partial_first_insert',
            'C14_partial_first_update', 'C14_partial_first_delete', 'C14_trigger_program_equals_object_path',
            'C14_one_event', 'C14_hypotheses_decidable', 'C14_full_example', 'C14_example']
RULE = ('(P) random model configurations (1-6 columns, a third of them mapped under another attribute name, 1-2 key columns, excluded subsets, validity on/off, tracker on/off, '
        'custom column / table names, schema) are built on the real code; the text of CreateTriggerFunctionSQL.for_manager is '
        'parsed by a fail-closed parser into the trigger AST and compared structurally with the model generator; the PARSED '
        'program is then executed (texec) on random row-event sequences grouped into transactions (several events per row '
        'and transaction; events without an active transaction; updates touching only excluded columns) and compared with the '
        'object path; the generated SQL statements are also EXECUTED by SQLite on the real version table for the same events '
        '(CTE upsert run as UPDATE-then-INSERT, NEW/OLD as bind parameters) and the resulting table compared with texec. (S) sync_trigger is run through a stub session on SQLite-created tables and the excluded ARRAY it emits '
        'is compared with the configured excluded set. Non-trivial: >= 3 columns, an excluded column, >= 3 events on >= 2 rows.')
ASSUMPTIONS = ['PARTIAL: PostgreSQL is not available; texec is a hand-written semantics of the generated statement forms, validated on '
               'every run against SQLite executing the generated statements (differences between SQLite and PostgreSQL on these '
               'statement forms, and the PL/pgSQL control flow / hstore guard, remain trusted)']


def budget(tier):
    return 200 if tier == 'quick' else 2500


def gen_cfg(rng):
    npk = rng.choice([1, 1, 2])
    cols = [dict(name='k%d' % j, pk=True, excl=False) for j in range(npk)]
    for j in range(rng.randint(1, 5)):
        # a third of the columns are mapped under another attribute name (exclusion is configured by ATTRIBUTE name,
        # the trigger works with COLUMN names)
        aliased = rng.random() < 0.33
        cols.append(dict(name='c%d' % j + ('_col' if aliased else ''), key='c%d' % j, pk=False, excl=rng.random() < 0.3))
    custom = rng.random() < 0.4
    return dict(cols=cols, validity=rng.random() < 0.5, tracker=rng.random() < 0.5,
                names=(['tx_id', 'end_tx_id', 'op_type'] if custom else ['transaction_id', 'end_transaction_id', 'operation_type']),
                table_fmt=rng.choice(['%s_version', '%s_history']), schema=rng.choice([None, None, 'other']))


def gen_events(rng, cfg):
    rows = {}
    evs = []
    tx = 0
    for _ in range(rng.randint(2, 5)):
        tx += 1
        active = rng.random() < 0.85
        touched = set()
        for _ in range(rng.randint(1, 4)):
            key = tuple(rng.randint(1, 2) for c in cfg['cols'] if c['pk'])
            touched.add(key)           # several events on one row within one transaction are allowed
            if key not in rows:
                new = {c['name']: (key[i] if c['pk'] else rng.choice([None, 0, 1, 2]))
                       for i, c in enumerate(cfg['cols'])}
                # key values by position among pk columns
                ki = 0
                for c in cfg['cols']:
                    if c['pk']:
                        new[c['name']] = key[ki]
                        ki += 1
                rows[key] = new
                evs.append(dict(tx=tx if active else None, kind='ins', new=dict(new)))
            elif rng.random() < 0.25:
                evs.append(dict(tx=tx if active else None, kind='del', old=dict(rows[key])))
                del rows[key]
            else:
                old = dict(rows[key])
                new = dict(old)
                mode = rng.random()
                for c in cfg['cols']:
                    if c['pk']:
                        continue
                    if mode < 0.25 and not c['excl']:
                        continue          # only excluded columns change
                    if rng.random() < 0.6:
                        new[c['name']] = rng.choice([None, 0, 1, 2])
                rows[key] = new
                evs.append(dict(tx=tx if active else None, kind='upd', old=old, new=dict(new)))
    return evs


def gen_cases(rng, n, tier):
    out = []
    for i in range(n):
        cfg = gen_cfg(rng)
        if i % 8 == 7:
            out.append(dict(kind='S', cfg=dict(cfg, schema=None, table_fmt='%s_version')))
        else:
            out.append(dict(kind='P', cfg=cfg, evs=gen_events(rng, cfg)))
    return out


def corpus():
    c1 = dict(cols=[dict(name='k0', pk=True, excl=False), dict(name='c0', pk=False, excl=False)], validity=True, tracker=False,
              names=['transaction_id', 'end_transaction_id', 'operation_type'], table_fmt='%s_version', schema=None)
    c2 = dict(c1, validity=False, tracker=True)
    return [dict(kind='P', cfg=c1, repeated='validity', evs=[dict(tx=5, kind='ins', new={'k0': 7, 'c0': 1}),
                                                          dict(tx=5, kind='upd', old={'k0': 7, 'c0': 1}, new={'k0': 7, 'c0': 2})]),
            dict(kind='P', cfg=c2, repeated='delete', evs=[dict(tx=5, kind='upd', old={'k0': 7, 'c0': 1}, new={'k0': 7, 'c0': 2}),
                                                        dict(tx=5, kind='del', old={'k0': 7, 'c0': 2})])]


def make_build(cfg):
    import sqlalchemy as sa

    def build(env, Base, opts):
        vo = dict(opts)
        vo['exclude'] = [c.get('key', c['name']) for c in cfg['cols'] if c['excl']]
        attrs = {'__tablename__': 'm', '__versioned__': vo,
                 '__table_args__': ({'schema': cfg['schema']} if cfg['schema'] else {})}
        for c in cfg['cols']:
            attrs[c.get('key', c['name'])] = sa.Column(c['name'], sa.Integer, primary_key=c['pk'], autoincrement=False)
        env.target = type('M', (Base,), attrs)
    return build


class StubSession(object):
    def __init__(self, conn):
        self.conn = conn
        self.sql = []

    def connection(self):
        return self.conn

    def execute(self, stmt, *a, **k):
        self.sql.append(str(stmt))


def to_sqlite(fragment):
    """the generated statement with the trigger's row variables turned into bind parameters"""
    import re
    fragment = re.sub(r'NEW\."(\w+)"', r':new_\1', fragment)
    fragment = re.sub(r'OLD\."(\w+)"', r':old_\1', fragment)
    fragment = fragment.replace('transaction_id_value', ':txid')
    return fragment.replace('IS DISTINCT FROM', 'IS NOT')


def sqlite_execute(env, cfg, text, prog, evs):
    """A second semantics of the generated trigger program: its SQL statements are EXECUTED by SQLite on the real
    version table (the data-modifying CTE is run as UPDATE, then INSERT when no row was hit; NEW/OLD/transaction id
    become bind parameters; IS DISTINCT FROM -> IS NOT).  The PL/pgSQL control flow around them (no active
    transaction -> return; hstore no-op guard; TG_OP dispatch) is interpreted here from the parsed program."""
    import re
    import sqlalchemy as sa
    arms = pgparse.raw_arms(text)
    conn = env.connection
    vcls = env.version_class(env.target)
    vt = vcls.__table__
    conn.execute(vt.delete())
    names = [c['name'] for c in cfg['cols']]

    def run(sql, old, new, txid):
        sql = to_sqlite(sql)
        params = {'txid': txid}
        for n in names:
            params['old_' + n] = (old or {}).get(n)
            params['new_' + n] = (new or {}).get(n)
        wanted = set(re.findall(r':(\w+)', sql))
        return conn.execute(sa.text(sql), {k: params.get(k) for k in wanted})
    for e in evs:
        if e['tx'] is None:
            continue
        old, new = e.get('old'), e.get('new')
        if e['kind'] == 'upd':
            if all(old[n] == new[n] for n in names if n not in prog['excluded']):
                continue
        arm = arms[{'ins': 'ins', 'upd': 'upd', 'del': 'delete'}[e['kind']]]
        for v in arm['validity']:
            run(v, old, new, e['tx'])
        if run(arm['update'], old, new, e['tx']).rowcount == 0:
            run(arm['insert'], old, new, e['tx'])
    txc, endc, opc = cfg['names']
    out = []
    byname = {c.name: c for c in vt.c}          # by COLUMN name (a column mapped under another attribute name has another key)
    for row in conn.execute(sa.select(vt)).mappings():
        dat = [[c['name'], row[byname[c['name']]]] for c in cfg['cols'] if c['name'] in byname]
        mod = [[c['name'], bool(row[byname[c['name'] + '_mod']])] for c in cfg['cols'] if (c['name'] + '_mod') in byname]
        out.append(dict(tx=row[byname[txc]], end=row[byname[endc]] if endc in byname else None, op=row[byname[opc]], dat=dat, mod=mod))
    conn.execute(vt.delete())
    conn.commit()
    return out


def _observe(case):
    cfg = case['cfg']
    from sqlalchemy_continuum.plugins import PropertyModTrackerPlugin
    from sqlalchemy_continuum.dialects.postgresql import CreateTriggerFunctionSQL, sync_trigger
    opts = {'strategy': 'validity' if cfg['validity'] else 'subquery', 'table_name': cfg['table_fmt'],
            'transaction_column_name': cfg['names'][0], 'end_transaction_column_name': cfg['names'][1],
            'operation_type_column_name': cfg['names'][2]}
    plugins = [PropertyModTrackerPlugin()] if cfg['tracker'] else []
    try:
        with E.Env(options=opts, plugins=plugins, build=make_build(cfg), attach=(['other'] if cfg['schema'] else [])) as env:
            if case['kind'] == 'P':
                text = str(CreateTriggerFunctionSQL.for_manager(env.manager, env.target))
                vt = cfg['table_fmt'] % 'm'
                if cfg['schema']:
                    vt = '%s.%s' % (cfg['schema'], vt)
                expect = dict(proc='m_audit', vt=vt, txc=cfg['names'][0], endc=cfg['names'][1], opc=cfg['names'][2])
                try:
                    prog = pgparse.parse_function(text, expect)
                    executed = sqlite_execute(env, cfg, text, prog, case['evs'])
                    return dict(prog=prog, parse_error=None, exc=None, executed=executed)
                except pgparse.ParseError as e:
                    return dict(prog=None, parse_error=str(e)[:300], text=text[:3000], exc=None)
            else:
                stub = StubSession(env.connection)
                sync_trigger(stub, 'm_version', use_property_mod_tracking=cfg['tracker'])
                fn = [s for s in stub.sql if 'CREATE OR REPLACE FUNCTION' in s]
                import re
                m = re.search(r"ARRAY\[([^\]]*)\]::text\[\]", fn[0]) if fn else None
                if not m:
                    return dict(sync_excluded=None, exc=None)
                items = [x.strip().strip("'") for x in m.group(1).split(',') if x.strip()]
                return dict(sync_excluded=items, exc=None)
    except Exception as e:
        import traceback
        return dict(prog=None, sync_excluded=None, parse_error=None,
                    exc='%s: %s | %s' % (type(e).__name__, str(e)[:200], traceback.format_exc()[-500:]))


def _worker(chunk):
    return [(idx, _observe(case)) for idx, case in chunk]


def run_impl(cases):
    items = list(enumerate(cases))
    step = max(1, (len(items) + 15) // 16)
    chunks = [items[s:s + step] for s in range(0, len(items), step)]
    res = [None] * len(cases)
    for part in E.pmap(_worker, chunks):
        for idx, o in part:
            res[idx] = o
    return res


def encode(case, obs):
    cfg = case['cfg']
    code = {c['name']: i + 1 for i, c in enumerate(cfg['cols'])}

    def cn(name):
        if name not in code:
            code[name] = 900 + len(code)
        return gZ(code[name])
    g = '(mktcfg %s %s %s)' % (glist(cfg['cols'], lambda c: '(mktc %s %s %s)' % (cn(c['name']), gbool(c['pk']), gbool(c['excl']))),
                               gbool(cfg['tracker']), gbool(cfg['validity']))
    if case['kind'] == 'S':
        ex = obs.get('sync_excluded')
        return '(C14_S %s %s)' % (g, 'None' if ex is None else '(Some %s)' % glist(ex, cn))

    def gcrit(c):
        return gpair(cn(c[0]), c[1])

    def gups(u):
        def gu(x):
            return {'op1': lambda: 'UOp1', 'op2': lambda: 'UOp2', 'set': lambda: '(USet %s %s)' % (cn(x[1]), x[2]),
                    'modor': lambda: '(UModOr %s)' % cn(x[1]), 'modtrue': lambda: '(UModTrue %s)' % cn(x[1])}[x[0]]()

        def gc(x):
            return '(%s %s)' % ('CCol' if x[0] == 'col' else 'CMod', cn(x[1]))

        def gv(x):
            return {'true': lambda: 'VTrue', 'row': lambda: '(VRow %s %s)' % (x[1], cn(x[2])),
                    'distinct': lambda: '(VDistinct %s)' % cn(x[1])}[x[0]]()
        return '(mkups %s %s %s %s %s)' % (glist(u['update'], gu), glist(u['crit'], gcrit), glist(u['cols'], gc),
                                           gZ(u['optype']), glist(u['vals'], gv))

    def gval(v):
        return glist(v, lambda crit: '(mkval %s)' % glist(crit, gcrit))
    p = obs.get('prog')
    if p is None:
        prog = 'None'
    else:
        prog = '(Some (mkprog %s %s %s %s %s %s %s))' % (
            glist(p['excluded'], cn), gval(p['ins']['validity']), gups(p['ins']), gval(p['upd']['validity']), gups(p['upd']),
            gval(p['delete']['validity']), gups(p['delete']))

    def grow(r):
        return glist(sorted(r.items(), key=lambda kv: code[kv[0]]), lambda kv: gpair(cn(kv[0]), gopt(kv[1])))

    def gev(e):
        if e['kind'] == 'ins':
            ev = '(TIns %s)' % grow(e['new'])
        elif e['kind'] == 'upd':
            ev = '(TUpd %s %s)' % (grow(e['old']), grow(e['new']))
        else:
            ev = '(TDel %s)' % grow(e['old'])
        return gpair(gopt(e['tx']), ev)
    ex = obs.get('executed')
    if ex is None:
        executed = 'None'
    else:
        executed = '(Some %s)' % glist(ex, lambda r: '(mktr %s %s %s %s %s)' % (
            gZ(r['tx']), gopt(r['end']), gZ(r['op']), glist(r['dat'], lambda kv: gpair(cn(kv[0]), gopt(kv[1]))),
            glist(r['mod'], lambda kv: gpair(cn(kv[0]), gbool(kv[1])))))
    return '(C14_P %s %s %s %s)' % (g, prog, glist(case['evs'], gev), executed)


def nontrivial(case, obs):
    cfg = case['cfg']
    if case['kind'] == 'S':
        return any(c['excl'] for c in cfg['cols'])
    keys = set()
    for e in case['evs']:
        r = e.get('new') or e.get('old')
        keys.add(tuple(r[c['name']] for c in cfg['cols'] if c['pk']))
    return len(cfg['cols']) >= 3 and any(c['excl'] for c in cfg['cols']) and len(case['evs']) >= 3 and len(keys) >= 2


def features(case, obs):
    cfg = case['cfg']
    f = ['kind=' + case['kind'], 'validity=%s' % cfg['validity'], 'tracker=%s' % cfg['tracker'], 'schema=%s' % cfg['schema'],
         'fmt=' + cfg['table_fmt'], 'names=' + cfg['names'][0]]
    if obs.get('parse_error'):
        f.append('parse_error')
    if obs.get('exc'):
        f.append('exception')
    return f


def shrink(case):
    out = []
    if case['kind'] == 'P':
        for i in range(len(case['evs'])):
            c = json.loads(json.dumps(case))
            del c['evs'][i]
            out.append(c)
    return out


def describe(case, obs):
    return dict(case=case, observed={k: v for k, v in obs.items() if k != 'text'}, text=obs.get('text'))
