"""C18 — activities are stamped once and point at the as-of version."""
import corebase as B
import hist
from corebase import CASE_TYPE, run_impl, encode, shrink  # noqa: F401

PROP = 'C18'
CHECK_MODS = ['Model.Core', 'Checks.Corechk', 'Checks.CoreProps', 'Checks.C18chk']
CORR, PROPCHK = 'C18_corr', 'C18_prop'
THEOREMS = ['C18_pointer_is_as_of_version', 'C18_current_transaction_is_maximal',
            'C18_old_activities_create_no_record', 'C18_example']
RULE = ('histories over the blog shape with ActivityPlugin: entities are created / updated / deleted, their changes flushed, then '
        'activities about them (object and optionally target) are added and flushed in the same or a later transaction; the '
        'activity objects stay referenced by the application while the entity is later updated, deleted or left alone, and while '
        'transactions that touch only non-versioned classes or nothing are committed, and while the application edits an attribute (verb) of an activity it holds. After every flush / commit the activity table '
        'is read: first flush = current transaction id and pointers = newest version at or before it; committed activities '
        'never change; no transaction record without a versioned change. Non-trivial: an activity that survives >= 2 later '
        'transactions one of which changes its object.')
ASSUMPTIONS = B.COMMON_ASSUMPTIONS + ["activities are added after their object's changes were flushed (the property's premise)"]


def budget(tier):
    return 240 if tier == 'quick' else 3000


def gen_prog(rng):
    k2 = rng.choice([0, 0, 2])          # a falsy primary key is a key like any other
    prog = [['add', 0, 1, {'a': 1}], ['add', 0, k2, {'a': 1}], ['add', 1, 1, {'a': 0}], ['commit']]
    alive = {(0, 1), (0, k2), (1, 1)}
    for _ in range(rng.randint(4, 12)):
        r = rng.random()
        if r < 0.3 and alive:
            c, k = rng.choice(sorted(alive))
            prog.append(['set', c, k, {'a': rng.choice([0, 1, 2, None])}])
            prog.append(['flush'])
            if rng.random() < 0.7:
                tgt = rng.choice(sorted(alive)) if rng.random() < 0.4 else None
                prog.append(['activity', 'v', [c, k], list(tgt) if tgt else None])
        elif r < 0.45 and alive:
            c, k = rng.choice(sorted(alive))
            prog.append(['activity', 'v', [c, k], None])
        elif r < 0.55 and len(alive) > 1:
            c, k = rng.choice(sorted(alive))
            prog.append(['del', c, k])
            alive.discard((c, k))
            if rng.random() < 0.6:
                # an activity about the entity whose deletion is pending, flushed already, or committed earlier
                prog += rng.choice([[], [['flush']], [['flush']], [['commit']]])
                tgt = rng.choice(sorted(alive)) if alive and rng.random() < 0.3 else None
                if rng.random() < 0.7:
                    prog.append(['activity', 'delete', [c, k], list(tgt) if tgt else None])
                elif alive:
                    o2 = rng.choice(sorted(alive))
                    prog.append(['activity', 'untag', list(o2), [c, k]])
        elif r < 0.6 and len(alive) > 1:
            # an activity stays pending over flushes restricted to single objects (session.flush([obj])): first another
            # entity, then the activity's own object, which changed meanwhile; the activity is inserted by the commit
            (c, k), (c2, k2_) = rng.sample(sorted(alive), 2)
            prog += [['activity', 'v', [c, k], None], ['set', c2, k2_, {'a': rng.choice([3, 4])}], ['flushonly', c2, k2_]]
            if rng.random() < 0.7:
                prog += [['set', c, k, {'a': rng.choice([5, 6])}], ['flushonly', c, k]]
            prog.append(['commit'])
        elif r < 0.64:
            prog.append(['add', 3, rng.choice([1, 2]), {'a': rng.choice([0, 1])}])     # non-versioned only
        elif r < 0.7:
            # the application edits an attribute of an activity it still holds (possibly of an earlier transaction)
            prog.append(['actset', rng.randint(0, 5), 'w%d' % rng.randint(0, 3)])
        elif r < 0.77:
            prog.append(['flush'])
        else:
            prog.append(['commit'])
    prog.append(['commit'])
    prog += [['set', 3, 1, {'a': 2}], ['commit'], ['commit']]
    return prog


def gen_cases(rng, n, tier):
    cfgs = [dict(shape='blog', strategy=s, changes=c, autoflush=af, activity=True, twin=False)
            for s in ('validity', 'subquery') for c in (False, True) for af in (False, True)]
    return [dict(cfg=cfgs[i % len(cfgs)], prog=gen_prog(rng)) for i in range(n)]


def corpus():
    cfg = dict(shape='blog', strategy='validity', activity=True, twin=False)
    return [dict(cfg=cfg, prog=[['add', 0, 1, {'a': 1}], ['commit'], ['set', 0, 1, {'a': 2}], ['flush'],
                                ['activity', 'v', [0, 1], None], ['commit'], ['set', 0, 1, {'a': 0}], ['flush'],
                                ['actset', 0, 'w'], ['set', 0, 1, {'a': 1}], ['commit'], ['del', 0, 1], ['commit']]),
            dict(cfg=cfg, prog=[['add', 0, 1, {'a': 1}], ['flush'], ['activity', 'create', [0, 1], None], ['commit'],
                                ['set', 0, 1, {'a': 2}], ['commit'], ['add', 3, 1, {'a': 0}], ['commit']]),
            # an activity pending while restricted flushes write another entity and then a new version of its object
            dict(cfg=cfg, prog=[['add', 0, 1, {'a': 1}], ['add', 0, 2, {'a': 1}], ['commit'],
                                ['activity', 'edit', [0, 1], [0, 2]], ['set', 0, 2, {'a': 3}], ['flushonly', 0, 2],
                                ['set', 0, 1, {'a': 5}], ['flushonly', 0, 1], ['commit'], ['set', 0, 1, {'a': 6}], ['commit']]),
            # activities about an entity whose deletion was flushed earlier in the transaction / committed before
            dict(cfg=cfg, prog=[['add', 0, 1, {'a': 1}], ['add', 0, 2, {'a': 1}], ['commit'], ['del', 0, 1], ['flush'],
                                ['activity', 'delete', [0, 1], None], ['commit'],
                                ['activity', 'purge', [0, 1], None], ['activity', 'untag', [0, 2], [0, 1]], ['commit']])]


def nontrivial(case, obs):
    seen_act, later = False, 0
    for op in case['prog']:
        if op[0] == 'activity':
            seen_act = True
        elif op[0] == 'commit' and seen_act:
            later += 1
    return seen_act and later >= 3


features = B.features_counted
describe = B.describe_short

classify_corr = B.classify_corr
