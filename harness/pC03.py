"""C03 — validity intervals of an entity form one gap-free, open-ended chain."""
import corebase as B
from corebase import CHECK_MODS, CASE_TYPE, CORR, run_impl, encode, shrink  # noqa: F401

PROP = 'C03'
PROPCHK = 'C03_prop'
THEOREMS = ['C03_write_preserves_chain', 'C03_write_frames_others', 'C03_reachable_chain', 'C03_example']
RULE = ('seeded user programs under strategy=validity (blog shape with relationships, composite/string-key shape with an '
        'aliased column; class-level overrides of the transaction / end-transaction column names; all plugin subsets; autoflush on/off; key pools of 2-3 keys per class so that delete + re-insert in '
        'one and in several transactions, repeated flushes and interleaved entities are frequent) are run on the real code; '
        'after EVERY flush, commit and rollback all version tables are read and the chain predicate (end = least larger '
        'transaction id of the same key, NULL for the newest) is evaluated on them; the model is replayed on the recorded '
        'trace and compared step by step. Non-trivial: >= 2 commits and (key reuse or NULL set or >= 2 flushes).')
ASSUMPTIONS = B.COMMON_ASSUMPTIONS + [
    'joined-table inheritance (one entity, several version tables) is not in the modelled shapes yet: each table id is '
    'covered by the theorem separately, the correspondence exercises flat classes only']


def budget(tier):
    return 320 if tier == 'quick' else 4000


def gen_cases(rng, n, tier):
    cfgs = [c for c in B.all_cfgs('blog') + B.all_cfgs('comp')[::2] + B.all_cfgs('blog', dict(class_names=True))[::2]
            + B.all_cfgs('comp', dict(class_names=True))[::4] + [c for c in B.all_cfgs('inh') if not c['null_delete']]
            if c['strategy'] == 'validity']
    return B.gen_cases_default(rng, n, tier, cfgs=cfgs)


def corpus():
    return [dict(cfg=dict(shape='blog', strategy='validity'),
                 prog=[['add', 0, 1, {'a': 1}], ['add', 0, 2, {'a': 1}], ['commit'], ['set', 0, 1, {'a': 2}], ['flush'],
                       ['set', 0, 1, {'a': 0}], ['commit'], ['del', 0, 1], ['flush'], ['add', 0, 1, {'a': 5}], ['commit'],
                       ['del', 0, 1], ['commit'], ['add', 0, 1, {'a': 7}], ['commit']])]


def nontrivial(case, obs):
    snaps = obs.get('snaps') or []
    if not snaps:
        return False
    by = {}
    for r in snaps[-1]['vt']:
        by.setdefault((r['tab'], str(r['key'])), []).append(r['tx'])
    return any(len(v) >= 3 for v in by.values()) or B.nontrivial_default(case, obs)


features = B.features_counted
describe = B.describe_short

classify_corr = B.classify_corr
