"""C03 — validity intervals of an entity form one gap-free, open-ended chain."""
import corebase as B
from corebase import run_impl  # noqa: F401

PROP = 'C03'
CHECK_MODS = list(B.CHECK_MODS) + ['Checks.C03chk']
CASE_TYPE = 'C03_case'
CORR, PROPCHK = 'C03c_corr', 'C03c_prop'


def encode(case, obs):
    return '(%s %s)' % ('C03_O' if case.get('obs_only') else 'C03_H', B.encode(case, obs))


def shrink(case):
    out = B.shrink(case)
    for c in out:
        if case.get('obs_only'):
            c['obs_only'] = True
    return out


THEOREMS = ['C03_write_preserves_chain', 'C03_write_frames_others', 'C03_reachable_chain', 'C03_reachable_hierarchy_chain',
            'C03_trace_hypothesis_decidable', 'C03_hierarchy_pass_closes_superseded',
            'C03_hierarchy_pass_frame', 'C03_machine_applies_the_pass', 'C03_hierarchy_hypotheses_decidable',
            'C03_hierarchy_example', 'C03_example']
RULE = ('seeded user programs under strategy=validity (blog shape with relationships, composite/string-key shape with an '
        'aliased column; class-level overrides of the transaction / end-transaction column names; all plugin subsets; autoflush on/off; key pools of 2-3 keys per class so that delete + re-insert in '
        'one and in several transactions, repeated flushes and interleaved entities are frequent) are run on the real code; '
        'after EVERY flush, commit and rollback all version tables are read and the chain predicate (end = least larger '
        'transaction id of the same key, NULL for the newest) is evaluated on them; the model is replayed on the recorded '
        'trace and compared step by step; histories that switch options[\'versioning\'] off around a delete and re-insert the key later are judged on the tables alone (C03_O). Non-trivial: >= 2 commits and (key reuse or NULL set or >= 2 flushes).')
ASSUMPTIONS = B.COMMON_ASSUMPTIONS + [
    'joined-table inheritance (one entity, several version tables) is not in the modelled shapes yet: each table id is '
    'covered by the theorem separately, the correspondence exercises flat classes only']


def budget(tier):
    return 320 if tier == 'quick' else 4000


def gen_cases(rng, n, tier):
    cfgs = [c for c in B.all_cfgs('blog') + B.all_cfgs('comp')[::2] + B.all_cfgs('blog', dict(class_names=True))[::2]
            + B.all_cfgs('comp', dict(class_names=True))[::4] + B.all_cfgs('comp', dict(pkc=True))[::2]
            + [c for c in B.all_cfgs('inh') if not c['null_delete']]
            if c['strategy'] == 'validity']
    cases = B.gen_cases_default(rng, n, tier, cfgs=cfgs)
    inh = [c for c in B.all_cfgs('inh') if not c['null_delete'] and c['strategy'] == 'validity']
    for i in range(max(12, n // 12)):
        cases.append(dict(cfg=inh[i % len(inh)], prog=gen_hop_program(rng)))
    # a row that disappears WITHOUT a DELETE version (versioning switched off for the transaction that deletes it) and
    # whose key is inserted again later: the version left open is closed by the new INSERT (observation-only cases;
    # added after ninth-round seeded change C03_9_insert_closes_delete_only was missed)
    flat = [dict(shape='blog', strategy='validity', twin=False), dict(shape='blog', strategy='validity', twin=False, changes=True)]
    for i in range(max(10, n // 30)):
        cfg = inh[i % len(inh)] if i % 3 == 2 else flat[i % 2]
        c = rng.choice([0, 1]) if cfg.get('shape') == 'inh' else 0
        mk = (lambda: {'a': rng.choice([0, 1, 2]), 'pages': rng.choice([0, 1])}) if c == 1 else (lambda: {'a': rng.choice([0, 1, 2, 3])})
        prog = [['add', c, 1, mk()], ['add', c, 2, mk()], ['commit']]
        for rnd in range(rng.randint(1, 3)):
            k = rng.choice([1, 2])
            if rng.random() < 0.6:
                prog += [['set', c, k, mk()], ['commit']]
            prog += [['vswitch', False], ['del', c, k], ['commit'], ['vswitch', True]]
            if rng.random() < 0.4:
                prog += [['set', c, 3 - k, mk()], ['commit']]
            prog += [['add', c, k, mk()]]
            if rng.random() < 0.4:
                prog += [['flush'], ['set', c, k, mk()]]
            prog += [['commit']]
            if rng.random() < 0.5:
                prog += [['set', c, k, mk()], ['commit']]
        cases.append(dict(cfg=cfg, prog=prog, obs_only=True))
    return cases


def gen_hop_program(rng):
    """joined / single-table hierarchy: keys that come back as another class of the hierarchy in later transactions"""
    vals = {0: lambda: {'a': rng.choice([0, 1, 2])}, 1: lambda: {'a': rng.choice([0, 1]), 'pages': rng.choice([0, 1, 2])},
            2: lambda: {'a': rng.choice([0, 1]), 'tracks': rng.choice([0, 1, 2])}}
    prog, held = [], {}
    for _ in range(rng.randint(5, 12)):
        k = rng.choice([1, 2])
        if k in held:
            c = held[k]
            r = rng.random()
            if r < 0.55:
                prog.append(['del', c, k])
                del held[k]
            else:
                prog.append(['set', c, k, vals[c]()])
                if rng.random() < 0.3:
                    prog.append(['flush'])
                    prog.append(['set', c, k, vals[c]()])
        else:
            c = rng.choice([0, 1, 1, 2])
            prog.append(['add', c, k, vals[c]()])
            held[k] = c
        prog.append(['commit'])
    return prog


def corpus():
    inh = dict(shape='inh', strategy='validity', changes=False, tracker=False, null_delete=False, autoflush=False)
    return [dict(cfg=inh, prog=[['add', 1, 1, {'a': 1, 'pages': 1}], ['commit'], ['del', 1, 1], ['commit'],
                                ['add', 0, 1, {'a': 2}], ['commit'], ['del', 0, 1], ['commit'],
                                ['add', 1, 1, {'a': 3, 'pages': 3}], ['commit']]),
            # a key with history is inserted again, flushed and deleted within ONE transaction (live before, or deleted)
            dict(cfg=dict(shape='blog', strategy='validity'),
                 prog=[['add', 0, 1, {'a': 1}], ['commit'], ['del', 0, 1], ['commit'], ['add', 0, 1, {'a': 2}], ['flush'],
                       ['del', 0, 1], ['commit'], ['add', 0, 2, {'a': 1}], ['commit'], ['add', 0, 1, {'a': 3}], ['commit']]),
            dict(cfg=inh, prog=[['add', 1, 1, {'a': 1, 'pages': 1}], ['commit'], ['del', 1, 1], ['commit'],
                                ['add', 1, 1, {'a': 2, 'pages': 2}], ['flush'], ['del', 1, 1], ['commit'], ['add', 0, 2, {'a': 1}], ['commit']]),
            dict(cfg=dict(shape='blog', strategy='validity'),
                 prog=[['add', 0, 1, {'a': 1}], ['add', 0, 2, {'a': 1}], ['commit'], ['set', 0, 1, {'a': 2}], ['flush'],
                       ['set', 0, 1, {'a': 0}], ['commit'], ['del', 0, 1], ['flush'], ['add', 0, 1, {'a': 5}], ['commit'],
                       ['del', 0, 1], ['commit'], ['add', 0, 1, {'a': 7}], ['commit']])]


def nontrivial(case, obs):
    snaps = obs.get('snaps') or []
    if not snaps:
        return False
    by = {}
    for r in snaps[-1]['vt']:
        by.setdefault((r['tab'], str(r['key'])), []).append(r['tx'])
    return any(len(v) >= 3 for v in by.values()) or B.nontrivial_default(case, obs)


features = B.features_counted
describe = B.describe_short

classify_corr = B.classify_corr
