"""Fail-closed parser: text of CreateTriggerFunctionSQL  ->  trigger AST (Model/Trigger.v).
Anything not recognised exactly raises ParseError (= broken correspondence, never a guess)."""
import re


class ParseError(Exception):
    pass


PRE = re.compile(
    r"\s*CREATE OR REPLACE FUNCTION (?P<proc>\S+)\(\) RETURNS TRIGGER AS \$\$\s*"
    r"DECLARE transaction_id_value INT;\s*BEGIN\s*BEGIN\s*"
    r"transaction_id_value = \(SELECT id FROM temporary_transaction\);\s*"
    r"EXCEPTION WHEN others THEN\s*RETURN NEW;\s*END;\s*"
    r"IF transaction_id_value IS NULL THEN\s*RETURN NEW;\s*END IF;\s*"
    r"IF \(TG_OP = 'INSERT'\) THEN(?P<ins>.*?)"
    r"ELSIF \(TG_OP = 'UPDATE'\) THEN\s*"
    r"IF \(hstore\(NEW\.\*\) - hstore\(OLD\.\*\) - ARRAY\[(?P<excl>[^\]]*)\]::text\[\]\)\s*= hstore\(''\)\s*"
    r"THEN\s*RETURN NULL;\s*END IF;(?P<upd>.*?)"
    r"ELSIF \(TG_OP = 'DELETE'\) THEN(?P<del>.*?)"
    r"END IF;\s*RETURN NEW;\s*END;\s*\$\$\s*LANGUAGE plpgsql\s*$", re.S)

VALID = re.compile(
    r"\s*UPDATE (?P<vt>\S+)\s+SET (?P<endc>\S+) = transaction_id_value\s+WHERE\s+(?P<txc>\S+) = \(\s*"
    r"SELECT MIN\((?P<txc2>\S+)\) FROM (?P<vt2>\S+)\s+WHERE (?P<endc2>\S+) IS NULL AND\s+"
    r"(?P<txc3>\S+) <> transaction_id_value AND\s+(?P<crit1>.*?)\s*\) AND\s+"
    r"(?P<crit2>.*?);", re.S)

UPSERT = re.compile(
    r"\s*WITH upsert as\s*\(\s*UPDATE (?P<vt>\S+)\s+SET (?P<set>.*?)\s+WHERE\s+(?P<txc>\S+) = transaction_id_value\s+AND\s+"
    r"(?P<crit>.*?)\s+RETURNING \*\s*\)\s*INSERT INTO (?P<vt2>\S+)\s*\((?P<txc2>[^,\s]+), (?P<opc>[^,\s]+), (?P<cols>.*?)\)\s*"
    r"SELECT\s+transaction_id_value,\s+(?P<optype>\d+),\s+(?P<vals>.*?)\s+WHERE NOT EXISTS \(SELECT 1 FROM upsert\);\s*$", re.S)

CRIT = re.compile(r'^"?(\w+)"? = (NEW|OLD)\."(\w+)"$')
SET_COL = re.compile(r'^"(\w+)" = (NEW|OLD)\."(\w+)"$')
SET_MOD = re.compile(r'^(\w+)_mod = (\w+)_mod OR OLD\."(\w+)" IS DISTINCT FROM NEW\."(\w+)"$')
VAL_ROW = re.compile(r'^(NEW|OLD)\."(\w+)"$')
VAL_DIST = re.compile(r'^OLD\."(\w+)" IS DISTINCT FROM NEW\."(\w+)"$')
COL_Q = re.compile(r'^"(\w+)"$')
COL_MOD = re.compile(r'^(\w+)_mod$')


def split(s, sep):
    s = s.strip()
    return [x.strip() for x in s.split(sep)] if s else []


def parse_crit(s):
    out = []
    for item in split(s, ' AND '):
        m = CRIT.match(item)
        if not m or m.group(1) != m.group(3):
            raise ParseError('criterion %r' % item)
        out.append((m.group(1), m.group(2)))
    return out


def parse_block(text, expect):
    """zero or more validity statements followed by exactly one upsert"""
    vals = []
    pos = 0
    while True:
        m = VALID.match(text, pos)
        if not m:
            break
        if m.group('vt') != expect['vt'] or m.group('vt2') != expect['vt'] or \
                m.group('txc') != expect['txc'] or m.group('txc2') != expect['txc'] or m.group('txc3') != expect['txc'] or \
                m.group('endc') != expect['endc'] or m.group('endc2') != expect['endc']:
            raise ParseError('validity statement names %r' % m.groupdict())
        c1, c2 = parse_crit(m.group('crit1')), parse_crit(m.group('crit2'))
        if c1 != c2:
            raise ParseError('validity criteria differ')
        vals.append(c1)
        pos = m.end()
    m = UPSERT.match(text, pos)
    if not m:
        raise ParseError('upsert statement not recognised: %r' % text[pos:pos + 200])
    if m.group('vt') != expect['vt'] or m.group('vt2') != expect['vt'] or m.group('txc') != expect['txc'] or \
            m.group('txc2') != expect['txc'] or m.group('opc') != expect['opc']:
        raise ParseError('upsert names %r' % {k: m.group(k) for k in ('vt', 'vt2', 'txc', 'txc2', 'opc')})
    upd = []
    for item in split(m.group('set'), ', '):
        if item == '%s = 1' % expect['opc']:
            upd.append(('op1',))
            continue
        if item == '%s = 2' % expect['opc']:
            upd.append(('op2',))
            continue
        mm = re.match(r'^(\w+)_mod = True$', item)
        if mm:
            upd.append(('modtrue', mm.group(1)))
            continue
        mm = SET_COL.match(item)
        if mm and mm.group(1) == mm.group(3):
            upd.append(('set', mm.group(1), mm.group(2)))
            continue
        mm = SET_MOD.match(item)
        if mm and len(set(mm.groups())) == 1:
            upd.append(('modor', mm.group(1)))
            continue
        raise ParseError('SET item %r' % item)
    cols = []
    for item in split(m.group('cols'), ', '):
        mm = COL_Q.match(item)
        if mm:
            cols.append(('col', mm.group(1)))
            continue
        mm = COL_MOD.match(item)
        if mm:
            cols.append(('mod', mm.group(1)))
            continue
        raise ParseError('column %r' % item)
    vals_ = []
    for item in split(m.group('vals'), ', '):
        if item == 'True':
            vals_.append(('true',))
            continue
        mm = VAL_ROW.match(item)
        if mm:
            vals_.append(('row', mm.group(1), mm.group(2)))
            continue
        mm = VAL_DIST.match(item)
        if mm and mm.group(1) == mm.group(2):
            vals_.append(('distinct', mm.group(1)))
            continue
        raise ParseError('value %r' % item)
    return dict(validity=vals, update=upd, crit=parse_crit(m.group('crit')), cols=cols,
                optype=int(m.group('optype')), vals=vals_)


def parse_function(text, expect):
    m = PRE.match(text)
    if not m:
        raise ParseError('function skeleton not recognised')
    if m.group('proc') != expect['proc']:
        raise ParseError('procedure name %r' % m.group('proc'))
    excl = []
    for item in split(m.group('excl'), ', '):
        mm = re.match(r"^'(\w+)'$", item)
        if not mm:
            raise ParseError('excluded item %r' % item)
        excl.append(mm.group(1))
    return dict(excluded=excl, ins=parse_block(m.group('ins'), expect), upd=parse_block(m.group('upd'), expect),
                delete=parse_block(m.group('del'), expect))


# ---------------------------------------------------------------------------------------------------
# raw statements of the three arms, for execution on an SQL engine (harness/pC14.py runs them on SQLite)
def raw_block(text):
    vals, pos = [], 0
    while True:
        m = VALID.match(text, pos)
        if not m:
            break
        vals.append(m.group(0).strip().rstrip(';'))
        pos = m.end()
    m = UPSERT.match(text, pos)
    if not m:
        raise ParseError('upsert statement not recognised')
    update = 'UPDATE %s SET %s WHERE %s = transaction_id_value AND %s' % (
        m.group('vt'), m.group('set'), m.group('txc'), m.group('crit'))
    insert = 'INSERT INTO %s (%s, %s, %s) SELECT transaction_id_value, %s, %s' % (
        m.group('vt2'), m.group('txc2'), m.group('opc'), m.group('cols'), m.group('optype'), m.group('vals'))
    return dict(validity=vals, update=update, insert=insert)


def raw_arms(text):
    m = PRE.match(text)
    if not m:
        raise ParseError('function skeleton not recognised')
    return dict(ins=raw_block(m.group('ins')), upd=raw_block(m.group('upd')), delete=raw_block(m.group('del')))
