"""C05 — reverting to a version restores exactly the state that version recorded."""
import json
import random

import corebase as B
import env as E
import hist
from framework import gZ, gnat, gbool, gopt, glist, gpair

PROP = 'C05'
CHECK_MODS = ['Model.Core', 'Model.Rel', 'Model.Revert', 'Checks.Corechk', 'Checks.CoreProps', 'Checks.C04chk', 'Checks.C05chk']
CASE_TYPE = 'C05_case'
CORR, PROPCHK = 'C05_corr', 'C05_prop'
THEOREMS = ['C05_columns_restored', 'C05_delete_version_leaves_entity_absent', 'C05_unnamed_relationships_untouched',
            'C05_links_reset', 'C05_children_added_since_go_away', 'C05_first_level_spec', 'C05_subpaths_spec',
            'C05_reach_example', 'C05_example']
RULE = ('histories over the blog shape (articles with tags and labels created, re-pointed, unlinked, deleted and re-created) are '
        'run; then a version of an Article or Tag is chosen (first / middle / last / delete versions; entity currently live or '
        'deleted) together with a subset of its relationships (tags, labels / article) and dotted paths of two and three segments '
        '(tags.article, labels.articles, labels.articles.tags, labels.articles.labels, tags.article.labels, article.tags, '
        'article.labels.articles, ... with or without their prefixes), version.revert(relations) is called and '
        'committed. Compared: live tables after the commit with the model and with the property clauses (columns restored, '
        'excluded column untouched, children / links reset to what the version shows, unnamed relationships untouched, delete '
        'version leaves the entity absent); the revert transaction itself is replayed in the Layer-B model (C01). Non-trivial: '
        'the target is not the newest version of its entity, or a relationship is named.')
ASSUMPTIONS = B.COMMON_ASSUMPTIONS + ['functional model for one level of relationships; below it the versions reached (Model/Revert.v reach) '
                                      'are judged entity by entity when no entity is reached twice']


def budget(tier):
    return 160 if tier == 'quick' else 2000


def gen_history(rng):
    prog = []
    arts, tags, labs = set(), set(), set()
    links = set()
    for _ in range(rng.randint(6, 16)):
        r = rng.random()
        if r < 0.2:
            k = rng.choice([1, 2])
            if k not in arts:
                prog.append(['add', 0, k, {'a': rng.choice([0, 1, 2, None]), 'b': rng.choice([0, 1, None]), 'x': rng.choice([0, 1])}])
                arts.add(k)
            else:
                prog.append(['set', 0, k, {rng.choice(['a', 'b', 'x']): rng.choice([0, 1, 2, None])}])
        elif r < 0.35:
            k = rng.choice([1, 2, 3])
            if k not in tags:
                prog.append(['add', 1, k, {'a': rng.choice([0, 1, None])}])
                tags.add(k)
            else:
                prog.append(['set', 1, k, {'a': rng.choice([0, 1, 2, None])}])
        elif r < 0.5 and tags and arts:
            prog.append(['tagto', rng.choice(sorted(tags)), rng.choice(sorted(arts) + [None])])
        elif r < 0.6:
            k = rng.choice([1, 2])
            if k not in labs:
                prog.append(['add', 2, k, {'a': rng.choice([0, 1])}])
                labs.add(k)
        elif r < 0.74 and arts and labs:
            a, l = rng.choice(sorted(arts)), rng.choice(sorted(labs))
            if (a, l) in links:
                prog.append(['unlink', a, l])
                links.discard((a, l))
            else:
                prog.append(['link', a, l])
                links.add((a, l))
        elif r < 0.78 and arts:
            k = rng.choice(sorted(arts))
            prog.append(['del', 0, k])
            arts.discard(k)
            links = {p for p in links if p[0] != k}
        elif r < 0.82 and tags:
            k = rng.choice(sorted(tags))
            prog.append(['del', 1, k])
            tags.discard(k)
        else:
            prog.append(['commit'])
    prog.append(['commit'])
    return prog


def gen_deep(rng):
    """A history made for dotted paths of three segments: two articles sharing ONE label (so that the other article is
    reached once), tags below them; then everything changes (values, a tag added, a tag removed or moved, optionally a
    link removed); the target is an early version of article `root` or of a tag."""
    root = rng.choice([1, 2])
    other = 3 - root
    prog = [['add', 0, 1, {'a': 1, 'b': rng.choice([0, 1])}], ['add', 0, 2, {'a': 1}], ['add', 2, 1, {'a': 1}]]
    prog += [['link', 1, 1], ['link', 2, 1]]
    if rng.random() < 0.4:
        prog += [['add', 2, 2, {'a': 0}], ['link', root, 2]]          # a second label on the root only
    ntags = rng.choice([1, 2])
    for t in range(1, ntags + 1):
        prog += [['add', 1, t, {'a': t}], ['tagto', t, other if rng.random() < 0.8 else root]]
    prog.append(['commit'])
    for _ in range(rng.randint(1, 2)):
        prog += [['set', 0, other, {'a': rng.choice([2, 3])}], ['set', 2, 1, {'a': rng.choice([2, 3])}]]
        if rng.random() < 0.7:
            prog.append(['set', 1, 1, {'a': rng.choice([5, 6])}])
        if rng.random() < 0.5:
            prog += [['add', 1, 3, {'a': 0}], ['tagto', 3, other]]
        if rng.random() < 0.4:
            prog.append(rng.choice([['del', 1, ntags], ['tagto', ntags, None], ['tagto', ntags, root]]))
        if rng.random() < 0.3:
            prog.append(['unlink', other, 1])
        if rng.random() < 0.5:
            prog.append(['set', 0, root, {'a': 9}])
        prog.append(['commit'])
    if rng.random() < 0.7:
        rels = [rng.choice(['labels.articles.tags', 'labels.articles.tags', 'labels.articles.labels', 'labels.articles'])]
        if rng.random() < 0.5:
            rels = ['labels', 'labels.articles'] + rels
        return prog, [0, root, 'first', rels]
    rels = [rng.choice(['article.labels.articles', 'article.labels', 'article.tags'])]
    if rng.random() < 0.5:
        rels = ['article'] + rels
    return prog, [1, 1, 'first', rels]


def gen_cases(rng, n, tier):
    cfgs = [dict(shape='blog', strategy=s, twin=False, tracker=t) for s in ('validity', 'subquery') for t in (False, True)]
    out = []
    for i in range(n):
        if i % 5 == 4:
            prog, tgt = gen_deep(rng)
            out.append(dict(cfg=cfgs[(i // 5) % len(cfgs)], prog=prog, fixed_target=tgt, pick=rng.random(), pick2=rng.random(),
                            again=False))
        else:
            out.append(dict(cfg=cfgs[i % len(cfgs)], prog=gen_history(rng), pick=rng.random(), pick2=rng.random(),
                            again=(i % 4 == 3), pending_delete=(i % 7 == 2), pending_x=(i % 6 == 1)))
    return out


def corpus():
    cfg = dict(shape='blog', strategy='validity', twin=False)
    base = [['add', 0, 1, {'a': 1, 'x': 9}], ['add', 1, 1, {'a': 0}], ['commit']]
    return [dict(cfg=cfg, prog=[['add', 0, 1, {'a': 1}], ['add', 1, 1, {'a': 1}], ['tagto', 1, 1], ['commit'],
                                ['set', 0, 1, {'a': 2}], ['commit'], ['set', 1, 1, {'a': 0}], ['commit'],
                                ['set', 0, 1, {'a': 0}], ['commit']],
                 fixed_target=[0, 1, 'second', ['tags', 'tags.article']]),
            dict(cfg=cfg, prog=[['add', 0, 1, {'a': 1}], ['add', 2, 1, {'a': 1}], ['link', 1, 1], ['commit'],
                                ['set', 0, 1, {'a': 2}], ['commit']],
                 fixed_target=[0, 1, 'first', ['labels', 'labels.articles']]),
            # three segments: article 2 is reached through the shared label, its tags below it; everything changed since
            dict(cfg=cfg, prog=[['add', 0, 1, {'a': 1}], ['add', 0, 2, {'a': 1}], ['add', 2, 1, {'a': 1}], ['add', 1, 1, {'a': 1}],
                                ['link', 1, 1], ['link', 2, 1], ['tagto', 1, 2], ['commit'],
                                ['set', 1, 1, {'a': 2}], ['set', 0, 2, {'a': 2}], ['set', 2, 1, {'a': 2}], ['set', 0, 1, {'a': 2}],
                                ['add', 1, 2, {'a': 0}], ['tagto', 2, 2], ['commit']],
                 fixed_target=[0, 1, 'first', ['labels.articles.tags']]),
            dict(cfg=cfg, prog=[['add', 0, 1, {'a': 1}], ['add', 0, 2, {'a': 1}], ['add', 2, 1, {'a': 1}], ['add', 1, 1, {'a': 1}],
                                ['link', 1, 1], ['link', 2, 1], ['tagto', 1, 2], ['commit'],
                                ['set', 1, 1, {'a': 2}], ['set', 0, 2, {'a': 2}], ['set', 2, 1, {'a': 2}], ['commit'],
                                ['del', 1, 1], ['commit']],
                 fixed_target=[1, 1, 'first', ['article', 'article.labels', 'article.labels.articles']]),
            # a tag that moved from article 1 to article 2; both articles are reverted by one call (article 1 directly,
            # article 2 through the shared label), the old owner first: the tag must come back to article 1
            dict(cfg=cfg, prog=[['add', 0, 1, {'a': 1}], ['add', 0, 2, {'a': 1}], ['add', 2, 1, {'a': 1}], ['add', 1, 1, {'a': 1}],
                                ['link', 1, 1], ['link', 2, 1], ['tagto', 1, 1], ['commit'],
                                ['tagto', 1, 2], ['commit']],
                 fixed_target=[0, 1, 'first', ['tags', 'labels.articles.tags']]),
            dict(cfg=cfg, prog=[['add', 0, 1, {'a': 1}], ['add', 0, 2, {'a': 1}], ['add', 2, 1, {'a': 1}], ['add', 1, 1, {'a': 1}],
                                ['link', 1, 1], ['link', 2, 1], ['tagto', 1, 1], ['commit'],
                                ['tagto', 1, 2], ['commit']],
                 fixed_target=[2, 1, 'first', ['articles', 'articles.tags']]),
            dict(cfg=dict(cfg, autoflush=True),
                 prog=[['add', 0, 1, {'a': 1}], ['add', 0, 2, {'a': 1}], ['add', 2, 1, {'a': 1}], ['add', 1, 1, {'a': 1}],
                       ['link', 1, 1], ['link', 2, 1], ['tagto', 1, 1], ['commit'],
                       ['tagto', 1, 2], ['commit']],
                 fixed_target=[0, 1, 'first', ['tags', 'labels.articles.tags']]),
            # links ADDED since the version (two and three of them, next to each other in the collection) go away
            dict(cfg=cfg, prog=[['add', 0, 1, {'a': 1}], ['add', 2, 1, {'a': 1}], ['add', 2, 2, {'a': 1}], ['add', 2, 3, {'a': 1}],
                                ['link', 1, 1], ['commit'], ['link', 1, 2], ['link', 1, 3], ['commit']],
                 fixed_target=[0, 1, 'first', ['labels']]),
            dict(cfg=dict(cfg, strategy='subquery'),
                 prog=[['add', 0, 1, {'a': 1}], ['add', 2, 1, {'a': 1}], ['add', 2, 2, {'a': 1}], ['add', 2, 3, {'a': 1}],
                       ['add', 2, 4, {'a': 1}], ['commit'], ['link', 1, 1], ['link', 1, 2], ['link', 1, 3], ['link', 1, 4], ['commit'],
                       ['set', 0, 1, {'a': 2}], ['commit']],
                 fixed_target=[0, 1, 'first', ['labels']]),
            dict(cfg=cfg, prog=base + [['set', 0, 1, {'a': 2}], ['commit']], fixed_target=[0, 1, 'first', []], again=True),
            dict(cfg=cfg, prog=base + [['set', 0, 1, {'a': 2}], ['commit']], fixed_target=[0, 1, 'first', []], pending_delete=True),
            dict(cfg=cfg, prog=base + [['set', 0, 1, {'a': 2}], ['commit']], fixed_target=[0, 1, 'first', []], pending_x=True),
            dict(cfg=dict(cfg, autoflush=True), prog=base + [['set', 0, 1, {'a': 2}], ['commit']], fixed_target=[0, 1, 'first', ['tags']],
                 pending_x=True),
            dict(cfg=cfg, prog=base + [['tagto', 1, 1], ['commit'], ['set', 0, 1, {'a': 2}], ['commit']],
                 fixed_target=[0, 1, 'first', ['tags']], pending_delete=True),
            dict(cfg=cfg, prog=base + [['del', 0, 1], ['commit']], fixed_target=[0, 1, 'del', []]),
            dict(cfg=cfg, prog=base, fixed_target=[1, 1, 'first', ['article']]),
            dict(cfg=cfg, prog=base + [['tagto', 1, 1], ['commit'], ['add', 1, 2, {'a': 1}], ['tagto', 2, 1], ['commit']],
                 fixed_target=[0, 1, 'first', ['tags']])]


def _reset(env):
    conn = env.connection
    env.Base.metadata.drop_all(conn)
    env.Base.metadata.create_all(conn)
    conn.commit()


def choose_target(case, snap):
    rows = [r for r in snap['vt'] if r['tab'] in (0, 1)]
    if not rows:
        return None
    if case.get('fixed_target'):
        tab, key, which, rels = case['fixed_target']
        cand = sorted([r for r in snap['vt'] if r['tab'] == tab and r['key'] == [key]], key=lambda r: r['tx'])
        if not cand:
            return None
        if which == 'del':
            dels = [x for x in cand if x['op'] == 2]
            if not dels:
                return None
            r = dels[0]
        elif which == 'second':
            if len(cand) < 2:
                return None
            r = cand[1]
        else:
            r = cand[0]
        return [tab, key, r['tx'], rels]
    rng = random.Random(int(case['pick'] * 1e9))
    r = rng.choice(rows)
    if r['tab'] == 0:
        rels = [x for x in ('tags', 'labels') if rng.random() < 0.5]
        # dotted paths below a named relationship; both lead back to the article itself
        if 'tags' in rels and rng.random() < 0.3:
            rels.append('tags.article')
        if 'labels' in rels and rng.random() < 0.3:
            rels.append('labels.articles')
        # three segments: other articles reached through a shared label, and their tags / labels; the prefixes are
        # named too or left implicit (Reverter takes the first segment of every path)
        if rng.random() < 0.3:
            deep = rng.choice(['labels.articles.tags', 'labels.articles.tags', 'labels.articles.labels', 'tags.article.labels'])
            if rng.random() < 0.5:
                parts = deep.split('.')
                for i in (1, 2):
                    pre = '.'.join(parts[:i])
                    if pre not in rels:
                        rels.append(pre)
            rels.append(deep)
    else:
        rels = ['article'] if rng.random() < 0.5 else []
        if rels and rng.random() < 0.3:
            rels.append('article.tags')
        if rng.random() < 0.25:
            deep = rng.choice(['article.labels.articles', 'article.tags', 'article.labels', 'article.tags.article'])
            if rng.random() < 0.5 and 'article' not in rels:
                rels.append('article')
            rels.append(deep)
    return [r['tab'], r['key'][0], r['tx'], rels]


def _worker(chunk):
    cfg, items = chunk
    out = []
    with E.Env(options=hist.options_for(cfg), plugins=hist.plugins_for(cfg), build=hist.SHAPES[cfg['shape']](cfg)) as env:
        for idx, case in items:
            try:
                _reset(env)
                r1 = hist.run_program(env, cfg, case['prog'])
                if r1['exc'] or not r1['snaps']:
                    out.append((idx, dict(skipped=True, exc=r1['exc'])))
                    continue
                tgt = choose_target(case, r1['snaps'][-1])
                if tgt is None:
                    out.append((idx, dict(skipped=True, exc=None)))
                    continue
                rv = [['revert', tgt[0], tgt[1], tgt[2], tgt[3]], ['commit']]
                if case.get('pending_delete'):
                    # the application has marked the entity for deletion (not flushed yet) and then reverts it in the
                    # same transaction: the revert wins, the entity is there afterwards
                    rv = [['del', tgt[0], tgt[1]]] + rv
                px = None
                if case.get('pending_x') and tgt[0] == 0 and not case.get('pending_delete') and any(
                        r['cls'] == 0 and r['vals'][0] == tgt[1] for r in r1['snaps'][-1]['live']):
                    # the application has assigned the EXCLUDED column and not flushed yet when it reverts the entity:
                    # the revert must not touch that column - the assignment is what the commit writes
                    px = 77
                    rv = [['set', 0, tgt[1], {'x': px}]] + rv
                base = case['prog']
                if case.get('again'):
                    # revert, change the entity again, revert to the SAME version a second time (same session):
                    # the second revert is the one that is judged
                    base = case['prog'] + rv + [['set', tgt[0], tgt[1], {'a': 2}], ['commit'],
                                               ['set', tgt[0], tgt[1], {'a': 0}], ['commit']]
                    _reset(env)
                    r1 = hist.run_program(env, cfg, base)
                    if r1['exc'] or not r1['snaps']:
                        out.append((idx, dict(skipped=True, exc=r1['exc'])))
                        continue
                _reset(env)
                prog2 = base + rv
                r2 = hist.run_program(env, cfg, prog2)
                nb = len(r1['snaps'])
                before = r2['snaps'][nb - 1] if len(r2['snaps']) >= nb else None
                if px is not None and before is not None:
                    # "untouched" refers to the state the application had given the column when it called revert
                    before = json.loads(json.dumps(before))
                    for r in before['live']:
                        if r['cls'] == 0 and r['vals'][0] == tgt[1]:
                            r['vals'][3] = px
                out.append((idx, dict(skipped=False, target=tgt, run=r2, before=before, exc=r2['exc'])))
            except Exception as e:
                import traceback
                out.append((idx, dict(skipped=False, exc='%s: %s %s' % (type(e).__name__, e, traceback.format_exc()[-500:]))))
    return out


def run_impl(cases):
    groups = {}
    for i, c in enumerate(cases):
        groups.setdefault(hist.cfg_key(c['cfg']), []).append((i, c))
    chunks = []
    for k, items in groups.items():
        step = max(1, (len(items) + 3) // 4)
        for s in range(0, len(items), step):
            chunks.append((json.loads(k), items[s:s + step]))
    res = [None] * len(cases)
    for part in E.pmap(_worker, chunks):
        for idx, o in part:
            res[idx] = o
    return res


def g_rlive(sn):
    def tab(c):
        rows = [r for r in sn['live'] if r['cls'] == c]
        return glist(rows, lambda r: gpair(gZ(r['vals'][0]), glist([hist.coerce_val(v) for v in r['vals'][1:]], gopt)))
    lnk = glist(sn['alive'], lambda r: gpair(gZ(r['key'][0]), gZ(r['key'][1])))
    return '(mkrl %s %s %s %s)' % (tab(0), tab(1), tab(2), lnk)


def g_vt(sn, tab):
    rows = [r for r in sn['vt'] if r['tab'] == tab]
    return glist(rows, lambda r: '(mkv [%s] %s None %s %s [])' % (gZ(r['key'][0]), gZ(r['tx']), gZ(r['op']),
                                                                  glist([hist.coerce_val(v) for v in r['dat']], gopt)))


RELCODE = {'tags': 0, 'labels': 1, 'article': 2, 'articles': 3}
EMPTY_MAIN = '(mkcase (mkcfg true false false false false []) [] [] true 0 false None)'
EMPTY_RL = '(mkrl [] [] [] [])'


def encode(case, obs):
    if obs.get('skipped'):
        # nothing to revert: a vacuous but well-formed case (target missing => corr/prop false is avoided by PRE)
        return ('{| c5_main := %s; c5_art := []; c5_tag := []; c5_lab := []; c5_av := []; c5_before := %s; c5_tab := 9%%nat; '
                'c5_key := 0; c5_tx := 0; c5_tags := false; c5_labels := false; c5_article := false; c5_paths := []; c5_deep := false; c5_after := %s; '
                'c5_exc := false |}') % (EMPTY_MAIN, EMPTY_RL, EMPTY_RL)
    if obs.get('exc') or obs.get('before') is None:
        return ('{| c5_main := %s; c5_art := []; c5_tag := []; c5_lab := []; c5_av := []; c5_before := %s; c5_tab := 0%%nat; '
                'c5_key := 0; c5_tx := 0; c5_tags := false; c5_labels := false; c5_article := false; c5_paths := []; c5_deep := false; c5_after := %s; '
                'c5_exc := true |}') % (EMPTY_MAIN, EMPTY_RL, EMPTY_RL)
    r = obs['run']
    tgt = obs['target']
    before, after = obs['before'], r['snaps'][-1]
    failed = any(o.startswith('error') for o in r['outcomes'][len(case['prog']):])
    firsts = [x.split('.')[0] for x in tgt[3]]      # Reverter restores the first segment of every named path
    av = glist(before['av'], lambda a: '(mklnk %s %s %s %s)' % (gZ(a['key'][0]), gZ(a['key'][1]), gZ(a['tx']), gZ(a['op'])))
    return ('{| c5_main := %s; c5_art := %s; c5_tag := %s; c5_lab := %s; c5_av := %s; c5_before := %s; c5_tab := %s; '
            'c5_key := %s; c5_tx := %s; c5_tags := %s; c5_labels := %s; c5_article := %s; c5_paths := %s; c5_deep := %s; c5_after := %s; '
            'c5_exc := %s |}') % (
        hist.encode_case(case, r), g_vt(before, 0), g_vt(before, 1), g_vt(before, 2), av, g_rlive(before),
        gnat(tgt[0]), gZ(tgt[1]), gZ(tgt[2]), gbool('tags' in firsts), gbool('labels' in firsts), gbool('article' in firsts),
        glist(tgt[3], lambda p: glist([RELCODE[x] for x in p.split('.')])),
        gbool(any('.' in x for x in tgt[3])), g_rlive(after), gbool(failed))


PRE = 'C05_pre'


def nontrivial(case, obs):
    if obs.get('skipped') or obs.get('exc') or not obs.get('target'):
        return False
    tgt = obs['target']
    newest = max([r['tx'] for r in obs['before']['vt'] if r['tab'] == tgt[0] and r['key'] == [tgt[1]]] or [0])
    return tgt[2] != newest or bool(tgt[3])


def features(case, obs):
    if obs.get('skipped'):
        return ['skipped']
    if obs.get('exc'):
        return ['harness_exception']
    tgt = obs['target']
    f = ['target_class=%d' % tgt[0], 'rels=' + ','.join(tgt[3]), 'second_revert_to_same_version=%s' % bool(case.get('again')),
         'delete_pending=%s' % bool(case.get('pending_delete'))]
    row = [r for r in obs['before']['vt'] if r['tab'] == tgt[0] and r['key'] == [tgt[1]] and r['tx'] == tgt[2]]
    if row:
        f.append('target_op=%d' % row[0]['op'])
    live = any(l['cls'] == tgt[0] and l['vals'][0] == tgt[1] for l in obs['before']['live'])
    f.append('entity_live=%s' % live)
    if any(o.startswith('error') for o in obs['run']['outcomes'][len(case['prog']):]):
        f.append('revert_raised')
    return f


def shrink(case):
    out = []
    for c in B.shrink(dict(cfg=case['cfg'], prog=case['prog'])):
        d = dict(case)
        d['prog'] = c['prog']
        d['cfg'] = c['cfg']
        out.append(d)
    return out


def describe(case, obs):
    d = dict(cfg=case['cfg'], history=case['prog'], target=obs.get('target'), harness_exception=obs.get('exc'))
    if obs.get('run'):
        d['outcomes'] = obs['run']['outcomes']
        d['live_before'] = obs['before']['live'] if obs.get('before') else None
        d['live_after'] = obs['run']['snaps'][-1]['live'] if obs['run']['snaps'] else None
    return d


classify_corr = B.classify_corr
