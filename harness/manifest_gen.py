"""Regenerates MANIFEST.json from the table below (run by hand after adding a property)."""
import json
import os

VERIF = os.path.dirname(os.path.dirname(os.path.abspath(__file__)))

CHECKS = {}   # filled by register()
NA = {}


def register(pid, text, note, technique, design_ref):
    CHECKS[pid] = dict(
        property_id=pid,
        quick_cmd='./check %s --tier quick' % pid,
        thorough_cmd='./check %s --tier thorough' % pid,
        evidence_file='/verif/evidence/%s.json' % pid,
        replay_cmd_template='./check %s --replay {path}' % pid,
        engine='coq-model+correspondence',
        level_claimed=dict(category='proof', text=text, design_ref=design_ref),
        level_note=note,
        technique=technique)


COMMON_NOTE = ('Trusted: Coq 8.16.1 kernel + vm_compute; no axioms (Print Assumptions output recorded in the evidence); '
               'the hand-written Gallina model is tied to /repo by a correspondence check that runs the real code on SQLite '
               'and evaluates model-vs-code equality and the property predicate inside coqc on every run (sampling); '
               'SQLAlchemy / SQLite semantics are environment. ')

register('C08',
         'Coq theorems over every version table satisfying the table primary key: versions = exactly the entity\'s rows, strictly '
         'sorted; for the i-th element index = i, next = (i+1)-th, previous = (i-1)-th, for the subquery fetcher and (under the '
         'validity chain) the validity fetcher; composite keys are lists. The model accessors mirror the emitted SQL and are '
         'compared with the real accessors on random interleaved tables every run.',
         COMMON_NOTE + 'Validity navigation assumes the validity chain (C03).',
         'Coq proof (induction over tables, sorting/permutation lemmas) + vm_compute correspondence against the ORM accessors',
         'DESIGN.md §7 C08')

ALL = ['C%02d' % i for i in range(1, 21)]


def main():
    import importlib.util
    extra = os.path.join(VERIF, 'harness', 'manifest_entries.py')
    if os.path.exists(extra):
        spec = importlib.util.spec_from_file_location('manifest_entries', extra)
        m = importlib.util.module_from_spec(spec)
        m.register = register
        m.COMMON_NOTE = COMMON_NOTE
        m.NA = NA
        spec.loader.exec_module(m)
    man = dict(
        version=1,
        setup_cmd='cd /verif/coq && rm -f Makefile Makefile.conf && coq_makefile -f _CoqProject $(ls Model/*.v Proofs/*.v Checks/*.v Props/*.v Refuted/*.v 2>/dev/null) -o Makefile && timeout 3000 make -j16',
        hooks=dict(guard='SQLALCHEMY_CONTINUUM_VERIF', enable='no hooks are needed: the harness observes through public SQLAlchemy events and the manager\'s public attributes',
                   baseline_off_cmd='cd /repo && /venv/bin/python -m pytest -ra -q -p no:cacheprovider --timeout=900 --continue-on-collection-errors',
                   source_commits=[], add_only=True),
        engines=[dict(name='coq-model+correspondence', path='/verif/check',
                      serves_properties=sorted(CHECKS), kind_free_text='Coq 8.16.1 model and theorems (coq/), correspondence harness running the real code on SQLite (harness/), verdicts evaluated by vm_compute inside coqc')],
        checks=[CHECKS[k] for k in sorted(CHECKS)],
        notes='See DESIGN.md. known_findings.json lists fixed and open findings.',
        not_applicable=[dict(property_id=p, reason=NA.get(p, 'not yet claimed: the check for this property is still being built (see DESIGN.md §11 order of work)'))
                        for p in ALL if p not in CHECKS],
    )
    with open(os.path.join(VERIF, 'MANIFEST.json'), 'w') as f:
        json.dump(man, f, indent=1)
    print('wrote MANIFEST.json with', len(CHECKS), 'checks')


if __name__ == '__main__':
    main()
